package main

// C17 — sockets, listeners and streams close at any time without crash or leak.
//
// Everything that can crash runs in child processes of this binary (lib.Main helpers):
//   scenario <name> <out>     one crafted schedule (double close of advertised objects, two
//                             deliverers waiting on a socket that is closed, re-use of a service
//                             name followed by a second Close of the old socket, closing a
//                             listener that has had a connection, failing pings)
//   histories <seed> <tier> <k> <out>   random histories of open/subscribe/deliver/listen/dial/
//                             close/ping/shutdown operations on real two- and three-node meshes
//                             with concurrent senders aimed at the objects being closed
// The parent merges their results.  Observations: the listener registry of every node under
// GetListenerLock() and the goroutine profile bucketed by creation site, after settling; both go
// (a) to Model/Life.v as Coq cases and (b) to oracles from the property text: nothing crashes or
// hangs; an open socket stays registered; what both ends are done with holds no service name
// and no goroutine; after everything is closed the registry is empty and the goroutine profile
// is back at its baseline (quic-go's goroutines included); after Shutdown no goroutine of the
// node is left.

import (
	"encoding/json"
	"fmt"
	"os"
	"os/exec"
	"path/filepath"
	"strings"
	"sync"
	"time"

	. "verifharness/lib"
)

func main() {
	Main("C17", run, map[string]func([]string){"scenario": scenarioMain, "histories": historiesMain})
}

// childResult is what a child process leaves behind for the parent.
type childResult struct {
	Cases      []caseRec              `json:"cases"`
	Counts     []countRec             `json:"counts"`
	Hist       map[string]int         `json:"hist"`
	Samples    []string               `json:"samples"`
	Violations []OracleViolation      `json:"violations"`
	Extra      map[string]interface{} `json:"extra"`
	Done       bool                   `json:"done"`
	path       string                 // where to persist (a later crash must not lose what was seen)
}
type caseRec struct{ Term, Label string }
type countRec struct {
	Key        string
	NonTrivial bool
}

func (r *childResult) violate(what, sig string, replay interface{}) {
	r.Violations = append(r.Violations, OracleViolation{What: what, Sig: sig, Replay: replay})
	if r.path != "" {
		r.write(r.path)
	}
}
func (r *childResult) hist(k string) {
	if r.Hist == nil {
		r.Hist = map[string]int{}
	}
	r.Hist[k]++
}
func (r *childResult) write(path string) {
	j, _ := json.Marshal(r)
	_ = os.WriteFile(path+".tmp", j, 0o644)
	_ = os.Rename(path+".tmp", path)
}

// runChild runs one child and returns its result; a death of the child is itself a result.
func runChild(im *Impl, name string, limit time.Duration, out string, args ...string) *childResult {
	resPath := filepath.Join(out, name+".json")
	logPath := filepath.Join(out, name+".log")
	_ = os.Remove(resPath)
	_ = os.Remove(logPath)
	cmd := exec.Command(os.Args[0], append(args, resPath, logPath)...)
	var stderr strings.Builder
	cmd.Stderr = &stderr
	cmd.Stdout = &stderr
	t0 := time.Now()
	if err := cmd.Start(); err != nil {
		Must(err)
	}
	done := make(chan error, 1)
	go func() { done <- cmd.Wait() }()
	var werr error
	timedOut := false
	select {
	case werr = <-done:
	case <-time.After(limit):
		timedOut = true
		_ = cmd.Process.Kill()
		werr = <-done
	}
	res := &childResult{}
	if b, err := os.ReadFile(resPath); err == nil {
		_ = json.Unmarshal(b, res)
	}
	progress := tailLines(logPath, 60)
	switch {
	case timedOut:
		im.Violate(fmt.Sprintf("%s: child process still running after %s (last steps: %s)", name, limit, lastOf(progress, 3)), "hang:"+classOf(name), progress)
	case werr != nil && !res.Done:
		line := firstPanicLine(stderr.String())
		im.Violate(fmt.Sprintf("%s: process died: %s (last steps: %s)", name, line, lastOf(progress, 3)), "crash:"+panicClass(stderr.String()), map[string]interface{}{"steps": progress, "stderr": headOf(stderr.String(), 40)})
	}
	im.Extra["wall_"+name] = time.Since(t0).Seconds()
	return res
}

func classOf(name string) string {
	if i := strings.Index(name, "-batch"); i >= 0 {
		return name[:i]
	}
	return name
}

func tailLines(path string, n int) []string {
	b, err := os.ReadFile(path)
	if err != nil {
		return nil
	}
	ls := strings.Split(strings.TrimSpace(string(b)), "\n")
	if len(ls) > n {
		ls = ls[len(ls)-n:]
	}
	return ls
}
func lastOf(ls []string, n int) string {
	if len(ls) > n {
		ls = ls[len(ls)-n:]
	}
	return strings.Join(ls, " ; ")
}
func headOf(s string, n int) []string {
	ls := strings.Split(s, "\n")
	if len(ls) > n {
		ls = ls[:n]
	}
	return ls
}
func firstPanicLine(s string) string {
	for _, l := range strings.Split(s, "\n") {
		if strings.HasPrefix(l, "panic:") || strings.HasPrefix(l, "fatal error:") {
			return l
		}
	}
	ls := strings.Split(strings.TrimSpace(s), "\n")
	return ls[len(ls)-1]
}

// panicClass turns the panic text and the receptor frame it came from into a stable signature.
func panicClass(s string) string {
	what := "unknown"
	switch {
	case strings.Contains(s, "close of nil channel"):
		what = "close-of-nil-channel"
	case strings.Contains(s, "close of closed channel"):
		what = "close-of-closed-channel"
	case strings.Contains(s, "send on closed channel"):
		what = "send-on-closed-channel"
	case strings.Contains(s, "nil pointer dereference"):
		what = "nil-dereference"
	case strings.Contains(s, "all goroutines are asleep"):
		what = "deadlock"
	}
	where := ""
	for _, l := range strings.Split(s, "\n") {
		if strings.HasPrefix(l, "github.com/ansible/receptor/pkg/") && !strings.HasPrefix(l, "github.com/ansible/receptor/pkg/logger") {
			f := strings.TrimPrefix(l, "github.com/ansible/receptor/pkg/")
			if i := strings.Index(f, "("); i >= 0 && strings.HasSuffix(f, ")") {
				// strip the argument list
				if j := strings.LastIndex(f, "("); j > 0 {
					f = f[:j]
				}
			}
			where = f
			break
		}
	}
	return what + "@" + where
}

func merge(im *Impl, cf *CaseFile, r *childResult) {
	for _, c := range r.Cases {
		cf.Add(c.Term, c.Label)
	}
	for _, c := range r.Counts {
		im.Count(c.Key, c.NonTrivial)
	}
	for k, v := range r.Hist {
		im.Histogram[k] += v
	}
	for _, s := range r.Samples {
		im.Sample(s)
	}
	im.Violations = append(im.Violations, r.Violations...)
	for k, v := range r.Extra {
		im.Extra[k] = v
	}
}

func run(c *Ctx) {
	im := NewImpl("C17", c.Seed, c.Tier)
	im.Rule = "crafted schedules (double Close of advertised sockets and listeners, two deliverers waiting on a socket that is closed, service name re-used and the old socket closed again, listener with a past connection closed, failing pings) and random histories of 10-200 operations ListenPacket/Close, SubscribeUnreachable/done, deliverer parked on a socket/read, Listen/Close, Dial (accepted, refused, unknown service, cancelled mid-dial), Conn.Close and CloseConnection at either end, Ping (answered, no route, expired), Shutdown, on real meshes of 2-3 nodes, with double closes, closes after Shutdown and a concurrent sender aimed at the sockets and listeners being closed; at checkpoints and after closing everything the registries and the goroutine profile are observed once settled. Non-trivial = a history containing at least one close of an object that is in use (waiting deliverer, live subscription, established connection or concurrent sender); distinct by operation sequence"
	cf := &CaseFile{Dir: c.Out, Prop: "C17", Imports: []string{"Model.Life"}, CaseType: "life_case", CheckFn: "life_check", PerShard: 40}
	t0 := time.Now()
	// every child is a process of its own (own goroutine profile); they run side by side
	var mu sync.Mutex
	var wg sync.WaitGroup
	sem := make(chan struct{}, 7)
	results := map[string]*childResult{}
	var order []string
	spawn := func(name string, limit time.Duration, args ...string) {
		order = append(order, name)
		wg.Add(1)
		go func() {
			defer wg.Done()
			sem <- struct{}{}
			defer func() { <-sem }()
			sub := NewImpl("C17", c.Seed, c.Tier)
			r := runChild(sub, name, limit, c.Out, args...)
			mu.Lock()
			r.Violations = append(r.Violations, sub.Violations...)
			for k, v := range sub.Extra {
				if r.Extra == nil {
					r.Extra = map[string]interface{}{}
				}
				r.Extra[k] = v
			}
			results[name] = r
			mu.Unlock()
		}()
	}
	batches, per := 4, 5
	limit := 150 * time.Second
	if c.Thorough() {
		batches, per, limit = 12, 20, 20*time.Minute
	}
	for _, sc := range scenarioNames[:1] {
		spawn("scenario-"+sc, 110*time.Second, "scenario", sc)
	}
	for k := 0; k < batches; k++ {
		spawn(fmt.Sprintf("histories-batch%d", k), limit, "histories", fmt.Sprint(c.Seed*1000+uint64(k)), c.Tier, fmt.Sprint(per))
	}
	for _, sc := range scenarioNames[1:] {
		spawn("scenario-"+sc, 110*time.Second, "scenario", sc)
	}
	wg.Wait()
	for _, name := range order {
		merge(im, cf, results[name])
	}
	im.Extra["wall_s"] = time.Since(t0).Seconds()
	Must(cf.Write())
	Must(im.Write(c.Out))
	fmt.Printf("C17: %d evaluations, %d violations, %d coq cases, %.1fs\n", im.Evaluations, len(im.Violations), len(cf.Cases), time.Since(t0).Seconds())
}
