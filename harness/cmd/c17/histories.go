package main

import (
	"context"
	"crypto/tls"
	"fmt"
	"os"
	"strconv"
	"strings"
	"sync"
	"sync/atomic"
	"time"

	. "verifharness/lib"

	"github.com/ansible/receptor/pkg/netceptor"
)

type hsock struct {
	id      uint64
	node    int
	name    string
	adv     bool
	pc      netceptor.PacketConner
	closed  bool
	drained bool
	sender  bool
	parked  []chan error
}
type hsub struct {
	id   uint64
	sock *hsock
	done chan struct{}
	fin  bool
}
type hlis struct {
	id     uint64
	node   int
	name   string
	adv    bool
	li     *netceptor.Listener
	closed bool
	tls    bool
	acc    chan *netceptor.Conn
	emu    sync.Mutex
	errs   []string // errors returned by Accept (refused streams), with the time
}
type hconn struct {
	id           uint64
	dnode        int
	lis          *hlis
	d, a         *netceptor.Conn
	ename        string
	dDone, aDone bool
	dCC, aCC     bool
	dCancelled   bool // CancelRead was called on the dialling end
	aCancelled   bool
}

type hrun struct {
	r       *Rng
	res     *childResult
	lg      *plog
	m       *Mesh
	names   []string
	nodes   []*netceptor.Netceptor
	up      []bool
	base    map[string]int
	nextID  uint64
	socks   []*hsock
	subs    []*hsub
	liss    []*hlis
	conns   []*hconn
	items   []string
	labels  []string
	inUse   bool // some close hit an object in use
	connOps bool
	aborted bool
	shut    bool

	fmu     sync.Mutex
	ftarget []string // "node|service" the concurrent sender aims at
	fpause  atomic.Bool
	fstop   chan struct{}
	fwg     sync.WaitGroup
	fsent   atomic.Int64
}

var (
	gNameID = map[string]uint64{"ping": 1, "unreach": 2}
	gNextNm = uint64(9)
)

// nid numbers service names (1 and 2 are the reserved services of Model/Life.v)
func (h *hrun) nid(name string) uint64 {
	if len(name) > 8 {
		return 3 // Model/Life.v TOO_LONG
	}
	if id, ok := gNameID[name]; ok {
		return id
	}
	gNextNm++
	gNameID[name] = gNextNm
	return gNextNm
}

func (h *hrun) do(term string, performed bool, label string) {
	h.items = append(h.items, fmt.Sprintf("Do (%s) %s", term, CoqBool(performed)))
	h.labels = append(h.labels, fmt.Sprintf("%s=%v", label, performed))
	h.lg.step("%s -> %v", label, performed)
}

func (h *hrun) upNodes() []int {
	var out []int
	for i, u := range h.up {
		if u {
			out = append(out, i)
		}
	}
	return out
}

// ---------- concurrent sender ----------

func (h *hrun) setTargets() {
	var ts []string
	for _, s := range h.socks {
		if s.drained && !s.sender {
			ts = append(ts, fmt.Sprintf("%d|%s", s.node, s.name))
		}
	}
	for _, l := range h.liss {
		ts = append(ts, fmt.Sprintf("%d|%s", l.node, l.name))
	}
	h.fmu.Lock()
	h.ftarget = ts
	h.fmu.Unlock()
}

func (h *hrun) startFlood(senders []*hsock) {
	h.fstop = make(chan struct{})
	for _, snd := range senders {
		snd := snd
		h.fwg.Add(1)
		go func() {
			defer h.fwg.Done()
			x := uint64(snd.id*7919 + 13)
			for {
				select {
				case <-h.fstop:
					return
				default:
				}
				if h.fpause.Load() {
					time.Sleep(2 * time.Millisecond)
					continue
				}
				h.fmu.Lock()
				ts := h.ftarget
				h.fmu.Unlock()
				if len(ts) == 0 {
					time.Sleep(2 * time.Millisecond)
					continue
				}
				x = x*6364136223846793005 + 1442695040888963407
				t := ts[int(x>>33)%len(ts)]
				parts := strings.SplitN(t, "|", 2)
				ni, _ := strconv.Atoi(parts[0])
				payload := []byte{byte(x >> 8), byte(x >> 16), 1, 2, 3, 4, 5, 6, 7, 8, 9, 10, 11, 12, 13, 14, 15, 16, 17, 18, 19, 20}
				_, _ = snd.pc.WriteTo(payload, h.nodes[snd.node].NewAddr(h.names[ni], parts[1]))
				h.fsent.Add(1)
				time.Sleep(300 * time.Microsecond)
			}
		}()
	}
}

// ---------- operations ----------

func (h *hrun) opListenPacket(node int, name string, adv, drained, sender bool) *hsock {
	h.nextID++
	id := h.nextID
	var pc netceptor.PacketConner
	var err error
	if adv {
		pc, err = h.nodes[node].ListenPacketAndAdvertise(name, map[string]string{"t": "x"})
	} else {
		pc, err = h.nodes[node].ListenPacket(name)
	}
	asked := name
	if name == "" && err == nil {
		name = pc.LocalService() // an ephemeral name chosen by the node
	}
	h.do(fmt.Sprintf("ListenPacket %d %d %d %s", id, node, h.nid(name), CoqBool(adv)), err == nil,
		fmt.Sprintf("ListenPacket#%d(%s:%q->%q adv=%v drained=%v)", id, h.names[node], asked, name, adv, drained))
	if err != nil {
		return nil
	}
	s := &hsock{id: id, node: node, name: name, adv: adv, pc: pc, drained: drained, sender: sender}
	if drained {
		go func() {
			buf := make([]byte, 2048)
			for {
				if _, _, err := pc.ReadFrom(buf); err != nil {
					return
				}
			}
		}()
	}
	h.socks = append(h.socks, s)
	h.setTargets()
	return s
}

func (h *hrun) opPcClose(s *hsock) {
	if !s.closed && (len(s.parked) > 0 || s.drained || h.hasLiveSub(s)) {
		h.inUse = true
	}
	h.lg.step("PcClose#%d(%s:%q) closed-before=%v waiting-deliverers=%d ...", s.id, h.names[s.node], s.name, s.closed, len(s.parked))
	_ = s.pc.Close()
	h.do(fmt.Sprintf("PcClose %d", s.id), true, fmt.Sprintf("PcClose#%d(closed-before=%v,waiting=%d)", s.id, s.closed, len(s.parked)))
	for _, ch := range s.parked {
		select {
		case e := <-ch:
			if e == nil || e.Error() != netceptor.ProblemServiceUnknown {
				h.res.violate(fmt.Sprintf("a WriteTo that was waiting on socket %q when it was closed returned %v (want %q)", s.name, e, netceptor.ProblemServiceUnknown), "waiting-writer-not-told", h.labels)
			}
		case <-time.After(3 * time.Second):
			h.res.violate(fmt.Sprintf("a WriteTo waiting on socket %q did not return after the socket was closed", s.name), "writer-stuck", h.labels)
		}
	}
	s.parked = nil
	s.closed = true
}

func (h *hrun) hasLiveSub(s *hsock) bool {
	for _, u := range h.subs {
		if u.sock == s && !u.fin {
			return true
		}
	}
	return false
}

func (h *hrun) opSubscribe(s *hsock) {
	h.nextID++
	id := h.nextID
	done := make(chan struct{})
	ch := s.pc.SubscribeUnreachable(done)
	h.do(fmt.Sprintf("Subscribe %d %d", id, s.id), ch != nil, fmt.Sprintf("Subscribe#%d(sock#%d)", id, s.id))
	if ch == nil {
		return
	}
	go func() {
		for range ch {
		}
	}()
	h.subs = append(h.subs, &hsub{id: id, sock: s, done: done})
}

func (h *hrun) opSubDone(u *hsub) {
	close(u.done)
	u.fin = true
	h.do(fmt.Sprintf("SubDone %d", u.id), true, fmt.Sprintf("SubDone#%d", u.id))
}

// nameBusy: the name is registered by an open object other than s on that node
func (h *hrun) nameBusy(node int, name string, except *hsock) bool {
	for _, s := range h.socks {
		if s != except && s.node == node && s.name == name && !s.closed {
			return true
		}
	}
	for _, l := range h.liss {
		if l.node == node && l.name == name && !l.closed {
			return true
		}
	}
	return false
}

func (h *hrun) senderOn(node int) *hsock {
	for _, s := range h.socks {
		if s.sender && s.node == node && !s.closed && !s.drained {
			return s
		}
	}
	return nil
}

func (h *hrun) opPark(s *hsock) {
	snd := h.senderOn(s.node)
	if snd == nil || !h.up[s.node] || s.drained || h.nameBusy(s.node, s.name, s) {
		return
	}
	ch := make(chan error, 1)
	go func() {
		_, e := snd.pc.WriteTo([]byte("waiting"), h.nodes[s.node].NewAddr(h.names[s.node], s.name))
		ch <- e
	}()
	blocked := false
	select {
	case e := <-ch:
		if e == nil {
			h.res.violate(fmt.Sprintf("WriteTo to socket %q (closed=%v, no reader) returned nil at once", s.name, s.closed), "write-vanished", h.labels)
		}
	case <-time.After(25 * time.Millisecond):
		blocked = true
		s.parked = append(s.parked, ch)
	}
	h.do(fmt.Sprintf("Park %d", s.id), blocked, fmt.Sprintf("Park(sock#%d closed=%v)", s.id, s.closed))
}

func (h *hrun) opReadOne(s *hsock) {
	if s.drained {
		return
	}
	if h.r.Bool() {
		_ = s.pc.SetReadDeadline(time.Now().Add(120 * time.Millisecond))
	} else {
		_ = s.pc.SetDeadline(time.Now().Add(120 * time.Millisecond))
		_ = s.pc.SetWriteDeadline(time.Now().Add(120 * time.Millisecond))
	}
	buf := make([]byte, 64)
	_, _, err := s.pc.ReadFrom(buf)
	_ = s.pc.SetDeadline(time.Time{})
	_ = s.pc.GetHopsToLive()
	if err == nil {
		// one of the waiting writers has finished
		found := false
		deadline := time.After(time.Second)
		for !found {
			for i, ch := range s.parked {
				select {
				case <-ch:
					s.parked = append(s.parked[:i], s.parked[i+1:]...)
					found = true
				default:
				}
				if found {
					break
				}
			}
			if found {
				break
			}
			select {
			case <-deadline:
				h.res.violate("a message was read but no waiting writer returned", "writer-stuck", h.labels)
				found = true
			case <-time.After(2 * time.Millisecond):
			}
		}
	}
	h.do(fmt.Sprintf("ReadOne %d", s.id), err == nil, fmt.Sprintf("ReadOne(sock#%d)", s.id))
}

func (h *hrun) opListen(node int, name string, adv bool) {
	h.nextID++
	id := h.nextID
	st, _ := fastTLS()
	var cfg *tls.Config = st
	if h.r.Chance(12) {
		cfg = nil // receptor's own self-signed RSA certificate
	}
	var li *netceptor.Listener
	var err error
	if adv {
		li, err = h.nodes[node].ListenAndAdvertise(name, cfg, map[string]string{"t": "y"})
	} else {
		li, err = h.nodes[node].Listen(name, cfg)
	}
	asked := name
	if name == "" && err == nil {
		name = li.Addr().String()
		name = name[strings.LastIndex(name, ":")+1:]
	}
	h.do(fmt.Sprintf("Listen %d %d %d %s", id, node, h.nid(name), CoqBool(adv)), err == nil, fmt.Sprintf("Listen#%d(%s:%q->%q adv=%v tls=%v)", id, h.names[node], asked, name, adv, cfg != nil))
	if err != nil {
		return
	}
	l := &hlis{id: id, node: node, name: name, adv: adv, li: li, tls: cfg != nil, acc: make(chan *netceptor.Conn, 64)}
	go func() {
		for {
			c, err := li.Accept()
			if err != nil {
				if strings.Contains(err.Error(), "listener closed") || strings.Contains(err.Error(), "server closed") {
					return
				}
				l.emu.Lock()
				l.errs = append(l.errs, fmt.Sprintf("%s %v", time.Now().Format("15:04:05.000"), err))
				l.emu.Unlock()
				select {
				case <-time.After(5 * time.Millisecond):
				}
				if l.closed {
					return
				}
				continue
			}
			l.acc <- c.(*netceptor.Conn)
		}
	}()
	h.liss = append(h.liss, l)
	h.setTargets()
}

func (h *hrun) opLiClose(l *hlis) bool {
	if !l.closed {
		for _, c := range h.conns {
			if c.lis == l && !(c.dDone && c.aDone) {
				h.inUse = true
			}
		}
	}
	h.lg.step("LiClose#%d(%s:%q) closed-before=%v ...", l.id, h.names[l.node], l.name, l.closed)
	done := make(chan struct{})
	go func() { _ = l.li.Close(); close(done) }()
	select {
	case <-done:
	case <-time.After(6 * time.Second):
		h.res.violate(fmt.Sprintf("Listener.Close() of %s:%q did not return within 6s", h.names[l.node], l.name), "hang:listener-close",
			map[string]interface{}{"history": h.labels, "stacks": stacksOf("Listener).Close", "Transport).close", "baseServer).close", "Transport).listen")})
		h.aborted = true
		return false
	}
	l.closed = true
	h.connOps = true
	h.do(fmt.Sprintf("LiClose %d", l.id), true, fmt.Sprintf("LiClose#%d", l.id))
	return true
}

func (h *hrun) opDial(dnode int, kind string, l *hlis, s *hsock) {
	_, ct := fastTLS()
	var tnode int
	var tname string
	timeout := 4 * time.Second
	var cfg *tls.Config = ct
	switch kind {
	case "listener":
		tnode, tname = l.node, l.name
		if !l.tls {
			cfg = nil
		}
		if l.closed {
			timeout = 1500 * time.Millisecond
		}
	case "short-ctx": // the caller's context ends somewhere during the dial
		tnode, tname = l.node, l.name
		if !l.tls {
			cfg = nil
		}
		timeout = time.Duration(h.r.Intn(12000)) * time.Microsecond
	case "tls-mismatch": // receptor's default client configuration against a listener with a foreign certificate
		tnode, tname = l.node, l.name
		cfg = nil
	case "unbound":
		tnode, tname = h.upNodes()[h.r.Intn(len(h.upNodes()))], fmt.Sprintf("nx%d", h.r.Intn(100))
	case "psock":
		tnode, tname = s.node, s.name
		timeout = 200 * time.Millisecond
	}
	if !h.up[tnode] {
		return
	}
	ctx, cancel := context.WithTimeout(context.Background(), timeout)
	t0 := time.Now()
	c, err := h.nodes[dnode].DialContext(ctx, h.names[tnode], tname, cfg)
	cancel()
	h.connOps = true
	if err != nil {
		if kind == "listener" && !l.closed {
			h.res.violate(fmt.Sprintf("dial %s -> %s:%q (open listener) failed after %s: %v", h.names[dnode], h.names[tnode], tname, time.Since(t0).Round(time.Millisecond), err), "dial-failed", h.labels)
		}
		h.do(fmt.Sprintf("DialFail %d", dnode), true, fmt.Sprintf("Dial(%s -> %s:%q %s) failed: %v", h.names[dnode], h.names[tnode], tname, kind, err))
		h.res.hist("dial-fail:" + kind)
		if kind == "short-ctx" {
			// the accepting side may have got as far as handing the stream over: it is the
			// application's to close
			time.Sleep(20 * time.Millisecond)
			for stray := true; stray; {
				select {
				case ac := <-l.acc:
					_ = ac.Close()
					h.res.hist("dial-fail:short-ctx:accepted-anyway")
				default:
					stray = false
				}
			}
		}
		return
	}
	if kind == "tls-mismatch" {
		h.res.violate(fmt.Sprintf("dial %s -> %s:%q with receptor's default client TLS against a listener with a foreign certificate succeeded", h.names[dnode], h.names[tnode], tname), "dial-succeeded-unexpectedly", h.labels)
		_ = c.CloseConnection()
		h.aborted = true
		return
	}
	if kind == "short-ctx" {
		kind = "listener"
		h.res.hist("dial-ok:short-ctx")
	}
	if kind != "listener" || l.closed {
		h.res.violate(fmt.Sprintf("dial %s -> %s:%q (%s, nothing accepts there) succeeded", h.names[dnode], h.names[tnode], tname, kind), "dial-succeeded-unexpectedly", h.labels)
		_ = c.CloseConnection()
		h.aborted = true
		return
	}
	ename := c.LocalAddr().String()
	if i := strings.LastIndex(ename, ":"); i >= 0 {
		ename = ename[i+1:]
	}
	var ac *netceptor.Conn
	// the hand-over is asynchronous (the accepting side still has to take the stream and read the
	// marker) and this process shares the machine with many others: only a hand-over that does
	// not happen at all is judged, the latency is recorded
	tDialled := time.Now()
	deadline := time.After(45 * time.Second)
	for ac == nil {
		select {
		case x := <-l.acc:
			if strings.HasSuffix(x.RemoteAddr().String(), ":"+ename) {
				ac = x
			} else {
				// handed over late for a dial that had given up: the application closes it
				_ = x.Close()
				h.res.hist("accepted-for-a-dial-that-gave-up")
			}
		case <-deadline:
			h.res.violate(fmt.Sprintf("dial %s -> %s:%q succeeded but the connection was not handed to Accept within 45s", h.names[dnode], h.names[tnode], tname), "accept-missing",
				map[string]interface{}{"history": h.labels, "now": time.Now().Format("15:04:05.000"), "dialled": tDialled.Format("15:04:05.000"), "accept_errors_of_this_listener": func() []string { l.emu.Lock(); defer l.emu.Unlock(); return append([]string{}, l.errs...) }(),
					"stacks": stacksOf("acceptLoop", "Listener).Accept", "baseServer).accept", "baseServer).Accept")})
			h.aborted = true
			return
		}
	}
	switch lat := time.Since(tDialled); {
	case lat > 3*time.Second:
		h.res.hist("accept-latency>3s")
	case lat > 500*time.Millisecond:
		h.res.hist("accept-latency<=3s")
	case lat > 50*time.Millisecond:
		h.res.hist("accept-latency<=500ms")
	default:
		h.res.hist("accept-latency<=50ms")
	}
	h.nextID++
	hc := &hconn{id: h.nextID, dnode: dnode, lis: l, d: c, a: ac, ename: ename}
	h.conns = append(h.conns, hc)
	// the stream works
	_, _ = c.Write([]byte("hi"))
	buf := make([]byte, 4)
	_ = ac.SetReadDeadline(time.Now().Add(2 * time.Second))
	if n, err := ac.Read(buf); err != nil || string(buf[:n]) != "hi" {
		h.res.violate(fmt.Sprintf("first bytes on a fresh connection: %q, %v", buf[:n], err), "stream-broken", h.labels)
	}
	_ = ac.SetReadDeadline(time.Time{})
	h.do(fmt.Sprintf("DialOk %d %d %d %d", hc.id, dnode, l.id, h.nid(ename)), true, fmt.Sprintf("Dial#%d(%s -> lis#%d) ok eph=%q", hc.id, h.names[dnode], l.id, ename))
	h.res.hist("dial-ok")
}

func (h *hrun) opConnClose(c *hconn, dialler, cc bool) {
	if !(c.dDone && c.aDone) {
		h.inUse = true
	}
	side := c.a
	if dialler {
		side = c.d
	}
	name := "ConnClose"
	if cc {
		name = "CloseConnection"
		_ = side.CloseConnection()
	} else {
		_ = side.Close()
	}
	if dialler {
		c.dDone = true
		c.dCC = c.dCC || cc
	} else {
		c.aDone = true
		c.aCC = c.aCC || cc
	}
	h.connOps = true
	h.do(fmt.Sprintf("%s %d %s", name, c.id, CoqBool(dialler)), true, fmt.Sprintf("%s(conn#%d dialler=%v)", name, c.id, dialler))
}

// opStreamOp: the other exported methods of Conn; none of them may change what a later Close or
// CloseConnection releases
func (h *hrun) opStreamOp(c *hconn, dialler bool) {
	side := c.a
	if dialler {
		side = c.d
	}
	kind := []string{"CancelRead", "CancelRead", "SetDeadline(past)", "SetReadDeadline(past)", "SetWriteDeadline(past)", "SetDeadline(zero)", "Write", "Read"}[h.r.Intn(8)]
	switch kind {
	case "CancelRead":
		side.CancelRead()
		if dialler {
			c.dCancelled = true
		} else {
			c.aCancelled = true
		}
	case "SetDeadline(past)":
		_ = side.SetDeadline(time.Now().Add(-time.Second))
	case "SetReadDeadline(past)":
		_ = side.SetReadDeadline(time.Now().Add(-time.Second))
	case "SetWriteDeadline(past)":
		_ = side.SetWriteDeadline(time.Now().Add(-time.Second))
	case "SetDeadline(zero)":
		_ = side.SetDeadline(time.Time{})
	case "Write":
		_ = side.SetWriteDeadline(time.Now().Add(200 * time.Millisecond))
		_, _ = side.Write([]byte("more"))
		_ = side.SetWriteDeadline(time.Time{})
	case "Read":
		_ = side.SetReadDeadline(time.Now().Add(20 * time.Millisecond))
		_, _ = side.Read(make([]byte, 16))
		_ = side.SetReadDeadline(time.Time{})
	}
	time.Sleep(5 * time.Millisecond)
	h.res.hist("streamop:" + kind)
	h.do(fmt.Sprintf("StreamOp %d %s", c.id, CoqBool(dialler)), true, fmt.Sprintf("%s(conn#%d dialler=%v)", kind, c.id, dialler))
}

func (h *hrun) opStreamOp2(c *hconn, dialler bool, kind string) {
	side := c.a
	if dialler {
		side = c.d
		c.dCancelled = true
	} else {
		c.aCancelled = true
	}
	side.CancelRead()
	h.res.hist("streamop:" + kind + "-then-peer-close")
	h.do(fmt.Sprintf("StreamOp %d %s", c.id, CoqBool(dialler)), true, fmt.Sprintf("%s(conn#%d dialler=%v)", kind, c.id, dialler))
}

func (h *hrun) opPing(node int) {
	var err error
	kind := h.r.Intn(5)
	others := []int{}
	for _, i := range h.upNodes() {
		if i != node {
			others = append(others, i)
		}
	}
	switch {
	case kind == 0 || len(others) == 0 || h.shut:
		_, _, err = h.nodes[node].Ping(context.Background(), "nowhere", 8)
	case kind == 1:
		_, _, err = h.nodes[node].Ping(context.Background(), h.names[others[0]], 0)
	case kind == 3: // the caller's context is already over
		ctx, cancel := context.WithCancel(context.Background())
		cancel()
		_, _, err = h.nodes[node].Ping(ctx, h.names[others[0]], 8)
	case kind == 4: // Traceroute: one Ping per hop budget until the target answers
		ctx, cancel := context.WithTimeout(context.Background(), 5*time.Second)
		n := 0
		for res := range h.nodes[node].Traceroute(ctx, h.names[others[len(others)-1]]) {
			n++
			err = res.Err
		}
		cancel()
		h.res.hist(fmt.Sprintf("traceroute-hops:%d", n))
	default:
		_, _, err = h.nodes[node].Ping(context.Background(), h.names[others[h.r.Intn(len(others))]], 8)
	}
	h.do(fmt.Sprintf("PingOp %d %s", node, CoqBool(err == nil)), true, fmt.Sprintf("Ping(%s kind=%d): %v", h.names[node], kind, err))
	h.res.hist(fmt.Sprintf("ping:%v", err == nil))
}

func (h *hrun) opShutdown(node int) {
	h.lg.step("Shutdown(%s) ...", h.names[node])
	h.nodes[node].Shutdown()
	h.up[node] = false
	h.shut = true
	h.connOps = true
	h.inUse = true
	h.do(fmt.Sprintf("Shutdown %d", node), true, fmt.Sprintf("Shutdown(%s)", h.names[node]))
}

// ---------- observation ----------

func (h *hrun) checkpoint(final bool) {
	h.fpause.Store(true)
	time.Sleep(5 * time.Millisecond)
	// connections handed to Accept for dials that had already given up are the application's to close
	for _, l := range h.liss {
		for more := true; more; {
			select {
			case x := <-l.acc:
				_ = x.Close()
				h.res.hist("accepted-for-a-dial-that-gave-up")
			default:
				more = false
			}
		}
	}
	quiet := 300 * time.Millisecond
	if h.connOps {
		quiet = connQuiet()
	}
	b, regs, stable := settle(h.nodes, quiet, 12*time.Second)
	if !stable {
		h.res.hist("checkpoint:not-stable")
	}
	h.connOps = false
	upCount := len(h.upNodes())
	var regTerms []string
	for i := range h.nodes {
		var ids []string
		for _, k := range regs[i] {
			if _, ok := gNameID[k]; !ok && h.up[i] {
				h.res.violate(fmt.Sprintf("node %s has a service %q registered that no open object accounts for (left behind by a failed dial or a ping?)", h.names[i], k), "leak:unknown-service", h.labels)
			}
			ids = append(ids, fmt.Sprint(h.nid(k)))
		}
		regTerms = append(regTerms, fmt.Sprintf("(%d, %s)", i, CoqList(ids)))
	}
	var gor []string
	for i, k := range siteKeys {
		v := b[k]
		if i == 1 {
			v -= 2 * upCount
		}
		if v < 0 {
			v = 0
		}
		gor = append(gor, fmt.Sprintf("%d%%nat", v))
	}
	h.items = append(h.items, fmt.Sprintf("Check {| ob_reg := %s; ob_gor := %s |}", CoqList(regTerms), CoqList(gor)))
	h.labels = append(h.labels, fmt.Sprintf("checkpoint(regs=%v)", regs))
	h.lg.step("checkpoint regs=%v", regs)
	// ----- oracles from the property text
	inReg := func(node int, name string) bool {
		for _, k := range regs[node] {
			if k == name {
				return true
			}
		}
		return false
	}
	for _, s := range h.socks {
		if !s.closed && h.up[s.node] && !inReg(s.node, s.name) {
			h.res.violate(fmt.Sprintf("socket #%d %s:%q is open and was never closed, but is not registered any more", s.id, h.names[s.node], s.name), "open-socket-unregistered", h.labels)
		}
	}
	for _, l := range h.liss {
		if !l.closed && h.up[l.node] && !inReg(l.node, l.name) {
			h.res.violate(fmt.Sprintf("listener #%d %s:%q is open and was never closed, but is not registered any more", l.id, h.names[l.node], l.name), "open-socket-unregistered", h.labels)
		}
	}
	for _, c := range h.conns {
		if c.dDone && c.aDone && h.up[c.dnode] && inReg(c.dnode, c.ename) {
			mode := "close-close"
			switch {
			case c.dCC && c.aCC:
				mode = "closeconnection-both"
			case c.dCC:
				mode = "dialler-closeconnection"
			case c.aCC:
				mode = "acceptor-closeconnection"
			}
			h.res.violate(fmt.Sprintf("connection #%d is finished at both ends (%s) and settled, but its ephemeral service %q is still registered on %s", c.id, mode, c.ename, h.names[c.dnode]),
				"leak:ephemeral-service:"+mode, h.labels)
		}
	}
	// goroutines of connection ends that have called Close/CloseConnection must be gone (their
	// spawn sites can only hold goroutines of ends that have not): bound from the harness's tables
	accLive, dialLive, subsLive := 0, 0, 0
	for _, c := range h.conns {
		if !c.aDone && !c.lis.closed && h.up[c.lis.node] {
			accLive++
		}
		if h.up[c.dnode] {
			dialLive++ // clean-up goroutine until the connection ends
			if !c.dDone {
				dialLive++ // monitorUnreachable
				subsLive++
			}
		}
	}
	for _, u := range h.subs {
		if !u.fin && !u.sock.closed && h.up[u.sock.node] {
			subsLive++
		}
	}
	subsLive += accLive
	for _, x := range []struct {
		site int
		max  int
		what string
	}{{4, 2 * accLive, "accepted connections not yet closed by the accepting application"}, {5, dialLive, "dialled connections"}, {2, 2 * subsLive, "live subscriptions"}} {
		if got := b[siteKeys[x.site]]; got > x.max {
			h.res.violate(fmt.Sprintf("%d goroutines created by %s, but only %d can belong to %s (every other connection end has called Close or CloseConnection)",
				got, strings.TrimPrefix(siteKeys[x.site], pkgPrefix), x.max, x.what), "leak:connection-goroutines:"+strings.TrimPrefix(siteKeys[x.site], pkgPrefix+"netceptor."), h.labels)
		}
	}
	if final {
		for i := range h.nodes {
			if h.up[i] && len(regs[i]) > 0 {
				h.res.violate(fmt.Sprintf("everything is closed, yet node %s still has %v registered", h.names[i], regs[i]), "leak:registry-after-all-closed", h.labels)
			}
		}
		if !h.shut {
			if d := diffBuckets(h.base, b); len(d) > 0 {
				h.res.violate(fmt.Sprintf("everything is closed and settled, yet the goroutine profile differs from the baseline: %v", d), "leak:goroutines-after-all-closed", map[string]interface{}{"diff": d, "history": h.labels})
			}
		}
	}
	h.fpause.Store(false)
}

// ---------- one history ----------

func pick[T any](r *Rng, xs []T) (T, bool) {
	var zero T
	if len(xs) == 0 {
		return zero, false
	}
	return xs[r.Intn(len(xs))], true
}

func (h *hrun) history(n int, allowShutdown bool, idx int) {
	r := h.r
	// two disjoint name pools: the concurrent sender aims at names of listeners and of sockets
	// that have a reader; a socket nobody reads never gets one of those names (a datagram from
	// another node waiting on it would hold up that node's whole link)
	poolRead := []string{"d1", "d2", "svcA", "svcB", "longname", "", "ninechars"}
	poolIdle := []string{"s1", "s2", "s3", "ping", "", "unreach", "much-too-long"}
	// the senders of waiting datagrams and of the concurrent traffic are ordinary sockets
	var floodSocks []*hsock
	for i := range h.nodes {
		h.opListenPacket(i, fmt.Sprintf("snd%d", i), false, false, true)
		if fs := h.opListenPacket(i, fmt.Sprintf("fl%d", i), false, true, true); fs != nil {
			floodSocks = append(floodSocks, fs)
		}
	}
	h.startFlood(floodSocks)
	shutdownAt := -1
	if allowShutdown {
		shutdownAt = n/2 + r.Intn(n/2)
	}
	for step := 0; step < n && !h.aborted; step++ {
		ups := h.upNodes()
		if len(ups) == 0 {
			break
		}
		node := ups[r.Intn(len(ups))]
		if step == shutdownAt {
			if len(h.nodes) == 3 && node == 1 {
				node = 2 * r.Intn(2) // not the middle node: the other two must stay connected
			}
			h.opShutdown(node)
			continue
		}
		switch x := r.Intn(100); {
		case x < 14:
			if r.Chance(40) {
				h.opListenPacket(node, poolRead[r.Intn(len(poolRead))], r.Chance(30), true, false)
			} else {
				h.opListenPacket(node, poolIdle[r.Intn(len(poolIdle))], r.Chance(30), false, false)
			}
		case x < 27:
			var cands []*hsock
			for _, s := range h.socks {
				if !s.sender && (!s.closed || r.Chance(25)) {
					cands = append(cands, s)
				}
			}
			if s, ok := pick(r, cands); ok {
				h.opPcClose(s)
			}
		case x < 33:
			var cands []*hsock
			for _, s := range h.socks {
				if !s.sender && (h.up[s.node] || r.Chance(20)) {
					cands = append(cands, s)
				}
			}
			if s, ok := pick(r, cands); ok {
				h.opSubscribe(s)
			}
		case x < 38:
			var cands []*hsub
			for _, u := range h.subs {
				if !u.fin {
					cands = append(cands, u)
				}
			}
			if u, ok := pick(r, cands); ok {
				h.opSubDone(u)
			}
		case x < 46:
			var cands []*hsock
			for _, s := range h.socks {
				if !s.sender && !s.drained && len(s.parked) < 3 {
					cands = append(cands, s)
				}
			}
			if s, ok := pick(r, cands); ok {
				h.opPark(s)
			}
		case x < 50:
			var cands []*hsock
			for _, s := range h.socks {
				if !s.sender && !s.drained && h.up[s.node] {
					cands = append(cands, s)
				}
			}
			if s, ok := pick(r, cands); ok {
				h.opReadOne(s)
			}
		case x < 56:
			h.opListen(node, poolRead[r.Intn(len(poolRead))], r.Chance(40))
		case x < 60:
			var cands []*hlis
			for _, l := range h.liss {
				if !l.closed || r.Chance(30) {
					cands = append(cands, l)
				}
			}
			if l, ok := pick(r, cands); ok {
				h.opLiClose(l)
			}
		case x < 74:
			var open []*hlis
			for _, l := range h.liss {
				if !l.closed && h.up[l.node] {
					open = append(open, l)
				}
			}
			var openTLS []*hlis
			for _, l := range open {
				if l.tls {
					openTLS = append(openTLS, l)
				}
			}
			switch y := r.Intn(13); {
			case y >= 10 && len(open) > 0:
				if y == 12 && len(openTLS) > 0 {
					h.opDial(node, "tls-mismatch", openTLS[r.Intn(len(openTLS))], nil)
				} else {
					h.opDial(node, "short-ctx", open[r.Intn(len(open))], nil)
				}
			case y < 7 && len(open) > 0:
				h.opDial(node, "listener", open[r.Intn(len(open))], nil)
			case y < 8 && len(h.liss) > 0:
				// possibly a closed one (unless its name has been bound again since)
				if l := h.liss[r.Intn(len(h.liss))]; !l.closed || !h.nameBusy(l.node, l.name, nil) {
					h.opDial(node, "listener", l, nil)
				}
			case y < 9:
				h.opDial(node, "unbound", nil, nil)
			default:
				var ds []*hsock
				for _, s := range h.socks {
					if s.drained && !s.closed && !s.sender && h.up[s.node] {
						ds = append(ds, s)
					}
				}
				if s, ok := pick(r, ds); ok {
					h.opDial(node, "psock", nil, s)
				}
			}
		case x < 82:
			if c, ok := pick(r, h.conns); ok {
				h.opConnClose(c, r.Bool(), false)
			}
		case x < 84:
			// the peer stops reading, then this end closes: the stream close reports an error
			if c, ok := pick(r, h.conns); ok {
				d := r.Bool()
				h.opStreamOp2(c, !d, "CancelRead")
				time.Sleep(30 * time.Millisecond)
				h.opConnClose(c, d, false)
			}
		case x < 91:
			if c, ok := pick(r, h.conns); ok {
				h.opConnClose(c, r.Bool(), true)
			}
		case x < 93:
			h.opPing(node)
		case x < 96:
			if c, ok := pick(r, h.conns); ok {
				h.opStreamOp(c, r.Bool())
			}
		default:
			if step > 3 {
				h.checkpoint(false)
			}
		}
	}
	// both ends are done with everything
	if !h.aborted {
		h.checkpoint(false)
	}
	close(h.fstop)
	h.fwg.Wait()
	if !h.aborted {
		for _, c := range h.conns {
			if !c.dDone {
				h.opConnClose(c, true, r.Chance(50))
			}
			if !c.aDone {
				h.opConnClose(c, false, r.Chance(50))
			}
		}
		for _, u := range h.subs {
			if !u.fin {
				h.opSubDone(u)
			}
		}
		for _, l := range h.liss {
			if !l.closed && !h.aborted {
				h.opLiClose(l)
			}
		}
		for _, s := range h.socks {
			if !s.closed {
				h.opPcClose(s)
			}
		}
	}
	if !h.aborted {
		h.checkpoint(true)
	}
}

// historiesMain: args = seed, tier, number of histories, result path, log path
func historiesMain(args []string) {
	seed, _ := strconv.ParseUint(args[0], 10, 64)
	tier := args[1]
	per, _ := strconv.Atoi(args[2])
	resPath, logPath := args[3], args[4]
	QuietLogs()
	if tier == "thorough" {
		idleTimeout = 1500 * time.Millisecond
	}
	netceptor.MaxIdleTimeoutForQuicConnections = idleTimeout
	r := NewRng(seed)
	res := &childResult{Extra: map[string]interface{}{}, path: resPath}
	lg := openLog(logPath)
	var m *Mesh
	var names []string
	var nodes []*netceptor.Netceptor
	var base map[string]int
	fresh := func(n int) bool {
		if m != nil {
			m.Shutdown()
			time.Sleep(300 * time.Millisecond)
		}
		var ok bool
		m, names, nodes, ok = newMesh(n)
		if !ok {
			res.violate("mesh did not converge", "mesh-setup", nil)
			return false
		}
		time.Sleep(300 * time.Millisecond)
		base, _, _ = settle(nodes, 400*time.Millisecond, 5*time.Second)
		return true
	}
	if !fresh(2) {
		res.Done = true
		res.write(resPath)
		return
	}
	for k := 0; k < per; k++ {
		n := 10 + r.Intn(50)
		if k%5 == 4 || tier == "thorough" && k%3 == 2 {
			n = 100 + r.Intn(101)
		}
		allowShutdown := k%4 == 3
		wantNodes := 2
		if k%3 == 2 {
			wantNodes = 3
		}
		if len(nodes) != wantNodes {
			if !fresh(wantNodes) {
				break
			}
		}
		lg.step("=== history %d: %d operations on %d nodes, shutdown=%v", k, n, len(nodes), allowShutdown)
		h := &hrun{r: r, res: res, lg: lg, m: m, names: names, nodes: nodes, up: make([]bool, len(nodes)), base: base}
		for i := range h.up {
			h.up[i] = true
		}
		h.history(n, allowShutdown, k)
		var nodeIDs []string
		for i := range nodes {
			nodeIDs = append(nodeIDs, fmt.Sprint(i))
		}
		term := fmt.Sprintf("{| lc_nodes := %s; lc_hist := %s |}", CoqList(nodeIDs), "[\n    "+strings.Join(h.items, ";\n    ")+"]")
		label := fmt.Sprintf("seed %d history %d (%d nodes): %s", seed, k, len(nodes), strings.Join(h.labels, " ; "))
		res.Cases = append(res.Cases, caseRec{term, label})
		res.Counts = append(res.Counts, countRec{fmt.Sprintf("history|%d|%d|%s", seed, k, strings.Join(h.labels, ";")), h.inUse})
		res.hist(fmt.Sprintf("history-ops<=%d", ((len(h.items)+49)/50)*50))
		res.hist(fmt.Sprintf("history-nodes:%d", len(nodes)))
		if len(res.Samples) < 2 {
			s := label
			if len(s) > 1500 {
				s = s[:1500] + "..."
			}
			res.Samples = append(res.Samples, s)
		}
		res.Extra[fmt.Sprintf("concurrent_datagrams_%d_%d", seed, k)] = h.fsent.Load()
		res.write(resPath)
		if h.aborted {
			res.hist("history-aborted")
			break
		}
		if h.shut {
			// whatever is left of the mesh goes away completely — by Shutdown() alone: the contexts the
			// nodes were created from stay alive until the residue has been judged
			for _, nd := range h.nodes {
				nd.Shutdown()
			}
			now, _, _ := settle(nil, connQuiet(), 12*time.Second)
			var left []string
			for kk, v := range now {
				if underTest(kk) && v > 0 {
					left = append(left, fmt.Sprintf("%d %s", v, strings.TrimPrefix(kk, pkgPrefix)))
				}
			}
			if len(left) > 0 {
				res.violate(fmt.Sprintf("after Shutdown of every node these goroutines are still there: %v", left), "shutdown-residue", map[string]interface{}{"left": left, "history": h.labels})
			}
			m.Shutdown()
			m = nil
			if !fresh(2) {
				break
			}
		}
	}
	if m != nil {
		m.Shutdown()
	}
	res.Done = true
	res.write(resPath)
	_ = os.Stdout
}
