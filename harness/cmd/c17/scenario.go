package main

import (
	"context"
	"crypto/tls"
	"fmt"
	"io"
	"reflect"
	"strings"
	"time"

	. "verifharness/lib"

	"github.com/ansible/receptor/pkg/netceptor"
	"github.com/ansible/receptor/pkg/utils"
	"github.com/quic-go/quic-go"
)

var scenarioNames = []string{
	"raw-quic-clients", // takes a minute: started first
	"double-close-advertised-socket",
	"double-close-advertised-listener",
	"two-waiting-deliverers",
	"name-reuse-double-close",
	"listener-close-after-connection",
	"failed-pings",
	"finished-connections",
	"shutdown-stops-all",
	"broker-unsubscribe-nil-or-twice",
	"listener-close-vs-shutdown",
	"close-after-peer-cancelread",
	"dial-then-cancel-context",
}

// MaxIdleTimeoutForQuicConnections while the harness runs; a connection whose peer is gone ends at
// the latest one keep-alive period (half of it) plus one idle timeout after the last packet.
// The thorough tier (many children side by side on a loaded machine) uses a longer one.
var idleTimeout = 800 * time.Millisecond

func connQuiet() time.Duration { return idleTimeout*3/2 + 400*time.Millisecond }

// scenarioMain: args = name, result path, log path
func scenarioMain(args []string) {
	name, resPath, logPath := args[0], args[1], args[2]
	QuietLogs()
	netceptor.MaxIdleTimeoutForQuicConnections = idleTimeout
	res := &childResult{Extra: map[string]interface{}{}, path: resPath}
	lg := openLog(logPath)
	m, names, nodes, ok := newMesh(2)
	if !ok {
		res.violate("mesh did not converge", "mesh-setup", name)
		res.Done = true
		res.write(resPath)
		return
	}
	a, b := nodes[0], nodes[1]
	_ = names
	time.Sleep(300 * time.Millisecond)
	base, _, _ := settle(nodes, 300*time.Millisecond, 3*time.Second)
	count := func(key string, nontrivial bool) {
		res.Counts = append(res.Counts, countRec{"scenario|" + key, nontrivial})
	}
	switch name {
	case "double-close-advertised-socket":
		lg.step("ListenPacketAndAdvertise(adv) on alpha")
		pc, err := a.ListenPacketAndAdvertise("adv", map[string]string{"k": "v"})
		Must(err)
		lg.step("Close #1")
		e1 := pc.Close()
		lg.step("Close #2")
		e2 := pc.Close()
		lg.step("Close #3")
		e3 := pc.Close()
		res.Samples = append(res.Samples, fmt.Sprintf("%s: closes returned %v, %v, %v", name, e1, e2, e3))
		count(name, true)
	case "double-close-advertised-listener":
		st, _ := fastTLS()
		lg.step("ListenAndAdvertise(advl) on alpha")
		li, err := a.ListenAndAdvertise("advl", st, map[string]string{"k": "v"})
		Must(err)
		lg.step("Listener.Close #1")
		e1 := li.Close()
		lg.step("Listener.Close #2")
		e2 := li.Close()
		res.Samples = append(res.Samples, fmt.Sprintf("%s: closes returned %v, %v", name, e1, e2))
		count(name, true)
	case "two-waiting-deliverers":
		for round := 0; round < 20; round++ {
			tgt, err := a.ListenPacket("tgt")
			Must(err)
			s1, _ := a.ListenPacket("")
			s2, _ := a.ListenPacket("")
			s3, _ := b.ListenPacket("")
			errs := make(chan error, 3)
			lg.step("round %d: two local senders and one remote sender write to alpha:tgt, nobody reads", round)
			go func() { _, e := s1.WriteTo([]byte("1"), a.NewAddr("alpha", "tgt")); errs <- e }()
			go func() { _, e := s2.WriteTo([]byte("2"), a.NewAddr("alpha", "tgt")); errs <- e }()
			if round%2 == 1 {
				_, _ = s3.WriteTo([]byte("3"), b.NewAddr("alpha", "tgt"))
			}
			time.Sleep(30 * time.Millisecond)
			lg.step("round %d: Close of the socket they wait on", round)
			_ = tgt.Close()
			for i := 0; i < 2; i++ {
				select {
				case e := <-errs:
					if e == nil || e.Error() != netceptor.ProblemServiceUnknown {
						res.violate(fmt.Sprintf("a local WriteTo that was waiting on a socket when it was closed returned %v (want %q)", e, netceptor.ProblemServiceUnknown), "waiting-writer-not-told", nil)
					}
				case <-time.After(3 * time.Second):
					res.violate("a local WriteTo waiting on a closed socket did not return", "writer-stuck", nil)
				}
			}
			_ = s1.Close()
			_ = s2.Close()
			_ = s3.Close()
			count(fmt.Sprintf("%s|%d", name, round%2), true)
		}
	case "name-reuse-double-close":
		for _, adv := range []bool{false, true} {
			open := func() netceptor.PacketConner {
				var pc netceptor.PacketConner
				var err error
				if adv {
					pc, err = a.ListenPacketAndAdvertise("reuse", nil)
				} else {
					pc, err = a.ListenPacket("reuse")
				}
				Must(err)
				return pc
			}
			lg.step("adv=%v: open 'reuse', close it, open 'reuse' again, close the OLD socket again", adv)
			pc1 := open()
			_ = pc1.Close()
			pc2 := open()
			got := make(chan string, 1)
			go func() {
				buf := make([]byte, 16)
				n, _, err := pc2.ReadFrom(buf)
				if err == nil {
					got <- string(buf[:n])
				}
			}()
			_ = pc1.Close()
			reg := regKeys(a)
			snd, _ := b.ListenPacket("")
			_, _ = snd.WriteTo([]byte("hello"), b.NewAddr("alpha", "reuse"))
			select {
			case <-got:
			case <-time.After(5 * time.Second):
				res.violate(fmt.Sprintf("socket 'reuse' (advertised=%v) is open and was never closed, but after a second Close of an OLDER socket of the same name the registry is %v and a datagram sent to it is not delivered", adv, reg),
					"open-socket-unregistered:second-close-of-older-socket", nil)
			}
			if adv {
				time.Sleep(500 * time.Millisecond)
				if _, ok := b.GetServiceInfo("alpha", "reuse"); !ok {
					res.violate("advertised socket 'reuse' is open but its advertisement was withdrawn by a second Close of an older socket of the same name", "open-socket-unregistered:second-close-of-older-socket:advert", nil)
				}
			}
			_ = pc2.Close()
			_ = snd.Close()
			count(fmt.Sprintf("%s|%v", name, adv), true)
		}
	case "listener-close-after-connection":
		st, ct := fastTLS()
		for round := 0; round < 6; round++ {
			lg.step("round %d: Listen, Dial, exchange, close connection, Listener.Close", round)
			li, err := b.Listen("svc", st)
			Must(err)
			acc := make(chan *netceptor.Conn, 1)
			go func() {
				c, err := li.Accept()
				if err == nil {
					acc <- c.(*netceptor.Conn)
				}
			}()
			ctx, cancel := context.WithTimeout(context.Background(), 5*time.Second)
			c, err := a.DialContext(ctx, "beta", "svc", ct)
			cancel()
			if err != nil {
				res.violate("dial to an open listener failed: "+err.Error(), "dial-failed", nil)
				break
			}
			var ac *netceptor.Conn
			select {
			case ac = <-acc:
			case <-time.After(45 * time.Second):
				res.violate("accepted connection did not show up within 45s", "accept-missing", nil)
			}
			_, _ = c.Write([]byte("x"))
			if round%2 == 0 {
				_ = c.CloseConnection()
			} else {
				_ = c.Close()
			}
			if ac != nil {
				_ = ac.Close()
			}
			done := make(chan struct{})
			go func() { _ = li.Close(); close(done) }()
			select {
			case <-done:
			case <-time.After(5 * time.Second):
				res.violate(fmt.Sprintf("Listener.Close() did not return within 5s (round %d, listener that has had a connection)", round), "hang:listener-close", nil)
				res.Done = true
				res.write(resPath)
				return
			}
			count(fmt.Sprintf("%s|%d", name, round%2), true)
		}
	case "failed-pings":
		for i := 0; i < 6; i++ {
			lg.step("ping %d", i)
			var err error
			switch i % 3 {
			case 0:
				_, _, err = a.Ping(context.Background(), "nowhere", 8)
			case 1:
				_, _, err = a.Ping(context.Background(), "beta", 0)
			case 2:
				_, _, err = a.Ping(context.Background(), "beta", 8)
			}
			res.hist(fmt.Sprintf("scenario-ping:%v", err))
			count(fmt.Sprintf("%s|%d", name, i%3), true)
		}
		now, regs, _ := settle(nodes, 400*time.Millisecond, 4*time.Second)
		if d := diffBuckets(base, now); len(d) > 0 {
			res.violate(fmt.Sprintf("after 6 pings (4 of them failing) with context.Background(): goroutines left behind: %v", d), "leak:ping-goroutine", d)
		}
		if len(regs[0]) > 0 {
			res.violate(fmt.Sprintf("after pings the registry holds %v", regs[0]), "leak:ping-service", regs[0])
		}
	case "finished-connections":
		st, ct := fastTLS()
		li, err := b.Listen("svc", st)
		Must(err)
		acc := make(chan *netceptor.Conn, 16)
		go func() {
			for {
				c, err := li.Accept()
				if err != nil {
					return
				}
				acc <- c.(*netceptor.Conn)
			}
		}()
		time.Sleep(200 * time.Millisecond)
		base2, _, _ := settle(nodes, 300*time.Millisecond, 3*time.Second)
		for _, mode := range []string{"dialler-closeconnection", "acceptor-closeconnection", "dialler-close+acceptor-closeconnection", "close-close"} {
			lg.step("mode %s: 3 connections opened, used and finished", mode)
			for i := 0; i < 3; i++ {
				ctx, cancel := context.WithTimeout(context.Background(), 5*time.Second)
				c, err := a.DialContext(ctx, "beta", "svc", ct)
				cancel()
				if err != nil {
					res.violate("dial to an open listener failed: "+err.Error(), "dial-failed", mode)
					continue
				}
				ac := <-acc
				_, _ = c.Write([]byte("ping"))
				buf := make([]byte, 8)
				_, _ = ac.Read(buf)
				switch mode {
				case "dialler-closeconnection":
					_ = c.CloseConnection()
					_ = ac.Close()
				case "acceptor-closeconnection":
					_ = ac.CloseConnection()
					_ = c.Close()
				case "dialler-close+acceptor-closeconnection":
					_ = c.Close()
					time.Sleep(50 * time.Millisecond)
					_ = ac.CloseConnection()
				case "close-close":
					_ = c.Close()
					_ = ac.Close()
				}
			}
			now, regs, _ := settle(nodes, connQuiet(), 8*time.Second)
			if len(regs[0]) > 0 {
				res.violate(fmt.Sprintf("3 connections finished at both ends (%s): the dialling node still has %d ephemeral service(s) registered: %v", mode, len(regs[0]), regs[0]),
					"leak:ephemeral-service:"+mode, nil)
			}
			if d := diffBuckets(base2, now); len(d) > 0 {
				res.violate(fmt.Sprintf("3 connections finished at both ends (%s): goroutines left behind: %v", mode, d), "leak:ephemeral-service:"+mode+":goroutines", d)
			}
			count(name+"|"+mode, true)
			if mode == "close-close" {
				break // what is left behind now would be counted again
			}
		}
		done := make(chan struct{})
		go func() { _ = li.Close(); close(done) }()
		select {
		case <-done:
		case <-time.After(5 * time.Second):
			res.violate("Listener.Close() did not return within 5s", "hang:listener-close", nil)
		}
	case "broker-unsubscribe-nil-or-twice":
		// what PacketConn.StartUnreachable does when the node's broker has already ended
		// (Subscribe returned nil, the nil is unsubscribed later), and a subscription ended twice
		ctx, cancel := context.WithCancel(context.Background())
		br := utils.NewBroker(ctx, reflect.TypeOf(netceptor.UnreachableNotification{}))
		lg.step("Unsubscribe(nil) on a live broker")
		br.Unsubscribe(nil)
		time.Sleep(50 * time.Millisecond)
		ch := br.Subscribe()
		lg.step("Unsubscribe of the same subscription twice")
		br.Unsubscribe(ch)
		br.Unsubscribe(ch)
		time.Sleep(50 * time.Millisecond)
		ch2 := br.Subscribe()
		_ = br.Publish(netceptor.UnreachableNotification{})
		select {
		case <-ch2:
		case <-time.After(time.Second):
			res.violate("broker no longer delivers after a repeated Unsubscribe", "broker-dead", nil)
		}
		cancel()
		count(name, true)
	case "listener-close-vs-shutdown":
		// Listener.Close at about the moment its node is shut down
		st, ct := fastTLS()
		for round := 0; round < 12; round++ {
			if round > 0 {
				var ok2 bool
				m, names, nodes, ok2 = newMesh(2)
				if !ok2 {
					break
				}
				a, b = nodes[0], nodes[1]
			}
			lg.step("round %d: listener with a connection; Shutdown of its node and Listener.Close %d us apart", round, (round%4)*200)
			li, err := b.Listen("svc", st)
			Must(err)
			go func() {
				for {
					if _, err := li.Accept(); err != nil {
						return
					}
				}
			}()
			ctx, cancel := context.WithTimeout(context.Background(), 5*time.Second)
			c, err := a.DialContext(ctx, "beta", "svc", ct)
			cancel()
			if err == nil {
				_, _ = c.Write([]byte("x"))
			}
			go func() {
				time.Sleep(time.Duration((round%4)*200) * time.Microsecond)
				b.Shutdown()
			}()
			done := make(chan struct{})
			go func() { _ = li.Close(); close(done) }()
			select {
			case <-done:
			case <-time.After(5 * time.Second):
				res.violate(fmt.Sprintf("Listener.Close() did not return within 5s when its node was shut down at the same moment (round %d)", round), "hang:listener-close:during-shutdown",
					stacksOf("Listener).Close", "Transport).close", "baseServer).close", "Transport).listen"))
				res.Done = true
				res.write(resPath)
				return
			}
			m.Shutdown()
			count(fmt.Sprintf("%s|%d", name, round%4), true)
		}
	case "close-after-peer-cancelread":
		// the peer stops reading (CancelRead => STOP_SENDING): closing the QUIC stream then reports an
		// error ("close called for canceled stream"), and Conn.Close must release what it releases
		// anyway; also Close after SetDeadline / SetWriteDeadline in the past and after the other
		// end has ended the connection
		st, ct := fastTLS()
		li, err := b.Listen("svc", st)
		Must(err)
		acc := make(chan *netceptor.Conn, 16)
		go func() {
			for {
				c, err := li.Accept()
				if err != nil {
					return
				}
				acc <- c.(*netceptor.Conn)
			}
		}()
		time.Sleep(200 * time.Millisecond)
		base2, _, _ := settle(nodes, 300*time.Millisecond, 3*time.Second)
		for _, mode := range []string{"dialler-cancelread", "acceptor-cancelread", "past-deadlines", "both-cancelread"} {
			lg.step("mode %s: 4 connections; stream methods, Conn.Close at the writing end(s), connection ended by CloseConnection", mode)
			closeErrs := map[string]int{}
			for i := 0; i < 4; i++ {
				ctx, cancel := context.WithTimeout(context.Background(), 5*time.Second)
				c, err := a.DialContext(ctx, "beta", "svc", ct)
				cancel()
				if err != nil {
					res.violate("dial to an open listener failed: "+err.Error(), "dial-failed", mode)
					continue
				}
				ac := <-acc
				_, _ = c.Write([]byte("ping"))
				buf := make([]byte, 8)
				_, _ = ac.Read(buf)
				switch mode {
				case "dialler-cancelread":
					c.CancelRead()
				case "acceptor-cancelread":
					ac.CancelRead()
				case "both-cancelread":
					c.CancelRead()
					ac.CancelRead()
				case "past-deadlines":
					_ = c.SetDeadline(time.Now().Add(-time.Second))
					_ = ac.SetWriteDeadline(time.Now().Add(-time.Second))
					_ = ac.SetReadDeadline(time.Now().Add(-time.Second))
				}
				_, _ = ac.Write([]byte("data the peer may not want any more"))
				_, _ = c.Write([]byte("same"))
				time.Sleep(40 * time.Millisecond) // let STOP_SENDING arrive
				closeErrs[fmt.Sprint(ac.Close())]++
				closeErrs[fmt.Sprint(c.Close())]++
				if i%2 == 0 {
					_ = c.CloseConnection()
				} else {
					_ = ac.CloseConnection()
				}
			}
			for k, v := range closeErrs {
				res.hist(fmt.Sprintf("scenario-close-result[%s]:%s=%d", mode, k, v))
			}
			now, regs, _ := settle(nodes, connQuiet(), 8*time.Second)
			if len(regs[0]) > 0 {
				res.violate(fmt.Sprintf("4 connections closed at both ends and ended (%s): the dialling node still has %v registered", mode, regs[0]), "leak:ephemeral-service:"+mode, nil)
			}
			if d := diffBuckets(base2, now); len(d) > 0 {
				res.violate(fmt.Sprintf("4 connections closed at both ends (Conn.Close after %s) and ended by CloseConnection, listener still open: goroutines left behind: %v", mode, d),
					"leak:connection-goroutines:close-after-"+mode, d)
			}
			count(name+"|"+mode, true)
		}
		done := make(chan struct{})
		go func() { _ = li.Close(); close(done) }()
		select {
		case <-done:
		case <-time.After(5 * time.Second):
			res.violate("Listener.Close() did not return within 5s", "hang:listener-close", nil)
		}
	case "raw-quic-clients":
		// QUIC clients that are not DialContext: a wrong or missing marker byte, no stream at all
		// until the listener is closed, and no stream at all for longer than the 60 s the accept
		// loop waits for one.  Whatever they do, the goroutine that waits for their stream must end
		// and nothing may stay behind.
		st, _ := fastTLS()
		pending := pkgPrefix + "netceptor.(*Listener).acceptLoop"
		rawDial := func(svc string, keepAlive bool) (quic.Connection, netceptor.PacketConner, error) {
			pc, err := a.ListenPacket("")
			if err != nil {
				return nil, nil, err
			}
			cfg := &quic.Config{HandshakeIdleTimeout: 15 * time.Second, MaxIdleTimeout: 30 * time.Second}
			if keepAlive {
				cfg.KeepAlivePeriod = 5 * time.Second
			}
			tr := &quic.Transport{Conn: pc}
			ctx, cancel := context.WithTimeout(context.Background(), 10*time.Second)
			defer cancel()
			qc, err := tr.Dial(ctx, a.NewAddr("beta", svc), &tls.Config{InsecureSkipVerify: true, NextProtos: []string{"netceptor"}, MinVersion: tls.VersionTLS12}, cfg) //nolint:gosec
			if err != nil {
				_ = pc.Close()
			}
			return qc, pc, err
		}
		listen := func(svc string) (*netceptor.Listener, chan error) {
			li, err := b.Listen(svc, st)
			Must(err)
			errs := make(chan error, 256)
			go func() {
				for {
					c, err := li.Accept()
					if err != nil && strings.Contains(err.Error(), "listener closed") {
						return
					}
					if err == nil {
						_ = c.(*netceptor.Conn).CloseConnection()
					}
					// never block: an accepter that stops accepting would leave accepted connections waiting
					// in the listener, which is the application's doing and not a leak of the node
					select {
					case errs <- err:
					default:
					}
				}
			}()
			return li, errs
		}
		// (iii) first, it takes a minute: a client that never opens a stream
		netceptor.MaxIdleTimeoutForQuicConnections = 30 * time.Second // read when the listener is made
		liSlow, _ := listen("slow")
		netceptor.MaxIdleTimeoutForQuicConnections = idleTimeout
		time.Sleep(200 * time.Millisecond)
		baseSlow, _, _ := settle(nodes, 300*time.Millisecond, 3*time.Second)
		tSlow := time.Now()
		qcSlow, pcSlow, err := rawDial("slow", true)
		if err != nil {
			res.violate("raw QUIC dial failed: "+err.Error(), "dial-failed", nil)
			break
		}
		time.Sleep(300 * time.Millisecond)
		if n := buckets()[pending]; n != baseSlow[pending]+1 {
			res.hist(fmt.Sprintf("scenario-raw:pending-goroutines=%d", n-baseSlow[pending]))
		}
		// (i) wrong first byte, data without marker, stream closed without a byte
		li1, errs1 := listen("strict")
		time.Sleep(200 * time.Millisecond)
		base1, _, _ := settle(nodes, 300*time.Millisecond, 3*time.Second)
		for k, first := range [][]byte{{1}, []byte("hello"), {}, {255, 0}} {
			lg.step("raw client %d: stream starts with %x", k, first)
			qc, pc, err := rawDial("strict", false)
			if err != nil {
				res.violate("raw QUIC dial failed: "+err.Error(), "dial-failed", nil)
				continue
			}
			ctx, cancel := context.WithTimeout(context.Background(), 5*time.Second)
			qs, err := qc.OpenStreamSync(ctx)
			cancel()
			if err == nil {
				_, _ = qs.Write(first)
				_ = qs.Close()
			}
			select {
			case e := <-errs1:
				if e == nil {
					res.violate(fmt.Sprintf("a stream that starts with %x instead of the 0 marker was accepted", first), "marker-not-required", nil)
				}
			case <-time.After(5 * time.Second):
				res.violate("Accept returned nothing for a stream with a wrong marker", "accept-missing", nil)
			}
			select {
			case <-qc.Context().Done():
			case <-time.After(5 * time.Second):
				res.violate("the connection of a client with a wrong marker was not closed by the listener", "bad-marker-connection-kept", nil)
			}
			_ = qc.CloseWithError(0, "")
			_ = pc.Close()
			count(fmt.Sprintf("%s|bad-marker-%d", name, k), true)
		}
		now, regs, _ := settle(nodes, connQuiet(), 8*time.Second)
		delete(now, pending) // the slow client's goroutine is judged below
		b1 := map[string]int{}
		for k, v := range base1 {
			if k != pending {
				b1[k] = v
			}
		}
		if d := diffBuckets(b1, now); len(d) > 0 {
			res.violate(fmt.Sprintf("after 4 clients with a wrong or missing marker: goroutines left behind: %v", d), "leak:goroutines:bad-marker", d)
		}
		if len(regs[0]) != 1 || regs[0][0] != pcSlow.LocalService() { // only the silent client's own socket
			res.violate(fmt.Sprintf("after 4 raw clients the registry of alpha holds %v", regs[0]), "leak:unknown-service", nil)
		}
		// (i') a client that connects and goes away without a stream; dials whose context ends at
		// every stage of DialContext; a dial nobody accepts when the listener is closed
		if qc, pc, err := rawDial("strict", false); err == nil {
			_ = qc.CloseWithError(7, "changed my mind")
			_ = pc.Close()
			select {
			case e := <-errs1:
				if e == nil {
					res.violate("a connection that was closed before it opened a stream was accepted", "marker-not-required", nil)
				}
			case <-time.After(1500 * time.Millisecond):
				res.hist("scenario-raw:no-accept-result-for-vanished-client")
			}
			count(name+"|client-gone-before-stream", true)
		}
		_, ctFast := fastTLS()
		okDials, failedDials := 0, 0
		for k := 0; k < 40; k++ {
			ctx, cancel := context.WithTimeout(context.Background(), time.Duration(k*180)*time.Microsecond)
			c, err := a.DialContext(ctx, "beta", "strict", ctFast)
			cancel()
			if err == nil {
				okDials++
				_ = c.CloseConnection()
			} else {
				failedDials++
			}
		}
		res.hist(fmt.Sprintf("scenario-raw:dials-with-ending-context ok=%d failed=%d", okDials, failedDials))
		if c, err := a.Dial("beta", "strict", ctFast); err == nil { // the wrapper without a context
			_ = c.CloseConnection()
		} else {
			res.violate("Dial to an open listener failed: "+err.Error(), "dial-failed", nil)
		}
		liNA, err := b.Listen("noaccept", st)
		if err == nil {
			ctx, cancel := context.WithTimeout(context.Background(), 5*time.Second)
			c, err := a.DialContext(ctx, "beta", "noaccept", ctFast)
			cancel()
			time.Sleep(100 * time.Millisecond)
			doneNA := make(chan struct{})
			go func() { _ = liNA.Close(); close(doneNA) }()
			select {
			case <-doneNA:
			case <-time.After(5 * time.Second):
				res.violate("Listener.Close() with a connection nobody has accepted did not return within 5s", "hang:listener-close", nil)
			}
			if err == nil {
				_ = c.CloseConnection()
			}
			count(name+"|closed-with-unaccepted-connection", true)
		}
		now, _, _ = settle(nodes, connQuiet(), 8*time.Second)
		delete(now, pending)
		// quic-go keeps a half-open connection for its handshake timeout (15 s): only receptor's own
		// goroutines are judged here
		for k := range now {
			if strings.HasPrefix(k, "github.com/quic-go/") {
				now[k] = b1[k]
			}
		}
		if d := diffBuckets(b1, now); len(d) > 0 {
			res.violate(fmt.Sprintf("after a vanished client, 40 dials whose context ended during the dial (%d succeeded) and a listener closed with an unaccepted connection: goroutines left behind: %v", okDials, d), "leak:goroutines:dial-stages", d)
		}
		// (ii) no stream until the listener is closed
		lg.step("raw client connects, opens no stream; the listener is closed")
		qc2, pc2, err := rawDial("strict", false)
		if err == nil {
			time.Sleep(300 * time.Millisecond)
			doneC := make(chan struct{})
			go func() { _ = li1.Close(); close(doneC) }()
			select {
			case <-doneC:
			case <-time.After(5 * time.Second):
				res.violate("Listener.Close() with a connection waiting for its stream did not return within 5s", "hang:listener-close", nil)
			}
			select {
			case <-qc2.Context().Done():
			case <-time.After(5 * time.Second):
				res.violate("a connection that was waiting for its stream was not closed when the listener was closed", "pending-connection-kept", nil)
			}
			_ = pc2.Close()
			count(name+"|listener-closed-while-pending", true)
		}
		// (iii) joined: 60 s after the connection was accepted the wait for a stream ends
		lg.step("waiting for the 60 s accept timeout of the silent client")
		select {
		case <-qcSlow.Context().Done():
		case <-time.After(time.Until(tSlow.Add(66 * time.Second))):
			res.violate("a client that never opens a stream is still connected 66 s after it connected (the accept loop waits 60 s for a stream)", "accept-timeout-missing", nil)
		}
		waited := time.Since(tSlow)
		cause := fmt.Sprint(context.Cause(qcSlow.Context()))
		res.hist("scenario-raw:silent-client-closed-with:" + cause)
		if waited < 55*time.Second {
			res.violate(fmt.Sprintf("the silent client's connection ended after only %s: %s", waited.Round(time.Second), cause), "accept-timeout-early", nil)
		}
		_ = pcSlow.Close()
		nowS, _, _ := settle(nodes, connQuiet(), 8*time.Second)
		if nowS[pending] != baseSlow[pending] {
			res.violate(fmt.Sprintf("%d goroutine(s) still wait for the stream of a connection that ended (accept timeout)", nowS[pending]-baseSlow[pending]), "leak:goroutines:accept-timeout", nil)
		}
		// the listener still works
		_, ct := fastTLS()
		ctx, cancel := context.WithTimeout(context.Background(), 5*time.Second)
		c, err := a.DialContext(ctx, "beta", "slow", ct)
		cancel()
		if err != nil {
			res.violate("after the accept timeout of another client a dial to the listener failed: "+err.Error(), "dial-failed", nil)
		} else {
			_ = c.CloseConnection()
		}
		doneS := make(chan struct{})
		go func() { _ = liSlow.Close(); close(doneS) }()
		select {
		case <-doneS:
		case <-time.After(5 * time.Second):
			res.violate("Listener.Close() did not return within 5s", "hang:listener-close", nil)
		}
		count(name+"|accept-timeout", true)
	case "dial-then-cancel-context":
		// the idiomatic  ctx, cancel := context.WithTimeout(...); conn, err := DialContext(ctx, ...); cancel()
		// the context governs the dial, not the connection it returns: the stream must work
		st, ct := fastTLS()
		li, err := b.Listen("svc", st)
		Must(err)
		acc := make(chan *netceptor.Conn, 64)
		accErrs := make(chan error, 64)
		go func() {
			for {
				c, err := li.Accept()
				if err != nil {
					if strings.Contains(err.Error(), "listener closed") {
						return
					}
					accErrs <- err
					continue
				}
				acc <- c.(*netceptor.Conn)
			}
		}()
		// how long does a dial take here?  The contexts below end at about that time
		var lat time.Duration
		for i := 0; i < 8; i++ {
			t := time.Now()
			c, err := a.DialContext(context.Background(), "beta", "svc", ct)
			if err != nil {
				res.violate("dial to an open listener failed: "+err.Error(), "dial-failed", nil)
				break
			}
			if d := time.Since(t); lat == 0 || d < lat {
				lat = d // the fastest of them
			}
			ac := <-acc
			_ = c.CloseConnection()
			_ = ac.Close()
		}
		res.hist(fmt.Sprintf("scenario-dial-latency<=%dms", lat.Milliseconds()+1))
		succeeded := 0
		dead := 0
		for i := 0; i < 400 && dead < 3; i++ {
			from := a
			if i%3 == 2 {
				from = b // a dial within the node
			}
			// every third context is cancelled by the caller right after the dial, the others end
			// by themselves at about the time the dial needs
			timeout := 5 * time.Second
			if i%3 != 0 {
				timeout = lat/2 + time.Duration(uint64(i)*2654435761%uint64(lat+1))*2
			}
			ctx, cancel := context.WithTimeout(context.Background(), timeout)
			c, err := from.DialContext(ctx, "beta", "svc", ct)
			cancel()
			if err != nil {
				if i%3 == 0 {
					res.violate("dial to an open listener failed: "+err.Error(), "dial-failed", nil)
					break
				}
				// gave up in time: the accepting side may still surface a connection, which it closes
				time.Sleep(5 * time.Millisecond)
				for more := true; more; {
					select {
					case x := <-acc:
						_ = x.Close()
					case <-accErrs:
					default:
						more = false
					}
				}
				continue
			}
			succeeded++
			msg := []byte(fmt.Sprintf("hello %d", i))
			_, werr := c.Write(msg)
			var ac *netceptor.Conn
			var aerr error
			ename := c.LocalAddr().String()
			ename = ename[strings.LastIndex(ename, ":"):]
			// (errors of Accept may belong to earlier dials that had given up: they are only reported)
			for wait, waiting := time.After(10*time.Second), true; ac == nil && waiting; {
				select {
				case x := <-acc:
					if strings.HasSuffix(x.RemoteAddr().String(), ename) {
						ac = x
					} else {
						_ = x.Close() // of a dial that had given up
					}
				case aerr = <-accErrs:
				case <-wait:
					waiting = false
				}
			}
			ok := false
			if ac != nil {
				buf := make([]byte, len(msg))
				_ = ac.SetReadDeadline(time.Now().Add(5 * time.Second))
				_, rerr := io.ReadFull(ac, buf)
				ok = rerr == nil && string(buf) == string(msg)
				_ = ac.Close()
			}
			if !ok {
				dead++
				res.violate(fmt.Sprintf("dial #%d succeeded, its context was cancelled right after DialContext returned, and the stream is dead: Write returned %v, the accepting side got no working connection within 10s (connection=%v, last Accept error: %v)", i, werr, ac != nil, aerr), "stream-dead-after-dial-context-cancel", nil)
			}
			_ = c.CloseConnection()
			if i%50 == 0 {
				lg.step("dial %d", i)
			}
		}
		res.hist(fmt.Sprintf("scenario-dials-with-ending-context-that-succeeded=%d", succeeded))
		count(name, true)
		done := make(chan struct{})
		go func() { _ = li.Close(); close(done) }()
		select {
		case <-done:
		case <-time.After(5 * time.Second):
			res.violate("Listener.Close() did not return within 5s", "hang:listener-close", nil)
		}
	case "shutdown-stops-all":
		st, ct := fastTLS()
		pc, _ := a.ListenPacket("one")
		dn := make(chan struct{})
		_ = pc.SubscribeUnreachable(dn)
		_, _ = a.ListenPacketAndAdvertise("two", nil)
		li, err := b.ListenAndAdvertise("svc", st, nil)
		Must(err)
		acc := make(chan *netceptor.Conn, 4)
		go func() {
			for {
				c, err := li.Accept()
				if err != nil {
					return
				}
				acc <- c.(*netceptor.Conn)
			}
		}()
		ctx, cancel := context.WithTimeout(context.Background(), 5*time.Second)
		c, err := a.DialContext(ctx, "beta", "svc", ct)
		cancel()
		if err == nil {
			<-acc
			_, _ = c.Write([]byte("x"))
		}
		// a Ping and a Dial that are waiting for an answer that will not come (the link swallows
		// everything from now on) must end with the node
		m.Links[0].EndA.SetSilent(true)
		m.Links[0].EndB.SetSilent(true)
		inflight := make(chan string, 2)
		go func() {
			_, _, err := a.Ping(context.Background(), "beta", 8)
			inflight <- fmt.Sprintf("ping: %v", err)
		}()
		go func() {
			ctx, cancel := context.WithTimeout(context.Background(), 30*time.Second)
			defer cancel()
			_, err := a.DialContext(ctx, "beta", "svc", ct)
			inflight <- fmt.Sprintf("dial: %v", err)
		}()
		time.Sleep(150 * time.Millisecond)
		lg.step("Shutdown of both nodes with open sockets, a subscription, a listener, a connection, and a Ping and a Dial in flight")
		// Shutdown() itself must stop everything: the context the nodes were created from stays alive
		// (a program that creates and shuts down nodes keeps running) until the residue has been judged
		a.Shutdown()
		b.Shutdown()
		defer m.Shutdown()
		for i := 0; i < 2; i++ {
			select {
			case r := <-inflight:
				res.hist("scenario-shutdown-inflight:" + r)
			case <-time.After(5 * time.Second):
				res.violate("a Ping or Dial that was waiting for an answer did not return within 5s of the node's Shutdown", "shutdown-inflight-stuck", nil)
			}
		}
		now, _, _ := settle(nil, connQuiet(), 8*time.Second)
		var left []string
		for k, v := range now {
			if underTest(k) && v > 0 {
				left = append(left, fmt.Sprintf("%d %s", v, strings.TrimPrefix(k, pkgPrefix)))
			}
		}
		if len(left) > 0 {
			res.violate(fmt.Sprintf("after Shutdown of every node these goroutines are still there: %v", left), "shutdown-residue", left)
		}
		count(name, true)
	}
	res.Done = true
	res.write(resPath)
}
