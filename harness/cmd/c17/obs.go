package main

import (
	"bytes"
	"crypto/ecdsa"
	"crypto/elliptic"
	"crypto/rand"
	"crypto/tls"
	"crypto/x509"
	"crypto/x509/pkix"
	"fmt"
	"math/big"
	"os"
	"runtime/pprof"
	"sort"
	"strings"
	"sync"
	"time"

	. "verifharness/lib"

	"github.com/ansible/receptor/pkg/netceptor"
)

const pkgPrefix = "github.com/ansible/receptor/pkg/"

// creation sites that the model accounts for, in the order of Model/Life.v all_sites
var siteKeys = []string{
	pkgPrefix + "netceptor.(*PacketConn).StartUnreachable",
	pkgPrefix + "utils.NewBroker",
	pkgPrefix + "netceptor.(*PacketConn).SubscribeUnreachable",
	pkgPrefix + "netceptor.(*Netceptor).listen",
	pkgPrefix + "netceptor.(*Listener).acceptLoop.func1",
	pkgPrefix + "netceptor.(*Netceptor).DialContext",
	pkgPrefix + "netceptor.SendPing",
}

// buckets returns the number of goroutines per creation site ("created by F").
func buckets() map[string]int {
	var b bytes.Buffer
	_ = pprof.Lookup("goroutine").WriteTo(&b, 2)
	out := map[string]int{}
	for _, blk := range strings.Split(b.String(), "\n\n") {
		key := "(main)"
		for _, l := range strings.Split(blk, "\n") {
			if strings.HasPrefix(l, "created by ") {
				key = strings.TrimPrefix(l, "created by ")
				if i := strings.Index(key, " in goroutine"); i >= 0 {
					key = key[:i]
				}
			}
		}
		if strings.TrimSpace(blk) != "" {
			out[key]++
		}
	}
	return out
}

// foreign reports whether a creation site belongs to the code under test (receptor or quic-go)
// rather than to the harness or the Go runtime.
func underTest(site string) bool {
	return strings.HasPrefix(site, pkgPrefix) || strings.HasPrefix(site, "github.com/quic-go/")
}

func bucketsKey(b map[string]int) string {
	var ks []string
	for k, v := range b {
		if underTest(k) {
			ks = append(ks, fmt.Sprintf("%s=%d", k, v))
		}
	}
	sort.Strings(ks)
	return strings.Join(ks, ";")
}

func diffBuckets(base, now map[string]int) []string {
	var out []string
	seen := map[string]bool{}
	for k := range base {
		seen[k] = true
	}
	for k := range now {
		seen[k] = true
	}
	for k := range seen {
		if underTest(k) && base[k] != now[k] {
			out = append(out, fmt.Sprintf("%+d %s", now[k]-base[k], strings.TrimPrefix(strings.TrimPrefix(k, pkgPrefix), "github.com/")))
		}
	}
	sort.Strings(out)
	return out
}

func regKeys(n *netceptor.Netceptor) []string {
	n.GetListenerLock().RLock()
	defer n.GetListenerLock().RUnlock()
	var ks []string
	for k := range n.GetListenerRegistry() {
		ks = append(ks, k)
	}
	sort.Strings(ks)
	return ks
}

// settle waits until registries and goroutine profile have not changed for `quiet`, at most `max`.
func settle(nodes []*netceptor.Netceptor, quiet, max time.Duration) (map[string]int, [][]string, bool) {
	snap := func() (string, map[string]int, [][]string) {
		b := buckets()
		var regs [][]string
		key := bucketsKey(b)
		for _, n := range nodes {
			r := regKeys(n)
			regs = append(regs, r)
			key += "|" + strings.Join(r, ",")
		}
		return key, b, regs
	}
	t0 := time.Now()
	lastKey, b, regs := snap()
	lastChange := time.Now()
	for {
		time.Sleep(50 * time.Millisecond)
		k, b2, r2 := snap()
		if k != lastKey {
			lastKey, lastChange = k, time.Now()
		}
		b, regs = b2, r2
		if time.Since(lastChange) >= quiet {
			return b, regs, true
		}
		if time.Since(t0) >= max {
			return b, regs, false
		}
	}
}

// ---------- TLS material that does not cost an RSA key per listener ----------

var (
	tlsOnce   sync.Once
	serverTLS *tls.Config
	clientTLS *tls.Config
)

func fastTLS() (*tls.Config, *tls.Config) {
	tlsOnce.Do(func() {
		key, err := ecdsa.GenerateKey(elliptic.P256(), rand.Reader)
		Must(err)
		tmpl := x509.Certificate{SerialNumber: big.NewInt(1), Subject: pkix.Name{CommonName: "verif"},
			NotBefore: time.Now().Add(-time.Hour), NotAfter: time.Now().Add(24 * time.Hour), DNSNames: []string{"verif"}}
		der, err := x509.CreateCertificate(rand.Reader, &tmpl, &tmpl, &key.PublicKey, key)
		Must(err)
		serverTLS = &tls.Config{Certificates: []tls.Certificate{{Certificate: [][]byte{der}, PrivateKey: key}}, MinVersion: tls.VersionTLS12}
		clientTLS = &tls.Config{InsecureSkipVerify: true, MinVersion: tls.VersionTLS12} //nolint:gosec
	})
	return serverTLS, clientTLS
}

// progress log: one line per step, flushed, so that the parent can say what a dead child was doing
type plog struct{ f *os.File }

func openLog(path string) *plog {
	f, err := os.OpenFile(path, os.O_CREATE|os.O_WRONLY|os.O_APPEND, 0o644)
	Must(err)
	return &plog{f}
}
func (p *plog) step(format string, a ...interface{}) {
	fmt.Fprintf(p.f, format+"\n", a...)
}

// newMesh builds a connected line of n real nodes.
func newMesh(n int) (*Mesh, []string, []*netceptor.Netceptor, bool) {
	m := NewMesh(FastConsts())
	names := []string{"alpha", "beta", "gamma"}[:n]
	var nodes []*netceptor.Netceptor
	for _, id := range names {
		nodes = append(nodes, m.AddNode(id))
	}
	want := map[string][]string{}
	for i := 0; i+1 < n; i++ {
		if _, err := m.Connect(names[i], names[i+1], 1); err != nil {
			return nil, nil, nil, false
		}
	}
	for i, a := range names {
		for j, b := range names {
			if i != j {
				want[a] = append(want[a], b)
			}
		}
	}
	ok := m.WaitRoutes(want, 10*time.Second)
	return m, names, nodes, ok
}

// stacksOf returns the stacks of the goroutines whose stack mentions one of the given words
// (what a hung Close was waiting for).
func stacksOf(words ...string) []string {
	var b bytes.Buffer
	_ = pprof.Lookup("goroutine").WriteTo(&b, 2)
	var out []string
	for _, blk := range strings.Split(b.String(), "\n\n") {
		for _, w := range words {
			if strings.Contains(blk, w) {
				var fns []string
				for _, l := range strings.Split(blk, "\n") {
					if !strings.HasPrefix(l, "\t") {
						if i := strings.LastIndex(l, "("); i > 0 {
							l = l[:i]
						}
						fns = append(fns, strings.TrimPrefix(strings.TrimPrefix(l, pkgPrefix), "github.com/quic-go/"))
					}
				}
				if len(fns) > 14 {
					fns = fns[:14]
				}
				out = append(out, strings.Join(fns, " < "))
				break
			}
		}
	}
	return out
}
