package main

// Well-formed notices about the victim's own sockets (C07, "wedge" half; oracle only — blocked
// goroutines are not part of the sequential Model/Proto.v).
//
// The victim is a real node that HAS state a notice can refer to: several established DIALLED
// stream connections to a well-behaved real neighbour (each owns an ephemeral socket that is
// subscribed to unreachable notices), one dialled connection that has been closed again, one dial
// that failed with a genuine notice, and a datagram listener whose owner subscribes to notices and
// reads them.  A hostile backend peer (scripted session, after its handshake) then sends BURSTS of
// well-formed data packets to the reserved service "unreach", each a syntactically perfect notice
// "<node>:<service> could not reach <node>:<service>: <problem>" about those sockets: matching
// and non-matching, for existing, closed and never existing sockets, with every problem text, in
// its own name and with a spoofed origin.  Ordinary operation produces at most one notice per
// connection; the quantifier dimension exercised here is "histories: many notices about one socket".
//
// Oracle (from the property text: "the receiving process keeps running, and afterwards still
// routes traffic and answers for its other, well-behaved peers"), after EVERY burst, each within
// a generous bound: the hostile session's own receive loop comes back for the next datagram; the
// victim can ping the neighbour; the victim can open a new datagram listener; a datagram sent by
// the neighbour is delivered to the victim's local listener; the neighbour's ping is answered;
// the victim can dial the neighbour's service anew and the stream echoes; at the end the
// neighbour can open a stream to a service ON the victim and a new scripted peer is admitted,
// routed and answered.  What a notice may legitimately do to the connection it names is NOT
// judged here.  Runs in a child process; a failed run is repeated from scratch before it counts.

import (
	"context"
	"encoding/json"
	"fmt"
	"io"
	"os"
	"os/exec"
	"strings"
	"sync/atomic"
	"time"

	. "verifharness/lib"

	"github.com/ansible/receptor/pkg/logger"
	"github.com/ansible/receptor/pkg/netceptor"
)

const noticeBound = 12 * time.Second // every "must happen" of this stage; normal values are milliseconds

type noticeBurst struct {
	Desc     string `json:"desc"`
	N        int    `json:"n"`
	Existing bool   `json:"existing"` // names a socket that exists on the victim
	Matching bool   `json:"matching"` // ... and the remote end and problem the socket's owner looks for
}

type noticesResult struct {
	Setup     string        `json:"setup_problem,omitempty"` // harness-level: the scenario could not be built
	Wedged    string        `json:"wedged,omitempty"`
	After     string        `json:"after_burst,omitempty"`
	Bursts    []noticeBurst `json:"bursts"`
	Notices   int           `json:"notices_sent"`
	Dialled   int           `json:"dialled_connections"`
	SeenLocal int64         `json:"notices_seen_by_local_subscriber"`
	ProbeMaxM int64         `json:"probe_max_ms"`
}

// within runs f and reports whether it returned (without error) inside the bound.
func within(bound time.Duration, f func() error) (time.Duration, error) {
	t0 := time.Now()
	ch := make(chan error, 1)
	go func() { ch <- f() }()
	select {
	case err := <-ch:
		return time.Since(t0), err
	case <-time.After(bound):
		return bound, fmt.Errorf("did not return within %s", bound)
	}
}

func echoLoop(li *netceptor.Listener) {
	for {
		c, err := li.Accept()
		if err != nil {
			return
		}
		go func() {
			_, _ = io.Copy(c, c)
			_ = c.Close()
		}()
	}
}

func echoOnce(c *netceptor.Conn, word string) error {
	_ = c.SetDeadline(time.Now().Add(noticeBound))
	if _, err := c.Write([]byte(word)); err != nil {
		return fmt.Errorf("write: %w", err)
	}
	buf := make([]byte, len(word))
	if _, err := io.ReadFull(c, buf); err != nil {
		return fmt.Errorf("read: %w", err)
	}
	if string(buf) != word {
		return fmt.Errorf("echo returned %q for %q", buf, word)
	}
	return nil
}

func svcOf(c *netceptor.Conn) string {
	a := c.LocalAddr().String() // "<node>:<service>"
	return a[strings.LastIndex(a, ":")+1:]
}

// noticesMain: <out.json> <seed> <bursts>
func noticesMain(args []string) {
	logger.SetGlobalQuietMode()
	var seed uint64
	var nBursts int
	fmt.Sscanf(args[1], "%d", &seed)
	fmt.Sscanf(args[2], "%d", &nBursts)
	r := NewRng(seed ^ 0xC07_1CE5)
	var res noticesResult
	write := func() {
		j, _ := json.Marshal(res)
		_ = os.WriteFile(args[0], j, 0o644)
	}
	giveUp := func(what string) { res.Setup = what; write(); os.Exit(0) }

	mesh := NewMesh(FastConsts())
	v, g := mesh.AddNode(selfID), mesh.AddNode(goodID)
	v.Logger.SetOutput(io.Discard)
	g.Logger.SetOutput(io.Discard)
	if _, err := mesh.Connect(selfID, goodID, 1.0); err != nil {
		giveUp("connect: " + err.Error())
	}
	if !mesh.WaitRoutes(map[string][]string{selfID: {goodID}, goodID: {selfID}}, 30*time.Second) {
		giveUp("victim and neighbour never learned routes to each other")
	}
	for _, s := range []string{"echo", "echo2"} {
		li, err := g.Listen(s, nil)
		if err != nil {
			giveUp("neighbour listen: " + err.Error())
		}
		go echoLoop(li)
	}
	liV, err := v.Listen("echoV", nil)
	if err != nil {
		giveUp("victim listen: " + err.Error())
	}
	go echoLoop(liV)
	// the victim's datagram listener; its owner subscribes to notices and reads them
	probe, err := v.ListenPacket("probe")
	if err != nil {
		giveUp("victim ListenPacket: " + err.Error())
	}
	got := make(chan string, 4096)
	go func() {
		buf := make([]byte, 4096)
		for {
			n, _, err := probe.ReadFrom(buf)
			if err != nil {
				return
			}
			got <- string(buf[:n])
		}
	}()
	probeDone := make(chan struct{})
	if ch := probe.SubscribeUnreachable(probeDone); ch != nil {
		go func() {
			for range ch {
				atomic.AddInt64(&res.SeenLocal, 1)
			}
		}()
	}
	gpc, err := g.ListenPacket("sender")
	if err != nil {
		giveUp("neighbour ListenPacket: " + err.Error())
	}
	dial := func(n *netceptor.Netceptor, node, svc string) (*netceptor.Conn, error) {
		ctx, cancel := context.WithTimeout(context.Background(), noticeBound)
		defer cancel()
		return n.DialContext(ctx, node, svc, nil)
	}
	// the victim's dialled connections
	type dconn struct {
		c         *netceptor.Conn
		eph, rsvc string
		closed    bool
	}
	var conns []*dconn
	for i, rsvc := range []string{"echo", "echo", "echo2", "echo"} {
		var c *netceptor.Conn
		_, err := within(2*noticeBound, func() (e error) {
			c, e = dial(v, goodID, rsvc)
			if e == nil {
				e = echoOnce(c, fmt.Sprintf("hello%d", i))
			}
			return e
		})
		if err != nil {
			giveUp(fmt.Sprintf("dial %d to %s:%s: %s", i, goodID, rsvc, err))
		}
		conns = append(conns, &dconn{c: c, eph: svcOf(c), rsvc: rsvc})
	}
	_ = conns[3].c.Close() // a closed connection (its socket outlives the stream)
	conns[3].closed = true
	res.Dialled = len(conns)
	// a dial that fails with a genuine notice from the neighbour (nobody listens there)
	if _, err := within(2*noticeBound, func() error {
		c, e := dial(v, goodID, "nosuch")
		if e == nil {
			_ = c.Close()
		}
		return nil
	}); err != nil {
		giveUp("a dial to a service nobody listens on " + err.Error())
	}

	// the hostile peer
	h := NewScriptSess()
	_ = v.AddBackend(&oneShot{h}, netceptor.BackendConnectionCost(1.0))
	h.queue <- goodHandshake(atkID)
	h.queue <- []byte{0xff}
	hSent := 2
	if !h.waitConsumed(hSent, noticeBound) {
		giveUp("hostile peer not admitted")
	}

	probes := func(k int, final bool) string {
		note := func(d time.Duration) {
			if d.Milliseconds() > res.ProbeMaxM {
				res.ProbeMaxM = d.Milliseconds()
			}
		}
		stuck := ""
		if !h.waitConsumed(hSent, noticeBound) {
			// the sender's own session is stuck inside the node; what the property is about is
			// everybody else, so the other probes still run and are reported with it
			stuck = fmt.Sprintf("the sending session's receive loop did not come back for the next datagram within %s; ", noticeBound)
		}
		d, err := within(noticeBound, func() error {
			ctx, cancel := context.WithTimeout(context.Background(), noticeBound-2*time.Second)
			defer cancel()
			_, _, e := v.Ping(ctx, goodID, 8)
			return e
		})
		note(d)
		if err != nil {
			return stuck + "the node cannot ping its well-behaved neighbour: " + err.Error()
		}
		d, err = within(noticeBound, func() error {
			pc, e := v.ListenPacket(fmt.Sprintf("np%d", k))
			if e == nil {
				_ = pc.Close()
			}
			return e
		})
		note(d)
		if err != nil {
			return stuck + "the node cannot open a new datagram listener: " + err.Error()
		}
		word := fmt.Sprintf("dgram-%d", k)
		d, err = within(noticeBound, func() error {
			if _, e := gpc.WriteTo([]byte(word), v.NewAddr(selfID, "probe")); e != nil {
				return fmt.Errorf("harness: neighbour WriteTo: %w", e)
			}
			for {
				select {
				case w := <-got:
					if w == word {
						return nil
					}
				case <-time.After(noticeBound):
					return fmt.Errorf("not delivered")
				}
			}
		})
		note(d)
		if err != nil {
			return stuck + "a datagram from the well-behaved neighbour is not delivered to the node's local listener: " + err.Error()
		}
		d, err = within(noticeBound, func() error {
			ctx, cancel := context.WithTimeout(context.Background(), noticeBound-2*time.Second)
			defer cancel()
			_, _, e := g.Ping(ctx, selfID, 8)
			return e
		})
		note(d)
		if err != nil {
			return stuck + "the well-behaved neighbour's ping is not answered: " + err.Error()
		}
		d, err = within(2*noticeBound, func() error {
			c, e := dial(v, goodID, "echo")
			if e != nil {
				return e
			}
			e = echoOnce(c, word)
			_ = c.Close()
			return e
		})
		note(d)
		if err != nil {
			return stuck + "the node cannot open a new stream to its well-behaved neighbour: " + err.Error()
		}
		if !final {
			if stuck != "" {
				return stuck + "the other probes passed"
			}
			return ""
		}
		d, err = within(2*noticeBound, func() error {
			c, e := dial(g, selfID, "echoV")
			if e != nil {
				return e
			}
			e = echoOnce(c, word)
			_ = c.Close()
			return e
		})
		note(d)
		if err != nil {
			return stuck + "the well-behaved neighbour cannot use a stream service on the node: " + err.Error()
		}
		if _, err = within(noticeBound, func() error {
			if !newPeerProbe(v, selfID, "late-comer") {
				return fmt.Errorf("refused")
			}
			return nil
		}); err != nil {
			return stuck + "a new well-behaved peer is not admitted, routed and answered: " + err.Error()
		}
		if stuck != "" {
			return stuck + "the other probes passed"
		}
		return ""
	}
	if w := probes(0, false); w != "" {
		giveUp("before any notice: " + w)
	}

	// the bursts
	problems := []string{netceptor.ProblemServiceUnknown, netceptor.ProblemExpiredInTransit, netceptor.ProblemRejected, "", "no route to node"}
	type target struct {
		desc                           string
		fromNode, fromSvc, toNode, toS string
		problem                        string
		existing, matching             bool
	}
	var pool []target
	for i, c := range conns {
		st := "established"
		if c.closed {
			st = "closed"
		}
		pool = append(pool,
			target{fmt.Sprintf("%s dialled connection %d: its remote end, service unknown", st, i), selfID, c.eph, goodID, c.rsvc, netceptor.ProblemServiceUnknown, true, true},
			target{fmt.Sprintf("%s dialled connection %d: its remote end, another problem", st, i), selfID, c.eph, goodID, c.rsvc, problems[1+r.Intn(len(problems)-1)], true, false},
			target{fmt.Sprintf("%s dialled connection %d: another remote service", st, i), selfID, c.eph, goodID, "other", netceptor.ProblemServiceUnknown, true, false},
			target{fmt.Sprintf("%s dialled connection %d: another remote node", st, i), selfID, c.eph, atkID, c.rsvc, netceptor.ProblemServiceUnknown, true, false},
			target{fmt.Sprintf("%s dialled connection %d's service on another node", st, i), goodID, c.eph, goodID, c.rsvc, netceptor.ProblemServiceUnknown, false, false})
	}
	for _, p := range problems {
		pool = append(pool, target{"local datagram listener with a reading subscriber: " + p, selfID, "probe", goodID, "sender", p, true, p == netceptor.ProblemServiceUnknown})
	}
	pool = append(pool,
		target{"stream listener's service", selfID, "echoV", goodID, "echo", netceptor.ProblemServiceUnknown, true, false},
		target{"a service nobody has", selfID, "zzzzzzzz", goodID, "echo", netceptor.ProblemServiceUnknown, false, false},
		target{"reserved service ping", selfID, "ping", goodID, "ping", netceptor.ProblemServiceUnknown, false, false},
		target{"reserved service unreach", selfID, "unreach", selfID, "unreach", netceptor.ProblemServiceUnknown, false, false},
		target{"empty names", "", "", "", "", netceptor.ProblemServiceUnknown, false, false})
	// the first bursts cover the states of a dialled connection; the rest is drawn from the pool
	order := []int{1, 2, 15, 20, 0, 5} // pool layout: connection i -> 5i (matching) .. 5i+4; 15 = the closed one; 20 = the datagram listener
	for _, i := range r.Perm(len(pool)) {
		order = append(order, i)
	}
	notice := func(t target, spoof bool, extra bool) []byte {
		m := map[string]interface{}{"FromNode": t.fromNode, "FromService": t.fromSvc, "ToNode": t.toNode, "ToService": t.toS, "Problem": t.problem}
		if extra {
			m["Unknown"] = []int{1, 2}
		}
		body, _ := json.Marshal(m)
		origin := atkID
		if spoof {
			origin = goodID
		}
		return dataPacket(5, nameHash(origin), nameHash(selfID), "unreach", "unreach", body)
	}
	for k := 0; k < nBursts && k < len(order); k++ {
		t := pool[order[k]]
		n := r.Range(8, 16)
		mixed := k%4 == 3 // interleave with notices about the other connections
		for i := 0; i < n; i++ {
			h.queue <- notice(t, i%3 == 2, i%5 == 4)
			hSent++
			if mixed {
				h.queue <- notice(pool[r.Intn(len(pool))], false, false)
				hSent++
			}
			if i%4 == 0 {
				time.Sleep(time.Duration(r.Intn(20)) * time.Millisecond)
			}
		}
		desc := t.desc
		if mixed {
			desc += " (interleaved with notices drawn from the whole pool)"
		}
		res.Bursts = append(res.Bursts, noticeBurst{Desc: desc, N: n, Existing: t.existing, Matching: t.matching})
		res.Notices = hSent - 2
		if w := probes(k+1, k+1 == nBursts || k+1 == len(order)); w != "" {
			res.Wedged, res.After = w, fmt.Sprintf("burst %d (%d notices about: %s)", k+1, n, desc)
			break
		}
	}
	write()
	os.Exit(0) // a wedged node cannot be shut down
}

func stageNotices(c *Ctx, im *Impl) {
	dir, err := os.MkdirTemp("", "c07-notices-")
	Must(err)
	defer os.RemoveAll(dir)
	bursts := 10
	if c.Thorough() {
		bursts = 40
	}
	run := func(tag string) (*noticesResult, string) {
		out := dir + "/" + tag + ".json"
		ctx, cancel := context.WithTimeout(context.Background(), 4*time.Minute)
		defer cancel()
		cmd := exec.CommandContext(ctx, os.Args[0], "notices", out, fmt.Sprint(c.Seed), fmt.Sprint(bursts))
		eb, _ := cmd.CombinedOutput()
		b, err := os.ReadFile(out)
		if err != nil {
			return nil, panicLine(string(eb))
		}
		var r noticesResult
		_ = json.Unmarshal(b, &r)
		return &r, ""
	}
	r, crash := run("first")
	if r != nil && (r.Wedged != "" || r.Setup != "") {
		// every verdict here rests on a wall-clock bound: repeat from scratch before it counts
		im.Hist("notices-rerun")
		r, crash = run("confirm")
	}
	im.Hist("notices-run")
	switch {
	case r == nil:
		im.Count("notices", true)
		im.Violate("notices about the node's own sockets: the node process died or produced no result: "+crash, "panic:notices", nil)
	case r.Setup != "":
		im.Extra["notices"] = r
		im.Violate("notices about the node's own sockets: the scenario could not be set up (twice): "+r.Setup, "harness:notices-setup", r)
	default:
		for i, b := range r.Bursts {
			im.Count(fmt.Sprintf("notice-burst %d %s", i, b.Desc), b.Existing)
			if b.Matching {
				im.Hist("notice-burst-matching")
			} else if b.Existing {
				im.Hist("notice-burst-existing-socket")
			} else {
				im.Hist("notice-burst-no-socket")
			}
		}
		im.Extra["notices"] = r
		if r.Wedged != "" {
			im.Violate(fmt.Sprintf("a connected peer sent bursts of well-formed 'unreach' notices about the node's own sockets (%d dialled connections, a closed one, a subscribed datagram listener); after %s: %s",
				r.Dialled, r.After, r.Wedged), "wedge:notices", r)
		}
	}
}
