package main

// C07 — no bytes from a backend peer can crash or wedge a node.
//
// Stage 1 (JSON differential): value trees of every shape, every field-type substitution in
//   routingUpdate and serviceAdvertisementFull, decoded by encoding/json into the real
//   (unexported) structs through the verif hooks and by Model/PJson.v on the same tree.
// Stage 2 (scripted peer): a real node in a CHILD process, a well-behaved peer B, and an
//   attacker session fed generated datagram sequences before and after the handshake; oracle:
//   child alive, every barrier passed, B's ping answered within 2 s, node not shut down;
//   correspondence: Model/Proto.v proto_run on the same sequence vs the observed session fate,
//   connections, own cost row, knownNodeInfo, advertisements, packets delivered locally.
// Stage 3 (real sockets): the same kinds of sequences through real TCP (framed) and UDP
//   listeners on localhost (oracle only).

import (
	"bytes"
	"encoding/hex"
	"encoding/json"
	"fmt"
	"os"
	"path/filepath"
	"sort"
	"strings"
	"time"

	. "verifharness/lib"

	"github.com/ansible/receptor/pkg/framer"
	"github.com/ansible/receptor/pkg/netceptor"
)

func main() {
	Main("C07", runC07, map[string]func([]string){"node": childMain, "churn": churnMain, "notices": noticesMain})
}

// ---------- stage 1 ----------

func coqRu(u netceptor.VerifRoutingUpdate) string {
	conns := "None"
	if u.Connections != nil {
		ks := make([]string, 0, len(u.Connections))
		for k := range u.Connections {
			ks = append(ks, k)
		}
		sort.Strings(ks)
		xs := make([]string, len(ks))
		for i, k := range ks {
			xs[i] = "(" + HxS(k) + ", " + coqDy(u.Connections[k]) + ")"
		}
		conns = "(Some " + CoqList(xs) + ")"
	}
	return fmt.Sprintf("(Build_rupd %s %s %d %d %s %s %d)", HxS(u.NodeID), HxS(u.UpdateID), u.UpdateEpoch, u.UpdateSequence,
		conns, HxS(u.ForwardingNode), u.SuspectedDuplicate)
}

func coqAd(ad *netceptor.ServiceAdvertisement, cancel bool) (string, bool) {
	if ad == nil {
		return fmt.Sprintf("(Build_advert false [] [] None 0 None None %s)", CoqBool(cancel)), true
	}
	tm := "None"
	if !ad.Time.IsZero() {
		if ad.Time.Year() < 1970 || ad.Time.Year() > 2261 {
			return "", false
		}
		tm = fmt.Sprintf("(Some %d)", ad.Time.UnixNano())
	}
	tags := "None"
	if ad.Tags != nil {
		ks := make([]string, 0, len(ad.Tags))
		for k := range ad.Tags {
			ks = append(ks, k)
		}
		sort.Strings(ks)
		xs := make([]string, len(ks))
		for i, k := range ks {
			xs[i] = "(" + HxS(k) + ", " + HxS(ad.Tags[k]) + ")"
		}
		tags = "(Some " + CoqList(xs) + ")"
	}
	cmds := "None"
	if ad.WorkCommands != nil {
		xs := make([]string, len(ad.WorkCommands))
		for i, w := range ad.WorkCommands {
			xs[i] = "(" + HxS(w.WorkType) + ", " + CoqBool(w.Secure) + ")"
		}
		cmds = "(Some " + CoqList(xs) + ")"
	}
	return fmt.Sprintf("(Build_advert true %s %s %s %d %s %s %s)", HxS(ad.NodeID), HxS(ad.Service), tm, ad.ConnType, tags, cmds, CoqBool(cancel)), true
}

func jsonCase(im *Impl, cf *CaseFile, r *Rng, which string, tree *J, kind string) {
	txt, parsed, err := reparse(tree, r)
	if err != nil {
		im.Violate("harness self-check: "+err.Error(), "harness-json-printer", map[string]string{"text": string(txt)})
		return
	}
	term, sup := parsed.Coq()
	im.Hist("json:" + which + ":" + kind)
	im.Count("json "+which+" "+string(txt), true)
	if which == "ru" {
		u, derr := netceptor.VerifDecodeRoutingUpdate(txt)
		if derr != nil {
			im.Hist("json:ru-result:error")
		} else {
			im.Hist("json:ru-result:ok")
		}
		if !sup {
			im.Hist("json:outside-model-language")
			return
		}
		out := "None"
		if derr == nil {
			out = "(Some " + coqRu(u) + ")"
		}
		cf.Add(fmt.Sprintf("CJson (CRu %s %s)", term, out), "json-decode routingUpdate "+string(txt))
		return
	}
	ad, cancel, derr := netceptor.VerifDecodeServiceAd(txt)
	switch {
	case derr != nil:
		im.Hist("json:ad-result:error")
	case ad == nil:
		im.Hist("json:ad-result:ok-embedded-nil")
	default:
		im.Hist("json:ad-result:ok")
	}
	if !sup {
		im.Hist("json:outside-model-language")
		return
	}
	out := "None"
	if derr == nil {
		t, ok := coqAd(ad, cancel)
		if !ok {
			im.Hist("json:outside-model-language")
			return
		}
		out = "(Some " + t + ")"
	}
	cf.Add(fmt.Sprintf("CJson (CAd %s %s)", term, out), "json-decode serviceAdvertisementFull "+string(txt))
}

func stageJSON(c *Ctx, im *Impl, cf *CaseFile) {
	r := c.Rng
	epoch := uint64(123456789)
	// exhaustive: every field of both structs x every value shape, alone and next to a valid rest
	for _, which := range []string{"ru", "ad"} {
		fields := ruFieldNames
		if which == "ad" {
			fields = adFieldNames
		}
		for _, f := range fields {
			for _, sh := range shapeList() {
				jsonCase(im, cf, r, which, JObjV(M(f, sh)), "field-x-shape")
				jsonCase(im, cf, r, which, JObjV(M(spellKey(r, f), sh)), "field-x-shape-respelled")
			}
		}
		for _, sh := range shapeList() {
			jsonCase(im, cf, r, which, sh, "top-level-shape")
		}
	}
	n := 350
	if c.Thorough() {
		n = 3000
	}
	for i := 0; i < n; i++ {
		jsonCase(im, cf, r, "ru", genStruct(r, ruFieldNames, ruWellTyped(epoch)), "generated")
		jsonCase(im, cf, r, "ad", genStruct(r, adFieldNames, adWellTyped), "generated")
		if i%4 == 0 {
			jsonCase(im, cf, r, "ru", genAny(r, 3), "any-json")
			jsonCase(im, cf, r, "ad", genAny(r, 3), "any-json")
		}
	}
}

// ---------- stage 2 ----------

type corpusEntry struct {
	Name     string   `json:"name"`
	Phase    string   `json:"phase"` // "pre" | "post"
	Datagram []string `json:"datagrams_hex"`
}

func loadCorpus() []corpusEntry {
	root := os.Getenv("VERIF_ROOT")
	if root == "" {
		root = "/verif"
	}
	var out []corpusEntry
	files, _ := filepath.Glob(filepath.Join(root, "corpus", "C07", "*.json"))
	sort.Strings(files)
	for _, f := range files {
		b, err := os.ReadFile(f)
		if err != nil {
			continue
		}
		var es []corpusEntry
		if json.Unmarshal(b, &es) == nil {
			out = append(out, es...)
		}
	}
	return out
}

func seqKey(ds [][]byte) string {
	var sb strings.Builder
	for _, d := range ds {
		sb.WriteString(hex.EncodeToString(d))
		sb.WriteByte('|')
	}
	return sb.String()
}

func stagePeer(c *Ctx, im *Impl, cf *CaseFile) {
	r := c.Rng
	epoch := uint64(0x6000000000 + r.Intn(1<<20))
	var cases []*c07Case
	add := func(phase string, ds []dgram, transport string) {
		cases = append(cases, newC07Case(len(cases), epoch, phase, ds, transport))
	}
	hs := dgram{msg(1, handshakeTree(atkID), nil), "handshake"}
	// corpus: the historical witnesses first
	for _, e := range loadCorpus() {
		var ds []dgram
		if e.Phase == "post" {
			ds = append(ds, hs)
		}
		for _, h := range e.Datagram {
			b, _ := hex.DecodeString(h)
			ds = append(ds, dgram{b, "corpus:" + e.Name})
		}
		add("corpus-"+e.Phase, ds, "")
	}
	// sweep: every length 0..40 x type bytes, both phases (type 3 ends a session: own cases)
	for _, phase := range []string{"pre", "post"} {
		fills := []string{"random"}
		if c.Thorough() {
			fills = []string{"zero", "random"}
		}
		for _, fill := range fills {
			for ty := 0; ty < 8; ty++ {
				if ty == 3 {
					continue
				}
				var ds []dgram
				if phase == "post" {
					ds = append(ds, hs)
				}
				for l := 0; l <= 40; l++ {
					var b []byte
					if l > 0 {
						b = make([]byte, l)
						if fill == "random" {
							b = r.Bytes(l)
						}
						b[0] = byte(ty)
						if ty == 7 {
							b[0] = byte(4 + r.Intn(252))
						}
					}
					ds = append(ds, dgram{b, "sweep-len-type"})
				}
				if phase == "pre" {
					ds = append(ds, hs) // the session must still be able to establish afterwards
				}
				add("sweep-"+phase, ds, "")
			}
		}
		for _, l := range []int{1, 2, 3, 36, 40} {
			var ds []dgram
			if phase == "post" {
				ds = append(ds, hs)
			}
			b := make([]byte, l)
			b[0] = 3
			ds = append(ds, dgram{b, "reject"}, hs)
			add("reject-"+phase, ds, "")
		}
	}
	// truncations of VALID data packets: correct header, both node hashes known to the node, at
	// every length 0..40, in the established phase (the length guard of translateDataToMessage
	// is the only thing between a 34- or 35-byte packet and the data[28:36] slice)
	for _, pk := range []struct{ from, to, fromSvc, toSvc string }{
		{atkID, selfID, "client", "probe"}, {atkID, selfID, "client", "ping"}, {atkID, selfID, "client", "unreach"},
		{atkID, selfID, "client", "nosuch"}, {selfID, selfID, "probe", "probe"}, {goodID, selfID, "client", "probe"},
		{atkID, goodID, "client", "svc"}, {selfID, goodID, "ping", "pingB"}, {"probe", selfID, "client", "probe"},
	} {
		full := dataPacket(5, nameHash(pk.from), nameHash(pk.to), pk.fromSvc, pk.toSvc, []byte("DATA"))
		ds := []dgram{hs}
		for l := 0; l <= len(full); l++ {
			ds = append(ds, dgram{append([]byte{}, full[:l]...), "valid-data-truncated"})
		}
		add("truncated-valid-data", ds, "")
		// and each of the two critical lengths on its own, as the first packet after the handshake
		for _, l := range []int{33, 34, 35, 36} {
			add("truncated-valid-data", []dgram{hs, {append([]byte{}, full[:l]...), "valid-data-truncated"}}, "")
		}
	}
	// every type byte once, both phases
	for _, phase := range []string{"pre", "post"} {
		for base := 0; base < 256; base += 32 {
			var ds []dgram
			if phase == "post" {
				ds = append(ds, hs)
			}
			for ty := base; ty < base+32; ty++ {
				if ty == 3 {
					continue
				}
				ds = append(ds, dgram{append([]byte{byte(ty)}, []byte(`{"NodeID":"q"}`)...), "all-type-bytes"})
			}
			add("types-"+phase, ds, "")
		}
	}
	// every field x shape substitution, in both structs, as datagrams after the handshake
	for _, ty := range []byte{1, 2} {
		fields := ruFieldNames
		if ty == 2 {
			fields = adFieldNames
		}
		for _, f := range fields {
			var ds []dgram
			ds = append(ds, hs)
			for _, sh := range shapeList() {
				var base *J
				if ty == 1 {
					base = ruFields{Node: "nodeZ", UID: fmt.Sprintf("s-%s-%d", f, len(ds)), Fwd: atkID, Epoch: 5, Seq: uint64(len(ds)), Conns: map[string]float64{selfID: 1}}.tree()
				} else {
					base = adTree("nodeZ", fmt.Sprintf("s%d", len(ds)), timeAt(len(ds)), false)
				}
				for i := range base.O {
					if base.O[i].Key == f {
						base.O[i].Val = sh
					}
				}
				ds = append(ds, dgram{msg(ty, base, r), "field-x-shape"})
			}
			add("substitution", ds, "")
		}
	}
	// handshake variants (C11 explores the admission policy; here: anything may come first)
	for _, id := range someIDs {
		add("handshake-variant", []dgram{{msg(1, handshakeTree(id), r), "handshake-variant"}, {genDataPacket(r), "data"}, hs}, "")
	}
	// self-origin / duplicate-node branch of handleRoutingUpdate, incl. the forged shutdown
	for i, f := range []ruFields{
		{Node: selfID, UID: "d1", Fwd: atkID, Epoch: epoch, Dup: 0},
		{Node: selfID, UID: "d2", Fwd: atkID, Epoch: epoch + 5, Dup: 0},
		{Node: selfID, UID: "d3", Fwd: atkID, Epoch: epoch - 5, Dup: 0},
		{Node: selfID, UID: "d4", Fwd: atkID, Epoch: epoch, Dup: epoch},
		{Node: selfID, UID: "d5", Fwd: atkID, Epoch: epoch - 5, Dup: epoch + 1},
		{Node: selfID, UID: "d6", Fwd: atkID, Epoch: epoch + 5, Dup: epoch},
		{Node: selfID, UID: "d7", Fwd: atkID, Epoch: epoch - 5, Dup: epoch},
	} {
		f.Conns = map[string]float64{}
		kind := "self-origin"
		if f.Dup == epoch && f.Epoch != epoch {
			kind = "self-origin-forged-duplicate"
		}
		_ = i
		add(kind, []dgram{hs, {msg(1, f.tree(), r), kind}, {genDataPacket(r), "data"}}, "")
	}
	// cost values of every sign and size in routing updates, incl. the negative-cost cycle that
	// made updateRoutingTable loop for ever under knownNodeLock (fixed by /repo 06678b3)
	{
		upd := func(node string, conns map[string]float64) dgram {
			f := ruFields{Node: node, UID: fmt.Sprintf("neg-%d-%s", len(cases), node), Fwd: atkID, Epoch: 5, Seq: uint64(len(cases)), Conns: conns}
			return dgram{msg(1, f.tree(), r), "route-extreme-cost"}
		}
		add("negative-cost-cycle", []dgram{hs, upd("nb", map[string]float64{atkID: -1, "nc": -1}), upd("nc", map[string]float64{"nb": -1}),
			upd("nd", map[string]float64{"nb": 1})}, "")
		add("negative-cost-cycle", []dgram{hs, upd(atkID, map[string]float64{selfID: 1, "nb": -5}), upd("nb", map[string]float64{atkID: -5}),
			upd("nd", map[string]float64{"nb": 1})}, "")
		for _, cost := range []float64{0, -1, -0.5, 1e300, 1e-300, 4503599627370496, 0.1} {
			add("extreme-costs", []dgram{hs, upd("nb", map[string]float64{atkID: cost, "nc": cost}), upd("nc", map[string]float64{"nb": cost, selfID: cost}),
				upd(atkID, map[string]float64{selfID: 1, "nb": cost})}, "")
		}
	}
	// advertisement histories: the same (node, service) newer / older / equal in time, withdrawn
	// and re-announced before and after the withdrawal's time (keep / replace / tombstone branches)
	{
		ad := func(t int, cancel bool) dgram {
			return dgram{msg(2, adTree("nodeZ", "svc", time.Unix(1700000000+int64(t), 0), cancel), r), "advert-history"}
		}
		for _, h := range [][]dgram{
			{ad(10, false), ad(20, false), ad(15, false), ad(20, false)},
			{ad(10, false), ad(20, true), ad(15, false), ad(20, false), ad(25, false)},
			{ad(10, true), ad(5, false), ad(10, false), ad(11, false), ad(11, true), ad(12, true), ad(11, false)},
			{ad(30, false), ad(30, true), ad(40, true), ad(35, false), ad(45, false), ad(45, true)},
		} {
			add("advert-history", append([]dgram{hs}, h...), "")
		}
		// duplicate-suspicion updates about a THIRD node whose epoch the victim knows / does not know
		ru := func(ep, seq, dup uint64, uid string) dgram {
			f := ruFields{Node: "nodeZ", UID: uid, Fwd: atkID, Epoch: ep, Seq: seq, Dup: dup, Conns: map[string]float64{"nodeY": 1}}
			return dgram{msg(1, f.tree(), r), "route-third-party-duplicate"}
		}
		add("third-party-duplicate", []dgram{hs, ru(5, 1, 0, "k1"), ru(9, 1, 5, "k2"), ru(9, 2, 0, "k3"), ru(12, 1, 7, "k4"), ru(9, 3, 0, "k5"), ru(12, 1, 9, "k6"), ru(12, 2, 0, "k7")}, "")
		add("third-party-duplicate", []dgram{hs, ru(9, 1, 5, "m1"), ru(5, 1, 0, "m2"), ru(5, 1, 0, "m2"), ru(4, 9, 0, "m3"), ru(5, 1, 0, "m4"), ru(5, 2, 0, "m5")}, "")
	}
	// sessions behind an allow-list and per-node costs (C11 owns admission; here: same bytes, other policy)
	for _, pol := range []SessSpec{
		{Cost: 2, HasAllowed: true, Allowed: []string{atkID, "nodeZ"}, NodeCost: map[string]float64{atkID: 0.5}},
		{Cost: 1, HasAllowed: true, Allowed: []string{"someone-else"}},
		{Cost: 4, NodeCost: map[string]float64{"nodeZ": 3}},
	} {
		for k := 0; k < 3; k++ {
			ds := []dgram{genDatagram(r, epoch, false), hs}
			direct := ruFields{Node: atkID, UID: fmt.Sprintf("pol%d", len(cases)), Fwd: atkID, Epoch: 7, Seq: 2, Conns: map[string]float64{selfID: []float64{0.5, 2, 4, 1}[r.Intn(4)]}}
			ds = append(ds, dgram{msg(1, direct.tree(), r), "route-plausible"})
			direct.Conns = map[string]float64{"nodeZ": 1}
			direct.UID += "b"
			ds = append(ds, dgram{msg(1, direct.tree(), r), "route-plausible"})
			for j := r.Intn(4); j > 0; j-- {
				ds = append(ds, genDatagram(r, epoch, true))
			}
			add("policy", ds, "")
			pol.Transport = ""
			cases[len(cases)-1].spec.Sessions[0] = pol
		}
	}
	// generated sequences
	n := 450
	if c.Thorough() {
		n = 5000
	}
	for i := 0; i < n; i++ {
		var ds []dgram
		phase := "mixed"
		for k := r.Intn(4); k > 0; k-- {
			ds = append(ds, genDatagram(r, epoch, false))
		}
		switch {
		case r.Chance(80):
			ds = append(ds, hs)
		case r.Chance(50):
			ds = append(ds, dgram{msg(1, handshakeTree(someIDs[r.Intn(len(someIDs))]), r), "handshake-variant"})
		default:
			phase = "pre-only"
		}
		for k := 1 + r.Intn(8); k > 0; k-- {
			ds = append(ds, genDatagram(r, epoch, true))
		}
		add(phase, ds, "")
	}
	// stage 3: real TCP / UDP listeners (oracle only)
	ns := 80 // 10 transports x (empty first; the crash witnesses; 6 generated mixes)
	if c.Thorough() {
		ns = 800
	}
	for i := 0; i < ns; i++ {
		trs := []string{"tcp", "udp", "tls", "ws", "wss", "tcp-dial", "udp-dial", "ws-dial", "ext", "extws"}
		tr := trs[i%len(trs)]
		var ds []dgram
		switch i / len(trs) {
		case 0:
			ds = []dgram{{[]byte{}, "empty"}}
		case 1:
			full := dataPacket(5, nameHash(atkID), nameHash(selfID), "client", "probe", []byte("DATA"))
			ds = []dgram{hs, {[]byte{}, "empty"}, {[]byte("\x02{\"Cancel\":true}"), "advert-no-content"}, {[]byte("\x02null"), "advert-no-content"},
				{dataPacket(30, nameHash(selfID), nameHash(selfID), "ping", "ping", nil), "ping-loop"}, {full[:34], "valid-data-truncated"},
				{full[:35], "valid-data-truncated"}, {full, "data"}}
		default:
			for k := r.Intn(3); k > 0; k-- {
				ds = append(ds, genDatagram(r, epoch, false))
			}
			ds = append(ds, hs)
			for k := 1 + r.Intn(8); k > 0; k-- {
				ds = append(ds, genDatagram(r, epoch, true))
			}
		}
		add("socket-"+tr, ds, tr)
	}

	// below the datagram level: hostile websocket frames and plain bytes into a TLS listener
	hsb := msg(1, handshakeTree(atkID), nil)
	for _, tr := range []string{"ws", "ws-dial", "extws"} {
		for k, steps := range [][]Step{
			{{Op: "send", Data: hsb, WSType: 1}, {Op: "send", Data: []byte{}, WSType: 1}},                                       // text messages
			{{Op: "send", Data: []byte("p"), WSType: 9}, {Op: "send", Data: hsb}, {Op: "send", Data: []byte("q"), WSType: 10}},  // ping, pong around the handshake
			{{Op: "send", Data: hsb}, {Op: "send", Data: []byte{3, 0xe8}, WSType: 8}, {Op: "send", Data: []byte{}, PauseMs: 5}}, // close frame, then more
			{{Op: "raw", Data: []byte{0x82, 0xff, 0xff, 0xff, 0xff, 0xff, 0xff, 0xff, 0xff, 0xff, 1, 2, 3, 4}}},                 // 2^64-1 byte frame announced
			{{Op: "raw", Data: []byte{0x82, 0x00}}, {Op: "raw", Data: []byte{0x82, 0x80, 0, 0, 0, 0}}},                          // unmasked / masked empty binary frames
			{{Op: "send", Data: hsb}, {Op: "raw", Data: []byte{0x8f, 0x80, 1, 2, 3, 4}}, {Op: "raw", Data: r.Bytes(40)}},        // reserved opcode, garbage
			{{Op: "raw", Data: []byte{0x02, 0x81, 0, 0, 0, 0, 1}}, {Op: "hangup"}},                                              // unfinished fragment, then gone
		} {
			cs := &c07Case{phase: "wsframes-" + tr, kinds: []string{"websocket-frames"}, dgrams: [][]byte{[]byte(fmt.Sprintf("%s/frames-%d", tr, k))}}
			cs.spec = CaseSpec{ID: len(cases), NodeID: selfID, Epoch: epoch, GoodPeer: goodID, Sessions: []SessSpec{{Cost: 1, Transport: tr}}, SettleMs: 40, Steps: steps}
			cases = append(cases, cs)
		}
	}
	for k, steps := range [][]Step{
		{{Op: "raw", Data: r.Bytes(64)}},
		{{Op: "raw", Data: []byte{0x16, 0x03, 0x01, 0x02, 0x00, 0x01, 0x00, 0x01, 0xfc, 0x03, 0x03}}, {Op: "hangup"}}, // ClientHello cut short
		{{Op: "raw", Data: []byte("GET / HTTP/1.1\r\nHost: x\r\n\r\n")}},
		{{Op: "raw", Data: []byte{0, 0}}, {Op: "raw", Data: append([]byte{byte(len(hsb)), byte(len(hsb) >> 8)}, hsb...)}}, // a plain receptor peer
		{{Op: "raw", Data: []byte{0x15, 0x03, 0x03, 0x00, 0x02, 0x02, 0x28}}},                                             // a TLS alert first
	} {
		cs := &c07Case{phase: "tlsraw", kinds: []string{"plain-bytes-into-tls"}, dgrams: [][]byte{[]byte(fmt.Sprintf("tlsraw/%d", k))}}
		cs.spec = CaseSpec{ID: len(cases), NodeID: selfID, Epoch: epoch, GoodPeer: goodID, Sessions: []SessSpec{{Cost: 1, Transport: "tlsraw"}}, SettleMs: 40, Steps: steps}
		cases = append(cases, cs)
	}
	framerCases(r, epoch, c.Thorough(), func(cs *c07Case) {
		cs.spec.ID = len(cases)
		cases = append(cases, cs)
	})

	specs := make([]CaseSpec, len(cases))
	for i, cs := range cases {
		specs[i] = cs.spec
	}
	dir, err := os.MkdirTemp("", "c07-run-")
	Must(err)
	defer os.RemoveAll(dir)
	res, reruns := RunCasesConfirmed(dir, specs, 8, 8)
	im.Extra["timing_suspects_rerun_alone"] = reruns

	for i, cs := range cases {
		o := res[i]
		transport := cs.spec.Sessions[0].Transport
		im.Hist("peer:" + cs.phase)
		for _, k := range cs.kinds {
			im.Hist("datagram:" + k)
		}
		im.Count("peer "+transport+" "+seqKey(cs.dgrams), len(cs.dgrams) > 1)
		replay := map[string]interface{}{"phase": cs.phase, "transport": transport, "epoch": cs.spec.Epoch,
			"datagrams_hex": hexList(cs.dgrams), "kinds": cs.kinds}
		if strings.HasPrefix(cs.phase, "framer-") || strings.HasPrefix(cs.phase, "wsframes-") || cs.phase == "tlsraw" {
			replay["stream_case"] = string(cs.dgrams[0])
			delete(replay, "datagrams_hex")
		}
		if o == nil {
			im.Violate("harness: no observation for a case", "harness-no-observation", replay)
			continue
		}
		if i < 3 {
			im.Sample(map[string]interface{}{"case": replay, "observed": o})
		}
		switch {
		case o.Crashed:
			site := o.CrashText
			sig := "panic"
			if j := strings.Index(site, " at "); j >= 0 {
				sig = "panic:" + site[j+4:]
			}
			im.Violate("node process died: "+o.CrashText, sig, replay)
			continue
		case o.Err != "":
			im.Violate("harness: "+o.Err, "harness-error", replay)
			continue
		}
		if strings.HasPrefix(o.Wedged, "status:") {
			im.Violate("node wedged: "+o.Wedged, "wedge:status", replay)
		} else if o.Wedged != "" {
			im.Violate("receive loop wedged: "+o.Wedged, "wedge:session-loop", replay)
		}
		if o.Done {
			sig := "peer-induced-shutdown"
			im.Violate("the node shut itself down (NetceptorDone closed) after datagrams from a peer", sig, replay)
		} else if !o.GoodPing {
			im.Violate(fmt.Sprintf("well-behaved peer's ping not answered within 2 s after the sequence (waited %d ms)", o.GoodMs), "wedge:good-peer-ping", replay)
		} else if !o.NewPeer && o.Wedged == "" {
			im.Violate("after the sequence a new well-behaved peer is not admitted, routed and answered within 2 s each", "wedge:new-peer", replay)
		}
		if transport != "" {
			im.Hist("socket-cases")
			continue
		}
		term, ok, bad := cs.protoCaseTerm(o)
		if bad != "" {
			im.Violate("harness self-check: "+bad, "harness-json-scanner", replay)
			continue
		}
		if !ok {
			im.Hist("peer:outside-model-language")
			continue
		}
		switch {
		case o.Sess[0].Closed && o.Sess[0].Reject:
			im.Hist("session-fate:rejected")
		case o.Sess[0].Closed:
			im.Hist("session-fate:closed")
		default:
			im.Hist("session-fate:open")
		}
		lbl, _ := json.Marshal(replay)
		cf.Add("CProto "+term, "scripted-session "+string(lbl))
	}
}

// ---------- stream framing (pkg/framer: TCP backend and ExternalBackend over a net.Conn) ----------

// stageFramerSweep: white box, every one of the 65536 header values on the real framer, with no
// tail, a tail shorter than announced, and a sufficient tail followed by another frame.  Oracle:
// never a panic; a message is ready iff the announced number of bytes has arrived; GetMessage
// returns exactly the announced bytes and leaves exactly the rest.  (Model/Proto.v frame_pop
// computes the announced length in N; this is the check that the implementation's 16-bit
// arithmetic agrees with it on all header values.)
func stageFramerSweep(c *Ctx, im *Impl) {
	pattern := make([]byte, 65536+8)
	for i := range pattern {
		pattern[i] = byte(i*7 + 3)
	}
	bad := 0
	try := func(h int, what string, f func() string) {
		defer func() {
			if r := recover(); r != nil && bad < 8 {
				bad++
				im.Violate(fmt.Sprintf("framer panics on header %02x %02x (announced length %d), %s: %v", h&0xff, h>>8, h, what, r),
					"framer:panic", map[string]interface{}{"header": h, "tail": what})
			}
		}()
		if msg := f(); msg != "" && bad < 8 {
			bad++
			im.Violate(fmt.Sprintf("framer, header %02x %02x (announced length %d), %s: %s", h&0xff, h>>8, h, what, msg),
				"framer:wrong-frame", map[string]interface{}{"header": h, "tail": what})
		}
	}
	for h := 0; h < 65536; h++ {
		hdr := []byte{byte(h), byte(h >> 8)}
		im.Count(fmt.Sprintf("framer-header %d", h), true)
		try(h, "no tail", func() string {
			f := framer.New()
			f.RecvData(hdr[:1])
			if f.MessageReady() {
				return "ready after one header byte"
			}
			f.RecvData(hdr[1:])
			m, err := f.GetMessage()
			if h == 0 {
				if err != nil || len(m) != 0 {
					return fmt.Sprintf("empty frame not returned as an empty message (err=%v len=%d)", err, len(m))
				}
				return ""
			}
			if f.MessageReady() || err == nil {
				return "a message is ready although no byte of it has arrived"
			}
			return ""
		})
		if h > 0 {
			k := h - 1
			if k > 9 {
				k = 9
			}
			try(h, "short tail", func() string {
				f := framer.New()
				f.RecvData(append(append([]byte{}, hdr...), pattern[:k]...))
				if f.MessageReady() {
					return fmt.Sprintf("ready with %d of %d bytes", k, h)
				}
				if _, err := f.GetMessage(); err == nil {
					return fmt.Sprintf("GetMessage succeeds with %d of %d bytes", k, h)
				}
				return ""
			})
		}
		try(h, "sufficient tail + next frame", func() string {
			f := framer.New()
			f.RecvData(hdr)
			f.RecvData(pattern[:h])
			f.RecvData([]byte{1, 0, 'Z'})
			if !f.MessageReady() {
				return "not ready although the announced bytes have arrived"
			}
			m, err := f.GetMessage()
			if err != nil || len(m) != h || !bytes.Equal(m, pattern[:h]) {
				return fmt.Sprintf("GetMessage returns %d bytes (err=%v), announced %d", len(m), err, h)
			}
			m2, err := f.GetMessage()
			if err != nil || string(m2) != "Z" {
				return fmt.Sprintf("the following frame is not intact: %q err=%v", m2, err)
			}
			if f.MessageReady() {
				return "ready on an empty buffer"
			}
			return ""
		})
	}
	im.Hist("framer-sweep-headers-65536")
}

// framerCases: frame headers at and around every boundary of the 16-bit length, over the real
// TCP listener and over ExternalBackend (both go through pkg/framer), before the handshake,
// after it, glued to the end of another frame and split between two writes; each alone,
// followed by fewer bytes than announced, by exactly as many, and by more.
func framerCases(r *Rng, epoch uint64, thorough bool, add func(cs *c07Case)) {
	frame := func(b []byte) []byte { return append([]byte{byte(len(b)), byte(len(b) >> 8)}, b...) }
	hsFrame := frame(msg(1, handshakeTree(atkID), nil))
	lens := []int{0, 1, 2, 0x7ffe, 0x7fff, 0x8000, 0x8001, 0xfffc, 0xfffd, 0xfffe, 0xffff}
	for i := 0; i < 4; i++ {
		lens = append(lens, 0xff00+r.Intn(256))
	}
	id := 0
	for _, tr := range []string{"tcp", "ext"} {
		for _, phase := range []string{"pre", "post", "glued", "split"} {
			for _, l := range lens {
				for _, tail := range []string{"alone", "short", "exact", "more"} {
					if tail == "short" && l == 0 {
						continue
					}
					if !thorough && l >= 0x7ffe && l < 0xfffc && (phase == "glued" || phase == "split") && tail != "exact" {
						continue // quick tier: the mid-range lengths in two phases only
					}
					cs := &c07Case{phase: "framer-" + tr + "-" + phase}
					cs.spec = CaseSpec{NodeID: selfID, Epoch: epoch, GoodPeer: goodID, Sessions: []SessSpec{{Cost: 1, Transport: tr}}, SettleMs: 40}
					hdr := []byte{byte(l), byte(l >> 8)}
					fill := 0
					switch tail {
					case "short":
						fill = l - 1
						if fill > 5 {
							fill = 5 + r.Intn(l-5)
						}
					case "exact":
						fill = l
					case "more":
						fill = l
					}
					var steps []Step
					switch phase {
					case "post":
						steps = append(steps, Step{Op: "raw", Data: hsFrame, PauseMs: 5})
						steps = append(steps, Step{Op: "raw", Data: hdr, Fill: fill})
					case "glued":
						steps = append(steps, Step{Op: "raw", Data: append(frame([]byte{0xfe, 1, 2, 3}), hdr...), Fill: fill})
					case "split":
						steps = append(steps, Step{Op: "raw", Data: hdr[:1], PauseMs: 5})
						steps = append(steps, Step{Op: "raw", Data: hdr[1:], Fill: fill})
					default:
						steps = append(steps, Step{Op: "raw", Data: hdr, Fill: fill})
					}
					if tail == "more" {
						steps = append(steps, Step{Op: "raw", Data: hsFrame, PauseMs: 2}, Step{Op: "raw", Data: frame([]byte{})})
					}
					cs.spec.Steps = steps
					cs.kinds = []string{fmt.Sprintf("frame-header-%s", tail)}
					cs.dgrams = [][]byte{[]byte(fmt.Sprintf("%s/%s/len=%d/%s/fill=%d", tr, phase, l, tail, fill))}
					id++
					add(cs)
				}
			}
		}
	}
}

func hexList(ds [][]byte) []string {
	o := make([]string, len(ds))
	for i, d := range ds {
		o[i] = hex.EncodeToString(d)
	}
	return o
}

func runC07(c *Ctx) {
	im := NewImpl("C07", c.Seed, c.Tier)
	im.Rule = "stage 1: JSON value trees (every field of routingUpdate/serviceAdvertisementFull x 37 value shapes, respelled keys, generated objects with unknown/duplicate members, arbitrary JSON) decoded by encoding/json into the real structs vs Model/PJson.v; stage 2: datagram sequences (corpus witnesses; every length 0..40 x type byte x phase; all 256 type bytes; field x shape substitutions; self-origin/duplicate updates; generated mixes of empty/random/garbage/data/route/advert datagrams before and after the handshake) played by a scripted peer to a real node in a child process, plus the same over real TCP and UDP listeners; connection churn: 6 peers (4 scripted, 2 real TCP) x 250 rounds of connect/handshake/messages of every kind/reject/hang-up beside a neighbour sending routing updates every 5 ms to a node with a 20 ms route-update period and a peer streaming ~400 updates/s with ever newer epochs (third-party and own origin, restarting sequences, changing lists, duplicate notices) for at least 2.5 s, liveness probed during and after; notices: a victim with 4 dialled stream connections to a real neighbour (one closed again), a failed dial and a datagram listener whose owner reads notices; a scripted peer sends 10 (thorough 40) bursts of 8-16 well-formed data packets to the reserved service unreach, each burst about one target (per dialled connection: its remote end with service unknown / another problem / another remote service / another remote node / the same service on another node; the datagram listener x 5 problem texts; a stream listener, a missing service, reserved services, empty names), own and spoofed origin, every fourth burst interleaved with notices drawn from the whole pool; first six bursts fixed (non-matching, closed, listener, matching x2), rest a seeded permutation; after every burst: session barrier, victim pings neighbour, new ListenPacket, neighbour datagram delivered locally, neighbour ping answered, new dial + echo (12 s bounds, failed run repeated from scratch); non-trivial = the burst names a socket that exists on the victim; stream framing: all 65536 frame-header values on the real pkg/framer (no tail / short tail / sufficient tail + next frame), and frame headers 0,1,2,0x7ffe..0x8001,0xfffc..0xffff,random ff.. alone/short/exact/more over the TCP listener and ExternalBackend before, after, glued to and split across the handshake; non-trivial = more than the trailing no-op; distinct by transport and datagram bytes"
	cf := &CaseFile{Dir: c.Out, Prop: "C07", Imports: []string{"Model.Proto"}, CaseType: "c07_case", CheckFn: "c07_check", PerShard: 120}
	stageJSON(c, im, cf)
	stageFramerSweep(c, im)
	stageChurn(c, im)
	stageNotices(c, im)
	stagePeer(c, im, cf)
	Must(cf.Write())
	Must(im.Write(c.Out))
}
