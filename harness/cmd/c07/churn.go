package main

// Connection churn (C07, "wedge" half; oracle only — the lock discipline of the node is not part
// of Model/Proto.v): several scripted peers connect, handshake, send a few messages of every
// kind including a rejection, and hang up, in a tight loop, over scripted channel sessions and
// over a real TCP listener, while a well-behaved neighbour keeps exchanging routing updates with
// a node whose route-update period is 20 ms (sendRoutingUpdate runs all the time) and a third,
// established peer streams several hundred routing updates per second whose epochs keep moving
// forward (prompt routing-table recalculations all the time).  Liveness is
// judged DURING the churn and after it: Status() answers within 3 s, the neighbour's ping is
// answered within 2 s, a new peer is admitted, routed and answered.  Runs in a child process.

import (
	"context"
	"encoding/json"
	"fmt"
	"io"
	"net"
	"os"
	"os/exec"
	"sync"
	"sync/atomic"
	"time"

	. "verifharness/lib"

	"github.com/ansible/receptor/pkg/backends"
	"github.com/ansible/receptor/pkg/logger"
	"github.com/ansible/receptor/pkg/netceptor"
)

type churnResult struct {
	Rounds     int64  `json:"rounds"`
	Wedged     string `json:"wedged,omitempty"`
	During     bool   `json:"during"` // the failure was seen while the churn was running
	NotClosed  int64  `json:"sessions_not_closed"`
	StatusMaxM int64  `json:"status_max_ms"`
	PingMaxMs  int64  `json:"ping_max_ms"`
	Streamed   int64  `json:"epoch_updates_streamed"`
}

// churnMain: <out.json> <rounds-per-peer> <budget-ms>
func churnMain(args []string) {
	logger.SetGlobalQuietMode()
	var rounds, budgetMs int
	fmt.Sscanf(args[1], "%d", &rounds)
	fmt.Sscanf(args[2], "%d", &budgetMs)
	ctx, cancel := context.WithCancel(context.Background())
	defer cancel()
	n := netceptor.NewWithConsts(ctx, selfID, 16384, 20*time.Millisecond, time.Hour, time.Hour, 30, time.Hour)
	n.Logger.SetOutput(io.Discard)
	pc, _ := n.ListenPacket("probe")
	go func() {
		buf := make([]byte, 4096)
		for {
			if _, _, err := pc.ReadFrom(buf); err != nil {
				return
			}
		}
	}()
	var res churnResult
	var resMu sync.Mutex
	fail := func(what string, during bool) {
		resMu.Lock()
		if res.Wedged == "" {
			res.Wedged, res.During = what, during
		}
		resMu.Unlock()
	}
	failed := func() bool { resMu.Lock(); defer resMu.Unlock(); return res.Wedged != "" }
	write := func() {
		resMu.Lock()
		j, _ := json.Marshal(res)
		resMu.Unlock()
		_ = os.WriteFile(args[0], j, 0o644)
	}
	// the well-behaved neighbour
	good := NewScriptSess()
	_ = n.AddBackend(&oneShot{good}, netceptor.BackendConnectionCost(1.0))
	good.queue <- goodHandshake(goodID)
	good.queue <- []byte{0xff}
	if !good.waitConsumed(2, barrierTimeout) {
		fail("harness: neighbour not admitted", false)
		write()
		return
	}
	for i := 0; i < 400; i++ {
		if _, ok := n.Status().RoutingTable[goodID]; ok {
			break
		}
		time.Sleep(5 * time.Millisecond)
	}
	stop := make(chan struct{})
	started := time.Now()
	var bg sync.WaitGroup
	pingOK := func(tag string, limit time.Duration) (time.Duration, bool) {
		t0 := time.Now()
		good.queue <- dataPacket(5, nameHash(goodID), nameHash(selfID), tag, "ping", nil)
		want := string(fixed8("ping")) + string(fixed8(tag))
		for time.Since(t0) < limit {
			for _, m := range good.Sent() {
				if len(m) >= 36 && m[0] == 0 && string(m[20:36]) == want {
					return time.Since(t0), true
				}
			}
			time.Sleep(2 * time.Millisecond)
		}
		return time.Since(t0), false
	}
	statusOK := func(limit time.Duration) (time.Duration, bool) {
		t0 := time.Now()
		done := make(chan struct{})
		go func() { _ = n.Status(); close(done) }()
		select {
		case <-done:
			return time.Since(t0), true
		case <-time.After(limit):
			return limit, false
		}
	}
	// neighbour traffic: routing updates all the time
	bg.Add(1)
	go func() {
		defer bg.Done()
		for seq := uint64(2); ; seq++ {
			select {
			case <-stop:
				return
			case <-time.After(5 * time.Millisecond):
			}
			f := ruFields{Node: goodID, UID: fmt.Sprintf("g%d", seq), Fwd: goodID, Epoch: 1, Seq: seq, Conns: map[string]float64{selfID: 1, fmt.Sprintf("far%d", seq%7): 1}}
			good.queue <- msg(1, f.tree(), nil)
		}
	}()
	// an established peer streaming routing updates whose epochs keep moving forward: for
	// third-party origins and for itself, sequence numbers restarting, connection lists changing
	// and unchanged, duplicate notices about the previous epoch
	streamer := NewScriptSess()
	_ = n.AddBackend(&oneShot{streamer}, netceptor.BackendConnectionCost(1.0))
	streamer.queue <- goodHandshake("streamer")
	streamer.queue <- []byte{0xff}
	streamer.waitConsumed(2, barrierTimeout)
	var streamed int64
	bg.Add(1)
	go func() {
		defer bg.Done()
		epoch := uint64(10)
		for k := 0; ; k++ {
			select {
			case <-stop:
				return
			case <-time.After(2 * time.Millisecond):
			}
			origin := []string{"o0", "o1", "o2", "streamer", "o3"}[k%5]
			if k%3 == 0 {
				epoch++
			}
			f := ruFields{Node: origin, UID: fmt.Sprintf("s%d", k), Fwd: "streamer", Epoch: epoch + uint64(k%5), Seq: uint64(1 + k%4),
				Conns: map[string]float64{"streamer": 1}}
			if origin == "streamer" {
				f.Conns = map[string]float64{selfID: 1}
			}
			if k%2 == 0 {
				f.Conns[fmt.Sprintf("leaf%d", k%9)] = 1 // a changed connection list
			}
			if k%11 == 0 && origin != "streamer" {
				f.Dup = f.Epoch - 1 // "the node with the previous epoch is a duplicate"
			}
			streamer.queue <- msg(1, f.tree(), nil)
			atomic.AddInt64(&streamed, 1)
		}
	}()
	// liveness probes DURING the churn
	bg.Add(1)
	go func() {
		defer bg.Done()
		for k := 0; ; k++ {
			select {
			case <-stop:
				return
			case <-time.After(40 * time.Millisecond):
			}
			d, ok := statusOK(3 * time.Second)
			resMu.Lock()
			if d.Milliseconds() > res.StatusMaxM {
				res.StatusMaxM = d.Milliseconds()
			}
			resMu.Unlock()
			if !ok {
				fail("during the churn Status() did not return within 3 s", true)
				return
			}
			d, ok = pingOK(fmt.Sprintf("d%d", k%100000), 2*time.Second)
			resMu.Lock()
			if d.Milliseconds() > res.PingMaxMs {
				res.PingMaxMs = d.Milliseconds()
			}
			resMu.Unlock()
			if !ok {
				fail("during the churn the well-behaved neighbour's ping was not answered within 2 s", true)
				return
			}
		}
	}()
	// the churning peers
	tcpLi, err := backends.NewTCPListener("127.0.0.1:0", nil, n.Logger)
	if err == nil {
		err = n.AddBackend(tcpLi, netceptor.BackendConnectionCost(1.0))
	}
	if err != nil {
		fail("harness: tcp listener: "+err.Error(), false)
	}
	script := func(id string, round int) [][]byte {
		up := ruFields{Node: "z" + id, UID: fmt.Sprintf("%s-%d", id, round), Fwd: id, Epoch: 4, Seq: uint64(round + 1), Conns: map[string]float64{id: 1}}
		return [][]byte{
			msg(1, handshakeTree(id), nil),
			dataPacket(5, nameHash(id), nameHash(selfID), "c", "probe", []byte("x")),
			msg(2, adTree(id, "svc", time.Unix(1700000000+int64(round), 0), round%3 == 0), nil),
			msg(1, up.tree(), nil),
			{},
			{0xfe, 1, 2},
			dataPacket(5, nameHash(id), nameHash(goodID), "c", "svc", []byte("fwd")),
			{3},
		}
	}
	deadline := time.Now().Add(time.Duration(budgetMs) * time.Millisecond)
	var cw sync.WaitGroup
	for p := 0; p < 6; p++ {
		cw.Add(1)
		go func(p int) {
			defer cw.Done()
			id := fmt.Sprintf("churn%d", p)
			for r := 0; r < rounds && time.Now().Before(deadline) && !failed(); r++ {
				msgs := script(id, r)
				if p < 4 { // scripted channel session
					s := NewScriptSess()
					_ = n.AddBackend(&oneShot{s}, netceptor.BackendConnectionCost(1.0))
					for _, m := range msgs {
						s.queue <- m
					}
					if r%2 == 0 {
						s.waitConsumed(len(msgs), time.Second)
					}
					s.Hangup()
					if !s.waitClosed(3 * time.Second) {
						atomic.AddInt64(&res.NotClosed, 1)
					}
				} else { // real TCP
					c, err := net.DialTimeout("tcp", tcpLi.GetAddr(), 2*time.Second)
					if err != nil {
						continue
					}
					sp := &sockPeer{kind: "tcp", conn: c}
					sp.reader()
					for _, m := range msgs {
						sp.send(m, 0)
					}
					if r%2 == 0 {
						for k := 0; k < 200 && !sp.Obs().Closed; k++ {
							time.Sleep(time.Millisecond)
						}
					}
					sp.hangup()
				}
				atomic.AddInt64(&res.Rounds, 1)
			}
		}(p)
	}
	cw.Wait()
	// the update stream and the probes run for at least 2.5 s
	for t0 := time.Now(); !failed() && time.Since(t0) < 5*time.Second && (time.Since(started) < 2500*time.Millisecond || atomic.LoadInt64(&streamed) < 600); {
		time.Sleep(20 * time.Millisecond)
	}
	resMu.Lock()
	res.Streamed = atomic.LoadInt64(&streamed)
	resMu.Unlock()
	close(stop)
	bg.Wait()
	// ... and after it
	if !failed() {
		if _, ok := statusOK(4 * time.Second); !ok {
			fail("after the churn Status() does not return within 4 s", false)
		} else if _, ok := pingOK("after", 2*time.Second); !ok {
			fail("after the churn the well-behaved neighbour's ping is not answered within 2 s", false)
		} else if !newPeerProbe(n, selfID, "late-comer") {
			fail("after the churn a new well-behaved peer is not admitted, routed and answered", false)
		}
	}
	write()
	os.Exit(0) // a wedged node cannot be shut down
}

func stageChurn(c *Ctx, im *Impl) {
	dir, err := os.MkdirTemp("", "c07-churn-")
	Must(err)
	defer os.RemoveAll(dir)
	rounds, budget := 250, 7000
	if c.Thorough() {
		rounds, budget = 2500, 60000
	}
	run := func(tag string) (*churnResult, string) {
		out := dir + "/" + tag + ".json"
		ctx, cancel := context.WithTimeout(context.Background(), time.Duration(budget+25000)*time.Millisecond)
		defer cancel()
		cmd := exec.CommandContext(ctx, os.Args[0], "churn", out, fmt.Sprint(rounds), fmt.Sprint(budget))
		var eb []byte
		eb, _ = cmd.CombinedOutput()
		b, err := os.ReadFile(out)
		if err != nil {
			return nil, panicLine(string(eb))
		}
		var r churnResult
		_ = json.Unmarshal(b, &r)
		return &r, ""
	}
	r, crash := run("first")
	if r != nil && r.Wedged != "" && !r.During {
		// a probe after the churn failed: confirm (the bounds are wall-clock)
		r, crash = run("confirm")
	}
	im.Hist("churn-run")
	switch {
	case r == nil:
		im.Count("churn", true)
		im.Violate("connection churn: the node process died or produced no result: "+crash, "panic:churn", nil)
	default:
		for i := int64(0); i < r.Rounds; i++ {
			im.Count(fmt.Sprintf("churn-round %d", i), true)
		}
		im.Extra["churn"] = r
		if r.Wedged != "" {
			im.Violate(fmt.Sprintf("connection churn (6 peers connect/handshake/messages/reject/hang up in a loop, a neighbour exchanging routing updates, a peer streaming updates with ever newer epochs): after %d rounds %s", r.Rounds, r.Wedged),
				"wedge:churn", r)
		}
	}
}
