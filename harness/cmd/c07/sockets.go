package main

// Real-transport peers for the scripted-peer engine (same file in harness/cmd/c07 and cmd/c11):
// every backend through which a peer's bytes reach runProtocol —
//   listeners:  tcp, tls (TCP listener with a server certificate; peer speaks TLS), tlsraw (same
//               listener, peer writes plain bytes into the TLS handshake), udp, ws / wss (websocket, plain and TLS),
//   dialers:    tcp-dial, udp-dial, ws-dial (the NODE dials a listener run by the harness, which
//               then plays the hostile or well-behaved remote end),
//   embedded:   ext (ExternalBackend over a framed net.Conn), extws (ExternalBackend over a
//               websocket connection).
// A peer records every message the node sends it (reject byte, hello messages) and whether the
// node closed the transport.

import (
	"context"
	"crypto/ecdsa"
	"crypto/elliptic"
	"crypto/rand"
	"crypto/tls"
	"crypto/x509"
	"crypto/x509/pkix"
	"fmt"
	"math/big"
	"net"
	"net/http"
	"sync"
	"time"

	"github.com/ansible/receptor/pkg/backends"
	"github.com/ansible/receptor/pkg/netceptor"
	"github.com/gorilla/websocket"
)

type sockPeer struct {
	kind   string // framing the peer applies: "tcp" (2-byte length prefix), "udp", "ws"
	conn   net.Conn
	ws     *websocket.Conn
	udp    *net.UDPConn // udp-dial: the harness's listening socket
	raddr  *net.UDPAddr // udp-dial: the node's source address (learnt from its first packet)
	mu     sync.Mutex
	recvd  [][]byte
	closed bool
	wmu    sync.Mutex
	ready  chan struct{} // dial transports: closed when the node has connected
	stop   []func()
}

func (p *sockPeer) record(b []byte) {
	p.mu.Lock()
	p.recvd = append(p.recvd, append([]byte{}, b...))
	p.mu.Unlock()
}

func (p *sockPeer) markClosed() {
	p.mu.Lock()
	p.closed = true
	p.mu.Unlock()
}

func (p *sockPeer) Obs() SessObs {
	p.mu.Lock()
	defer p.mu.Unlock()
	o := SessObs{Closed: p.closed, NSent: len(p.recvd)}
	for _, m := range p.recvd {
		if len(m) > 0 && m[0] == 3 {
			o.Reject = true
		}
	}
	if p.kind == "udp" && o.Reject {
		o.Closed = true // a datagram transport has no close to observe: the reject message stands for it
	}
	return o
}

// reader collects what the node writes (and keeps unbuffered transports flowing).
func (p *sockPeer) reader() {
	go func() {
		switch {
		case p.ws != nil:
			for {
				_, b, err := p.ws.ReadMessage()
				if err != nil {
					p.markClosed()
					return
				}
				p.record(b)
			}
		case p.udp != nil:
			buf := make([]byte, 65536)
			for {
				k, addr, err := p.udp.ReadFromUDP(buf)
				if err != nil {
					return
				}
				p.mu.Lock()
				first := p.raddr == nil
				p.raddr = addr
				p.mu.Unlock()
				if first {
					close(p.ready)
				}
				p.record(buf[:k])
			}
		case p.kind == "tcp":
			var acc []byte
			buf := make([]byte, 65536)
			for {
				k, err := p.conn.Read(buf)
				acc = append(acc, buf[:k]...)
				for len(acc) >= 2 {
					l := int(acc[0]) | int(acc[1])<<8
					if len(acc) < 2+l {
						break
					}
					p.record(acc[2 : 2+l])
					acc = acc[2+l:]
				}
				if err != nil {
					p.markClosed()
					return
				}
			}
		default:
			buf := make([]byte, 65536)
			for {
				k, err := p.conn.Read(buf)
				if k > 0 {
					p.record(buf[:k])
				}
				if err != nil {
					return
				}
			}
		}
	}()
}

// send: one datagram in the transport's own framing.  wsType selects the websocket message
// type (0 = binary).
func (p *sockPeer) send(b []byte, wsType int) {
	p.wmu.Lock()
	defer p.wmu.Unlock()
	switch {
	case p.ws != nil:
		if wsType == 0 {
			wsType = websocket.BinaryMessage
		}
		_ = p.ws.SetWriteDeadline(time.Now().Add(time.Second))
		if wsType >= 8 {
			_ = p.ws.WriteControl(wsType, b, time.Now().Add(time.Second))
		} else {
			_ = p.ws.WriteMessage(wsType, b)
		}
	case p.udp != nil:
		p.mu.Lock()
		a := p.raddr
		p.mu.Unlock()
		if a != nil {
			_, _ = p.udp.WriteToUDP(b, a)
		}
	case p.conn != nil:
		_ = p.conn.SetWriteDeadline(time.Now().Add(time.Second))
		if p.kind == "tcp" {
			_, _ = p.conn.Write(append([]byte{byte(len(b)), byte(len(b) >> 8)}, b...))
		} else {
			_, _ = p.conn.Write(b)
		}
	}
}

// raw: bytes written to the underlying stream as they are (no framing, below websocket framing).
func (p *sockPeer) raw(b []byte, fill int) {
	p.wmu.Lock()
	defer p.wmu.Unlock()
	if fill > 0 {
		f := make([]byte, fill)
		for i := range f {
			f[i] = 0xee
		}
		b = append(append([]byte{}, b...), f...)
	}
	c := p.conn
	if p.ws != nil {
		c = p.ws.UnderlyingConn()
	}
	if p.udp != nil {
		p.mu.Lock()
		a := p.raddr
		p.mu.Unlock()
		if a != nil {
			_, _ = p.udp.WriteToUDP(b, a)
		}
		return
	}
	if c != nil {
		_ = c.SetWriteDeadline(time.Now().Add(2 * time.Second))
		_, _ = c.Write(b)
	}
}

func (p *sockPeer) hangup() {
	switch {
	case p.ws != nil:
		_ = p.ws.Close()
	case p.conn != nil:
		_ = p.conn.Close()
	}
}

func (p *sockPeer) shutdown() {
	p.hangup()
	if p.udp != nil {
		_ = p.udp.Close()
	}
	for _, f := range p.stop {
		f()
	}
}

// ---------- a throw-away server certificate ----------

var (
	tlsOnce   sync.Once
	tlsServer *tls.Config
)

func serverTLS() *tls.Config {
	tlsOnce.Do(func() {
		key, _ := ecdsa.GenerateKey(elliptic.P256(), rand.Reader)
		tpl := &x509.Certificate{SerialNumber: big.NewInt(1), Subject: pkix.Name{CommonName: "victim"},
			NotBefore: time.Now().Add(-time.Hour), NotAfter: time.Now().Add(24 * time.Hour),
			KeyUsage: x509.KeyUsageDigitalSignature, ExtKeyUsage: []x509.ExtKeyUsage{x509.ExtKeyUsageServerAuth},
			DNSNames: []string{"localhost"}, IPAddresses: []net.IP{net.IPv4(127, 0, 0, 1)}}
		der, _ := x509.CreateCertificate(rand.Reader, tpl, tpl, &key.PublicKey, key)
		tlsServer = &tls.Config{Certificates: []tls.Certificate{{Certificate: [][]byte{der}, PrivateKey: key}}, MinVersion: tls.VersionTLS12}
	})
	return tlsServer
}

// ---------- opening one peer on a real node ----------

func openSocketPeer(ctx context.Context, n *netceptor.Netceptor, transport string, mods []func(*netceptor.BackendInfo)) (*sockPeer, error) {
	lg := n.Logger
	switch transport {
	case "tcp", "tls", "tlsraw":
		var cfg *tls.Config
		if transport != "tcp" {
			cfg = serverTLS()
		}
		li, err := backends.NewTCPListener("127.0.0.1:0", cfg, lg)
		if err == nil {
			err = n.AddBackend(li, mods...)
		}
		if err != nil {
			return nil, err
		}
		var c net.Conn
		if transport == "tls" {
			c, err = tls.DialWithDialer(&net.Dialer{Timeout: 5 * time.Second}, "tcp", li.GetAddr(), &tls.Config{InsecureSkipVerify: true}) //nolint:gosec
		} else {
			c, err = net.DialTimeout("tcp", li.GetAddr(), 5*time.Second)
		}
		if err != nil {
			return nil, err
		}
		p := &sockPeer{kind: "tcp", conn: c}
		p.reader()
		return p, nil
	case "ext":
		eb, err := netceptor.NewExternalBackend()
		if err == nil {
			err = n.AddBackend(eb, mods...)
		}
		if err != nil {
			return nil, err
		}
		c1, c2 := net.Pipe()
		eb.NewConnection(netceptor.MessageConnFromNetConn(c1), true)
		p := &sockPeer{kind: "tcp", conn: c2}
		p.reader()
		return p, nil
	case "udp":
		li, err := backends.NewUDPListener("127.0.0.1:0", lg)
		if err == nil {
			err = n.AddBackend(li, mods...)
		}
		if err != nil {
			return nil, err
		}
		c, err := net.Dial("udp", li.LocalAddr().String())
		if err != nil {
			return nil, err
		}
		p := &sockPeer{kind: "udp", conn: c}
		p.reader()
		return p, nil
	case "ws", "wss":
		var scfg *tls.Config
		scheme := "ws://"
		if transport == "wss" {
			scfg, scheme = serverTLS(), "wss://"
		}
		li, err := backends.NewWebsocketListener("127.0.0.1:0", scfg, lg, nil, nil)
		if err == nil {
			err = n.AddBackend(li, mods...)
		}
		if err != nil {
			return nil, err
		}
		d := websocket.Dialer{HandshakeTimeout: 6 * time.Second, TLSClientConfig: &tls.Config{InsecureSkipVerify: true}} //nolint:gosec
		c, resp, err := d.Dial(scheme+li.Addr().String()+"/", nil)
		if err != nil {
			return nil, err
		}
		_ = resp.Body.Close()
		p := &sockPeer{kind: "ws", ws: c}
		p.reader()
		return p, nil
	case "tcp-dial":
		l, err := net.Listen("tcp", "127.0.0.1:0")
		if err != nil {
			return nil, err
		}
		p := &sockPeer{kind: "tcp", ready: make(chan struct{})}
		p.stop = append(p.stop, func() { _ = l.Close() })
		go func() {
			c, err := l.Accept()
			if err != nil {
				return
			}
			p.wmu.Lock()
			p.conn = c
			p.wmu.Unlock()
			p.reader()
			close(p.ready)
		}()
		d, err := backends.NewTCPDialer(l.Addr().String(), false, nil, lg)
		if err == nil {
			err = n.AddBackend(d, mods...)
		}
		if err != nil {
			return nil, err
		}
		return p, waitReady(p)
	case "udp-dial":
		uc, err := net.ListenUDP("udp", &net.UDPAddr{IP: net.IPv4(127, 0, 0, 1)})
		if err != nil {
			return nil, err
		}
		p := &sockPeer{kind: "udp", udp: uc, ready: make(chan struct{})}
		p.reader()
		d, err := backends.NewUDPDialer(uc.LocalAddr().String(), false, lg)
		if err == nil {
			err = n.AddBackend(d, mods...)
		}
		if err != nil {
			return nil, err
		}
		return p, waitReady(p) // the node's first hello tells us where it is
	case "ws-dial", "extws":
		p := &sockPeer{kind: "ws", ready: make(chan struct{})}
		up := websocket.Upgrader{}
		l, err := net.Listen("tcp", "127.0.0.1:0")
		if err != nil {
			return nil, err
		}
		srv := &http.Server{ReadHeaderTimeout: 2 * time.Second, Handler: http.HandlerFunc(func(w http.ResponseWriter, r *http.Request) {
			c, err := up.Upgrade(w, r, nil)
			if err != nil {
				return
			}
			p.wmu.Lock()
			p.ws = c
			p.wmu.Unlock()
			p.reader()
			close(p.ready)
		})}
		go func() { _ = srv.Serve(l) }()
		p.stop = append(p.stop, func() { _ = srv.Close() })
		url := "ws://" + l.Addr().String() + "/"
		if transport == "ws-dial" {
			d, err := backends.NewWebsocketDialer(url, nil, "", false, lg, nil)
			if err == nil {
				err = n.AddBackend(d, mods...)
			}
			if err != nil {
				return nil, err
			}
		} else {
			eb, err := netceptor.NewExternalBackend()
			if err == nil {
				err = n.AddBackend(eb, mods...)
			}
			if err != nil {
				return nil, err
			}
			wd := websocket.Dialer{HandshakeTimeout: 6 * time.Second}
			c, resp, err := wd.DialContext(ctx, url, nil)
			if err != nil {
				return nil, err
			}
			_ = resp.Body.Close()
			eb.NewConnection(netceptor.MessageConnFromWebsocketConn(c), true)
		}
		return p, waitReady(p)
	}
	return nil, fmt.Errorf("unknown transport %q", transport)
}

func waitReady(p *sockPeer) error {
	select {
	case <-p.ready:
		return nil
	case <-time.After(6 * time.Second):
		return fmt.Errorf("the node did not connect to the harness's listener within 6 s")
	}
}
