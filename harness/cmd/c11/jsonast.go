package main

// JSON value trees shared by the C07 and C11 harnesses (same file in both directories).
//
// The model (Model/PJson.v) starts from the value tree of a syntactically valid JSON text; the
// tokenizer is an oracle.  This file is that oracle's harness side:
//   - parseJSON: a structural scanner (objects, arrays, literals; member order and duplicates
//     kept) whose accept/reject verdict is cross-checked against json.Valid on every text, with
//     string literals decoded by encoding/json itself (escapes, surrogates, U+FFFD replacement),
//     number literals classified by syntax (integer literal or not) and valued by
//     strconv.ParseFloat, and raw string literals classified by time.Time.UnmarshalJSON;
//   - printers: tree -> JSON text (with random but semantics-preserving spelling: whitespace,
//     \u escapes, key case) and tree -> Coq term;
//   - generators of trees of every shape.

import (
	"encoding/json"
	"fmt"
	"math"
	"math/big"
	"strconv"
	"strings"
	"time"
	"unicode/utf8"

	. "verifharness/lib"
)

type JKind int

const (
	KNull JKind = iota
	KBool
	KNum
	KStr
	KArr
	KObj
)

type JMember struct {
	Key string
	Val *J
}

// J is one JSON value.
type J struct {
	K JKind
	B bool
	// number: the literal text (always a valid JSON number)
	Num string
	// string: decoded value; Raw is the literal as it appears in the text (with quotes) when
	// the tree came from parseJSON, "" when the printer is free to choose a spelling
	S   string
	Raw string
	A   []*J
	O   []JMember
}

func JNullV() *J          { return &J{K: KNull} }
func JBoolV(b bool) *J    { return &J{K: KBool, B: b} }
func JNumV(lit string) *J { return &J{K: KNum, Num: lit} }
func JStrV(s string) *J   { return &J{K: KStr, S: s} }
func JArrV(xs ...*J) *J   { return &J{K: KArr, A: xs} }
func JObjV(ms ...JMember) *J {
	return &J{K: KObj, O: ms}
}
func M(k string, v *J) JMember { return JMember{k, v} }

// ---------- structural scanner ----------

type jparser struct {
	b   []byte
	i   int
	bad bool
	dep int
}

func (p *jparser) ws() {
	for p.i < len(p.b) && (p.b[p.i] == ' ' || p.b[p.i] == '\t' || p.b[p.i] == '\n' || p.b[p.i] == '\r') {
		p.i++
	}
}

func (p *jparser) fail() *J { p.bad = true; return nil }

func (p *jparser) lit(s string) bool {
	if len(p.b)-p.i >= len(s) && string(p.b[p.i:p.i+len(s)]) == s {
		p.i += len(s)
		return true
	}
	return false
}

// rawString scans one string literal and returns it with its quotes.
func (p *jparser) rawString() (string, bool) {
	if p.i >= len(p.b) || p.b[p.i] != '"' {
		return "", false
	}
	st := p.i
	p.i++
	for p.i < len(p.b) {
		c := p.b[p.i]
		switch {
		case c == '"':
			p.i++
			return string(p.b[st:p.i]), true
		case c == '\\':
			if p.i+1 >= len(p.b) {
				return "", false
			}
			e := p.b[p.i+1]
			switch e {
			case '"', '\\', '/', 'b', 'f', 'n', 'r', 't':
				p.i += 2
			case 'u':
				if p.i+6 > len(p.b) {
					return "", false
				}
				for _, h := range p.b[p.i+2 : p.i+6] {
					if !(h >= '0' && h <= '9' || h >= 'a' && h <= 'f' || h >= 'A' && h <= 'F') {
						return "", false
					}
				}
				p.i += 6
			default:
				return "", false
			}
		case c < 0x20:
			return "", false
		default:
			p.i++
		}
	}
	return "", false
}

func unquote(raw string) (string, bool) {
	var s string
	if err := json.Unmarshal([]byte(raw), &s); err != nil {
		return "", false
	}
	return s, true
}

func (p *jparser) number() (string, bool) {
	st := p.i
	if p.i < len(p.b) && p.b[p.i] == '-' {
		p.i++
	}
	if p.i >= len(p.b) {
		return "", false
	}
	if p.b[p.i] == '0' {
		p.i++
	} else if p.b[p.i] >= '1' && p.b[p.i] <= '9' {
		for p.i < len(p.b) && p.b[p.i] >= '0' && p.b[p.i] <= '9' {
			p.i++
		}
	} else {
		return "", false
	}
	if p.i < len(p.b) && p.b[p.i] == '.' {
		p.i++
		d := 0
		for p.i < len(p.b) && p.b[p.i] >= '0' && p.b[p.i] <= '9' {
			p.i++
			d++
		}
		if d == 0 {
			return "", false
		}
	}
	if p.i < len(p.b) && (p.b[p.i] == 'e' || p.b[p.i] == 'E') {
		p.i++
		if p.i < len(p.b) && (p.b[p.i] == '+' || p.b[p.i] == '-') {
			p.i++
		}
		d := 0
		for p.i < len(p.b) && p.b[p.i] >= '0' && p.b[p.i] <= '9' {
			p.i++
			d++
		}
		if d == 0 {
			return "", false
		}
	}
	return string(p.b[st:p.i]), true
}

func (p *jparser) value() *J {
	p.ws()
	if p.i >= len(p.b) {
		return p.fail()
	}
	p.dep++
	defer func() { p.dep-- }()
	if p.dep > 5000 {
		return p.fail()
	}
	switch c := p.b[p.i]; {
	case c == '{':
		p.i++
		v := &J{K: KObj}
		p.ws()
		if p.i < len(p.b) && p.b[p.i] == '}' {
			p.i++
			return v
		}
		for {
			p.ws()
			raw, ok := p.rawString()
			if !ok {
				return p.fail()
			}
			k, ok := unquote(raw)
			if !ok {
				return p.fail()
			}
			p.ws()
			if p.i >= len(p.b) || p.b[p.i] != ':' {
				return p.fail()
			}
			p.i++
			x := p.value()
			if p.bad {
				return nil
			}
			v.O = append(v.O, JMember{k, x})
			p.ws()
			if p.i < len(p.b) && p.b[p.i] == ',' {
				p.i++
				continue
			}
			if p.i < len(p.b) && p.b[p.i] == '}' {
				p.i++
				return v
			}
			return p.fail()
		}
	case c == '[':
		p.i++
		v := &J{K: KArr}
		p.ws()
		if p.i < len(p.b) && p.b[p.i] == ']' {
			p.i++
			return v
		}
		for {
			x := p.value()
			if p.bad {
				return nil
			}
			v.A = append(v.A, x)
			p.ws()
			if p.i < len(p.b) && p.b[p.i] == ',' {
				p.i++
				continue
			}
			if p.i < len(p.b) && p.b[p.i] == ']' {
				p.i++
				return v
			}
			return p.fail()
		}
	case c == '"':
		raw, ok := p.rawString()
		if !ok {
			return p.fail()
		}
		s, ok := unquote(raw)
		if !ok {
			return p.fail()
		}
		return &J{K: KStr, S: s, Raw: raw}
	case c == 't':
		if p.lit("true") {
			return JBoolV(true)
		}
		return p.fail()
	case c == 'f':
		if p.lit("false") {
			return JBoolV(false)
		}
		return p.fail()
	case c == 'n':
		if p.lit("null") {
			return JNullV()
		}
		return p.fail()
	case c == '-' || (c >= '0' && c <= '9'):
		lit, ok := p.number()
		if !ok {
			return p.fail()
		}
		return JNumV(lit)
	}
	return p.fail()
}

// parseJSON returns the value tree of a JSON text, or nil when the text is not valid JSON.
// agree=false reports a disagreement between this scanner and json.Valid (a harness defect).
func parseJSON(b []byte) (v *J, agree bool) {
	p := &jparser{b: b}
	v = p.value()
	if !p.bad {
		p.ws()
		if p.i != len(b) {
			p.bad = true
		}
	}
	if p.bad {
		v = nil
	}
	return v, (v != nil) == json.Valid(b)
}

// ---------- printing: JSON text ----------

func quoteJSON(s string, r *Rng) string {
	var sb strings.Builder
	sb.WriteByte('"')
	for _, ru := range s {
		esc := r != nil && r.Chance(4)
		switch {
		case ru == '"' || ru == '\\':
			sb.WriteByte('\\')
			sb.WriteRune(ru)
		case ru < 0x20 || ru == 0x7f || ru == 0x2028 || ru == 0x2029 || (esc && ru < 0x10000):
			fmt.Fprintf(&sb, "\\u%04x", ru)
		case esc && ru >= 0x10000:
			r1, r2 := (ru-0x10000)>>10+0xd800, (ru-0x10000)&0x3ff+0xdc00
			fmt.Fprintf(&sb, "\\u%04x\\u%04x", r1, r2)
		default:
			sb.WriteRune(ru)
		}
	}
	sb.WriteByte('"')
	return sb.String()
}

func wsRand(sb *strings.Builder, r *Rng) {
	if r != nil && r.Chance(8) {
		sb.WriteString([]string{" ", "\n", "\t", "  ", "\r\n"}[r.Intn(5)])
	}
}

// Print renders v as JSON text.  With r != nil the spelling varies (whitespace, \u escapes);
// a string that came with a Raw literal is printed as that literal.
func (v *J) Print(sb *strings.Builder, r *Rng) {
	wsRand(sb, r)
	switch v.K {
	case KNull:
		sb.WriteString("null")
	case KBool:
		if v.B {
			sb.WriteString("true")
		} else {
			sb.WriteString("false")
		}
	case KNum:
		sb.WriteString(v.Num)
	case KStr:
		if v.Raw != "" {
			sb.WriteString(v.Raw)
		} else {
			sb.WriteString(quoteJSON(v.S, r))
		}
	case KArr:
		sb.WriteByte('[')
		for i, x := range v.A {
			if i > 0 {
				sb.WriteByte(',')
			}
			x.Print(sb, r)
		}
		wsRand(sb, r)
		sb.WriteByte(']')
	case KObj:
		sb.WriteByte('{')
		for i, m := range v.O {
			if i > 0 {
				sb.WriteByte(',')
			}
			wsRand(sb, r)
			sb.WriteString(quoteJSON(m.Key, r))
			wsRand(sb, r)
			sb.WriteByte(':')
			m.Val.Print(sb, r)
		}
		wsRand(sb, r)
		sb.WriteByte('}')
	}
	wsRand(sb, r)
}

func (v *J) Text(r *Rng) []byte {
	var sb strings.Builder
	v.Print(&sb, r)
	return []byte(sb.String())
}

// ---------- printing: Coq terms ----------

// coqDy prints a float64 as the exact dyadic rational (Dy neg num k).
func coqDy(f float64) string {
	if f == 0 || math.IsNaN(f) || math.IsInf(f, 0) {
		return "(Dy false 0 0)"
	}
	rat := new(big.Rat).SetFloat64(f)
	neg := rat.Sign() < 0
	num := new(big.Int).Abs(rat.Num())
	k := rat.Denom().BitLen() - 1 // denominator is a power of two
	return fmt.Sprintf("(Dy %s %s %d)", CoqBool(neg), num.String(), k)
}

// numTerm classifies a number literal: (Coq term, supported).
func numTerm(lit string) (string, bool) {
	isInt := !strings.ContainsAny(lit, ".eE")
	if isInt {
		neg := strings.HasPrefix(lit, "-")
		d := strings.TrimPrefix(lit, "-")
		n, ok := new(big.Int).SetString(d, 10)
		if !ok {
			return "", false
		}
		if n.BitLen() > 1000 {
			return "", false // beyond float64 range: not generated
		}
		return fmt.Sprintf("(NInt %s %s)", CoqBool(neg), n.String()), true
	}
	f, err := strconv.ParseFloat(lit, 64)
	if err != nil {
		return "NHuge", true
	}
	return "(NFrac " + coqDy(f) + ")", true
}

// timeOfRaw: what time.Time.UnmarshalJSON makes of a raw string literal.
func timeOfRaw(raw string) (int64, bool) {
	var t time.Time
	if err := t.UnmarshalJSON([]byte(raw)); err != nil {
		return 0, false
	}
	// the model keeps unix nanoseconds as N: only instants in [1970, 2262) are representable
	if t.Year() < 1970 || t.Year() > 2261 {
		return 0, false
	}
	return t.UnixNano(), true
}

// Coq renders the tree as a term of type json.  ok=false: the tree contains something the
// model's input language does not cover (number beyond float64 range as an integer literal,
// an RFC 3339 time outside 1970..2261); such cases are run on the implementation only.
func (v *J) Coq() (string, bool) {
	switch v.K {
	case KNull:
		return "JNull", true
	case KBool:
		return "(JBool " + CoqBool(v.B) + ")", true
	case KNum:
		t, ok := numTerm(v.Num)
		return "(JNum " + t + ")", ok
	case KStr:
		raw := v.Raw
		if raw == "" {
			panic("Coq(): string without raw literal; print and re-parse first")
		}
		tm := "None"
		var probe time.Time
		if err := probe.UnmarshalJSON([]byte(raw)); err == nil {
			ns, ok := timeOfRaw(raw)
			if !ok {
				return "", false
			}
			tm = fmt.Sprintf("(Some %d)", ns)
		}
		return "(JStr " + HxS(v.S) + " " + tm + ")", true
	case KArr:
		xs := make([]string, len(v.A))
		for i, x := range v.A {
			t, ok := x.Coq()
			if !ok {
				return "", false
			}
			xs[i] = t
		}
		return "(JArr " + CoqList(xs) + ")", true
	default:
		xs := make([]string, len(v.O))
		for i, m := range v.O {
			t, ok := m.Val.Coq()
			if !ok {
				return "", false
			}
			xs[i] = "(" + HxS(m.Key) + ", " + t + ")"
		}
		return "(JObj " + CoqList(xs) + ")", true
	}
}

// ---------- generators ----------

var weirdStrings = []string{"", "a", "node-1", "víctim", "日本", "\x00", "a\"b\\c", " ", "𝄞", "localhost", "LOCALHOST",
	"2024-01-02T03:04:05Z", "2024-01-02T03:04:05.123456789+01:00", "2024-13-01T00:00:00Z", "2024-01-02 03:04:05Z", "null", "0"}

var numLits = []string{"0", "-0", "1", "2", "7", "255", "256", "-1", "1.0", "0.5", "1.5", "2.25", "1e0", "1E2", "1e-2", "0.1",
	"4294967296", "9007199254740993", "18446744073709551615", "18446744073709551616", "18446744073709551617",
	"99999999999999999999", "1e400", "-1e999", "1e19", "1.7976931348623157e308", "5e-324", "123456789.125", "3"}

func genScalar(r *Rng) *J {
	switch r.Intn(6) {
	case 0:
		return JNullV()
	case 1:
		return JBoolV(r.Bool())
	case 2, 3:
		return JNumV(numLits[r.Intn(len(numLits))])
	default:
		return JStrV(weirdStrings[r.Intn(len(weirdStrings))])
	}
}

// genAny: a JSON value of arbitrary shape, depth-bounded.
func genAny(r *Rng, depth int) *J {
	if depth <= 0 || r.Chance(55) {
		return genScalar(r)
	}
	if r.Bool() {
		n := r.Intn(4)
		v := &J{K: KArr}
		for i := 0; i < n; i++ {
			v.A = append(v.A, genAny(r, depth-1))
		}
		return v
	}
	n := r.Intn(4)
	v := &J{K: KObj}
	for i := 0; i < n; i++ {
		v.O = append(v.O, JMember{genKey(r, nil), genAny(r, depth-1)})
	}
	return v
}

// spellKey: a member name that decodes to the given field under encoding/json's matching
// rules (exact, other case, or with the two non-ASCII runes that fold to ASCII letters).
func spellKey(r *Rng, name string) string {
	switch r.Intn(10) {
	case 0:
		return strings.ToLower(name)
	case 1:
		return strings.ToUpper(name)
	case 2:
		b := []rune(name)
		for i := range b {
			if r.Bool() {
				b[i] = []rune(strings.ToUpper(string(b[i])))[0]
			} else {
				b[i] = []rune(strings.ToLower(string(b[i])))[0]
			}
		}
		return string(b)
	case 3:
		// U+017F for s/S, U+212A for k/K
		var sb strings.Builder
		for _, c := range name {
			switch {
			case (c == 's' || c == 'S') && r.Bool():
				sb.WriteRune(0x17f)
			case (c == 'k' || c == 'K') && r.Bool():
				sb.WriteRune(0x212a)
			default:
				sb.WriteRune(c)
			}
		}
		return sb.String()
	default:
		return name
	}
}

// genKey: mostly one of the given field names (some spelling), sometimes a near miss.
func genKey(r *Rng, fields []string) string {
	if len(fields) == 0 || r.Chance(12) {
		return []string{"", "x", "nodeid ", "Node_ID", "NodeId\u0000", "Ｎode", "İD", "ı", "Connection", "Cancelled", "Tıme"}[r.Intn(11)]
	}
	return spellKey(r, fields[r.Intn(len(fields))])
}

// reparse prints a generated tree and parses the text back, so that every string carries its
// raw literal (time classification) and the printer is checked against the scanner.
func reparse(v *J, r *Rng) ([]byte, *J, error) {
	txt := v.Text(r)
	w, agree := parseJSON(txt)
	if !agree || w == nil {
		return txt, nil, fmt.Errorf("printer/scanner/json.Valid disagree on %q", txt)
	}
	return txt, w, nil
}

var _ = utf8.RuneError
