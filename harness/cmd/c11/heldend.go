package main

// A session that ENDS WHILE ITS PROTOCOL LOOP IS BUSY, followed by new sessions under the same ID.
//
// runProtocol notices the end of a session (Recv error, cancelled context) only when its loop
// comes back to its select.  While the loop is inside a message handler that does not return —
// a firewall rule that takes its time, a local service that is slow to read its socket — the
// ended session is still registered.  The peer (or anybody announcing its ID) reconnects in that
// window, possibly several times, the old loop is let go at some point in between, and another
// session announces the ID afterwards.
//
// Oracle, from the property text only ("... is not already connected ...; any other session is
// rejected and leaves no route behind ...; a connection is forgotten as soon as its session
// ends"): at every observation point
//   - at most ONE session per announced ID is established, where established = a datagram
//     written to the session is delivered to a local service of the node (carries routed traffic);
//   - every established session is what Status().Connections and the node's own cost row list
//     under the ID, exactly once, at the cost of that session's backend;
//   - every newcomer the node has closed (nobody hung it up) got the type-3 rejection first;
//   - once the old loop is released the old session is closed, and after the last newcomer has
//     been processed exactly one session holds the ID (the peer is able to come back);
//   - after all of them have been hung up the ID is gone from Connections and the own row.
// Whether a newcomer that arrives while the ended session is still registered is refused or
// takes the place over is NOT prescribed: both are fine as long as the above holds.
// The final fates are also given to Model/Admit.v (the end of the old session takes effect where
// its loop takes the Done arm: LHangup at the release) as ordinary correspondence cases.

import (
	"bytes"
	"context"
	"fmt"
	"io"
	"sort"
	"sync"
	"sync/atomic"
	"time"

	. "verifharness/lib"

	"github.com/ansible/receptor/pkg/netceptor"
)

// heldSess: a scripted session whose Recv can be made to fail, and which notes when an error
// has been handed to the node (the node knows the session has ended from then on).
type heldSess struct {
	*ScriptSess
	recvErr atomic.Value // error
	errSeen int32
	pushed  int
	cost    float64
	name    string
	hsDone  bool
}

type errBox struct{ e error }

func (h *heldSess) Recv(timeout time.Duration) ([]byte, error) {
	deadline := time.Now().Add(timeout)
	for {
		if b, _ := h.recvErr.Load().(errBox); b.e != nil {
			atomic.StoreInt32(&h.errSeen, 1)
			return nil, b.e
		}
		b, err := h.ScriptSess.Recv(10 * time.Millisecond)
		if err == netceptor.ErrTimeout {
			if time.Now().Before(deadline) {
				continue
			}
			return b, err
		}
		if err != nil {
			atomic.StoreInt32(&h.errSeen, 1)
		}
		return b, err
	}
}

type heldPlan struct {
	holder string // what keeps the old session's loop busy
	way    string // how the old session ends
	during int    // newcomers announcing the same ID while the loop is held
	late   int    // newcomers after the loop has been released and the old session closed
	costs  []float64
}

type heldViol struct{ what, sig string }

type heldOutcome struct {
	viol    []heldViol
	harness string // set-up problem (not a verdict)
	sched   []string
	dgrams  [][]byte
	specs   []SessSpec
	obsSess []SessObs
	conns   []ConnObs
	selfRow []ConnObs
	points  []map[string]interface{}
}

const heldID = "xray"

func heldTrial(pl heldPlan) (out heldOutcome) {
	ctx, cancel := context.WithCancel(context.Background())
	defer cancel()
	n := netceptor.NewWithConsts(ctx, selfID, 16384, time.Hour, time.Hour, time.Hour, 30, time.Hour)
	n.Logger.SetOutput(io.Discard)
	defer n.Shutdown()
	viol := func(what, sig string) { out.viol = append(out.viol, heldViol{what, sig + ":held-end"}) }

	// local service "probe": whatever reaches it was carried by the node
	pc, err := n.ListenPacket("probe")
	if err != nil {
		out.harness = err.Error()
		return
	}
	var delMu sync.Mutex
	got := map[string]bool{}
	go func() {
		buf := make([]byte, 4096)
		for {
			k, _, err := pc.ReadFrom(buf)
			if err != nil {
				return
			}
			delMu.Lock()
			got[string(buf[:k])] = true
			delMu.Unlock()
		}
	}()
	delivered := func(m string) bool { delMu.Lock(); defer delMu.Unlock(); return got[m] }

	gate := make(chan struct{})
	var gateOnce sync.Once
	release := func() { gateOnce.Do(func() { close(gate) }) }
	defer release()
	entered := make(chan struct{})
	var enteredOnce sync.Once
	// local service "slow": its owner reads nothing until the gate opens
	slow, err := n.ListenPacket("slow")
	if err != nil {
		out.harness = err.Error()
		return
	}
	go func() {
		<-gate
		buf := make([]byte, 4096)
		for {
			if _, _, err := slow.ReadFrom(buf); err != nil {
				return
			}
		}
	}()
	// a firewall rule that takes its time over some datagrams
	if err := n.AddFirewallRules([]netceptor.FirewallRuleFunc{func(md *netceptor.MessageData) netceptor.FirewallResult {
		if bytes.HasPrefix(md.Data, []byte("hold-fw")) {
			enteredOnce.Do(func() { close(entered) })
			<-gate
		}
		return netceptor.FirewallResultContinue
	}}, true); err != nil {
		out.harness = err.Error()
		return
	}

	var all []*heldSess
	var cancels []context.CancelFunc
	start := func(cost float64) *heldSess {
		h := &heldSess{ScriptSess: NewScriptSess(), cost: cost, name: fmt.Sprintf("s%d", len(all))}
		sctx, scancel := context.WithCancel(ctx)
		all = append(all, h)
		cancels = append(cancels, scancel)
		out.specs = append(out.specs, SessSpec{Cost: cost})
		go func() { _ = n.VerifRunProtocol(sctx, h, netceptor.VerifBackendInfo(cost, nil, nil)) }()
		return h
	}
	idx := func(h *heldSess) int {
		for i, x := range all {
			if x == h {
				return i
			}
		}
		return -1
	}
	// push: one datagram and a marker, completely processed (or the session closed) on return
	push := func(h *heldSess, b []byte) bool {
		for _, d := range [][]byte{b, {0xff}} {
			h.queue <- d
			out.sched = append(out.sched, fmt.Sprintf("SSend %d%%nat %s", idx(h), Hx(d)))
			out.dgrams = append(out.dgrams, d)
		}
		h.pushed += 2
		return h.waitConsumed(h.pushed, 5*time.Second)
	}
	status := func() (listed int, cost float64, rowOK bool, rowCost float64) {
		st := n.Status()
		for _, c := range st.Connections {
			if c.NodeID == heldID {
				listed++
				cost = c.Cost
			}
		}
		rowCost, rowOK = st.KnownConnectionCosts[selfID][heldID]
		return
	}
	hs := func(h *heldSess, seq int) []byte {
		return msg(1, ruFields{Node: heldID, UID: fmt.Sprintf("hs-%s-%d", h.name, seq), Fwd: heldID, Epoch: 3, Seq: uint64(seq), Conns: map[string]float64{}}.tree(), nil)
	}
	hungUp := map[*heldSess]bool{}
	probeNo := 0
	// observe: which newcomers carry traffic, and is that what the node says it is connected to
	observe := func(point string, newcomers []*heldSess) (est []*heldSess) {
		rec := map[string]interface{}{"point": point}
		for _, h := range newcomers {
			if h.IsClosed() {
				if !hungUp[h] && !h.Obs().Reject {
					viol(fmt.Sprintf("%s: session %s announcing %q was closed by the node without the rejection message", point, h.name, heldID), "refused-without-rejection")
				}
				continue
			}
			probeNo++
			marker := fmt.Sprintf("probe-%s-%d", h.name, probeNo)
			push(h, dataPacket(5, nameHash(heldID), nameHash(selfID), "c", "probe", []byte(marker)))
			for t0 := time.Now(); time.Since(t0) < 2*time.Second && !h.IsClosed(); time.Sleep(time.Millisecond) {
				if delivered(marker) {
					break
				}
			}
			if delivered(marker) {
				est = append(est, h)
			}
		}
		var names []string
		for _, h := range est {
			names = append(names, h.name)
		}
		listed, cost, rowOK, rowCost := status()
		rec["carrying_traffic"], rec["listed"], rec["listed_cost"], rec["own_row_cost"] = names, listed, cost, rowCost
		out.points = append(out.points, rec)
		if len(est) > 1 {
			viol(fmt.Sprintf("%s: %d sessions announcing %q are established at the same time (each got a datagram delivered to a local service): %v", point, len(est), heldID, names), "two-sessions-one-id")
		}
		for _, h := range est {
			switch {
			case listed != 1:
				viol(fmt.Sprintf("%s: session %s announcing %q is established and carries traffic, but Status().Connections lists the ID %d time(s)", point, h.name, heldID, listed), "established-not-listed")
			case cost != h.cost:
				viol(fmt.Sprintf("%s: session %s (backend cost %v) is established under %q, Status().Connections gives the cost %v", point, h.name, h.cost, heldID, cost), "wrong-cost")
			case !rowOK || rowCost != h.cost:
				viol(fmt.Sprintf("%s: session %s (backend cost %v) is established under %q, the node's own cost row has edge=%v cost=%v", point, h.name, h.cost, heldID, rowOK, rowCost), "connection-without-edge")
			}
		}
		return est
	}

	// ---- the old session: established both ways, then its loop is kept busy
	s1 := start(pl.costs[0])
	if !push(s1, hs(s1, 1)) || s1.IsClosed() {
		out.harness = "old session: handshake not processed"
		return
	}
	for t0 := time.Now(); time.Since(t0) < 6*time.Second; time.Sleep(2 * time.Millisecond) {
		if l, _, r, _ := status(); l == 1 && r {
			break
		}
	}
	if l, _, r, _ := status(); l != 1 || !r {
		out.harness = "old session not established within 6 s"
		return
	}
	if !push(s1, msg(1, ruFields{Node: heldID, UID: "direct-s0", Fwd: heldID, Epoch: 3, Seq: 2, Conns: map[string]float64{selfID: pl.costs[0]}}.tree(), nil)) || s1.IsClosed() {
		out.harness = "old session: direct update not processed"
		return
	}
	var hold []byte
	switch pl.holder {
	case "firewall-rule":
		hold = dataPacket(5, nameHash(heldID), nameHash(selfID), "c", "probe", []byte("hold-fw"))
	default: // "slow-local-service"
		hold = dataPacket(5, nameHash(heldID), nameHash(selfID), "c", "slow", []byte("to the slow service"))
	}
	s1.queue <- hold
	out.sched = append(out.sched, fmt.Sprintf("SSend 0%%nat %s", Hx(hold)))
	out.dgrams = append(out.dgrams, hold)
	s1.pushed++
	if !s1.waitConsumed(s1.pushed, 5*time.Second) || s1.IsClosed() {
		out.harness = "old session: the datagram that keeps the loop busy was not taken"
		return
	}
	if pl.holder == "firewall-rule" {
		select {
		case <-entered:
		case <-time.After(5 * time.Second):
			out.harness = "the datagram did not reach the firewall rule"
			return
		}
	} else {
		time.Sleep(30 * time.Millisecond)
	}
	// ---- the old session ends
	switch pl.way {
	case "recv-eof":
		s1.Hangup()
	case "recv-error":
		s1.recvErr.Store(errBox{fmt.Errorf("read: connection reset by peer")})
	case "context-cancelled":
		cancels[0]()
	}
	hungUp[s1] = true
	if pl.way != "context-cancelled" {
		for t0 := time.Now(); time.Since(t0) < 3*time.Second && atomic.LoadInt32(&s1.errSeen) == 0; time.Sleep(time.Millisecond) {
		}
		if atomic.LoadInt32(&s1.errSeen) == 0 {
			out.harness = "old session: the node did not read the end of the session"
			return
		}
	}
	time.Sleep(20 * time.Millisecond)
	// ---- newcomers under the same ID while the old loop is still busy
	var newcomers []*heldSess
	for j := 0; j < pl.during; j++ {
		h := start(pl.costs[len(all)])
		newcomers = append(newcomers, h)
		if !push(h, hs(h, 1)) {
			out.harness = "newcomer: handshake not processed within 5 s"
			return
		}
		observe(fmt.Sprintf("newcomer %s, old loop still busy", h.name), newcomers)
	}
	// ---- the old loop gets on
	release()
	out.sched = append(out.sched, "SHang 0%nat")
	if !s1.waitClosed(3*time.Second) && !s1.waitClosed(7*time.Second) {
		viol(fmt.Sprintf("the old session ended (%s) and its loop was released, but the node has not closed it within 10 s", pl.way), "hangup-not-closed")
		return
	}
	time.Sleep(20 * time.Millisecond)
	observe("old loop released and old session closed", newcomers)
	var est []*heldSess
	for j := 0; j < pl.late; j++ {
		h := start(pl.costs[len(all)])
		newcomers = append(newcomers, h)
		if !push(h, hs(h, 1)) {
			out.harness = "late newcomer: handshake not processed within 5 s"
			return
		}
		est = observe(fmt.Sprintf("late newcomer %s", h.name), newcomers)
	}
	if pl.late > 0 && len(est) == 0 {
		viol(fmt.Sprintf("the old session of %q has ended and is closed, %d session(s) announced the ID since, and none of them is established (carries traffic within 2 s)", heldID, len(newcomers)), "readmission-refused")
	}
	// ---- final state for the model
	for _, h := range all {
		out.obsSess = append(out.obsSess, h.Obs())
	}
	st := n.Status()
	for _, c := range st.Connections {
		out.conns = append(out.conns, ConnObs{c.NodeID, c.Cost})
	}
	for id, c := range st.KnownConnectionCosts[selfID] {
		out.selfRow = append(out.selfRow, ConnObs{id, c})
	}
	sort.Slice(out.conns, func(i, j int) bool { return out.conns[i].ID < out.conns[j].ID })
	sort.Slice(out.selfRow, func(i, j int) bool { return out.selfRow[i].ID < out.selfRow[j].ID })
	// ---- everybody leaves: forgotten
	for _, h := range newcomers {
		hungUp[h] = true
		h.Hangup()
	}
	for _, h := range newcomers {
		if !h.waitClosed(3*time.Second) && !h.waitClosed(7*time.Second) {
			viol(fmt.Sprintf("session %s announcing %q was hung up by the peer and is not closed by the node within 10 s", h.name, heldID), "hangup-not-closed")
			return
		}
	}
	for t0 := time.Now(); time.Since(t0) < 3*time.Second; time.Sleep(2 * time.Millisecond) {
		if l, _, r, _ := status(); l == 0 && !r {
			break
		}
	}
	if l, _, r, _ := status(); l != 0 || r {
		viol(fmt.Sprintf("every session that announced %q has ended and is closed, 3 s later Status().Connections lists it %d time(s), own cost row edge=%v", heldID, l, r), "connection-without-session")
	}
	return out
}

func heldTerm(o *heldOutcome) (string, bool, string) {
	names := map[string]bool{}
	toks, ok, bad := tokTable(o.dgrams, names)
	if !ok {
		return "", false, bad
	}
	bis := make([]string, len(o.specs))
	for i, s := range o.specs {
		bis[i] = coqBinfo(s)
	}
	so := make([]string, len(o.obsSess))
	for i, s := range o.obsSess {
		so[i] = fmt.Sprintf("{| so_closed := %s; so_reject := %s |}", CoqBool(s.Closed), CoqBool(s.Reject))
	}
	return fmt.Sprintf("{| ac_toks := %s; ac_self := %s; ac_conns0 := []; ac_bis := %s; ac_sched := %s; ac_obs_sess := %s; ac_obs_conns := %s; ac_obs_selfrow := %s |}",
		toks, HxS(selfID), CoqList(bis), CoqList(o.sched), CoqList(so), coqCosts(o.conns), coqCosts(o.selfRow)), true, ""
}

// heldEnd runs the plans (own node each, side by side), confirms every verdict by running the
// plan alone once more (wall-clock bounds on a loaded machine), and reports.
func heldEnd(c *Ctx, im *Impl, cf *CaseFile) {
	var plans []heldPlan
	costSets := [][]float64{{1, 2, 0.5, 1, 2}, {2, 1, 1, 0.5, 2}, {1, 1, 1, 1, 1}}
	k := 0
	for _, holder := range []string{"firewall-rule", "slow-local-service"} {
		for _, way := range []string{"recv-eof", "recv-error", "context-cancelled"} {
			for _, during := range []int{1, 2} {
				late := 1 + (k/2)%2
				plans = append(plans, heldPlan{holder: holder, way: way, during: during, late: late, costs: costSets[k%len(costSets)]})
				k++
			}
		}
	}
	if c.Thorough() {
		for rep := 0; rep < 3; rep++ {
			for _, p := range plans[:12] {
				p.during, p.late = 1+c.Rng.Intn(3), 1+c.Rng.Intn(2)
				p.costs = []float64{1, 2, 0.5, 1, 2, 1}
				plans = append(plans, p)
			}
		}
	}
	res := make([]heldOutcome, len(plans))
	var wg sync.WaitGroup
	sem := make(chan struct{}, 6)
	for i := range plans {
		wg.Add(1)
		sem <- struct{}{}
		go func(i int) {
			defer wg.Done()
			defer func() { <-sem }()
			res[i] = heldTrial(plans[i])
		}(i)
	}
	wg.Wait()
	reported := map[string]bool{}
	for i, pl := range plans {
		im.Hist("held-end:" + pl.holder)
		im.Hist("held-end-way:" + pl.way)
		im.Count(fmt.Sprintf("held-end %+v", pl), true)
		o := res[i]
		if len(o.viol) > 0 || o.harness != "" {
			o = heldTrial(pl) // alone, from scratch
		}
		replay := map[string]interface{}{"old_loop_kept_busy_by": pl.holder, "old_session_ends_by": pl.way, "newcomers_while_busy": pl.during,
			"newcomers_after_release": pl.late, "backend_costs_in_order_of_arrival": pl.costs[:1+pl.during+pl.late], "announced": heldID, "observations": o.points}
		if o.harness != "" {
			im.Violate("harness: held-end scenario could not be set up twice: "+o.harness, "harness-error", replay)
			continue
		}
		for _, v := range o.viol {
			if !reported[v.sig] {
				reported[v.sig] = true
				im.Violate(fmt.Sprintf("old session's loop busy (%s), session ends (%s), %d newcomer(s) meanwhile, %d after: %s", pl.holder, pl.way, pl.during, pl.late, v.what), v.sig, replay)
			}
		}
		if len(o.obsSess) == 0 {
			continue
		}
		term, ok, bad := heldTerm(&o)
		if bad != "" {
			im.Violate("harness self-check: "+bad, "harness-json-scanner", replay)
			continue
		}
		if ok {
			cf.Add(term, fmt.Sprintf(`{"kind":"held-end","holder":%q,"way":%q,"during":%d,"late":%d}`, pl.holder, pl.way, pl.during, pl.late))
		}
	}
}
