package main

// (copy of harness/cmd/c07/gen.go: message builders and Coq printers shared with C07)
// Generators of datagrams and datagram sequences for C07, and the translation of a case and
// its observation into a Coq term of type proto_case (Model/Proto.v).

import (
	"encoding/binary"
	"fmt"
	"math/big"
	"sort"
	"strings"
	"time"

	. "verifharness/lib"
)

const (
	selfID = "victim"
	goodID = "peerB"
	atkID  = "attacker"
)

// ---------- message builders (value trees) ----------

func numI(n uint64) *J { return JNumV(fmt.Sprint(n)) }

func costLit(c float64) *J {
	return JNumV(new(big.Float).SetFloat64(c).Text('f', -1))
}

type ruFields struct {
	Node, UID, Fwd  string
	Epoch, Seq, Dup uint64
	Conns           map[string]float64
	NilConns        bool
}

func (f ruFields) tree() *J {
	conns := &J{K: KObj}
	keys := make([]string, 0, len(f.Conns))
	for k := range f.Conns {
		keys = append(keys, k)
	}
	sort.Strings(keys)
	for _, k := range keys {
		conns.O = append(conns.O, M(k, costLit(f.Conns[k])))
	}
	if f.NilConns {
		conns = JNullV()
	}
	return JObjV(M("NodeID", JStrV(f.Node)), M("UpdateID", JStrV(f.UID)), M("UpdateEpoch", numI(f.Epoch)),
		M("UpdateSequence", numI(f.Seq)), M("Connections", conns), M("ForwardingNode", JStrV(f.Fwd)),
		M("SuspectedDuplicate", numI(f.Dup)))
}

func handshakeTree(id string) *J {
	return ruFields{Node: id, UID: "hs-" + id, Fwd: id, Epoch: 7, Seq: 1, Conns: map[string]float64{}}.tree()
}

var ruFieldNames = []string{"NodeID", "UpdateID", "UpdateEpoch", "UpdateSequence", "Connections", "ForwardingNode", "SuspectedDuplicate"}
var adFieldNames = []string{"NodeID", "Service", "Time", "ConnType", "Tags", "WorkCommands", "Cancel"}

// the value shapes substituted into every field of both structs
func shapeList() []*J {
	return []*J{JNullV(), JBoolV(true), JBoolV(false), JNumV("0"), JNumV("-0"), JNumV("1"), JNumV("-1"), JNumV("1.0"), JNumV("1.5"),
		JNumV("255"), JNumV("256"), JNumV("18446744073709551615"), JNumV("18446744073709551616"), JNumV("1e400"), JNumV("1e2"),
		JStrV(""), JStrV("s"), JStrV("1"), JStrV("2024-01-02T03:04:05Z"), JStrV("2024-01-02T03:04:05.5+02:00"), JStrV("2024-01-02"),
		JArrV(), JArrV(JNumV("1")), JArrV(JStrV("a")), JArrV(JObjV()), JArrV(JNullV()),
		JArrV(JObjV(M("WorkType", JStrV("w")), M("Secure", JBoolV(true)))), JArrV(JObjV(M("worktype", JNumV("1")))),
		JObjV(), JObjV(M("a", JNumV("1"))), JObjV(M("a", JStrV("b"))), JObjV(M("a", JNullV())), JObjV(M("a", JBoolV(true))),
		JObjV(M(selfID, JNumV("1"))), JObjV(M(selfID, JNumV("2.5")), M("z", JNumV("1e400"))), JObjV(M("a", JObjV())), JObjV(M("a", JArrV())),
	}
}

func adTree(node, svc string, t time.Time, cancel bool) *J {
	return JObjV(M("NodeID", JStrV(node)), M("Service", JStrV(svc)), M("Time", JStrV(t.UTC().Format(time.RFC3339Nano))),
		M("ConnType", JNumV("0")), M("Tags", JObjV(M("k", JStrV("v")))), M("WorkCommands", JNullV()), M("Cancel", JBoolV(cancel)))
}

// genStruct: an object for one of the two structs: a random subset of fields in random order,
// each with a well-typed value (mostly) or any value, unknown members, duplicates, key spellings.
func genStruct(r *Rng, fields []string, wellTyped func(r *Rng, f string) *J) *J {
	v := &J{K: KObj}
	n := r.Intn(len(fields) + 3)
	for i := 0; i < n; i++ {
		k := genKey(r, fields)
		var val *J
		if r.Chance(75) {
			// value of the right kind for the field this key resolves to (if any)
			f := ""
			for _, name := range fields {
				if strings.EqualFold(name, k) {
					f = name
				}
			}
			if f != "" {
				val = wellTyped(r, f)
			}
		}
		if val == nil {
			val = genAny(r, 2)
		}
		v.O = append(v.O, JMember{k, val})
		if r.Chance(8) { // duplicate member (not for WorkCommands more than twice: see PJson.v)
			v.O = append(v.O, JMember{k, wellTyped(r, fields[r.Intn(len(fields))])})
		}
	}
	// at most two members resolving to WorkCommands
	cnt := 0
	out := v.O[:0]
	for _, m := range v.O {
		if strings.EqualFold(strings.NewReplacer("ſ", "s", "K", "k").Replace(m.Key), "WorkCommands") {
			cnt++
			if cnt > 2 {
				continue
			}
		}
		out = append(out, m)
	}
	v.O = out
	return v
}

var someIDs = []string{atkID, selfID, goodID, "", "nodeZ", "nodeY", "localhost", "LocalHost", "probe", "víctim", "x:y"}

func ruWellTyped(epoch uint64) func(r *Rng, f string) *J {
	return func(r *Rng, f string) *J {
		switch f {
		case "NodeID", "ForwardingNode":
			return JStrV(someIDs[r.Intn(len(someIDs))])
		case "UpdateID":
			return JStrV([]string{"u1", "u2", "u3", "", "hs-" + atkID}[r.Intn(5)])
		case "UpdateEpoch", "SuspectedDuplicate":
			return JNumV([]string{"0", "1", "7", fmt.Sprint(epoch), fmt.Sprint(epoch + 1), fmt.Sprint(epoch - 1), "18446744073709551615"}[r.Intn(7)])
		case "UpdateSequence":
			return numI(uint64(r.Intn(5)))
		default:
			m := &J{K: KObj}
			for i := r.Intn(4); i > 0; i-- {
				m.O = append(m.O, M(someIDs[r.Intn(len(someIDs))], JNumV([]string{"1", "1.0", "2", "0.5", "1e0", "0", "-1", "3.25"}[r.Intn(8)])))
			}
			return m
		}
	}
}

func adWellTyped(r *Rng, f string) *J {
	switch f {
	case "NodeID":
		return JStrV(someIDs[r.Intn(len(someIDs))])
	case "Service":
		return JStrV([]string{"svc", "control", "", "a-very-long-service-name"}[r.Intn(4)])
	case "Time":
		return JStrV(time.Unix(1700000000+int64(r.Intn(5))*1000, int64(r.Intn(3))*500).UTC().Format(time.RFC3339Nano))
	case "ConnType":
		return numI(uint64(r.Intn(4)))
	case "Tags":
		m := &J{K: KObj}
		for i := r.Intn(3); i > 0; i-- {
			m.O = append(m.O, M([]string{"type", "k", ""}[r.Intn(3)], JStrV([]string{"v", "", "Control Service"}[r.Intn(3)])))
		}
		return m
	case "WorkCommands":
		a := &J{K: KArr}
		for i := r.Intn(3); i > 0; i-- {
			a.A = append(a.A, JObjV(M("WorkType", JStrV([]string{"echo", "w"}[r.Intn(2)])), M("Secure", JBoolV(r.Bool()))))
		}
		return a
	default:
		return JBoolV(r.Bool())
	}
}

// ---------- datagram generators ----------

// a datagram together with the kind it was generated as (for the histogram)
type dgram struct {
	b    []byte
	kind string
}

func msg(ty byte, v *J, r *Rng) []byte { return append([]byte{ty}, v.Text(r)...) }

func genGarbageBody(r *Rng) []byte {
	switch r.Intn(7) {
	case 0:
		return r.Bytes(r.Intn(40))
	case 1:
		return []byte(`{"NodeID":"x","ForwardingNode":`)
	case 2:
		return []byte([]string{"7", `"x"`, "[]", "true", "null", "{}", " null ", "nul", "{]", `{"a"}`, `{"a":1,}`, "[1,]", `"\ud800"`, `"\x"`, "01", "-", "1.", "{\"NodeID\":\"\xff\"}"}[r.Intn(18)])
	case 3:
		return []byte(strings.Repeat("[", 1+r.Intn(60)))
	case 4:
		b := handshakeTree(atkID).Text(nil)
		return b[:r.Intn(len(b))]
	case 5:
		b := handshakeTree(atkID).Text(nil)
		b[r.Intn(len(b))] ^= byte(1 << r.Intn(8))
		return b
	default:
		return nil
	}
}

func genDataPacket(r *Rng) []byte {
	names := []string{atkID, selfID, goodID, "probe", "nodeZ", "unknown-node", ""}
	hashOf := func() uint64 {
		if r.Chance(15) {
			return r.U64()
		}
		return nameHash(names[r.Intn(len(names))])
	}
	from, to := hashOf(), hashOf()
	if r.Chance(55) {
		to = nameHash(selfID)
	}
	svcs := []string{"probe", "ping", "unreach", "nosuch", "", "probe\x00x", "12345678"}
	fromSvc, toSvc := svcs[r.Intn(len(svcs))], svcs[r.Intn(len(svcs))]
	if r.Chance(45) {
		toSvc = "probe"
	}
	var payload []byte
	switch r.Intn(4) {
	case 0:
	case 1:
		payload = r.Bytes(r.Intn(20))
	case 2:
		payload = genAny(r, 2).Text(r)
	default:
		payload = []byte(`{"FromNode":"a","ToNode":"b","FromService":"c","ToService":"d","Problem":"service unknown"}`)
	}
	p := dataPacket(byte([]int{0, 1, 5, 30, 255}[r.Intn(5)]), from, to, fromSvc, toSvc, payload)
	if r.Chance(12) {
		p = p[:r.Intn(len(p)+1)] // truncated header
	}
	if r.Chance(10) && len(p) >= 4 {
		p[2], p[3] = byte(r.U64()), byte(r.U64())
	}
	return p
}

// genDatagram: one datagram of any kind.  epoch is the victim's epoch (public: it is in every
// routing update the victim sends).
func genDatagram(r *Rng, epoch uint64, established bool) dgram {
	switch k := r.Intn(100); {
	case k < 6:
		return dgram{[]byte{}, "empty"}
	case k < 14:
		b := r.Bytes(1 + r.Intn(40))
		return dgram{b, "random-bytes"}
	case k < 20:
		ty := byte(r.Intn(6))
		if ty == 3 && r.Chance(70) {
			ty = 4
		}
		return dgram{append([]byte{ty}, genGarbageBody(r)...), "garbage-body"}
	case k < 38:
		return dgram{genDataPacket(r), "data"}
	case k < 50:
		return dgram{msg(1, genStruct(r, ruFieldNames, ruWellTyped(epoch)), r), "route-generated"}
	case k < 60:
		// a plausible update from the attacker itself or relayed by it
		f := ruFields{Node: []string{atkID, "nodeZ", "nodeY", selfID, ""}[r.Intn(5)], UID: fmt.Sprintf("u%d", r.Intn(6)),
			Fwd: atkID, Epoch: []uint64{1, 5, 7, epoch, epoch + 3}[r.Intn(5)], Seq: uint64(r.Intn(4)),
			Conns: map[string]float64{}}
		if r.Chance(75) {
			f.Conns[selfID] = []float64{1, 1, 1, 2, 0.5}[r.Intn(5)]
		}
		if r.Chance(30) {
			f.Conns["nodeZ"] = 1
		}
		if r.Chance(15) {
			f.Dup = []uint64{1, 5, 7, epoch + 3}[r.Intn(4)]
		}
		if r.Chance(8) {
			f.Fwd = []string{"nodeZ", "", selfID, goodID}[r.Intn(4)]
		}
		if r.Chance(5) {
			f.NilConns = true
		}
		return dgram{msg(1, f.tree(), r), "route-plausible"}
	case k < 66:
		return dgram{msg(1, genAny(r, 3), r), "route-any-json"}
	case k < 78:
		return dgram{msg(2, genStruct(r, adFieldNames, adWellTyped), r), "advert-generated"}
	case k < 86:
		t := time.Unix(1700000000+int64(r.Intn(4))*100, 0)
		return dgram{msg(2, adTree([]string{"nodeZ", atkID, selfID}[r.Intn(3)], []string{"svc", "ctl"}[r.Intn(2)], t, r.Chance(25)), r), "advert-plausible"}
	case k < 92:
		return dgram{msg(2, genAny(r, 3), r), "advert-any-json"}
	case k < 95:
		return dgram{msg(2, []*J{JObjV(M("Cancel", JBoolV(true))), JNullV(), JObjV(), JObjV(M("x", JNumV("1")))}[r.Intn(4)], r), "advert-no-content"}
	default:
		return dgram{[]byte{byte(4 + r.Intn(252))}, "unknown-type"}
	}
}

// ---------- a C07 case ----------

type c07Case struct {
	spec   CaseSpec
	kinds  []string // generator kind of each datagram
	phase  string
	dgrams [][]byte
}

func newC07Case(id int, epoch uint64, phase string, ds []dgram, transport string) *c07Case {
	c := &c07Case{phase: phase}
	c.spec = CaseSpec{ID: id, NodeID: selfID, Epoch: epoch, GoodPeer: goodID, Sessions: []SessSpec{{Cost: 1, Transport: transport}}}
	for _, d := range ds {
		c.dgrams = append(c.dgrams, d.b)
		c.kinds = append(c.kinds, d.kind)
		c.spec.Steps = append(c.spec.Steps, Step{Sess: 0, Op: "send", Data: d.b})
	}
	if transport == "" {
		// the trailing no-op: once it has been taken, everything before it has been processed
		c.dgrams = append(c.dgrams, []byte{0xff})
		c.spec.Steps = append(c.spec.Steps, Step{Sess: 0, Op: "send", Data: []byte{0xff}})
	}
	return c
}

func timeAt(i int) time.Time { return time.Unix(1700000000+int64(i), 0) }

func coqCosts(cs []ConnObs) string {
	xs := make([]string, len(cs))
	for i, c := range cs {
		xs[i] = "(" + HxS(c.ID) + ", " + coqDy(c.Cost) + ")"
	}
	return CoqList(xs)
}

// collectNames: every string of the tree (values and member names)
func collectNames(v *J, into map[string]bool) {
	switch v.K {
	case KStr:
		into[v.S] = true
	case KArr:
		for _, x := range v.A {
			collectNames(x, into)
		}
	case KObj:
		for _, m := range v.O {
			collectNames(m.Val, into)
		}
	}
}

// tokTable: the tokenizer oracle for the type-1/2 datagrams of a sequence.  ok=false when a
// tree is outside the model's input language; bad != "" reports scanner/json.Valid disagreement.
func tokTable(dgrams [][]byte, names map[string]bool) (term string, ok bool, bad string) {
	var rows []string
	seen := map[string]bool{}
	for _, d := range dgrams {
		if len(d) == 0 || (d[0] != 1 && d[0] != 2) {
			continue
		}
		body := d[1:]
		if seen[string(body)] {
			continue
		}
		seen[string(body)] = true
		v, agree := parseJSON(body)
		if !agree {
			return "", false, fmt.Sprintf("scanner and json.Valid disagree on %q", body)
		}
		if v == nil {
			continue
		}
		t, sup := v.Coq()
		if !sup {
			return "", false, ""
		}
		collectNames(v, names)
		rows = append(rows, "("+Hx(body)+", "+t+")")
	}
	return CoqList(rows), true, ""
}

func hashTable(names map[string]bool) string {
	ks := make([]string, 0, len(names))
	for k := range names {
		ks = append(ks, k)
	}
	sort.Strings(ks)
	rows := make([]string, len(ks))
	for i, k := range ks {
		nm := k
		rows[i] = fmt.Sprintf("(%s, %d)", HxS(nm), nameHash(nm))
	}
	return CoqList(rows)
}

func coqNode(self string, epoch uint64, conns []ConnObs, hashNames []string, listeners []string) string {
	hs := make([]string, len(hashNames))
	for i, n := range hashNames {
		hs[i] = fmt.Sprintf("(%d, %s)", nameHash(n), HxS(n))
	}
	return fmt.Sprintf("{| n_id := %s; n_epoch := %d; n_conns := %s; n_selfrow := %s; n_hashes := %s; n_listeners := %s; n_seen := []; n_known := []; n_ads := []; n_wd := []; n_down := false |}",
		HxS(self), epoch, coqCosts(conns), coqCosts(conns), CoqList(hs), CoqStrList(listeners))
}

func coqBinfo(s SessSpec) string {
	var nc []ConnObs
	for k, v := range s.NodeCost {
		nc = append(nc, ConnObs{k, v})
	}
	sort.Slice(nc, func(i, j int) bool { return nc[i].ID < nc[j].ID })
	al := "None"
	if s.HasAllowed {
		al = "(Some " + CoqStrList(s.Allowed) + ")"
	}
	return fmt.Sprintf("{| bi_cost := %s; bi_nodecost := %s; bi_allowed := %s |}", coqDy(s.Cost), coqCosts(nc), al)
}

func coqObs(o *CaseObs, sessIdx int) string {
	known := make([]string, 0, len(o.Known))
	kk := make([]string, 0, len(o.Known))
	for k := range o.Known {
		kk = append(kk, k)
	}
	sort.Strings(kk)
	for _, k := range kk {
		known = append(known, fmt.Sprintf("(%s, (%d, %d))", HxS(k), o.Known[k][0], o.Known[k][1]))
	}
	ads := make([]string, len(o.Ads))
	for i, a := range o.Ads {
		t := "None"
		if !a.Zero {
			t = fmt.Sprintf("(Some %d)", a.Time)
		}
		ads[i] = fmt.Sprintf("(%s, %s, %s)", HxS(a.Node), HxS(a.Service), t)
	}
	del := make([]string, len(o.Delivered))
	for i, d := range o.Delivered {
		del[i] = "(" + HxS(d.From) + ", " + Hx(d.Payload) + ")"
	}
	so := o.Sess[sessIdx]
	return fmt.Sprintf("{| o_closed := %s; o_reject := %s; o_conns := %s; o_selfrow := %s; o_known := %s; o_ads := %s; o_deliv := %s; o_done := %s |}",
		CoqBool(so.Closed), CoqBool(so.Reject), coqCosts(o.Conns), coqCosts(o.SelfRow), CoqList(known), CoqList(ads), CoqList(del), CoqBool(o.Done))
}

// adTimesSupported: the model keeps times as unix ns in N; zero time is None.
func adTimesSupported(o *CaseObs) bool {
	for _, a := range o.Ads {
		if !a.Zero && a.Time < 0 {
			return false
		}
	}
	return true
}

// protoCaseTerm: the Coq term for one finished scripted-session case; ok=false when some input
// is outside the model's input language.
func (c *c07Case) protoCaseTerm(o *CaseObs) (string, bool, string) {
	names := map[string]bool{selfID: true, goodID: true, atkID: true, "probe": true}
	toks, ok, bad := tokTable(c.dgrams, names)
	if !ok {
		return "", false, bad
	}
	if !adTimesSupported(o) {
		return "", false, ""
	}
	node := coqNode(selfID, c.spec.Epoch, []ConnObs{{goodID, 1}}, []string{selfID, "probe", goodID}, []string{"probe"})
	ds := make([][]byte, len(c.dgrams))
	copy(ds, c.dgrams)
	return fmt.Sprintf("{| pc_toks := %s; pc_hashes := %s; pc_node := %s; pc_bi := %s; pc_dgrams := %s; pc_obs := %s |}",
		toks, hashTable(names), node, coqBinfo(c.spec.Sessions[0]), CoqBytesList(ds), coqObs(o, 0)), true, ""
}

var _ = binary.BigEndian
