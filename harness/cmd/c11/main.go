package main

// C11 — only admissible peers stay connected: allow-list, identity, cost, one per ID.
//
// A real node in a child process, a well-behaved peer B, and 1..4 scripted sessions handed to
// AddBackend with generated backend policies (cost, per-node cost overrides, allow-list).  The
// harness releases handshakes, later updates, reject messages and hang-ups to the sessions in a
// chosen order, each step completely processed before the next (exact barrier of the scripted
// session), and observes Status().Connections / KnownConnectionCosts[self] / RoutingTable and
// each session's fate (open, closed, type-3 reject byte).
//   Oracle (model-independent, restates the property on the observation): every connection
//   has a non-empty, non-local ID announced by a still-open session whose backend allows it, at
//   that backend's cost for the ID; at most one open session per announced ID; statically
//   inadmissible handshakes are rejected; hung-up sessions are forgotten; own-row edges and
//   routes exist only for connections; hand-built scenarios additionally carry the expected
//   fate of every session.
//   Correspondence: Model/Admit.v sys_run on the same schedule vs the observation.
//   Racy cases (oracle only): 2..4 same-ID handshakes released at once; handshake and hang-up
//   released together.

import (
	"encoding/json"
	"fmt"
	"os"
	"sort"
	"strings"

	. "verifharness/lib"
)

func main() {
	Main("C11", runC11, map[string]func([]string){"node": childMain})
}

type c11Case struct {
	spec    CaseSpec
	kind    string
	hsID    []string // ID announced by each session's first route message
	hsSent  []bool
	hung    []bool
	expect  map[int]string // optional: "open" | "rejected" | "closed"
	seq     bool           // sequential release (model comparison possible)
	sched   []string
	dgrams  [][]byte
	actions []string
}

func newC11(id int, kind string, sess []SessSpec) *c11Case {
	c := &c11Case{kind: kind, seq: true, expect: map[int]string{}}
	c.spec = CaseSpec{ID: id, NodeID: selfID, Epoch: 0x5000000001, GoodPeer: goodID, Sessions: sess}
	c.hsID = make([]string, len(sess))
	c.hsSent = make([]bool, len(sess))
	c.hung = make([]bool, len(sess))
	return c
}

func (c *c11Case) send(i int, data []byte, what string) {
	if c.spec.Sessions[i].Transport != "" {
		c.spec.Steps = append(c.spec.Steps, Step{Sess: i, Op: "send", Data: data, PauseMs: 30})
		c.actions = append(c.actions, fmt.Sprintf("s%d:%s", i, what))
		return
	}
	for _, d := range [][]byte{data, {0xff}} {
		c.spec.Steps = append(c.spec.Steps, Step{Sess: i, Op: "send", Data: d})
		c.sched = append(c.sched, fmt.Sprintf("SSend %d%%nat %s", i, Hx(d)))
		c.dgrams = append(c.dgrams, d)
	}
	c.actions = append(c.actions, fmt.Sprintf("s%d:%s", i, what))
}

func (c *c11Case) handshake(i int, id string, r *Rng) {
	f := ruFields{Node: id, UID: fmt.Sprintf("hs%d-%s", i, id), Fwd: id, Epoch: 3, Seq: 1, Conns: map[string]float64{}}
	if r != nil && r.Chance(15) {
		f.Node = "someone-else" // admission looks at ForwardingNode only
	}
	if !c.hsSent[i] {
		c.hsSent[i] = true
		c.hsID[i] = id
	}
	c.send(i, msg(1, f.tree(), r), "handshake("+id+")")
}

func (c *c11Case) update(i int, f ruFields, what string, r *Rng) {
	c.send(i, msg(1, f.tree(), r), what)
}

func (c *c11Case) hang(i int) {
	if c.spec.Sessions[i].Transport != "" {
		c.spec.Steps = append(c.spec.Steps, Step{Sess: i, Op: "hangup"}, Step{Sess: i, Op: "raw", PauseMs: 60})
		c.hung[i] = true
		c.actions = append(c.actions, fmt.Sprintf("s%d:hangup", i))
		return
	}
	c.spec.Steps = append(c.spec.Steps, Step{Sess: i, Op: "hangup"})
	c.sched = append(c.sched, fmt.Sprintf("SHang %d%%nat", i))
	c.hung[i] = true
	c.actions = append(c.actions, fmt.Sprintf("s%d:hangup", i))
}

func costFor(s SessSpec, id string) float64 {
	if v, ok := s.NodeCost[id]; ok {
		return v
	}
	return s.Cost
}

func allowedBy(s SessSpec, id string) bool {
	if !s.HasAllowed {
		return true
	}
	for _, a := range s.Allowed {
		if a == id {
			return true
		}
	}
	return false
}

var uidCounter int

func uid() string { uidCounter++; return fmt.Sprintf("u%d", uidCounter) }

// ---------- scenario generators ----------

var allowLists = []struct {
	has bool
	l   []string
}{{false, nil}, {true, []string{"alpha", "beta"}}, {true, []string{}}, {true, []string{"gamma", "localhost", ""}}}

func genCases(c *Ctx) []*c11Case {
	r := c.Rng
	var cases []*c11Case
	add := func(cs *c11Case) { cs.spec.ID = len(cases); cases = append(cases, cs) }

	// A. admission matrix, one session
	for _, al := range allowLists {
		for _, nc := range []map[string]float64{nil, {"alpha": 3, "gamma": 0.25}} {
			for _, cost := range []float64{1, 2} {
				for _, id := range []string{"alpha", "beta", "gamma", "", selfID, goodID, "localhost"} {
					ss := SessSpec{Cost: cost, NodeCost: nc, HasAllowed: al.has, Allowed: al.l}
					cs := newC11(0, "admission-matrix", []SessSpec{ss})
					cs.handshake(0, id, nil)
					if id != "" && id != selfID && id != goodID && allowedBy(ss, id) {
						cs.expect[0] = "open"
					} else {
						cs.expect[0] = "rejected"
					}
					add(cs)
				}
			}
		}
	}
	// B. post-establishment behaviour, then a newcomer under the same ID
	type post struct {
		name   string
		run    func(cs *c11Case, cost float64)
		expect string
	}
	direct := func(listed bool, cost float64) ruFields {
		f := ruFields{Node: "alpha", UID: uid(), Fwd: "alpha", Epoch: 3, Seq: 2, Conns: map[string]float64{"other": 1}}
		if listed {
			f.Conns[selfID] = cost
		}
		return f
	}
	posts := []post{
		{"agrees-then-unlists", func(cs *c11Case, k float64) {
			cs.update(0, direct(true, k), "direct-update(cost agrees)", nil)
			cs.update(0, direct(false, 0), "direct-update(not listing us)", nil)
		}, "rejected"},
		{"late-init-only", func(cs *c11Case, k float64) {
			cs.update(0, direct(false, 0), "direct-update(not listing us, never listed)", nil)
			cs.update(0, direct(false, 0), "direct-update(not listing us, never listed)", nil)
		}, "open"},
		{"agrees", func(cs *c11Case, k float64) {
			cs.update(0, direct(true, k), "direct-update(cost agrees)", nil)
			cs.update(0, direct(true, k), "direct-update(cost agrees)", nil)
		}, "open"},
		{"cost-disagrees", func(cs *c11Case, k float64) {
			cs.update(0, direct(true, k+1), "direct-update(other cost)", nil)
		}, "rejected"},
		{"agrees-then-disagrees", func(cs *c11Case, k float64) {
			cs.update(0, direct(true, k), "direct-update(cost agrees)", nil)
			cs.update(0, direct(true, k/2), "direct-update(other cost)", nil)
		}, "rejected"},
		{"forwarder-changes", func(cs *c11Case, k float64) {
			f := direct(true, k)
			f.Fwd = "beta"
			cs.update(0, f, "update(forwarder beta)", nil)
		}, "rejected"},
		{"forwarder-empty", func(cs *c11Case, k float64) {
			f := direct(true, k)
			f.Fwd = ""
			cs.update(0, f, "update(no forwarder)", nil)
		}, "rejected"},
		{"third-party-update", func(cs *c11Case, k float64) {
			f := ruFields{Node: "delta", UID: uid(), Fwd: "alpha", Epoch: 9, Seq: 1, Conns: map[string]float64{"alpha": 1}}
			cs.update(0, f, "relayed-update(delta)", nil)
		}, "open"},
		{"peer-rejects", func(cs *c11Case, k float64) { cs.send(0, []byte{3, '[', ']'}, "reject-message") }, "closed"},
		{"hangup", func(cs *c11Case, k float64) { cs.hang(0) }, "closed"},
		{"junk", func(cs *c11Case, k float64) {
			cs.send(0, []byte{}, "empty")
			cs.send(0, []byte("\x02{\"Cancel\":true}"), "advert")
			cs.send(0, []byte("\x01{not json"), "bad-json")
			cs.send(0, []byte{0, 1, 2}, "short-data")
		}, "open"},
		{"second-handshake-other-id", func(cs *c11Case, k float64) {
			// once established, a handshake-like update under another ID is a forwarder change
			f := ruFields{Node: "beta", UID: uid(), Fwd: "beta", Epoch: 3, Seq: 1, Conns: map[string]float64{}}
			cs.update(0, f, "handshake-like(beta)", nil)
		}, "rejected"},
	}
	for _, p := range posts {
		for _, nc := range []map[string]float64{nil, {"alpha": 4}} {
			for _, cost := range []float64{1, 0.5} {
				ss := SessSpec{Cost: cost, NodeCost: nc}
				cs := newC11(0, "post:"+p.name, []SessSpec{ss, {Cost: 2}})
				cs.handshake(0, "alpha", nil)
				p.run(cs, costFor(ss, "alpha"))
				cs.expect[0] = p.expect
				// a newcomer announcing the same ID: admitted iff the first session is gone
				cs.handshake(1, "alpha", nil)
				if p.expect == "open" {
					cs.expect[1] = "rejected"
				} else {
					cs.expect[1] = "open"
				}
				add(cs)
			}
		}
	}
	// B'. before the handshake: a reject message / other datagrams first
	for k := 0; k < 3; k++ {
		cs := newC11(0, "pre:reject-first", []SessSpec{{Cost: 1}, {Cost: 1}})
		switch k {
		case 0:
			cs.send(0, []byte{3, '[', ']'}, "reject-message")
			cs.expect[0] = "closed"
			cs.handshake(0, "alpha", nil) // never read: the session is gone
			cs.hsSent[0] = false
		case 1:
			cs.send(0, []byte("\x01{not json"), "bad-json")
			cs.send(0, []byte{}, "empty")
			cs.send(0, []byte("\x02{}"), "advert")
			cs.send(0, dataPacket(5, nameHash("alpha"), nameHash(selfID), "c", "probe", nil), "data")
			cs.handshake(0, "alpha", nil)
			cs.expect[0] = "open"
		default:
			cs.send(0, []byte("\x01[1,2]"), "update-not-an-object")
			cs.send(0, []byte{3}, "reject-message")
			cs.expect[0] = "closed"
		}
		cs.handshake(1, "alpha", nil)
		if k == 1 {
			cs.expect[1] = "rejected"
		} else {
			cs.expect[1] = "open"
		}
		add(cs)
	}
	// C. 2..3 sessions, every order of handshake release, then every order of departure
	idSets := [][]string{{"alpha", "alpha"}, {"alpha", "beta"}, {"alpha", "alpha", "alpha"}, {"alpha", "alpha", "beta"}, {"alpha", "beta", "gamma"}, {"alpha", "", selfID}}
	for _, ids := range idSets {
		for _, order := range perms(len(ids)) {
			for _, leave := range perms(len(ids)) {
				if len(ids) == 3 && !c.Thorough() && (leave[0]+order[1])%3 != 0 {
					continue // quick tier: a third of the 36 (order, departure) pairs
				}
				ss := make([]SessSpec, len(ids))
				for i := range ss {
					ss[i] = SessSpec{Cost: 1}
				}
				cs := newC11(0, "orders", ss)
				for _, i := range order {
					cs.handshake(i, ids[i], nil)
				}
				// the first to announce an admissible ID holds it
				taken := map[string]bool{}
				for _, i := range order {
					id := ids[i]
					if id != "" && id != selfID && !taken[id] {
						taken[id] = true
						cs.expect[i] = "open"
					} else {
						cs.expect[i] = "rejected"
					}
				}
				// departures, each followed by a retry of a rejected session's ID by a NEW handshake
				// on the same (closed) session: must have no effect
				for _, i := range leave {
					if cs.expect[i] == "open" {
						cs.hang(i)
						cs.expect[i] = "closed"
					}
				}
				add(cs)
			}
		}
	}
	// T. admission through every real backend (listeners, dialers, TLS, websocket, embedded):
	// admissible / empty / own / not-allowed ID; an admitted stream peer then hangs up and a
	// second session announces the same ID
	for _, tr := range []string{"tcp", "tls", "udp", "ws", "wss", "tcp-dial", "udp-dial", "ws-dial", "ext", "extws"} {
		for _, id := range []string{"alpha", "", selfID, "beta"} {
			ss := SessSpec{Cost: 2, NodeCost: map[string]float64{"alpha": 0.5}, HasAllowed: true, Allowed: []string{"alpha", "", selfID}, Transport: tr}
			cs := newC11(0, "transport:"+tr, []SessSpec{ss, {Cost: 1}})
			cs.seq = false
			cs.spec.SockGrace = true
			cs.spec.SettleMs = 60
			cs.handshake(0, id, nil)
			if id == "alpha" {
				cs.expect[0] = "open"
				cs.spec.SockOpenOK = true
				datagram := tr == "udp" || tr == "udp-dial"
				if !datagram {
					cs.hang(0)
					cs.expect[0] = "closed"
					cs.handshake(1, "alpha", nil)
					cs.expect[1] = "open"
				} else {
					cs.handshake(1, "alpha", nil)
					cs.expect[1] = "rejected"
				}
			} else {
				cs.expect[0] = "rejected"
			}
			add(cs)
		}
	}
	// a backend configured with a non-positive cost: runProtocol refuses to run, nothing is admitted
	for _, cost := range []float64{0, -1} {
		cs := newC11(0, "nonpositive-cost", []SessSpec{{Cost: cost}, {Cost: 1}})
		cs.seq = false
		cs.actions = append(cs.actions, "s0: backend with cost <= 0 (never read from)")
		cs.spec.SettleMs = 50
		cs.handshake(1, "alpha", nil)
		cs.expect[1] = "open"
		add(cs)
	}
	// D. generated scenarios
	n := 250
	if c.Thorough() {
		n = 2500
	}
	ids := []string{"alpha", "beta", "gamma", "", selfID, goodID}
	for k := 0; k < n; k++ {
		ns := 1 + r.Intn(4)
		ss := make([]SessSpec, ns)
		for i := range ss {
			al := allowLists[r.Intn(len(allowLists))]
			if r.Chance(50) {
				al = allowLists[0]
			}
			ss[i] = SessSpec{Cost: []float64{1, 2, 0.5}[r.Intn(3)], HasAllowed: al.has, Allowed: al.l}
			if r.Chance(30) {
				ss[i].NodeCost = map[string]float64{"alpha": 3, "beta": 0.25}
			}
		}
		cs := newC11(0, "generated", ss)
		for a := 3 + r.Intn(8); a > 0; a-- {
			i := r.Intn(ns)
			if cs.hung[i] {
				continue
			}
			id := cs.hsID[i]
			switch x := r.Intn(100); {
			case !cs.hsSent[i] || x < 10:
				pick := ids[r.Intn(len(ids))]
				if r.Chance(60) {
					pick = ids[r.Intn(2)]
				}
				cs.handshake(i, pick, r)
			case x < 40:
				f := ruFields{Node: id, UID: uid(), Fwd: id, Epoch: 3, Seq: uint64(2 + a), Conns: map[string]float64{}}
				if r.Chance(75) {
					f.Conns[selfID] = costFor(ss[i], id)
					if r.Chance(20) {
						f.Conns[selfID] = []float64{1, 2, 3, 0.5, 0.25}[r.Intn(5)]
					}
				}
				cs.update(i, f, fmt.Sprintf("direct-update(%v)", f.Conns), r)
			case x < 50:
				f := ruFields{Node: "delta", UID: uid(), Fwd: id, Epoch: 9, Seq: uint64(a), Conns: map[string]float64{id: 1}}
				if r.Chance(25) {
					f.Fwd = ids[r.Intn(len(ids))]
				}
				cs.update(i, f, "relayed-update(fwd="+f.Fwd+")", r)
			case x < 60:
				cs.send(i, []byte{3}, "reject-message")
			case x < 75:
				cs.hang(i)
			default:
				d := genDatagram(r, cs.spec.Epoch, true)
				if len(d.b) > 0 && (d.b[0] == 1 || d.b[0] == 3) {
					d.b[0] = 2
				}
				cs.send(i, d.b, "other:"+d.kind)
			}
		}
		add(cs)
	}
	// E. racy releases (oracle only)
	nr := 60
	if c.Thorough() {
		nr = 400
	}
	for k := 0; k < nr; k++ {
		ns := 2 + r.Intn(3)
		ss := make([]SessSpec, ns)
		for i := range ss {
			ss[i] = SessSpec{Cost: 1}
		}
		cs := newC11(0, "race-same-id", ss)
		cs.seq = false
		cs.spec.SettleMs = 60
		for i := 0; i < ns; i++ {
			id := "alpha"
			if r.Chance(15) {
				id = "beta"
			}
			cs.hsSent[i], cs.hsID[i] = true, id
			cs.spec.Steps = append(cs.spec.Steps, Step{Sess: i, Op: "send", NoBarrier: true,
				Data: msg(1, ruFields{Node: id, UID: uid(), Fwd: id, Epoch: 3, Seq: 1, Conns: map[string]float64{}}.tree(), nil)})
		}
		distinct := map[string]bool{}
		for _, id := range cs.hsID {
			distinct[id] = true
		}
		remain := len(distinct)
		if k%2 == 1 {
			remain = 0
			cs.kind = "race-handshake-hangup"
			for i := 0; i < ns; i++ {
				cs.spec.Steps = append(cs.spec.Steps, Step{Sess: i, Op: "hangup", NoBarrier: true})
				cs.hung[i] = true
			}
		}
		cs.spec.WaitOpenAtMost = &remain
		add(cs)
	}
	return cases
}

func perms(n int) [][]int {
	if n == 1 {
		return [][]int{{0}}
	}
	var out [][]int
	for _, p := range perms(n - 1) {
		for pos := 0; pos <= len(p); pos++ {
			q := append(append(append([]int{}, p[:pos]...), n-1), p[pos:]...)
			out = append(out, q)
		}
	}
	return out
}

// ---------- oracle ----------

func (cs *c11Case) oracle(im *Impl, o *CaseObs, replay interface{}) {
	v := func(what, sig string) { im.Violate(what, sig, replay) }
	conn := map[string]float64{}
	for _, c := range o.Conns {
		conn[c.ID] = c.Cost
	}
	open := map[string][]int{}
	for i, so := range o.Sess {
		if cs.hsSent[i] && !so.Closed {
			open[cs.hsID[i]] = append(open[cs.hsID[i]], i)
		}
	}
	for id, cost := range conn {
		if id == goodID {
			continue
		}
		switch {
		case id == "":
			v("a connection with the EMPTY node ID is established", "admitted-empty-id")
			continue
		case id == selfID:
			v("a connection under the node's own ID is established", "admitted-own-id")
			continue
		}
		holders := open[id]
		if len(holders) == 0 {
			who := "no session ever announced it"
			for i := range cs.hsID {
				if cs.hsSent[i] && cs.hsID[i] == id {
					who = "every session that announced it has been closed"
				}
			}
			v(fmt.Sprintf("connection %q is listed but %s", id, who), "connection-without-session")
			continue
		}
		h := holders[0]
		if !allowedBy(cs.spec.Sessions[h], id) {
			v(fmt.Sprintf("connection %q established through a backend whose allow-list does not contain it", id), "admitted-not-allowed")
		}
		if want := costFor(cs.spec.Sessions[h], id); want != cost {
			v(fmt.Sprintf("connection %q has cost %v, its backend configures %v", id, cost, want), "wrong-cost")
		}
	}
	for id, hs := range open {
		if len(hs) > 1 {
			v(fmt.Sprintf("%d sessions are simultaneously established under the ID %q", len(hs), id), "two-sessions-one-id")
		}
		if _, ok := conn[id]; !ok && len(hs) > 0 {
			v(fmt.Sprintf("a session that announced %q is still open but the ID is not connected", id), "open-session-without-connection")
		}
	}
	for i, so := range o.Sess {
		if !cs.hsSent[i] {
			continue
		}
		id := cs.hsID[i]
		static := id == "" || id == selfID || !allowedBy(cs.spec.Sessions[i], id)
		if static && !(so.Closed && so.Reject) {
			v(fmt.Sprintf("session %d announced the inadmissible ID %q and was not rejected (closed=%v reject-byte=%v)", i, id, so.Closed, so.Reject), "inadmissible-not-rejected")
		}
		if cs.hung[i] && !so.Closed {
			v(fmt.Sprintf("session %d was hung up by the peer and is not closed", i), "hangup-not-closed")
		}
		if want, ok := cs.expect[i]; ok {
			got := "open"
			if so.Closed && so.Reject {
				got = "rejected"
			} else if so.Closed {
				got = "closed"
			}
			if got != want {
				v(fmt.Sprintf("session %d (announced %q): expected %s, observed %s; actions %v", i, id, want, got, cs.actions), "fate:"+cs.kind)
			}
		}
	}
	// own-row edges and routes only for connections
	row := map[string]bool{}
	for _, e := range o.SelfRow {
		row[e.ID] = true
		if _, ok := conn[e.ID]; !ok {
			v(fmt.Sprintf("own cost row still has an edge to %q, which is not connected", e.ID), "edge-without-connection")
		}
	}
	for id := range conn {
		if !row[id] {
			v(fmt.Sprintf("connection %q has no edge in the node's own cost row (unroutable neighbour)", id), "connection-without-edge")
		}
	}
	for dest, hop := range o.Routes {
		if _, ok := conn[hop]; !ok {
			v(fmt.Sprintf("route to %q via %q, which is not connected", dest, hop), "route-without-connection")
		}
	}
	if o.Done {
		v("the node shut down during an admission scenario", "node-shutdown")
	} else if !o.GoodPing {
		v("well-behaved peer's ping not answered within 2 s", "wedge:good-peer-ping")
	} else if !o.NewPeer && o.Wedged == "" {
		v("after the scenario a new well-behaved peer is not admitted, routed and answered within 2 s each", "wedge:new-peer")
	}
	if strings.HasPrefix(o.Wedged, "status:") {
		v("node wedged: "+o.Wedged, "wedge:status")
	} else if o.Wedged != "" {
		v("receive loop wedged: "+o.Wedged, "wedge:session-loop")
	}
}

// ---------- model term ----------

func (cs *c11Case) term(o *CaseObs) (string, bool, string) {
	names := map[string]bool{}
	toks, ok, bad := tokTable(cs.dgrams, names)
	if !ok {
		return "", false, bad
	}
	bis := make([]string, len(cs.spec.Sessions))
	for i, s := range cs.spec.Sessions {
		bis[i] = coqBinfo(s)
	}
	so := make([]string, len(o.Sess))
	for i, s := range o.Sess {
		so[i] = fmt.Sprintf("{| so_closed := %s; so_reject := %s |}", CoqBool(s.Closed), CoqBool(s.Reject))
	}
	return fmt.Sprintf("{| ac_toks := %s; ac_self := %s; ac_conns0 := %s; ac_bis := %s; ac_sched := %s; ac_obs_sess := %s; ac_obs_conns := %s; ac_obs_selfrow := %s |}",
		toks, HxS(selfID), coqCosts([]ConnObs{{goodID, 1}}), CoqList(bis), CoqList(cs.sched), CoqList(so),
		coqCosts(o.Conns), coqCosts(o.SelfRow)), true, ""
}

func runC11(c *Ctx) {
	im := NewImpl("C11", c.Seed, c.Tier)
	im.Rule = "scenarios on a real node in a child process with a well-behaved peer B and 1..4 scripted sessions: (A) admission matrix allow-list x per-node cost x cost x announced ID; (B) 12 post-establishment behaviours x cost configurations, then a newcomer under the same ID; (C) 2..3 sessions with equal/different/inadmissible IDs, every order of handshake release x every order of departure; (D) generated configurations and schedules (handshakes, direct/relayed updates, reject messages, hang-ups, other datagrams); (E) racy: 2..4 same-ID handshakes, and handshake+hang-up, released without barriers (oracle only); (F) gate race: up to 400 rounds (4 s) of 6..8 same-ID sessions whose handshakes are released at the same instant through a spin gate inside Recv, survivors proved established by a delivered packet, entry listed exactly once while one is alive and gone after the last ends; (G) late-cancel stress and same-ID meshes; (H) session endings: Recv io.EOF / Recv error / Send error / context cancelled / idle timeout x before handshake / established one-sided / both ways / data flowing: closed and gone from Connections and own row within 0.5 s (idle: limit 2.5 s, above the 1 s receive timeout, + 5 s monitor period), from the routing table within 1 s more, same ID re-admitted at once; (I) held end: an established session ends (Recv io.EOF / Recv error / backend context cancelled) while its protocol loop is kept busy inside a message handler (a firewall rule that does not return / a local service that does not read its socket), 1..2 new sessions announce the same ID meanwhile, the loop is released, 1..2 more announce it afterwards, backends with different costs: at every point at most one session per ID carries traffic (datagram delivered to a local service), each one that does is listed exactly once in Status().Connections and the own cost row at its backend's cost, sessions closed by the node got the type-3 message, exactly one holds the ID at the end, all forgotten after hang-up; final fates also evaluated by the model (end of the old session = LHangup at the release); every verdict confirmed by running the plan alone again; non-trivial = at least one handshake released; distinct by configuration and schedule"
	cf := &CaseFile{Dir: c.Out, Prop: "C11", Imports: []string{"Model.Admit"}, CaseType: "admit_case", CheckFn: "admit_check", PerShard: 150}
	cases := genCases(c)
	specs := make([]CaseSpec, len(cases))
	for i, cs := range cases {
		specs[i] = cs.spec
	}
	dir, err := os.MkdirTemp("", "c11-run-")
	Must(err)
	defer os.RemoveAll(dir)
	// socket scenarios: an unexpected fate is confirmed by running the case alone
	ExtraSuspect = func(id int, o *CaseObs) bool {
		if id < 0 || id >= len(cases) || !strings.HasPrefix(cases[id].kind, "transport:") || o.Err != "" {
			return false
		}
		tmp := NewImpl("C11", 0, "probe")
		cases[id].oracle(tmp, o, nil)
		return len(tmp.Violations) > 0
	}
	type endings struct {
		jobs []endingJob
		res  []endingResult
	}
	endCh := make(chan endings, 1)
	go func() {
		j, r := runEndings(c.Thorough())
		endCh <- endings{j, r}
	}()
	res, reruns := RunCasesConfirmed(dir, specs, 8, 8)
	im.Extra["timing_suspects_rerun_alone"] = reruns
	for i, cs := range cases {
		o := res[i]
		im.Hist("scenario:" + strings.SplitN(cs.kind, ":", 2)[0])
		im.Hist(fmt.Sprintf("sessions:%d", len(cs.spec.Sessions)))
		key, _ := json.Marshal(cs.spec)
		anyHs := false
		for _, b := range cs.hsSent {
			anyHs = anyHs || b
		}
		im.Count(string(key), anyHs)
		replay := map[string]interface{}{"kind": cs.kind, "sessions": cs.spec.Sessions, "actions": cs.actions, "announced": cs.hsID}
		if o == nil {
			im.Violate("harness: no observation for a case", "harness-no-observation", replay)
			continue
		}
		replay["observed"] = map[string]interface{}{"sessions": o.Sess, "connections": o.Conns, "own_row": o.SelfRow, "routes": o.Routes}
		if i < 2 || i == 200 {
			im.Sample(replay)
		}
		switch {
		case o.Crashed:
			im.Violate("node process died: "+o.CrashText, "panic", replay)
			continue
		case o.Err != "":
			im.Violate("harness: "+o.Err, "harness-error", replay)
			continue
		}
		cs.oracle(im, o, replay)
		for _, so := range o.Sess {
			switch {
			case so.Closed && so.Reject:
				im.Hist("session-fate:rejected")
			case so.Closed:
				im.Hist("session-fate:closed")
			default:
				im.Hist("session-fate:open")
			}
		}
		if !cs.seq {
			continue
		}
		term, ok, bad := cs.term(o)
		if bad != "" {
			im.Violate("harness self-check: "+bad, "harness-json-scanner", replay)
			continue
		}
		if !ok {
			im.Hist("outside-model-language")
			continue
		}
		lbl, _ := json.Marshal(map[string]interface{}{"kind": cs.kind, "sessions": cs.spec.Sessions, "actions": cs.actions})
		cf.Add(term, string(lbl))
	}
	e := <-endCh
	reportEndings(im, e.jobs, e.res)
	gateRace(c, im)
	lateCancel(c, im)
	sameIDMesh(c, im)
	heldEnd(c, im, cf)
	Must(cf.Write())
	Must(im.Write(c.Out))
}

var _ = sort.Strings
