package main

// The same-ID case of C11 on real nodes: two nodes claim the same ID at different places of a
// small mesh, with start epochs at least one second apart (the granularity of the epoch).  The
// later one must shut itself down, the earlier one and the hubs keep running.

import (
	"context"
	"fmt"
	"io"
	"sync"
	"sync/atomic"
	"time"

	. "verifharness/lib"

	"github.com/ansible/receptor/pkg/netceptor"
)

func isDone(n *netceptor.Netceptor) bool {
	select {
	case <-n.NetceptorDone():
		return true
	default:
		return false
	}
}

func sameIDMesh(c *Ctx, im *Impl) {
	QuietLogs()
	trials := 4
	if c.Thorough() {
		trials = 16
	}
	k := FastConsts()
	for t := 0; t < trials; t++ {
		hubs := 2 + t%2 // dup1 - hub0 - ... - hubN - dup2
		laterJoinsFirst := t%4 >= 2
		gapSeconds := uint64(1 + c.Rng.Intn(3))
		var nodes []*netceptor.Netceptor
		var cancels []context.CancelFunc
		mk := func(id string) *netceptor.Netceptor {
			ctx, cancel := context.WithCancel(context.Background())
			n := netceptor.NewWithConsts(ctx, id, k.MTU, k.RouteUpdate, k.ServiceAd, k.SeenExpire, k.MaxHops, k.MaxIdle)
			n.Logger.SetOutput(io.Discard)
			nodes = append(nodes, n)
			cancels = append(cancels, cancel)
			return n
		}
		link := func(a, b *netceptor.Netceptor) {
			ea, eb := NewPipePair(4096)
			_ = a.AddBackend(&OneShotBackend{Sess: ea})
			_ = b.AddBackend(&OneShotBackend{Sess: eb})
		}
		hub := make([]*netceptor.Netceptor, hubs)
		for i := range hub {
			hub[i] = mk(fmt.Sprintf("hub%d", i))
			if i > 0 {
				link(hub[i-1], hub[i])
			}
		}
		base := uint64(time.Now().Unix()) << 24
		earlier, later := mk("twin"), mk("twin")
		earlier.VerifSetEpoch(base + uint64(c.Rng.Intn(1<<24)))
		later.VerifSetEpoch(base + gapSeconds<<24 + uint64(c.Rng.Intn(1<<24)))
		if laterJoinsFirst {
			link(later, hub[hubs-1])
			time.Sleep(300 * time.Millisecond)
			link(earlier, hub[0])
		} else {
			link(earlier, hub[0])
			time.Sleep(300 * time.Millisecond)
			link(later, hub[hubs-1])
		}
		rec := map[string]interface{}{"hubs": hubs, "later_joins_first": laterJoinsFirst, "epoch_gap_seconds": gapSeconds}
		im.Hist("same-id-mesh")
		im.Count(fmt.Sprintf("same-id %v", rec), true)
		ok := WaitFor(10*time.Second, func() bool { return isDone(later) })
		time.Sleep(500 * time.Millisecond)
		if !ok {
			im.Violate("two running nodes claim the same ID: the later one did not shut down within 10 s", "same-id:later-not-shut-down", rec)
		}
		if isDone(earlier) {
			im.Violate("two running nodes claim the same ID: the EARLIER one shut down", "same-id:earlier-shut-down", rec)
		}
		for i, h := range hub {
			if isDone(h) {
				im.Violate(fmt.Sprintf("hub%d shut down in the same-ID scenario", i), "same-id:bystander-shut-down", rec)
			}
		}
		for i, n := range nodes {
			n.Shutdown()
			cancels[i]()
		}
	}
}

func hsMsg(id string) []byte {
	return msg(1, ruFields{Node: id, UID: "hs-" + id, Fwd: id, Epoch: 1, Seq: 1, Conns: map[string]float64{}}.tree(), nil)
}

// lateCancel: "a connection is forgotten as soon as its session ends", at the one point where
// the pinned code forgot it: the peer hangs up while the freshly admitted session waits for the
// routing-table runner, which is kept busy by a large known-connection graph (any big mesh).
func lateCancel(c *Ctx, im *Impl) {
	ctx, cancel := context.WithCancel(context.Background())
	defer cancel()
	n := netceptor.NewWithConsts(ctx, selfID, 16384, time.Hour, time.Hour, time.Hour, 30, time.Hour)
	n.Logger.SetOutput(io.Discard)
	defer n.Shutdown()
	N := 2500
	g := map[string]map[string]float64{selfID: {}}
	for i := 0; i < N; i++ {
		g[fmt.Sprintf("n%d", i)] = map[string]float64{}
	}
	for i := 0; i < N; i++ {
		a := fmt.Sprintf("n%d", i)
		for k := 1; k <= 4; k++ {
			b := fmt.Sprintf("n%d", (i+k*k)%N)
			g[a][b], g[b][a] = float64(k), float64(k)
		}
	}
	g[selfID]["n0"], g["n0"][selfID] = 1, 1
	n.VerifSetKnownConnectionCosts(g)
	// sessions arrive for a few seconds, each hung up the moment its connection has been
	// inserted; every admission requests a routing-table run (0.1 s later, ~0.2 s long on this
	// graph), so a good part of the sessions finds the runner busy
	count := 150
	if c.Thorough() {
		count = 800
	}
	var sessions []*ScriptSess
	for i := 0; i < count; i++ {
		id := fmt.Sprintf("x%d", i)
		s := NewScriptSess()
		sessions = append(sessions, s)
		_ = n.AddBackend(&oneShot{s}, netceptor.BackendConnectionCost(1.0))
		s.queue <- hsMsg(id)
		deadline := time.Now().Add(2 * time.Second)
		for time.Now().Before(deadline) {
			found := false
			for _, cid := range n.VerifConnectionIDs() {
				if cid == id {
					found = true
				}
			}
			if found {
				break
			}
		}
		s.Hangup()
		s.waitClosed(5 * time.Second)
		time.Sleep(2 * time.Millisecond)
		im.Hist("late-cancel-session")
		im.Count("late-cancel "+id, true)
	}
	tries := len(sessions)
	closed := 0
	for _, s := range sessions {
		if s.waitClosed(5 * time.Second) {
			closed++
		}
	}
	time.Sleep(300 * time.Millisecond)
	st := n.Status()
	var left []string
	for _, cn := range st.Connections {
		left = append(left, cn.NodeID)
	}
	rec := map[string]interface{}{"sessions": tries, "closed_by_node": closed, "connections_left": left}
	if closed != tries {
		im.Violate(fmt.Sprintf("%d of %d hung-up sessions were not closed by the node", tries-closed, tries), "hangup-not-closed", rec)
	}
	if len(left) > 0 {
		im.Violate(fmt.Sprintf("%d of %d sessions that were hung up right after admission are still listed in Status().Connections (and routed)", len(left), tries),
			"connection-without-session:late-cancel", rec)
	}
}

// ---------- simultaneous same-ID handshakes through a gate ----------

// gatedSess hands its first datagram out only when the gate opens: the protoReader goroutines
// of all sessions of a round spin on the gate inside Recv and return the same handshake at the
// same instant.
type gatedSess struct {
	*ScriptSess
	gate    *int32
	arrived *int32
	first   []byte
	given   int32
}

func (g *gatedSess) Recv(timeout time.Duration) ([]byte, error) {
	if atomic.CompareAndSwapInt32(&g.given, 0, 1) {
		atomic.AddInt32(g.arrived, 1)
		for atomic.LoadInt32(g.gate) == 0 {
		}
		g.mu.Lock()
		g.delivered++
		g.mu.Unlock()
		return g.first, nil
	}
	return g.ScriptSess.Recv(timeout)
}

// gateRace: rounds of N sessions announcing the same ID, all handshakes released at the same
// instant.  After the round settles: at most one session is established (survivors prove it by
// getting a packet delivered to a local service, so a merely slow rejection does not count),
// Status().Connections lists the ID exactly once while a session is alive, and not at all after
// the last one has ended.  Stops at the first violation.
func gateRace(c *Ctx, im *Impl) {
	ctx, cancel := context.WithCancel(context.Background())
	defer cancel()
	n := netceptor.NewWithConsts(ctx, selfID, 16384, time.Hour, time.Hour, time.Hour, 30, time.Hour)
	n.Logger.SetOutput(io.Discard)
	defer n.Shutdown()
	pc, err := n.ListenPacket("probe")
	if err != nil {
		im.Violate("harness: "+err.Error(), "harness-error", nil)
		return
	}
	var delMu sync.Mutex
	got := map[string]bool{}
	go func() {
		buf := make([]byte, 4096)
		for {
			k, _, err := pc.ReadFrom(buf)
			if err != nil {
				return
			}
			delMu.Lock()
			got[string(buf[:k])] = true
			delMu.Unlock()
		}
	}()
	listed := func(id string) int {
		k := 0
		for _, cn := range n.Status().Connections {
			if cn.NodeID == id {
				k++
			}
		}
		return k
	}
	budget, maxRounds := 6*time.Second, 600
	if c.Thorough() {
		budget, maxRounds = 40*time.Second, 6000
	}
	start := time.Now()
	rounds := 0
	for ; rounds < maxRounds && time.Since(start) < budget; rounds++ {
		N := 6 + rounds%3
		id := fmt.Sprintf("twin%d", rounds)
		var gate, arrived int32
		ss := make([]*gatedSess, N)
		for i := range ss {
			ss[i] = &gatedSess{ScriptSess: NewScriptSess(), gate: &gate, arrived: &arrived, first: hsMsg(id)}
			_ = n.AddBackend(&oneShot{ss[i]}, netceptor.BackendConnectionCost(1.0))
		}
		for t0 := time.Now(); atomic.LoadInt32(&arrived) < int32(N) && time.Since(t0) < 2*time.Second; {
			time.Sleep(50 * time.Microsecond)
		}
		atomic.StoreInt32(&gate, 1)
		im.Hist("gate-race-round")
		im.Count("gate-race "+id, true)
		open := func() []int {
			var o []int
			for i, s := range ss {
				if !s.IsClosed() {
					o = append(o, i)
				}
			}
			return o
		}
		// settle: all but one rejected (normally within a millisecond); a slow rejection gets 500 ms
		for t0 := time.Now(); len(open()) > 1 && time.Since(t0) < 500*time.Millisecond; {
			time.Sleep(100 * time.Microsecond)
		}
		alive := open()
		rec := map[string]interface{}{"round": rounds, "sessions": N, "announced": id, "not_closed": alive}
		// survivors prove they are established: a packet of theirs reaches a local service
		var est []int
		if len(alive) > 1 {
			for _, i := range alive {
				marker := fmt.Sprintf("%s/%d", id, i)
				ss[i].queue <- dataPacket(5, nameHash(id), nameHash(selfID), "c", "probe", []byte(marker))
				ss[i].queue <- []byte{0xff}
				ss[i].waitConsumed(3, 2*time.Second)
				for t0 := time.Now(); time.Since(t0) < 300*time.Millisecond; {
					delMu.Lock()
					ok := got[marker]
					delMu.Unlock()
					if ok {
						est = append(est, i)
						break
					}
					if ss[i].IsClosed() {
						break
					}
					time.Sleep(200 * time.Microsecond)
				}
			}
			rec["established_proved_by_delivery"] = est
			if len(est) > 1 {
				im.Violate(fmt.Sprintf("%d of %d simultaneous sessions announcing ID %q are established at once (each got a packet delivered to a local service)", len(est), N, id),
					"two-sessions-one-id:gate", rec)
			}
		} else {
			est = alive
		}
		bad := len(est) > 1
		if k := listed(id); len(open()) > 0 && k != 1 {
			im.Violate(fmt.Sprintf("a session announcing %q is alive but Status().Connections lists the ID %d time(s)", id, k), "open-session-without-connection:gate", rec)
			bad = true
		}
		// departures one by one: the entry must stay while an established session is alive
		for k, i := range est {
			ss[i].Hangup()
			ss[i].waitClosed(2 * time.Second)
			if k+1 < len(est) {
				time.Sleep(2 * time.Millisecond)
				if cnt := listed(id); cnt != 1 && !ss[est[k+1]].IsClosed() {
					rec["ended"], rec["still_running"] = i, est[k+1]
					im.Violate(fmt.Sprintf("after session %d ended, session %d is still running but Status().Connections lists %q %d time(s)", i, est[k+1], id, cnt),
						"open-session-without-connection:gate", rec)
					bad = true
				}
			}
		}
		for _, s := range ss {
			s.Hangup()
		}
		for _, s := range ss {
			s.waitClosed(2 * time.Second)
		}
		for t0 := time.Now(); listed(id) > 0 && time.Since(t0) < 500*time.Millisecond; {
			time.Sleep(time.Millisecond)
		}
		if k := listed(id); k != 0 {
			im.Violate(fmt.Sprintf("all sessions announcing %q have ended but Status().Connections still lists it", id), "connection-without-session:gate", rec)
			bad = true
		}
		if bad {
			rounds++
			break
		}
	}
	im.Extra["gate_race_rounds"] = rounds
}
