package main

// The same-ID case of C11 on real nodes: two nodes claim the same ID at different places of a
// small mesh, with start epochs at least one second apart (the granularity of the epoch).  The
// later one must shut itself down, the earlier one and the hubs keep running.

import (
	"context"
	"fmt"
	"io"
	"strings"
	"sync"
	"sync/atomic"
	"time"

	. "verifharness/lib"

	"github.com/ansible/receptor/pkg/netceptor"
)

func isDone(n *netceptor.Netceptor) bool {
	select {
	case <-n.NetceptorDone():
		return true
	default:
		return false
	}
}

// sameIDMesh: chain  x — twin(early) — m1 — m2 [— m3]  of real nodes; a second node "twin" with a
// later start epoch is attached at the far end (two or three hops from the early one; a direct
// neighbour of the early one refuses it as already connected).  One of the two has been running
// for a long time (sequence counter far above the other's), in both orders.  Property text: the
// later one shuts itself down, the earlier one keeps working — within the bound every node routes
// to everything again as in the chain without the late node, and the early node's updates are
// accepted everywhere (stored epoch/sequence = its current ones).
func sameIDMesh(c *Ctx, im *Impl) {
	QuietLogs()
	trials := 4
	if c.Thorough() {
		trials = 16
	}
	k := FastConsts()
	var wg sync.WaitGroup
	var mu sync.Mutex
	type verdict struct {
		what, sig string
		rec       map[string]interface{}
	}
	var out []verdict
	report := func(what, sig string, rec map[string]interface{}) {
		mu.Lock()
		out = append(out, verdict{what, sig, rec})
		mu.Unlock()
	}
	base := uint64(time.Now().Unix()) << 24
	type plan struct {
		far, lateHigh, lateFirst bool
		gap                      uint64
		r1, r2                   uint64
	}
	plans := make([]plan, trials)
	for t := range plans {
		plans[t] = plan{far: t%2 == 1, lateHigh: t%4 < 2 || t%8 == 7, lateFirst: t%8 >= 4, gap: uint64(1 + c.Rng.Intn(3)),
			r1: uint64(c.Rng.Intn(1 << 24)), r2: uint64(c.Rng.Intn(1 << 24))}
	}
	for t := 0; t < trials; t++ {
		wg.Add(1)
		go func(t int, pl plan) {
			defer wg.Done()
			var nodes []*netceptor.Netceptor
			var cancels []context.CancelFunc
			mk := func(id string) *netceptor.Netceptor {
				ctx, cancel := context.WithCancel(context.Background())
				n := netceptor.NewWithConsts(ctx, id, k.MTU, k.RouteUpdate, k.ServiceAd, k.SeenExpire, k.MaxHops, k.MaxIdle)
				n.Logger.SetOutput(io.Discard)
				nodes = append(nodes, n)
				cancels = append(cancels, cancel)
				return n
			}
			defer func() {
				for i, n := range nodes {
					n.Shutdown()
					cancels[i]()
				}
			}()
			link := func(a, b *netceptor.Netceptor) {
				ea, eb := NewPipePair(4096)
				_ = a.AddBackend(&OneShotBackend{Sess: ea})
				_ = b.AddBackend(&OneShotBackend{Sess: eb})
			}
			names := []string{"x", "twin", "m1", "m2"}
			if pl.far {
				names = append(names, "m3")
			}
			earlier, later := mk("twin"), mk("twin")
			earlier.VerifSetEpoch(base + pl.r1)
			later.VerifSetEpoch(base + pl.gap<<24 + pl.r2)
			if pl.lateHigh {
				later.VerifSetSequence(5000) // has been running (detached) for a long time
			} else {
				earlier.VerifSetSequence(5000)
			}
			chain := make([]*netceptor.Netceptor, len(names))
			for i, nm := range names {
				if nm == "twin" {
					chain[i] = earlier
				} else {
					chain[i] = mk(nm)
				}
			}
			rec := map[string]interface{}{"chain": names, "late_attached_to": names[len(names)-1], "late_has_higher_sequence": pl.lateHigh,
				"late_joins_first": pl.lateFirst, "epoch_gap_seconds": pl.gap}
			// the chain without the early node's own links first, so that either twin can join first
			for i := 2; i+1 < len(chain); i++ {
				link(chain[i], chain[i+1])
			}
			joinEarly := func() { link(chain[0], earlier); link(earlier, chain[2]) }
			joinLate := func() { link(later, chain[len(chain)-1]) }
			if pl.lateFirst {
				joinLate()
				time.Sleep(600 * time.Millisecond)
				joinEarly()
			} else {
				joinEarly()
				time.Sleep(600 * time.Millisecond)
				joinLate()
			}
			if !WaitFor(15*time.Second, func() bool { return isDone(later) }) {
				report("two running nodes claim the same ID: the later one did not shut down within 15 s", "same-id:later-not-shut-down", rec)
				return
			}
			// the earlier one keeps working: routes and accepted updates, within the bound
			var problem string
			converged := WaitFor(12*time.Second, func() bool {
				problem = ""
				if isDone(earlier) {
					problem = "the EARLIER node has shut down"
					return false
				}
				cur := earlier.VerifSequence()
				for i, n := range chain {
					if isDone(n) {
						problem = names[i] + " has shut down"
						return false
					}
					rt := n.Status().RoutingTable
					for j := range chain {
						if j == i {
							continue
						}
						var want string
						if j > i {
							want = names[i+1]
						} else {
							want = names[i-1]
						}
						if rt[names[j]] != want {
							problem = fmt.Sprintf("%s routes to %s via %q, the chain without the late node says %q", names[i], names[j], rt[names[j]], want)
							return false
						}
					}
					if n == earlier {
						continue
					}
					ki, ok := n.VerifKnownNodeInfo()["twin"]
					switch {
					case !ok:
						problem = names[i] + " knows nothing of twin"
						return false
					case ki[0] != earlier.VerifEpoch():
						problem = fmt.Sprintf("%s remembers epoch %d for twin, the running one has %d", names[i], ki[0], earlier.VerifEpoch())
						return false
					case ki[1] > cur || cur-ki[1] > 3:
						problem = fmt.Sprintf("%s remembers sequence %d for twin whose current sequence is %d: its updates are not being accepted", names[i], ki[1], cur)
						return false
					}
				}
				return true
			})
			if !converged {
				rec["problem"] = problem
				sig := "same-id:earlier-not-working"
				if isDone(earlier) {
					sig = "same-id:earlier-shut-down"
				}
				report("two running nodes claimed the same ID and the later one has shut down, but 12 s later the earlier one is not working as before: "+problem, sig, rec)
			}
		}(t, plans[t])
	}
	wg.Wait()
	for t := 0; t < trials; t++ {
		im.Hist("same-id-mesh")
		im.Count(fmt.Sprintf("same-id %+v", plans[t]), true)
	}
	for _, v := range out {
		im.Violate(v.what, v.sig, v.rec)
	}
}

func hsMsg(id string) []byte {
	return msg(1, ruFields{Node: id, UID: "hs-" + id, Fwd: id, Epoch: 1, Seq: 1, Conns: map[string]float64{}}.tree(), nil)
}

// lateCancel: "a connection is forgotten as soon as its session ends", at the one point where
// the pinned code forgot it: the peer hangs up while the freshly admitted session waits for the
// routing-table runner, which is kept busy by a large known-connection graph (any big mesh).
func lateCancel(c *Ctx, im *Impl) {
	ctx, cancel := context.WithCancel(context.Background())
	defer cancel()
	n := netceptor.NewWithConsts(ctx, selfID, 16384, time.Hour, time.Hour, time.Hour, 30, time.Hour)
	n.Logger.SetOutput(io.Discard)
	defer n.Shutdown()
	N := 2500
	g := map[string]map[string]float64{selfID: {}}
	for i := 0; i < N; i++ {
		g[fmt.Sprintf("n%d", i)] = map[string]float64{}
	}
	for i := 0; i < N; i++ {
		a := fmt.Sprintf("n%d", i)
		for k := 1; k <= 4; k++ {
			b := fmt.Sprintf("n%d", (i+k*k)%N)
			g[a][b], g[b][a] = float64(k), float64(k)
		}
	}
	g[selfID]["n0"], g["n0"][selfID] = 1, 1
	n.VerifSetKnownConnectionCosts(g)
	// sessions arrive for a few seconds, each hung up the moment its connection has been
	// inserted; every admission requests a routing-table run (0.1 s later, ~0.2 s long on this
	// graph), so a good part of the sessions finds the runner busy
	count := 150
	if c.Thorough() {
		count = 800
	}
	var sessions []*ScriptSess
	for i := 0; i < count; i++ {
		id := fmt.Sprintf("x%d", i)
		s := NewScriptSess()
		sessions = append(sessions, s)
		sctx, scancel := context.WithCancel(ctx)
		go func() { _ = n.VerifRunProtocol(sctx, s, netceptor.VerifBackendInfo(1.0, nil, nil)) }()
		s.queue <- hsMsg(id)
		deadline := time.Now().Add(2 * time.Second)
		for time.Now().Before(deadline) {
			found := false
			for _, cid := range n.VerifConnectionIDs() {
				if cid == id {
					found = true
				}
			}
			if found {
				break
			}
		}
		if i%2 == 0 {
			s.Hangup() // the peer goes away
		} else {
			scancel() // the backend's context is cancelled
		}
		_ = scancel
		im.Hist("late-cancel-session")
		im.Count("late-cancel "+id, true)
		if !s.waitClosed(time.Second) && !s.waitClosed(5*time.Second) {
			break // really stuck: reported below as hangup-not-closed; no point in waiting for the others
		}
		time.Sleep(2 * time.Millisecond)
	}
	tries := len(sessions)
	closed := 0
	for _, s := range sessions {
		if s.waitClosed(6 * time.Second) {
			closed++
		} else {
			break
		}
	}
	time.Sleep(300 * time.Millisecond)
	st := n.Status()
	var left []string
	for _, cn := range st.Connections {
		left = append(left, cn.NodeID)
	}
	rec := map[string]interface{}{"sessions": tries, "closed_by_node": closed, "connections_left": left}
	if closed != tries {
		im.Violate(fmt.Sprintf("%d of %d hung-up sessions were not closed by the node", tries-closed, tries), "hangup-not-closed", rec)
	}
	// ... and no route may be left to any of them (the runner is slow here: a run that started while
	// a session's costs were published must be followed by another one after it is gone)
	var stale []string
	for t0 := time.Now(); time.Since(t0) < 3*time.Second; time.Sleep(50 * time.Millisecond) {
		stale = stale[:0]
		for dest := range n.Status().RoutingTable {
			if strings.HasPrefix(dest, "x") {
				stale = append(stale, dest)
			}
		}
		if len(stale) == 0 {
			break
		}
	}
	if len(stale) > 0 && len(left) == 0 {
		rec["stale_routes"] = stale
		im.Violate(fmt.Sprintf("3 s after all %d sessions have ended and their connections are gone, the routing table still routes to %d of them", tries, len(stale)),
			"route-without-connection:late-cancel", rec)
	}
	if len(left) > 0 {
		im.Violate(fmt.Sprintf("%d of %d sessions that were hung up right after admission are still listed in Status().Connections (and routed)", len(left), tries),
			"connection-without-session:late-cancel", rec)
	}
}

// ---------- simultaneous same-ID handshakes through a gate ----------

// gatedSess hands its first datagram out only when the gate opens: the protoReader goroutines
// of all sessions of a round spin on the gate inside Recv and return the same handshake at the
// same instant.
type gatedSess struct {
	*ScriptSess
	gate    *int32
	arrived *int32
	first   []byte
	given   int32
}

func (g *gatedSess) Recv(timeout time.Duration) ([]byte, error) {
	if atomic.CompareAndSwapInt32(&g.given, 0, 1) {
		atomic.AddInt32(g.arrived, 1)
		for atomic.LoadInt32(g.gate) == 0 {
		}
		g.mu.Lock()
		g.delivered++
		g.mu.Unlock()
		return g.first, nil
	}
	return g.ScriptSess.Recv(timeout)
}

// gateRace: rounds of N sessions announcing the same ID, all handshakes released at the same
// instant.  After the round settles: at most one session is established (survivors prove it by
// getting a packet delivered to a local service, so a merely slow rejection does not count),
// Status().Connections lists the ID exactly once while a session is alive, and not at all after
// the last one has ended.  Stops at the first violation.
func gateRace(c *Ctx, im *Impl) {
	ctx, cancel := context.WithCancel(context.Background())
	defer cancel()
	n := netceptor.NewWithConsts(ctx, selfID, 16384, time.Hour, time.Hour, time.Hour, 30, time.Hour)
	n.Logger.SetOutput(io.Discard)
	defer n.Shutdown()
	pc, err := n.ListenPacket("probe")
	if err != nil {
		im.Violate("harness: "+err.Error(), "harness-error", nil)
		return
	}
	var delMu sync.Mutex
	got := map[string]bool{}
	go func() {
		buf := make([]byte, 4096)
		for {
			k, _, err := pc.ReadFrom(buf)
			if err != nil {
				return
			}
			delMu.Lock()
			got[string(buf[:k])] = true
			delMu.Unlock()
		}
	}()
	listed := func(id string) int {
		k := 0
		for _, cn := range n.Status().Connections {
			if cn.NodeID == id {
				k++
			}
		}
		return k
	}
	budget, maxRounds := 4*time.Second, 400
	if c.Thorough() {
		budget, maxRounds = 40*time.Second, 6000
	}
	start := time.Now()
	rounds := 0
	// on a loaded machine the budget is stretched (to 10 s) until at least 150 rounds have been played
	for ; rounds < maxRounds && (time.Since(start) < budget || (rounds < 150 && time.Since(start) < 10*time.Second)); rounds++ {
		N := 6 + rounds%3
		id := fmt.Sprintf("twin%d", rounds)
		var gate, arrived int32
		ss := make([]*gatedSess, N)
		for i := range ss {
			ss[i] = &gatedSess{ScriptSess: NewScriptSess(), gate: &gate, arrived: &arrived, first: hsMsg(id)}
			_ = n.AddBackend(&oneShot{ss[i]}, netceptor.BackendConnectionCost(1.0))
		}
		for t0 := time.Now(); atomic.LoadInt32(&arrived) < int32(N) && time.Since(t0) < 2*time.Second; {
			time.Sleep(50 * time.Microsecond)
		}
		atomic.StoreInt32(&gate, 1)
		im.Hist("gate-race-round")
		im.Count("gate-race "+id, true)
		open := func() []int {
			var o []int
			for i, s := range ss {
				if !s.IsClosed() {
					o = append(o, i)
				}
			}
			return o
		}
		// settle: all but one rejected (normally within a millisecond); a slow rejection gets 500 ms
		for t0 := time.Now(); len(open()) > 1 && time.Since(t0) < 500*time.Millisecond; {
			time.Sleep(100 * time.Microsecond)
		}
		alive := open()
		rec := map[string]interface{}{"round": rounds, "sessions": N, "announced": id, "not_closed": alive}
		// survivors prove they are established: a packet of theirs reaches a local service
		var est []int
		if len(alive) > 1 {
			for _, i := range alive {
				marker := fmt.Sprintf("%s/%d", id, i)
				ss[i].queue <- dataPacket(5, nameHash(id), nameHash(selfID), "c", "probe", []byte(marker))
				ss[i].queue <- []byte{0xff}
				ss[i].waitConsumed(3, 2*time.Second)
				for t0 := time.Now(); time.Since(t0) < 300*time.Millisecond; {
					delMu.Lock()
					ok := got[marker]
					delMu.Unlock()
					if ok {
						est = append(est, i)
						break
					}
					if ss[i].IsClosed() {
						break
					}
					time.Sleep(200 * time.Microsecond)
				}
			}
			rec["established_proved_by_delivery"] = est
			if len(est) > 1 {
				im.Violate(fmt.Sprintf("%d of %d simultaneous sessions announcing ID %q are established at once (each got a packet delivered to a local service)", len(est), N, id),
					"two-sessions-one-id:gate", rec)
			}
		} else {
			est = alive
		}
		bad := len(est) > 1
		if k := listed(id); len(open()) > 0 && k != 1 {
			im.Violate(fmt.Sprintf("a session announcing %q is alive but Status().Connections lists the ID %d time(s)", id, k), "open-session-without-connection:gate", rec)
			bad = true
		}
		// departures one by one: the entry must stay while an established session is alive
		for k, i := range est {
			ss[i].Hangup()
			ss[i].waitClosed(2 * time.Second)
			if k+1 < len(est) {
				time.Sleep(2 * time.Millisecond)
				if cnt := listed(id); cnt != 1 && !ss[est[k+1]].IsClosed() {
					rec["ended"], rec["still_running"] = i, est[k+1]
					im.Violate(fmt.Sprintf("after session %d ended, session %d is still running but Status().Connections lists %q %d time(s)", i, est[k+1], id, cnt),
						"open-session-without-connection:gate", rec)
					bad = true
				}
			}
		}
		for _, s := range ss {
			s.Hangup()
		}
		unclosed := 0
		for _, s := range ss {
			if unclosed == 0 && !s.waitClosed(time.Second) && !s.waitClosed(5*time.Second) {
				unclosed++
			}
		}
		if unclosed > 0 {
			im.Violate(fmt.Sprintf("a session announcing %q was hung up by the peer and is not closed by the node within 6 s", id), "hangup-not-closed", rec)
			rounds++
			break
		}
		for t0 := time.Now(); listed(id) > 0 && time.Since(t0) < 500*time.Millisecond; {
			time.Sleep(time.Millisecond)
		}
		if k := listed(id); k != 0 {
			im.Violate(fmt.Sprintf("all sessions announcing %q have ended but Status().Connections still lists it", id), "connection-without-session:gate", rec)
			bad = true
		}
		if bad {
			rounds++
			break
		}
	}
	im.Extra["gate_race_rounds"] = rounds
}

// ---------- every way a session can end, at every stage ----------

// faultSess: a scripted session whose Recv / Send can be made to fail.
type faultSess struct {
	*ScriptSess
	fmu      sync.Mutex
	recvErr  error
	sendFail bool
}

func (f *faultSess) Recv(timeout time.Duration) ([]byte, error) {
	deadline := time.Now().Add(timeout)
	for {
		f.fmu.Lock()
		e := f.recvErr
		f.fmu.Unlock()
		if e != nil {
			return nil, e
		}
		b, err := f.ScriptSess.Recv(10 * time.Millisecond)
		if err == netceptor.ErrTimeout && time.Now().Before(deadline) {
			continue
		}
		return b, err
	}
}

func (f *faultSess) Send(b []byte) error {
	f.fmu.Lock()
	fail := f.sendFail
	f.fmu.Unlock()
	if fail {
		return fmt.Errorf("write: broken pipe")
	}
	return f.ScriptSess.Send(b)
}

type endingResult struct {
	ok      bool
	what    string
	sig     string
	elapsed time.Duration
}

// oneEnding: bring a session announcing "omega" to the given stage, end it in the given way, and
// require (property text: "a connection is forgotten as soon as its session ends") that within
// the bound the node has closed the session and the ID is gone from Status().Connections, from
// the node's own cost row and from the routing table, and that a new session announcing the same
// ID is admitted right afterwards.
func oneEnding(way, stage string) endingResult {
	maxIdle := time.Hour
	if way == "idle-timeout" {
		// above the reader's 1 s receive timeout: a session whose Recv keeps returning ErrTimeout
		// (what every real backend session does while nothing arrives) must still age
		maxIdle = 2500 * time.Millisecond
	}
	ctx, cancel := context.WithCancel(context.Background())
	defer cancel()
	n := netceptor.NewWithConsts(ctx, selfID, 16384, time.Hour, time.Hour, time.Hour, 30, maxIdle)
	n.Logger.SetOutput(io.Discard)
	defer n.Shutdown()
	pc, err := n.ListenPacket("probe")
	if err != nil {
		return endingResult{what: "harness: " + err.Error(), sig: "harness-error"}
	}
	go func() {
		buf := make([]byte, 4096)
		for {
			if _, _, err := pc.ReadFrom(buf); err != nil {
				return
			}
		}
	}()
	const id = "omega"
	s := &faultSess{ScriptSess: NewScriptSess()}
	sctx, scancel := context.WithCancel(ctx)
	defer scancel()
	go func() { _ = n.VerifRunProtocol(sctx, s, netceptor.VerifBackendInfo(1.0, nil, nil)) }()
	sent := 0
	push := func(b []byte) bool {
		s.queue <- b
		s.queue <- []byte{0xff}
		sent += 2
		return s.waitConsumed(sent, 2*time.Second)
	}
	state := func() (conn, row, route bool) {
		st := n.Status()
		for _, c := range st.Connections {
			if c.NodeID == id {
				conn = true
			}
		}
		_, row = st.KnownConnectionCosts[selfID][id]
		_, route = st.RoutingTable[id]
		return
	}
	if stage != "before-handshake" {
		if !push(hsMsg(id)) {
			return endingResult{what: "harness: handshake not consumed", sig: "harness-error"}
		}
		for t0 := time.Now(); time.Since(t0) < 6*time.Second; time.Sleep(2 * time.Millisecond) {
			if c, r, rt := state(); c && r && rt {
				break
			}
		}
		if c, r, rt := state(); !(c && r && rt) {
			return endingResult{what: fmt.Sprintf("harness: session not established and routed within 6 s (conn=%v row=%v route=%v)", c, r, rt), sig: "harness-error"}
		}
	} else {
		// let the session start (its first hello message shows runProtocol is running)
		for t0 := time.Now(); time.Since(t0) < time.Second && len(s.Sent()) == 0; time.Sleep(time.Millisecond) {
		}
	}
	if stage == "established-both-ways" || stage == "data-flowing" {
		f := ruFields{Node: id, UID: "direct-1", Fwd: id, Epoch: 3, Seq: 2, Conns: map[string]float64{selfID: 1}}
		if !push(msg(1, f.tree(), nil)) {
			return endingResult{what: "harness: direct update not consumed", sig: "harness-error"}
		}
	}
	if stage == "data-flowing" {
		for i := 0; i < 40; i++ {
			s.queue <- dataPacket(5, nameHash(id), nameHash(selfID), "c", "probe", []byte(fmt.Sprintf("flow-%d", i)))
		}
	}
	// the ending
	bound := 500 * time.Millisecond
	t0 := time.Now()
	switch way {
	case "recv-eof":
		s.Hangup() // Recv returns io.EOF: the peer closed its end in an orderly way
	case "recv-error":
		s.fmu.Lock()
		s.recvErr = fmt.Errorf("read: connection reset by peer")
		s.fmu.Unlock()
	case "send-fails":
		s.fmu.Lock()
		s.sendFail = true
		s.fmu.Unlock()
		if stage == "before-handshake" {
			bound = 1600 * time.Millisecond // the next hello is written within a second
		} else {
			// make the node write to the session: a helper neighbour's update is flooded to it
			h := NewScriptSess()
			_ = n.AddBackend(&oneShot{h}, netceptor.BackendConnectionCost(1.0))
			h.queue <- hsMsg("helper")
			h.queue <- []byte{0xff}
			h.waitConsumed(2, 2*time.Second)
			t0 = time.Now()
			h.queue <- msg(1, ruFields{Node: "far", UID: "far-1", Fwd: "helper", Epoch: 9, Seq: 1, Conns: map[string]float64{"helper": 1}}.tree(), nil)
		}
	case "context-cancelled":
		scancel() // the backend's context ends
	case "never-handshakes":
		// the peer keeps the session open, sends only datagrams that are not a handshake: after
		// ten unanswered hellos (one per second) the node gives the session up
		bound = 12500 * time.Millisecond
		go func() {
			for i := 0; i < 24 && !s.IsClosed(); i++ {
				s.queue <- []byte{0xff, byte(i)}
				s.queue <- dataPacket(5, nameHash(id), nameHash(selfID), "c", "probe", []byte("early"))
				time.Sleep(500 * time.Millisecond)
			}
		}()
	case "idle-timeout":
		// established, had traffic, now silent: Recv returns netceptor.ErrTimeout every second.
		// The idle monitor looks every 5 s.
		bound = maxIdle + 5*time.Second + 2*time.Second
	}
	var c, r, rt bool
	closed := false
	for time.Since(t0) < bound {
		closed = s.IsClosed()
		c, r, rt = state()
		if closed && !c && !r {
			break
		}
		time.Sleep(2 * time.Millisecond)
	}
	el := time.Since(t0)
	if !closed || c || r {
		return endingResult{elapsed: el, sig: "ended-session-still-connected:" + way,
			what: fmt.Sprintf("session ended (%s, stage %s): after %s the node has closed it=%v, still in Status().Connections=%v, in its own cost row=%v, routed=%v", way, stage, bound, closed, c, r, rt)}
	}
	// the routing table is recomputed by its own goroutine (0.1 s after the request)
	for t1 := time.Now(); rt && time.Since(t1) < time.Second; time.Sleep(5 * time.Millisecond) {
		_, _, rt = state()
	}
	if rt {
		return endingResult{elapsed: el, sig: "ended-session-still-routed:" + way,
			what: fmt.Sprintf("session ended (%s, stage %s): 1 s after the connection was removed the routing table still has a route to it", way, stage)}
	}
	// the same peer comes back
	s2 := NewScriptSess()
	_ = n.AddBackend(&oneShot{s2}, netceptor.BackendConnectionCost(1.0))
	s2.queue <- hsMsg(id)
	s2.queue <- []byte{0xff}
	s2.waitConsumed(2, 2*time.Second)
	time.Sleep(5 * time.Millisecond)
	if c, _, _ := state(); !c || s2.IsClosed() {
		return endingResult{elapsed: el, sig: "readmission-refused:" + way,
			what: fmt.Sprintf("session ended (%s, stage %s): a new session announcing the same ID right afterwards is not admitted (closed=%v reject=%v listed=%v)", way, stage, s2.IsClosed(), s2.Obs().Reject, c)}
	}
	return endingResult{ok: true, elapsed: el}
}

type endingJob struct{ way, stage string }

// runEndings does the (wall-clock heavy: idle monitor 6 s, give-up 12 s) work; it touches neither
// the PRNG nor the Impl, so it can run beside the child-process scenarios.
func runEndings(thorough bool) ([]endingJob, []endingResult) {
	ways := []string{"recv-eof", "recv-error", "send-fails", "context-cancelled", "idle-timeout", "never-handshakes"}
	stages := []string{"before-handshake", "established-one-sided", "established-both-ways", "data-flowing"}
	var jobs []endingJob
	reps := 2
	if thorough {
		reps = 8
	}
	for rep := 0; rep < reps; rep++ {
		for _, w := range ways {
			for _, st := range stages {
				if w == "idle-timeout" && (st == "before-handshake" || rep > 0) {
					continue // not established: nothing for the idle monitor to look at; one pass (6 s each)
				}
				if w == "never-handshakes" && (st != "before-handshake" || rep > 0) {
					continue // the give-up of sendInitialConnectMessage (10 hellos, one per second): one pass
				}
				jobs = append(jobs, endingJob{w, st})
			}
		}
	}
	res := make([]endingResult, len(jobs))
	var wg sync.WaitGroup
	sem := make(chan struct{}, 6)
	for i := range jobs {
		wg.Add(1)
		sem <- struct{}{}
		go func(i int) {
			defer wg.Done()
			defer func() { <-sem }()
			res[i] = oneEnding(jobs[i].way, jobs[i].stage)
		}(i)
	}
	wg.Wait()
	return jobs, res
}

func reportEndings(im *Impl, jobs []endingJob, res []endingResult) {
	reported := map[string]bool{}
	for i, j := range jobs {
		r := res[i]
		im.Hist("session-ending:" + j.way)
		im.Hist("session-ending-stage:" + j.stage)
		im.Count(fmt.Sprintf("ending %s %s %d", j.way, j.stage, i), true)
		if !r.ok {
			// the bounds are wall-clock: confirm alone before reporting
			r = oneEnding(j.way, j.stage)
		}
		if !r.ok && !reported[r.sig+j.stage] {
			reported[r.sig+j.stage] = true
			im.Violate(r.what, r.sig, map[string]interface{}{"way": j.way, "stage": j.stage, "elapsed_ms": r.elapsed.Milliseconds()})
		}
	}
}
