package main

// The same-ID case of C11 on real nodes: two nodes claim the same ID at different places of a
// small mesh, with start epochs at least one second apart (the granularity of the epoch).  The
// later one must shut itself down, the earlier one and the hubs keep running.

import (
	"context"
	"fmt"
	"io"
	"time"

	. "verifharness/lib"

	"github.com/ansible/receptor/pkg/netceptor"
)

func isDone(n *netceptor.Netceptor) bool {
	select {
	case <-n.NetceptorDone():
		return true
	default:
		return false
	}
}

func sameIDMesh(c *Ctx, im *Impl) {
	QuietLogs()
	trials := 4
	if c.Thorough() {
		trials = 16
	}
	k := FastConsts()
	for t := 0; t < trials; t++ {
		hubs := 2 + t%2 // dup1 - hub0 - ... - hubN - dup2
		laterJoinsFirst := t%4 >= 2
		gapSeconds := uint64(1 + c.Rng.Intn(3))
		var nodes []*netceptor.Netceptor
		var cancels []context.CancelFunc
		mk := func(id string) *netceptor.Netceptor {
			ctx, cancel := context.WithCancel(context.Background())
			n := netceptor.NewWithConsts(ctx, id, k.MTU, k.RouteUpdate, k.ServiceAd, k.SeenExpire, k.MaxHops, k.MaxIdle)
			n.Logger.SetOutput(io.Discard)
			nodes = append(nodes, n)
			cancels = append(cancels, cancel)
			return n
		}
		link := func(a, b *netceptor.Netceptor) {
			ea, eb := NewPipePair(4096)
			_ = a.AddBackend(&OneShotBackend{Sess: ea})
			_ = b.AddBackend(&OneShotBackend{Sess: eb})
		}
		hub := make([]*netceptor.Netceptor, hubs)
		for i := range hub {
			hub[i] = mk(fmt.Sprintf("hub%d", i))
			if i > 0 {
				link(hub[i-1], hub[i])
			}
		}
		base := uint64(time.Now().Unix()) << 24
		earlier, later := mk("twin"), mk("twin")
		earlier.VerifSetEpoch(base + uint64(c.Rng.Intn(1<<24)))
		later.VerifSetEpoch(base + gapSeconds<<24 + uint64(c.Rng.Intn(1<<24)))
		if laterJoinsFirst {
			link(later, hub[hubs-1])
			time.Sleep(300 * time.Millisecond)
			link(earlier, hub[0])
		} else {
			link(earlier, hub[0])
			time.Sleep(300 * time.Millisecond)
			link(later, hub[hubs-1])
		}
		rec := map[string]interface{}{"hubs": hubs, "later_joins_first": laterJoinsFirst, "epoch_gap_seconds": gapSeconds}
		im.Hist("same-id-mesh")
		im.Count(fmt.Sprintf("same-id %v", rec), true)
		ok := WaitFor(10*time.Second, func() bool { return isDone(later) })
		time.Sleep(500 * time.Millisecond)
		if !ok {
			im.Violate("two running nodes claim the same ID: the later one did not shut down within 10 s", "same-id:later-not-shut-down", rec)
		}
		if isDone(earlier) {
			im.Violate("two running nodes claim the same ID: the EARLIER one shut down", "same-id:earlier-shut-down", rec)
		}
		for i, h := range hub {
			if isDone(h) {
				im.Violate(fmt.Sprintf("hub%d shut down in the same-ID scenario", i), "same-id:bystander-shut-down", rec)
			}
		}
		for i, n := range nodes {
			n.Shutdown()
			cancels[i]()
		}
	}
}

func hsMsg(id string) []byte {
	return msg(1, ruFields{Node: id, UID: "hs-" + id, Fwd: id, Epoch: 1, Seq: 1, Conns: map[string]float64{}}.tree(), nil)
}

// lateCancel: "a connection is forgotten as soon as its session ends", at the one point where
// the pinned code forgot it: the peer hangs up while the freshly admitted session waits for the
// routing-table runner, which is kept busy by a large known-connection graph (any big mesh).
func lateCancel(c *Ctx, im *Impl) {
	ctx, cancel := context.WithCancel(context.Background())
	defer cancel()
	n := netceptor.NewWithConsts(ctx, selfID, 16384, time.Hour, time.Hour, time.Hour, 30, time.Hour)
	n.Logger.SetOutput(io.Discard)
	defer n.Shutdown()
	N := 2500
	g := map[string]map[string]float64{selfID: {}}
	for i := 0; i < N; i++ {
		g[fmt.Sprintf("n%d", i)] = map[string]float64{}
	}
	for i := 0; i < N; i++ {
		a := fmt.Sprintf("n%d", i)
		for k := 1; k <= 4; k++ {
			b := fmt.Sprintf("n%d", (i+k*k)%N)
			g[a][b], g[b][a] = float64(k), float64(k)
		}
	}
	g[selfID]["n0"], g["n0"][selfID] = 1, 1
	n.VerifSetKnownConnectionCosts(g)
	// sessions arrive for a few seconds, each hung up the moment its connection has been
	// inserted; every admission requests a routing-table run (0.1 s later, ~0.2 s long on this
	// graph), so a good part of the sessions finds the runner busy
	count := 150
	if c.Thorough() {
		count = 800
	}
	var sessions []*ScriptSess
	for i := 0; i < count; i++ {
		id := fmt.Sprintf("x%d", i)
		s := NewScriptSess()
		sessions = append(sessions, s)
		_ = n.AddBackend(&oneShot{s}, netceptor.BackendConnectionCost(1.0))
		s.queue <- hsMsg(id)
		deadline := time.Now().Add(2 * time.Second)
		for time.Now().Before(deadline) {
			found := false
			for _, cid := range n.VerifConnectionIDs() {
				if cid == id {
					found = true
				}
			}
			if found {
				break
			}
		}
		s.Hangup()
		s.waitClosed(5 * time.Second)
		time.Sleep(2 * time.Millisecond)
		im.Hist("late-cancel-session")
		im.Count("late-cancel "+id, true)
	}
	tries := len(sessions)
	closed := 0
	for _, s := range sessions {
		if s.waitClosed(5 * time.Second) {
			closed++
		}
	}
	time.Sleep(300 * time.Millisecond)
	st := n.Status()
	var left []string
	for _, cn := range st.Connections {
		left = append(left, cn.NodeID)
	}
	rec := map[string]interface{}{"sessions": tries, "closed_by_node": closed, "connections_left": left}
	if closed != tries {
		im.Violate(fmt.Sprintf("%d of %d hung-up sessions were not closed by the node", tries-closed, tries), "hangup-not-closed", rec)
	}
	if len(left) > 0 {
		im.Violate(fmt.Sprintf("%d of %d sessions that were hung up right after admission are still listed in Status().Connections (and routed)", len(left), tries),
			"connection-without-session:late-cancel", rec)
	}
}
