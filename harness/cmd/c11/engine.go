package main

// Scripted-peer engine shared by the C07 and C11 harnesses (the same file is kept in both
// harness/cmd/c07 and harness/cmd/c11; harness/lib is not ours to edit).
//
// A case is: one real Netceptor node (fresh, in a CHILD process), a listener "probe" on it, an
// optional well-behaved peer B, 1..n scripted sessions handed to AddBackend, and a schedule of
// steps (deliver one datagram to a session / hang a session up).  Sessions are ScriptSess
// objects: the harness decides when each datagram becomes visible to the node's Recv, and sees
// every Recv/Send/Close call of the node, which gives an exact barrier: "datagram k has been
// completely processed" == the receive loop has taken datagram k+1 (a one-byte no-op the
// generator appends) or has closed the session.
//
// The child process executes batches of cases concurrently and appends one JSON line per
// finished case to a results file, so the parent knows which cases were in flight if the child
// dies (panic in a connection goroutine kills the whole process, as it would kill receptor).

import (
	"bufio"
	"bytes"
	"context"
	"encoding/binary"
	"encoding/json"
	"fmt"
	"io"
	"os"
	"os/exec"
	"sort"
	"strings"
	"sync"
	"sync/atomic"
	"time"

	"github.com/ansible/receptor/pkg/logger"
	"github.com/ansible/receptor/pkg/netceptor"
	"github.com/minio/highwayhash"
)

// ---------- name hashes (same function as Netceptor.AddNameHash) ----------

var zeroKey = make([]byte, 32)

func nameHash(name string) uint64 {
	h, _ := highwayhash.New64(zeroKey)
	_, _ = h.Write([]byte(name))
	return h.Sum64()
}

func fixed8(s string) []byte {
	b := make([]byte, 8)
	copy(b, s)
	return b
}

// dataPacket builds a wire data packet with explicit hashes.
func dataPacket(hops byte, fromHash, toHash uint64, fromSvc, toSvc string, payload []byte) []byte {
	b := []byte{0, hops, 0, 0}
	b = binary.BigEndian.AppendUint64(b, fromHash)
	b = binary.BigEndian.AppendUint64(b, toHash)
	b = append(b, fixed8(fromSvc)...)
	b = append(b, fixed8(toSvc)...)
	return append(b, payload...)
}

// ---------- case description (parent -> child) ----------

type SessSpec struct {
	Cost       float64            `json:"cost"`
	NodeCost   map[string]float64 `json:"node_cost,omitempty"`
	HasAllowed bool               `json:"has_allowed,omitempty"`
	Allowed    []string           `json:"allowed,omitempty"`
	Transport  string             `json:"transport,omitempty"` // "" = scripted channel session; real transports: see sockets.go
}

type Step struct {
	Sess      int    `json:"s"`
	Op        string `json:"op"` // "send" | "hangup" | "raw" (socket transports: bytes written as they are, no framing)
	Data      []byte `json:"d,omitempty"`
	Fill      int    `json:"fill,omitempty"`   // op "raw": this many filler bytes (0xee) follow Data
	PauseMs   int    `json:"pause,omitempty"`  // socket transports: sleep after the write
	WSType    int    `json:"wstype,omitempty"` // websocket transports, op "send": message type (0 = binary; 1 text, 8 close, 9 ping, 10 pong)
	NoBarrier bool   `json:"nb,omitempty"`     // do not wait for the node before the next step
}

type CaseSpec struct {
	ID       int        `json:"id"`
	NodeID   string     `json:"node"`
	Epoch    uint64     `json:"epoch"`
	GoodPeer string     `json:"good,omitempty"` // ID of the well-behaved peer B ("" = none)
	Sessions []SessSpec `json:"sessions"`
	Steps    []Step     `json:"steps"`
	// StartTogether: all sessions are handed to the node before the first step (default); the
	// racy C11 cases additionally release their steps without barriers.
	SettleMs int `json:"settle_ms,omitempty"` // extra quiet time before observing (racy cases)
	// SockGrace: wait (150 ms, up to 1.5 s on a loaded machine) for the node to close a real-transport session before observing
	// its fate (admission scenarios over sockets)
	SockGrace  bool `json:"sock_grace,omitempty"`
	SockOpenOK bool `json:"sock_open_ok,omitempty"` // the generator expects the socket session to stay open
	// WaitOpenAtMost (racy cases; -1/absent = off): before settling, wait up to 3 s until at most
	// this many scripted sessions are still open (the number the generator knows must remain).
	WaitOpenAtMost *int `json:"wait_open_at_most,omitempty"`
}

type SessObs struct {
	Closed   bool `json:"closed"`   // the node called Close() on the session (runProtocol returned)
	Reject   bool `json:"reject"`   // a type-3 message was written to the session
	NSent    int  `json:"nsent"`    // messages the node wrote to the session
	Consumed int  `json:"consumed"` // datagrams the node's Recv has taken
}

type Delivered struct {
	From    string `json:"from"` // "node:service" as PacketConn reports it
	Payload []byte `json:"p"`
}

type ConnObs struct {
	ID   string  `json:"id"`
	Cost float64 `json:"cost"`
}

type AdObs struct {
	Node    string `json:"node"`
	Service string `json:"svc"`
	Time    int64  `json:"t"` // unix ns; zero time reported as 0 with Zero=true
	Zero    bool   `json:"z"`
}

type CaseObs struct {
	ID        int                  `json:"id"`
	Sess      []SessObs            `json:"sess"`
	Conns     []ConnObs            `json:"conns"`
	SelfRow   []ConnObs            `json:"selfrow"`
	Routes    map[string]string    `json:"routes"`
	Delivered []Delivered          `json:"delivered"`
	Known     map[string][2]uint64 `json:"known"`
	Ads       []AdObs              `json:"ads"`
	Done      bool                 `json:"done"`      // NetceptorDone() is closed
	GoodPing  bool                 `json:"good_ping"` // B's final ping was answered within 2 s
	GoodMs    int64                `json:"good_ms"`
	NewPeer   bool                 `json:"new_peer"`         // a NEW well-behaved peer got admitted, routed and its ping answered afterwards
	Wedged    string               `json:"wedged,omitempty"` // a barrier timed out: which step
	Err       string               `json:"err,omitempty"`    // harness-level problem
	Crashed   bool                 `json:"crashed,omitempty"`
	CrashText string               `json:"crash_text,omitempty"`
}

// ---------- scripted session ----------

type ScriptSess struct {
	queue      chan []byte
	hangupCh   chan struct{}
	closedCh   chan struct{}
	hangOnce   sync.Once
	closeOnce  sync.Once
	mu         sync.Mutex
	delivered  int // datagrams handed out by Recv
	entrySeq   int // value of delivered at the latest entry into Recv
	entered    bool
	sent       [][]byte
	notify     chan struct{} // poked on every state change
	recvCalled int32
}

func NewScriptSess() *ScriptSess {
	return &ScriptSess{queue: make(chan []byte, 4096), hangupCh: make(chan struct{}), closedCh: make(chan struct{}),
		notify: make(chan struct{}, 1)}
}

func (s *ScriptSess) poke() {
	select {
	case s.notify <- struct{}{}:
	default:
	}
}

func (s *ScriptSess) Send(b []byte) error {
	s.mu.Lock()
	s.sent = append(s.sent, append([]byte{}, b...))
	s.mu.Unlock()
	s.poke()
	return nil
}

func (s *ScriptSess) Recv(timeout time.Duration) ([]byte, error) {
	atomic.AddInt32(&s.recvCalled, 1)
	s.mu.Lock()
	s.entrySeq = s.delivered
	s.entered = true
	s.mu.Unlock()
	s.poke()
	select {
	case <-s.closedCh:
		return nil, io.EOF
	default:
	}
	select {
	case b := <-s.queue:
		s.mu.Lock()
		s.delivered++
		s.mu.Unlock()
		return b, nil
	case <-s.hangupCh:
		return nil, io.EOF
	case <-s.closedCh:
		return nil, io.EOF
	case <-time.After(timeout):
		return nil, netceptor.ErrTimeout
	}
}

func (s *ScriptSess) Close() error {
	s.closeOnce.Do(func() { close(s.closedCh) })
	s.poke()
	return nil
}

func (s *ScriptSess) Hangup() { s.hangOnce.Do(func() { close(s.hangupCh) }) }

func (s *ScriptSess) IsClosed() bool {
	select {
	case <-s.closedCh:
		return true
	default:
		return false
	}
}

// waitConsumed waits until the node has re-entered Recv after taking n datagrams, or has closed
// the session.  Returns false on timeout.
func (s *ScriptSess) waitConsumed(n int, timeout time.Duration) bool {
	deadline := time.Now().Add(timeout)
	for {
		s.mu.Lock()
		ok := s.entered && s.entrySeq >= n
		s.mu.Unlock()
		if ok || s.IsClosed() {
			return true
		}
		left := time.Until(deadline)
		if left <= 0 {
			return false
		}
		if left > 5*time.Millisecond {
			left = 5 * time.Millisecond
		}
		select {
		case <-s.notify:
		case <-time.After(left):
		}
	}
}

func (s *ScriptSess) waitClosed(timeout time.Duration) bool {
	select {
	case <-s.closedCh:
		return true
	case <-time.After(timeout):
		return false
	}
}

func (s *ScriptSess) Sent() [][]byte {
	s.mu.Lock()
	defer s.mu.Unlock()
	return append([][]byte{}, s.sent...)
}

func (s *ScriptSess) Obs() SessObs {
	s.mu.Lock()
	defer s.mu.Unlock()
	o := SessObs{Closed: s.IsClosed(), NSent: len(s.sent), Consumed: s.delivered}
	for _, m := range s.sent {
		if len(m) > 0 && m[0] == 3 {
			o.Reject = true
		}
	}
	return o
}

// oneShot hands one prepared session to AddBackend.
type oneShot struct{ sess netceptor.BackendSession }

func (b *oneShot) Start(ctx context.Context, wg *sync.WaitGroup) (chan netceptor.BackendSession, error) {
	ch := make(chan netceptor.BackendSession, 1)
	ch <- b.sess
	return ch, nil
}

// ---------- running one case against a real node ----------

const barrierTimeout = 3 * time.Second

func goodHandshake(id string) []byte {
	m := map[string]interface{}{"NodeID": id, "UpdateID": "hs-" + id, "UpdateEpoch": 1, "UpdateSequence": 1,
		"Connections": map[string]float64{}, "ForwardingNode": id, "SuspectedDuplicate": 0}
	j, _ := json.Marshal(m)
	return append([]byte{1}, j...)
}

func runCase(spec *CaseSpec) (obs CaseObs) {
	obs.ID = spec.ID
	ctx, cancel := context.WithCancel(context.Background())
	defer cancel()
	n := netceptor.NewWithConsts(ctx, spec.NodeID, 16384, time.Hour, time.Hour, time.Hour, 30, time.Hour)
	n.Logger.SetOutput(io.Discard)
	if spec.Epoch != 0 {
		n.VerifSetEpoch(spec.Epoch)
	}
	defer n.Shutdown()
	// probe listener: everything delivered to service "probe" is recorded
	var delMu sync.Mutex
	var delivered []Delivered
	pc, err := n.ListenPacket("probe")
	if err != nil {
		obs.Err = "ListenPacket: " + err.Error()
		return obs
	}
	go func() {
		buf := make([]byte, 65536)
		for {
			k, addr, err := pc.ReadFrom(buf)
			if err != nil {
				return
			}
			delMu.Lock()
			delivered = append(delivered, Delivered{From: addr.String(), Payload: append([]byte{}, buf[:k]...)})
			delMu.Unlock()
		}
	}()
	// well-behaved peer B
	var good *ScriptSess
	if spec.GoodPeer != "" {
		good = NewScriptSess()
		if err := n.AddBackend(&oneShot{good}, netceptor.BackendConnectionCost(1.0)); err != nil {
			obs.Err = "AddBackend(B): " + err.Error()
			return obs
		}
		good.queue <- goodHandshake(spec.GoodPeer)
		good.queue <- []byte{0xff}
		if !good.waitConsumed(2, barrierTimeout) {
			obs.Err = "well-behaved peer: handshake not consumed"
			return obs
		}
	}
	// the sessions under test
	sess := make([]*ScriptSess, len(spec.Sessions))
	socks := make([]*sockPeer, len(spec.Sessions))
	queued := make([]int, len(spec.Sessions))
	for i, ss := range spec.Sessions {
		mods := []func(*netceptor.BackendInfo){netceptor.BackendConnectionCost(ss.Cost)}
		if ss.NodeCost != nil {
			mods = append(mods, netceptor.BackendNodeCost(ss.NodeCost))
		}
		if ss.HasAllowed {
			al := ss.Allowed
			if al == nil {
				al = []string{}
			}
			mods = append(mods, netceptor.BackendAllowedPeers(al))
		}
		if ss.Transport != "" {
			p, err := openSocketPeer(ctx, n, ss.Transport, mods)
			if p != nil {
				defer p.shutdown()
			}
			if err != nil {
				obs.Err = ss.Transport + ": " + err.Error()
				return obs
			}
			socks[i] = p
			continue
		}
		sess[i] = NewScriptSess()
		if err := n.AddBackend(&oneShot{sess[i]}, mods...); err != nil {
			obs.Err = "AddBackend: " + err.Error()
			return obs
		}
	}
	// schedule
	for k, st := range spec.Steps {
		if st.Sess < 0 || st.Sess >= len(sess) {
			continue
		}
		if socks[st.Sess] != nil {
			switch st.Op {
			case "send":
				socks[st.Sess].send(st.Data, st.WSType)
				if st.PauseMs > 0 {
					time.Sleep(time.Duration(st.PauseMs) * time.Millisecond)
				}
			case "raw":
				socks[st.Sess].raw(st.Data, st.Fill)
				if st.PauseMs > 0 {
					time.Sleep(time.Duration(st.PauseMs) * time.Millisecond)
				}
			case "hangup":
				socks[st.Sess].hangup()
			}
			continue
		}
		s := sess[st.Sess]
		switch st.Op {
		case "send":
			s.queue <- st.Data
			queued[st.Sess]++
			// a datagram is completely processed once the NEXT one has been taken; the
			// generator ends every scripted session's schedule with a no-op datagram, so the
			// barrier after step k waits for "k taken", and the final observation for all.
			if !st.NoBarrier {
				if !s.waitConsumed(queued[st.Sess], barrierTimeout) && obs.Wedged == "" {
					obs.Wedged = fmt.Sprintf("step %d: session %d did not take datagram %d within %s", k, st.Sess, queued[st.Sess], barrierTimeout)
				}
			}
		case "hangup":
			s.Hangup()
			if !st.NoBarrier {
				if !s.waitClosed(barrierTimeout) && obs.Wedged == "" {
					obs.Wedged = fmt.Sprintf("step %d: session %d not closed by the node %s after hang-up", k, st.Sess, barrierTimeout)
				}
			}
		}
	}
	// everything queued must have been taken (or the session closed) before observing
	for i, s := range sess {
		if s == nil || queued[i] == 0 {
			continue
		}
		if !s.waitConsumed(queued[i], barrierTimeout) && obs.Wedged == "" {
			obs.Wedged = fmt.Sprintf("final: session %d took %d of %d datagrams", i, s.Obs().Consumed, queued[i])
		}
	}
	if spec.WaitOpenAtMost != nil {
		deadline := time.Now().Add(3 * time.Second)
		for time.Now().Before(deadline) {
			open := 0
			for _, s := range sess {
				if s != nil && !s.IsClosed() {
					open++
				}
			}
			if open <= *spec.WaitOpenAtMost {
				break
			}
			time.Sleep(2 * time.Millisecond)
		}
	}
	if spec.SettleMs > 0 {
		time.Sleep(time.Duration(spec.SettleMs) * time.Millisecond)
	}
	// the reject message is written by the session's writer goroutine, which may run after
	// runProtocol has returned and closed the session: give a closed session without one a
	// grace period before reporting "closed without reject"
	for _, s := range sess {
		if s == nil {
			continue
		}
		for i := 0; i < 60 && s.IsClosed() && !s.Obs().Reject; i++ {
			time.Sleep(5 * time.Millisecond)
		}
	}
	// wedge oracle: B still gets a ping answered
	if good != nil {
		select {
		case <-n.NetceptorDone():
		default:
			// wait for the route to B (first routing-table run is 100 ms after the handshake)
			for i := 0; i < 400; i++ {
				if _, ok := n.Status().RoutingTable[spec.GoodPeer]; ok {
					break
				}
				time.Sleep(5 * time.Millisecond)
			}
			t0 := time.Now()
			good.queue <- dataPacket(5, nameHash(spec.GoodPeer), nameHash(spec.NodeID), "pingB", "ping", nil)
			want := append(fixed8("ping"), fixed8("pingB")...)
			for time.Since(t0) < 2*time.Second && !obs.GoodPing {
				for _, m := range good.Sent() {
					if len(m) >= 36 && m[0] == 0 && bytes.Equal(m[20:36], want) {
						obs.GoodPing = true
					}
				}
				if !obs.GoodPing {
					select {
					case <-good.notify:
					case <-time.After(5 * time.Millisecond):
					}
				}
			}
			obs.GoodMs = time.Since(t0).Milliseconds()
		}
	}
	// observe.  Status() and the hooks take the node's locks: a peer that managed to wedge a lock
	// holder shows up here as a probe that never returns (the ping above does not need them).
	obsDone := make(chan struct{})
	var full CaseObs
	go func() {
		full = observe(n, spec, sess, obs)
		close(obsDone)
	}()
	select {
	case <-obsDone:
		obs = full
	case <-time.After(4 * time.Second):
		for _, s := range sess {
			if s == nil {
				obs.Sess = append(obs.Sess, SessObs{})
			} else {
				obs.Sess = append(obs.Sess, s.Obs())
			}
		}
		if obs.Wedged == "" {
			obs.Wedged = "status: Status()/node-state probe did not return within 4 s"
		}
	}
	for i, p := range socks {
		if p == nil || i >= len(obs.Sess) {
			continue
		}
		// what the node wrote to a real transport arrives through the kernel: a short grace
		for k := 0; k < 300 && spec.SockGrace && !p.Obs().Closed; k++ {
			if k >= 30 && p.Obs().NSent > 0 && spec.SockOpenOK {
				break // the node's hello has arrived and the case expects the session to stay open
			}
			time.Sleep(5 * time.Millisecond)
		}
		obs.Sess[i] = p.Obs()
	}
	// packets reach the probe listener's reader goroutine one at a time: a sentinel written by
	// the node itself marks the end of everything delivered before it
	if !obs.Done {
		if pc2, err := n.ListenPacket("sentinel"); err == nil {
			sent := make(chan struct{})
			go func() {
				_, _ = pc2.WriteTo([]byte("END-OF-CASE"), n.NewAddr(spec.NodeID, "probe"))
				close(sent)
			}()
			deadline := time.Now().Add(2 * time.Second)
			for time.Now().Before(deadline) {
				delMu.Lock()
				k := len(delivered)
				seen := k > 0 && string(delivered[k-1].Payload) == "END-OF-CASE" && delivered[k-1].From == spec.NodeID+":sentinel"
				delMu.Unlock()
				if seen {
					break
				}
				time.Sleep(time.Millisecond)
			}
		}
	}
	delMu.Lock()
	for _, d := range delivered {
		if string(d.Payload) == "END-OF-CASE" && d.From == spec.NodeID+":sentinel" {
			continue
		}
		obs.Delivered = append(obs.Delivered, d)
	}
	delMu.Unlock()
	// last: can a NEW well-behaved peer still join, get a route and have its ping answered?
	// (needs a fresh routing-table run and the node's locks, unlike B's ping)
	if spec.GoodPeer != "" && !obs.Done && obs.Wedged == "" {
		obs.NewPeer = newPeerProbe(n, spec.NodeID, spec.GoodPeer+"-late")
	}
	return obs
}

func newPeerProbe(n *netceptor.Netceptor, self, id string) bool {
	c := NewScriptSess()
	if err := n.AddBackend(&oneShot{c}, netceptor.BackendConnectionCost(1.0)); err != nil {
		return false
	}
	c.queue <- goodHandshake(id)
	c.queue <- []byte{0xff}
	if !c.waitConsumed(2, barrierTimeout) {
		return false
	}
	routed := make(chan bool, 1)
	go func() {
		for i := 0; i < 400; i++ {
			if _, ok := n.Status().RoutingTable[id]; ok {
				routed <- true
				return
			}
			time.Sleep(5 * time.Millisecond)
		}
		routed <- false
	}()
	select {
	case ok := <-routed:
		if !ok {
			return false
		}
	case <-time.After(3 * time.Second):
		return false
	}
	c.queue <- dataPacket(5, nameHash(id), nameHash(self), "pingC", "ping", nil)
	want := append(fixed8("ping"), fixed8("pingC")...)
	t0 := time.Now()
	for time.Since(t0) < 2*time.Second {
		for _, m := range c.Sent() {
			if len(m) >= 36 && m[0] == 0 && bytes.Equal(m[20:36], want) {
				return true
			}
		}
		select {
		case <-c.notify:
		case <-time.After(5 * time.Millisecond):
		}
	}
	return false
}

func observe(n *netceptor.Netceptor, spec *CaseSpec, sess []*ScriptSess, obs CaseObs) CaseObs {
	for _, s := range sess {
		if s == nil {
			obs.Sess = append(obs.Sess, SessObs{})
			continue
		}
		obs.Sess = append(obs.Sess, s.Obs())
	}
	select {
	case <-n.NetceptorDone():
		obs.Done = true
	default:
	}
	st := n.Status()
	// the routing table is recomputed by its own goroutine 100 ms after a request: give it up to
	// three seconds to stop naming next hops that are no longer connected before it is reported
	for i := 0; i < 300 && !obs.Done; i++ {
		stale := false
		live := map[string]bool{}
		for _, c := range st.Connections {
			live[c.NodeID] = true
		}
		for _, hop := range st.RoutingTable {
			if !live[hop] {
				stale = true
			}
		}
		if !stale {
			break
		}
		time.Sleep(10 * time.Millisecond)
		st = n.Status()
	}
	for _, c := range st.Connections {
		obs.Conns = append(obs.Conns, ConnObs{c.NodeID, c.Cost})
	}
	sort.Slice(obs.Conns, func(i, j int) bool { return obs.Conns[i].ID < obs.Conns[j].ID })
	for k, v := range st.KnownConnectionCosts[spec.NodeID] {
		obs.SelfRow = append(obs.SelfRow, ConnObs{k, v})
	}
	sort.Slice(obs.SelfRow, func(i, j int) bool { return obs.SelfRow[i].ID < obs.SelfRow[j].ID })
	obs.Routes = st.RoutingTable
	obs.Known = n.VerifKnownNodeInfo()
	for node, m := range n.VerifServiceAds() {
		for svc, ad := range m {
			obs.Ads = append(obs.Ads, AdObs{Node: node, Service: svc, Time: ad.Time.UnixNano(), Zero: ad.Time.IsZero()})
		}
	}
	sort.Slice(obs.Ads, func(i, j int) bool {
		if obs.Ads[i].Node != obs.Ads[j].Node {
			return obs.Ads[i].Node < obs.Ads[j].Node
		}
		return obs.Ads[i].Service < obs.Ads[j].Service
	})
	return obs
}

// ---------- child process: run a batch ----------

// childMain: <batch-file> <results-file> <concurrency>
func childMain(args []string) {
	logger.SetGlobalQuietMode()
	if len(args) < 3 {
		fmt.Fprintln(os.Stderr, "usage: node <batch> <results> <concurrency>")
		os.Exit(2)
	}
	var conc int
	fmt.Sscanf(args[2], "%d", &conc)
	if conc < 1 {
		conc = 1
	}
	raw, err := os.ReadFile(args[0])
	if err != nil {
		fmt.Fprintln(os.Stderr, err)
		os.Exit(2)
	}
	var specs []CaseSpec
	if err := json.Unmarshal(raw, &specs); err != nil {
		fmt.Fprintln(os.Stderr, err)
		os.Exit(2)
	}
	out, err := os.OpenFile(args[1], os.O_CREATE|os.O_WRONLY|os.O_APPEND, 0o644)
	if err != nil {
		fmt.Fprintln(os.Stderr, err)
		os.Exit(2)
	}
	var outMu sync.Mutex
	sem := make(chan struct{}, conc)
	var wg sync.WaitGroup
	for i := range specs {
		sem <- struct{}{}
		wg.Add(1)
		go func(sp *CaseSpec) {
			defer wg.Done()
			defer func() { <-sem }()
			// "started" marker first: the parent learns which cases were in flight at a crash
			outMu.Lock()
			fmt.Fprintf(out, "{\"started\":%d}\n", sp.ID)
			outMu.Unlock()
			o := runCase(sp)
			j, _ := json.Marshal(o)
			outMu.Lock()
			_, _ = out.Write(append(j, '\n'))
			outMu.Unlock()
		}(&specs[i])
	}
	wg.Wait()
	_ = out.Close()
}

// ---------- parent: distribute cases over child processes ----------

type batchResult struct {
	obs      map[int]*CaseObs
	started  map[int]bool
	exitErr  error
	stderr   string
	timedOut bool
}

func runChild(dir string, tag string, specs []CaseSpec, conc int, timeout time.Duration) batchResult {
	res := batchResult{obs: map[int]*CaseObs{}, started: map[int]bool{}}
	bf := fmt.Sprintf("%s/batch-%s.json", dir, tag)
	rf := fmt.Sprintf("%s/results-%s.jsonl", dir, tag)
	j, _ := json.Marshal(specs)
	if err := os.WriteFile(bf, j, 0o644); err != nil {
		res.exitErr = err
		return res
	}
	_ = os.Remove(rf)
	ctx, cancel := context.WithTimeout(context.Background(), timeout)
	defer cancel()
	cmd := exec.CommandContext(ctx, os.Args[0], "node", bf, rf, fmt.Sprint(conc))
	var eb bytes.Buffer
	cmd.Stderr = &eb
	cmd.Stdout = io.Discard
	res.exitErr = cmd.Run()
	if ctx.Err() != nil {
		res.timedOut = true
	}
	res.stderr = eb.String()
	if f, err := os.Open(rf); err == nil {
		sc := bufio.NewScanner(f)
		sc.Buffer(make([]byte, 1<<20), 64<<20)
		for sc.Scan() {
			line := sc.Bytes()
			if bytes.HasPrefix(line, []byte(`{"started"`)) {
				var s struct{ Started int }
				if json.Unmarshal(line, &s) == nil {
					res.started[s.Started] = true
				}
				continue
			}
			var o CaseObs
			if json.Unmarshal(line, &o) == nil {
				oc := o
				res.obs[o.ID] = &oc
			}
		}
		f.Close()
	}
	_ = os.Remove(bf)
	_ = os.Remove(rf)
	return res
}

// panicLine extracts the first line of a Go panic / fatal error from a child's stderr.
func panicLine(stderr string) string {
	for _, l := range strings.Split(stderr, "\n") {
		if strings.HasPrefix(l, "panic:") || strings.HasPrefix(l, "fatal error:") {
			return strings.TrimSpace(l)
		}
	}
	l := strings.TrimSpace(stderr)
	if len(l) > 200 {
		l = l[:200]
	}
	return l
}

// panicSite extracts the first receptor source location of the panicking goroutine.
func panicSite(stderr string) string {
	for _, l := range strings.Split(stderr, "\n") {
		l = strings.TrimSpace(l)
		if i := strings.Index(l, "/pkg/"); i >= 0 && strings.Contains(l, ".go:") {
			l = l[i+1:]
			if j := strings.Index(l, " "); j > 0 {
				l = l[:j]
			}
			return l
		}
	}
	return ""
}

// RunCases executes all cases in child processes (procs children at a time, conc cases at a
// time in each).  Cases that were in flight when a child died are re-run one per child, so a
// crash is attributed to exactly the case that causes it.
func RunCases(dir string, specs []CaseSpec, procs, conc int) map[int]*CaseObs {
	out := map[int]*CaseObs{}
	var mu sync.Mutex
	if len(specs) == 0 {
		return out
	}
	per := 64
	var chunks [][]CaseSpec
	for i := 0; i < len(specs); i += per {
		e := i + per
		if e > len(specs) {
			e = len(specs)
		}
		chunks = append(chunks, specs[i:e])
	}
	var retry []CaseSpec
	sem := make(chan struct{}, procs)
	var wg sync.WaitGroup
	for ci, ch := range chunks {
		sem <- struct{}{}
		wg.Add(1)
		go func(ci int, ch []CaseSpec) {
			defer wg.Done()
			defer func() { <-sem }()
			r := runChild(dir, fmt.Sprintf("c%d", ci), ch, conc, 5*time.Minute)
			mu.Lock()
			defer mu.Unlock()
			for _, sp := range ch {
				if o, ok := r.obs[sp.ID]; ok {
					out[sp.ID] = o
				} else {
					retry = append(retry, sp)
				}
			}
		}(ci, ch)
	}
	wg.Wait()
	// one child per unfinished case
	for i := range retry {
		sem <- struct{}{}
		wg.Add(1)
		go func(sp CaseSpec) {
			defer wg.Done()
			defer func() { <-sem }()
			r := runChild(dir, fmt.Sprintf("r%d", sp.ID), []CaseSpec{sp}, 1, time.Minute)
			mu.Lock()
			defer mu.Unlock()
			if o, ok := r.obs[sp.ID]; ok {
				out[sp.ID] = o
				return
			}
			o := &CaseObs{ID: sp.ID, Crashed: true, CrashText: panicLine(r.stderr)}
			if site := panicSite(r.stderr); site != "" {
				o.CrashText += " at " + site
			}
			if r.timedOut {
				o.CrashText = "child did not finish within 60 s (killed): " + o.CrashText
			}
			out[sp.ID] = o
		}(retry[i])
	}
	wg.Wait()
	return out
}

// TimingSuspect: the observation failed an oracle that depends on wall-clock thresholds (a
// barrier or probe timed out, the well-behaved peer's ping was late).  On a loaded machine such
// a failure can be the scheduler's; a real wedge reproduces when the case runs alone.
// ExtraSuspect, when set by a harness, marks further observations for a confirmation run (cases
// whose expected fate rests on data crossing real sockets within fixed waits).
var ExtraSuspect func(id int, o *CaseObs) bool

func TimingSuspect(o *CaseObs) bool {
	if o != nil && !o.Crashed && ExtraSuspect != nil && ExtraSuspect(o.ID, o) {
		return true
	}
	if o == nil || o.Crashed {
		return false
	}
	return o.Wedged != "" || o.Err != "" || (!o.Done && (!o.GoodPing || !o.NewPeer))
}

// RunCasesConfirmed runs all cases concurrently, then re-runs alone (one child, one case at a
// time) every case whose observation is a TimingSuspect, and reports the second observation for
// those; rerun returns how many were re-run.
func RunCasesConfirmed(dir string, specs []CaseSpec, procs, conc int) (res map[int]*CaseObs, rerun int) {
	res = RunCases(dir, specs, procs, conc)
	// at most 24 confirmations, two at a time: when (almost) every case is suspect the node is
	// wedged for real and the first observations stand
	var todo []CaseSpec
	for i := range specs {
		if TimingSuspect(res[specs[i].ID]) && len(todo) < 24 {
			todo = append(todo, specs[i])
		}
	}
	var mu sync.Mutex
	var wg sync.WaitGroup
	sem := make(chan struct{}, 2)
	for i := range todo {
		sem <- struct{}{}
		wg.Add(1)
		go func(sp CaseSpec) {
			defer wg.Done()
			defer func() { <-sem }()
			r := runChild(dir, fmt.Sprintf("confirm%d", sp.ID), []CaseSpec{sp}, 1, time.Minute)
			mu.Lock()
			defer mu.Unlock()
			if o2, ok := r.obs[sp.ID]; ok {
				res[sp.ID] = o2
				return
			}
			o2 := &CaseObs{ID: sp.ID, Crashed: true, CrashText: panicLine(r.stderr)}
			if site := panicSite(r.stderr); site != "" {
				o2.CrashText += " at " + site
			}
			res[sp.ID] = o2
		}(todo[i])
	}
	wg.Wait()
	return res, len(todo)
}
