package main

// Token generator as a product of independent dimensions.  Index 0 of every dimension is the
// baseline (a token exactly like the ones createSignature makes); a generated token is the
// baseline with some dimensions moved away from it.  Quick runs every single deviation and every
// PAIR of deviations on the otherwise valid baseline (so every pair of dimension values occurs,
// and no third defect masks the pair), thorough adds random full combinations.
//
// Two verdicts are computed from the dimensions alone:
//   propGood : the token verifies against the configured public key with an RSA-family
//              algorithm, is not expired and names this node — what the property text asks for.
//              Anything else MUST be refused (model-independent oracle).
//   implValid: what the verifier of /repo accepts (golang-jwt v4 RegisteredClaims.Valid also
//              refuses a `nbf` or `iat` in the future); this is what Model/Sig.v's oracle value
//              is for the token, checked by the correspondence on every case.

import (
	"crypto/ecdsa"
	"crypto/elliptic"
	"crypto/rand"
	"crypto/rsa"
	"crypto/x509"
	"encoding/pem"
	"strings"
	"time"

	. "verifharness/lib"

	"github.com/golang-jwt/jwt/v4"
)

const (
	dKey = iota
	dAlg
	dExp
	dNbf
	dIat
	dAud
	dNoise
	dEnc
	nDims
)

var dimName = [nDims]string{"key", "alg", "exp", "nbf", "iat", "aud", "noise", "enc"}

var dimVals = [nDims][]string{
	{"right", "other", "signature-stripped"},
	{"RS512", "RS256", "RS384", "PS256", "PS384", "PS512", "HS256-public-pem", "HS512-public-der", "none", "ES256"},
	{"future", "absent", "past"},
	{"absent", "past", "future"},
	{"absent", "past", "future"},
	{"node", "list-with-node", "other", "absent", "empty-list", "list-without-node"},
	{"none", "iss+sub+jti"},
	{"ok", "truncated", "leading-space", "payload-char-flipped", "extra-segment"},
}

type tokDims [nDims]int

type tokenGen struct {
	nodeID     string
	key, other *rsa.PrivateKey
	ec         *ecdsa.PrivateKey
	now        time.Time
}

func newTokenGen(nodeID string, key, other *rsa.PrivateKey) *tokenGen {
	ec, err := ecdsa.GenerateKey(elliptic.P256(), rand.Reader)
	Must(err)
	return &tokenGen{nodeID: nodeID, key: key, other: other, ec: ec, now: time.Now()}
}

func pubBytes(k *rsa.PrivateKey) (pemB, der []byte) {
	der, _ = x509.MarshalPKIXPublicKey(&k.PublicKey)
	return pem.EncodeToMemory(&pem.Block{Type: "PUBLIC KEY", Bytes: der}), der
}

func (g *tokenGen) make(d tokDims) tokenSpec {
	claims := jwt.MapClaims{}
	switch dimVals[dExp][d[dExp]] {
	case "future":
		claims["exp"] = g.now.Add(30 * time.Minute).Unix()
	case "past":
		claims["exp"] = g.now.Add(-2 * time.Minute).Unix()
	}
	switch dimVals[dNbf][d[dNbf]] {
	case "past":
		claims["nbf"] = g.now.Add(-10 * time.Minute).Unix()
	case "future":
		claims["nbf"] = g.now.Add(20 * time.Minute).Unix()
	}
	switch dimVals[dIat][d[dIat]] {
	case "past":
		claims["iat"] = g.now.Add(-10 * time.Minute).Unix()
	case "future":
		claims["iat"] = g.now.Add(20 * time.Minute).Unix()
	}
	switch dimVals[dAud][d[dAud]] {
	case "node":
		claims["aud"] = []string{g.nodeID}
	case "list-with-node":
		claims["aud"] = []string{"elsewhere", g.nodeID, "third"}
	case "other":
		claims["aud"] = []string{g.nodeID + "x"}
	case "empty-list":
		claims["aud"] = []string{}
	case "list-without-node":
		claims["aud"] = []string{"elsewhere", strings.ToUpper(g.nodeID)}
	}
	if d[dNoise] == 1 {
		claims["iss"], claims["sub"], claims["jti"] = "somebody", g.nodeID, "id-1"
	}
	signer := g.key
	if d[dKey] == 1 {
		signer = g.other
	}
	var method jwt.SigningMethod
	var k interface{} = signer
	rsaFamily := true
	switch dimVals[dAlg][d[dAlg]] {
	case "RS512":
		method = jwt.SigningMethodRS512
	case "RS256":
		method = jwt.SigningMethodRS256
	case "RS384":
		method = jwt.SigningMethodRS384
	case "PS256":
		method = jwt.SigningMethodPS256
	case "PS384":
		method = jwt.SigningMethodPS384
	case "PS512":
		method = jwt.SigningMethodPS512
	case "HS256-public-pem":
		method, rsaFamily = jwt.SigningMethodHS256, false
		p, _ := pubBytes(signer)
		k = p
	case "HS512-public-der":
		method, rsaFamily = jwt.SigningMethodHS512, false
		_, der := pubBytes(signer)
		k = der
	case "none":
		method, rsaFamily = jwt.SigningMethodNone, false
		k = jwt.UnsafeAllowNoneSignatureType
	default:
		method, rsaFamily = jwt.SigningMethodES256, false
		k = g.ec
	}
	tok := mustSign(jwt.NewWithClaims(method, claims), k)
	if d[dKey] == 2 {
		tok = tok[:strings.LastIndex(tok, ".")+1]
	}
	switch dimVals[dEnc][d[dEnc]] {
	case "truncated":
		if len(tok) > 12 {
			tok = tok[:len(tok)-9]
		}
	case "leading-space":
		tok = " " + tok
	case "payload-char-flipped":
		b := []byte(tok)
		p1, p2 := strings.Index(tok, "."), strings.LastIndex(tok, ".")
		mid := (p1 + p2) / 2
		if b[mid] == 'A' {
			b[mid] = 'B'
		} else {
			b[mid] = 'A'
		}
		tok = string(b)
	case "extra-segment":
		tok += ".AAAA"
	}
	encOK := d[dEnc] == 0
	keyRight := d[dKey] == 0
	audOK := d[dAud] <= 1
	propGood := encOK && rsaFamily && keyRight && d[dExp] != 2 && audOK
	implValid := propGood && d[dNbf] != 2 && d[dIat] != 2
	class := "JValid"
	switch {
	case implValid:
	case !encOK:
		class = "JMalformed"
	case !rsaFamily:
		class = "JBadAlg"
	case !keyRight:
		class = "JBadKey"
	case !audOK:
		class = "JWrongAud"
	default:
		class = "JExpired"
	}
	var dev []string
	for i := 0; i < nDims; i++ {
		if d[i] != 0 {
			dev = append(dev, dimName[i]+"="+dimVals[i][d[i]])
		}
	}
	return tokenSpec{tokenBase: tokenBase{"gen[" + strings.Join(dev, ",") + "]", tok, true, propGood, class}, dims: dev, generated: true}
}

// singlesAndPairs: the baseline, every single deviation, every pair of deviations.
func singlesAndPairs() []tokDims {
	out := []tokDims{{}}
	for i := 0; i < nDims; i++ {
		for a := 1; a < len(dimVals[i]); a++ {
			var d tokDims
			d[i] = a
			out = append(out, d)
			for j := i + 1; j < nDims; j++ {
				for b := 1; b < len(dimVals[j]); b++ {
					e := d
					e[j] = b
					out = append(out, e)
				}
			}
		}
	}
	return out
}

func randomDims(r *Rng) tokDims {
	var d tokDims
	for i := 0; i < nDims; i++ {
		// half of the time a dimension stays on the baseline, so that valid and nearly valid
		// combinations stay frequent
		if r.Bool() {
			d[i] = r.Intn(len(dimVals[i]))
		}
	}
	return d
}
