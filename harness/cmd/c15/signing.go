package main

// The signing side, end to end: nodes that SUBMIT remote work to V with signwork=true/false —
//   M  signs with the private key V verifies with (tokenexpiration 30m),
//   X  signs with another key,
//   E  signs with the right key but a negative tokenexpiration (every token is born expired),
//   U  has no signing key at all.
// For each signer x signwork x target work type {verifying, plain}: is a unit created at V?
// Oracle (property text): a unit of a verifying type comes into being at V only from a submission
// that carries a valid token; a token sent to a plain type is refused.  Then, for the started
// units, cancel and release at the submitter must arrive (signed) at V.
// Also here: the verification key file unreadable at the time of a command (everything must be
// refused), and configurations that must not start (verifying type without a key, missing key file).

import (
	"encoding/json"
	"fmt"
	"os"
	"strings"
	"sync"
	"time"

	. "verifharness/lib"
)

type signer struct {
	d      *Daemon
	keyCoq string // option N
	right  bool   // signs with the key V verifies with
	expOK  bool   // positive expiration
	hasKey bool
}

func (h *harness) startSigners(dir, privF, otherF string, vListen int, mk func(string) *Daemon) {
	conf := func(id, signing string) string {
		return fmt.Sprintf(`---
- node:
    id: %s
    datadir: %s
- log-level: info
%s- control-service:
    service: control
    filename: %s
- tcp-peer:
    address: 127.0.0.1:%d
`, id, mk(id).DataDir(), signing, mk(id).Sock, vListen)
	}
	x, e, u := mk("c15x"), mk("c15e"), mk("c15u")
	x.Config = conf("c15x", fmt.Sprintf("- work-signing:\n    privatekey: %s\n    tokenexpiration: 30m\n", otherF))
	e.Config = conf("c15e", fmt.Sprintf("- work-signing:\n    privatekey: %s\n    tokenexpiration: -1m\n", privF))
	u.Config = conf("c15u", "")
	var wg sync.WaitGroup
	for _, d := range []*Daemon{x, e, u} {
		wg.Add(1)
		go func(d *Daemon) { defer wg.Done(); Must(d.Start()) }(d)
	}
	wg.Wait()
	h.signers = []*signer{
		{h.M, "(Some 1)", true, true, true},
		{x, "(Some 2)", false, true, true},
		{e, "(Some 1)", true, false, true},
		{u, "None", false, true, false},
	}
	deadline := time.Now().Add(15 * time.Second)
	for _, s := range h.signers[1:] {
		for {
			l, err := oneShotUnix(s.d.Sock, `{"command":"ping","target":"c15v"}`)
			if err == nil && strings.Contains(l, `"Success":true`) {
				break
			}
			if time.Now().After(deadline) {
				h.fatal = fmt.Sprintf("no mesh route from %s to c15v: %s %v", s.d.ID, l, err)
				return
			}
			time.Sleep(50 * time.Millisecond)
		}
	}
}

type remoteTry struct {
	s        *signer
	signwork bool
	wtype    string
	localID  string
	remoteID string
	started  bool
	detail   string
}

func (h *harness) signedRemote() {
	if h.fatal != "" {
		return
	}
	before, _ := h.snapshot(h.V)
	var tries []*remoteTry
	for _, s := range h.signers {
		for _, sw := range []bool{true, false} {
			for _, wt := range []string{"vsleep", "psleep", "signedwork", "nosuchtype"} {
				tries = append(tries, &remoteTry{s: s, signwork: sw, wtype: wt})
			}
		}
	}
	var wg sync.WaitGroup
	for _, t := range tries {
		wg.Add(1)
		go func(t *remoteTry) {
			defer wg.Done()
			sess, err := dialNet("unix", t.s.d.Sock)
			if err != nil {
				return
			}
			defer sess.close()
			req := map[string]string{"command": "work", "subcommand": "submit", "node": "c15v", "worktype": t.wtype, "signwork": fmt.Sprint(t.signwork)}
			jb, _ := json.Marshal(req)
			_ = sess.send(append(jb, '\n'))
			l, err := sess.line(10 * time.Second)
			i := strings.Index(l, "with ID ")
			if err != nil || i < 0 {
				t.detail = "submit at the signer: " + l
				return
			}
			t.localID = strings.TrimSuffix(strings.Fields(l[i+8:])[0], ".")
			sess.closeWrite()
			fin, _ := sess.line(10 * time.Second)
			t.detail = fin
			// the first connection attempt is made before the final reply; poll a little for the
			// record to settle
			deadline := time.Now().Add(2500 * time.Millisecond)
			for time.Now().Before(deadline) {
				r, _ := oneShotUnix(t.s.d.Sock, `{"command":"work","subcommand":"status","unitid":"`+t.localID+`"}`)
				var st struct {
					State     int
					Detail    string
					ExtraData struct {
						RemoteUnitID  string
						RemoteStarted bool
					}
				}
				_ = json.Unmarshal([]byte(r), &st)
				if st.ExtraData.RemoteStarted {
					t.started, t.remoteID = true, st.ExtraData.RemoteUnitID
					return
				}
				if st.State == 3 || strings.HasPrefix(fin, "ERROR") {
					t.detail = fin + " / " + st.Detail
					return
				}
				time.Sleep(50 * time.Millisecond)
			}
		}(t)
	}
	wg.Wait()
	time.Sleep(200 * time.Millisecond)
	after, _ := h.snapshot(h.V)
	if h.fatal != "" {
		return
	}
	created := map[string]string{} // V unit id -> recorded work type
	for id, raw := range after {
		if _, ok := before[id]; !ok {
			var st struct{ WorkType string }
			_ = json.Unmarshal([]byte(raw), &st)
			created[id] = st.WorkType
		}
	}
	claimed := map[string]bool{}
	for _, t := range tries {
		verifying := registryOf["c15v"][t.wtype]
		_, registered := registryOf["c15v"][t.wtype]
		tokenValid := t.signwork && t.s.right && t.s.expOK && t.s.hasKey
		atTarget := false
		if t.started {
			if _, ok := created[t.remoteID]; ok {
				atTarget, claimed[t.remoteID] = true, true
			}
		}
		rec := map[string]interface{}{"signer": t.s.d.ID, "signwork": t.signwork, "worktype": t.wtype, "started": t.started, "detail": t.detail}
		h.im.Hist(fmt.Sprintf("signed-remote:%s:signwork=%v:%s:created=%v", t.s.d.ID, t.signwork, t.wtype, atTarget))
		h.im.Count(fmt.Sprintf("signed-remote %s %v %s", t.s.d.ID, t.signwork, t.wtype), true)
		h.im.Sample(rec)
		if atTarget && verifying && !tokenValid {
			h.im.Violate(fmt.Sprintf("remote submission from %s (signwork=%v) created a unit of the verifying work type %q at c15v without a valid token", t.s.d.ID, t.signwork, t.wtype),
				"unverified-unit-created:remote", rec)
		}
		if atTarget && registered && !verifying && t.signwork && t.s.hasKey {
			h.im.Violate(fmt.Sprintf("remote submission from %s with a token created a unit of the plain work type %q at c15v", t.s.d.ID, t.wtype), "unexpected-token-effect:remote-submit", rec)
		}
		h.cf.Add(fmt.Sprintf("SRemote %s %s %s 1 %s %s %s %s", t.s.keyCoq, CoqBool(t.s.expOK), CoqBool(t.signwork), coqRegistry("c15v"), HxS("c15v"), HxS(t.wtype), CoqBool(atTarget)),
			fmt.Sprintf("signed remote submit from %s signwork=%v worktype=%s -> created at target: %v (%s)", t.s.d.ID, t.signwork, t.wtype, atTarget, t.detail))
	}
	for id, wt := range created {
		if !claimed[id] {
			h.im.Violate(fmt.Sprintf("unit %s of work type %q appeared at c15v that no submitting node reports as started", id, wt), "unexplained-unit-at-target", nil)
		}
	}
	// signed cancel / release / results of the started units
	for _, t := range tries {
		if !t.started || h.fatal != "" {
			continue
		}
		// the output of the remote unit arrives through signed `work results` requests
		gotOut := false
		for i := 0; i < 60 && !gotOut; i++ {
			r, _ := oneShotUnix(t.s.d.Sock, `{"command":"work","subcommand":"status","unitid":"`+t.localID+`"}`)
			var st struct{ StdoutSize int64 }
			_ = json.Unmarshal([]byte(r), &st)
			gotOut = st.StdoutSize >= 7
			if !gotOut {
				time.Sleep(50 * time.Millisecond)
			}
		}
		h.im.Hist(fmt.Sprintf("signed-remote:output-fetched=%v", gotOut))
		sub := "cancel"
		if t.signwork {
			sub = "release"
		}
		_, _ = oneShotUnix(t.s.d.Sock, `{"command":"work","subcommand":"`+sub+`","unitid":"`+t.localID+`"}`)
		ok := false
		for i := 0; i < 80 && !ok; i++ {
			snap, _ := h.snapshot(h.V)
			raw, present := snap[t.remoteID]
			if sub == "release" {
				ok = !present
			} else {
				var st struct{ State int }
				_ = json.Unmarshal([]byte(raw), &st)
				ok = present && st.State != 1 && st.State != 0
			}
			if !ok {
				time.Sleep(50 * time.Millisecond)
			}
		}
		h.im.Hist(fmt.Sprintf("signed-remote:%s-arrived-at-target=%v", sub, ok))
		if !ok {
			h.im.Violate(fmt.Sprintf("%s of a started remote unit at %s (signwork=%v) did not take effect at c15v within 4 s", sub, t.s.d.ID, t.signwork), "signed-"+sub+"-lost", nil)
		}
	}
	// clean up
	for _, s := range h.signers {
		if l, err := oneShotUnix(s.d.Sock, `{"command":"work","subcommand":"list"}`); err == nil {
			var m map[string]json.RawMessage
			_ = json.Unmarshal([]byte(l), &m)
			for id := range m {
				_, _ = oneShotUnix(s.d.Sock, `{"command":"work","subcommand":"force-release","unitid":"`+id+`"}`)
			}
		}
	}
	time.Sleep(200 * time.Millisecond)
	if snap, _ := h.snapshot(h.V); snap != nil {
		for id := range snap {
			if _, ok := before[id]; !ok {
				h.discard(h.V, id)
			}
		}
	}
}

// the verification key file is read at every verification: unreadable or gone => nothing verifies
func (h *harness) brokenKeyFile(tokByName func(*node, string) tokenSpec) {
	if h.fatal != "" {
		return
	}
	orig, err := os.ReadFile(h.pubF)
	if err != nil {
		return
	}
	vb := *h.V
	vb.keyOK = false
	for _, variant := range []string{"garbage", "empty", "private-key-instead", "missing"} {
		switch variant {
		case "garbage":
			_ = os.WriteFile(h.pubF, []byte("-----BEGIN PUBLIC KEY-----\nnot a key\n-----END PUBLIC KEY-----\n"), 0o600)
		case "empty":
			_ = os.WriteFile(h.pubF, nil, 0o600)
		case "private-key-instead":
			b, _ := os.ReadFile(h.privF)
			_ = os.WriteFile(h.pubF, b, 0o600)
		default:
			_ = os.Remove(h.pubF)
		}
		h.im.Hist("verification-key-file:" + variant)
		for i, cmd := range []string{"submit", "cancel", "release", "results"} {
			for _, tn := range []string{"valid-rs512", "absent"} {
				h.runCase(&vb, caseSpec{Cmd: cmd, Conn: []string{"tcp", "mesh"}[i%2], Kind: "verify"}, tokByName(h.V, tn))
			}
		}
	}
	_ = os.WriteFile(h.pubF, orig, 0o600)
	// and back: a valid token works again
	h.runCase(h.V, caseSpec{Cmd: "cancel", Conn: "tcp", Kind: "verify"}, tokByName(h.V, "valid-rs512"))
}

// configurations that would leave a verifying work type without a usable key must not come up;
// if one does, an unsigned submission over TCP must still be refused
func (h *harness) badConfigs(dir string, mk func(string) *Daemon) {
	type bad struct{ name, extra string }
	var wg sync.WaitGroup
	var mu sync.Mutex
	for i, b := range []bad{
		{"verifying-type-without-verification-key", "- work-command:\n    worktype: vsleep\n    verifysignature: true\n" + sleeper},
		{"verification-key-file-missing", "- work-verification:\n    publickey: " + dir + "/nosuch.pub\n- work-command:\n    worktype: vsleep\n    verifysignature: true\n" + sleeper},
		{"signing-key-file-missing", "- work-signing:\n    privatekey: " + dir + "/nosuch.key\n"},
		{"tokenexpiration-unparsable", "- work-signing:\n    privatekey: " + h.privF + "\n    tokenexpiration: soon\n"},
	} {
		wg.Add(1)
		go func(i int, b bad) {
			defer wg.Done()
			port := freePort()
			d := mk(fmt.Sprintf("c15bad%d", i))
			d.Config = fmt.Sprintf("---\n- node:\n    id: %s\n    datadir: %s\n- log-level: info\n- local-only:\n%s- control-service:\n    service: control\n    filename: %s\n    tcplisten: 127.0.0.1:%d\n",
				d.ID, d.DataDir(), b.extra, d.Sock, port)
			err := d.Start()
			mu.Lock()
			defer mu.Unlock()
			h.im.Hist(fmt.Sprintf("bad-config:%s:started=%v", b.name, err == nil))
			h.im.Count("bad-config "+b.name, true)
			if err == nil {
				if strings.Contains(b.extra, "verifysignature") {
					s, derr := dialNet("tcp", fmt.Sprintf("127.0.0.1:%d", port))
					if derr == nil {
						_ = s.send([]byte(`{"command":"work","subcommand":"submit","node":"localhost","worktype":"vsleep"}` + "\n"))
						l, _ := s.line(5 * time.Second)
						s.close()
						if !strings.HasPrefix(l, "ERROR") {
							h.im.Violate("a node whose verifying work type has no usable verification key started and accepted an unsigned submission over TCP: "+l,
								"unverified-unit-created:bad-config", map[string]string{"config": b.name})
						}
					}
				}
				d.Kill()
				killTree(d.Dir)
			}
		}(i, b)
	}
	wg.Wait()
}
