package main

// Structural generator of raw `signature` strings: 0-5 dot-separated segments, every segment drawn
// independently from a pool of shapes (empty, one character, characters outside base64url,
// base64url of binary / of JSON that is not an object / of objects without or with a wrongly
// typed alg, claims of wrong JSON types, signatures of wrong length), plus 64 KiB segments and
// non-ASCII / NUL bytes.  None of them is a valid token: everything must be refused with an
// ERROR reply, nothing may take effect and the node must stay alive.

import (
	"encoding/base64"
	"strings"

	. "verifharness/lib"
)

func b64(s string) string { return base64.RawURLEncoding.EncodeToString([]byte(s)) }

type rawSig struct{ name, tok string }

func rawSignatures(r *Rng, nodeID string, thorough bool) []rawSig {
	headers := []rawSig{{"empty", ""}, {"one-char", "a"}, {"not-base64", "!!*%"}, {"binary", b64("\xff\xfe\x00\x01binary")}, {"json-number", b64("5")},
		{"json-string", b64(`"str"`)}, {"json-array", b64("[1,2]")}, {"json-null", b64("null")}, {"empty-object", b64("{}")}, {"no-alg", b64(`{"typ":"JWT"}`)},
		{"alg-null", b64(`{"alg":null}`)}, {"alg-number", b64(`{"alg":5}`)}, {"alg-unknown", b64(`{"alg":"XX999"}`)}, {"alg-none", b64(`{"alg":"none","typ":"JWT"}`)},
		{"valid-header", b64(`{"alg":"RS512","typ":"JWT"}`)}, {"padded-base64", "eyJhbGciOiJSUzUxMiJ9=="}, {"non-ascii-nul", "é\x00ü"}, {"64KiB", strings.Repeat("A", 65536)}}
	payloads := []rawSig{{"empty", ""}, {"one-char", "b"}, {"not-base64", "###"}, {"binary", b64("\x00\x01\x02\xff")}, {"json-number", b64("7")}, {"json-array", b64("[]")},
		{"json-null", b64("null")}, {"empty-object", b64("{}")}, {"exp-string", b64(`{"exp":"soon","aud":["` + nodeID + `"]}`)}, {"aud-number", b64(`{"aud":5,"exp":9999999999}`)},
		{"aud-object", b64(`{"aud":{"a":1},"exp":9999999999}`)}, {"aud-nested-list", b64(`{"aud":[["` + nodeID + `"]],"exp":9999999999}`)}, {"iat-bool", b64(`{"iat":true,"aud":["` + nodeID + `"]}`)},
		{"exp-overflow", b64(`{"exp":1e400,"aud":["` + nodeID + `"]}`)}, {"valid-claims", b64(`{"aud":["` + nodeID + `"],"exp":9999999999}`)}, {"64KiB", b64(`{"aud":["` + strings.Repeat("n", 49000) + `"]}`)}}
	sigs := []rawSig{{"empty", ""}, {"one-char", "c"}, {"not-base64", "$$$"}, {"short", b64("0123456789")}, {"rsa-2048-length", base64.RawURLEncoding.EncodeToString(r.Bytes(256))},
		{"64KiB", strings.Repeat("B", 65536)}}
	validH, validP, someS := headers[14], payloads[14], sigs[4]
	var out []rawSig
	add := func(name string, segs ...string) { out = append(out, rawSig{name, strings.Join(segs, ".")}) }
	add("a.b.c", "a", "b", "c")
	for _, h := range headers {
		add("header="+h.name, h.tok, validP.tok, someS.tok)
	}
	for _, p := range payloads {
		add("payload="+p.name, validH.tok, p.tok, someS.tok)
	}
	for _, s := range sigs {
		add("signature="+s.name, validH.tok, validP.tok, s.tok)
	}
	// segment counts 0-5
	out = append(out, rawSig{"no-dot-one-segment", validH.tok})
	add("two-segments", validH.tok, validP.tok)
	add("two-segments-junk", "a", "b")
	add("four-segments", validH.tok, validP.tok, someS.tok, "d")
	add("five-segments", validH.tok, validP.tok, someS.tok, "d", "e")
	add("five-empty-segments", "", "", "", "", "")
	add("three-empty-segments", "", "", "")
	add("dots-only", ".", ".")
	n := 30
	if thorough {
		n = 600
	}
	for i := 0; i < n; i++ {
		k := r.Intn(6)
		segs := make([]string, k)
		names := make([]string, k)
		for j := 0; j < k; j++ {
			var pool []rawSig
			switch {
			case j == 0:
				pool = headers
			case j == 1:
				pool = payloads
			default:
				pool = sigs
			}
			c := pool[r.Intn(len(pool))]
			if c.name == "64KiB" && r.Chance(70) {
				c = pool[0]
			}
			segs[j], names[j] = c.tok, c.name
		}
		if k == 0 {
			continue
		}
		out = append(out, rawSig{"random[" + strings.Join(names, ".") + "]", strings.Join(segs, ".")})
	}
	return out
}
