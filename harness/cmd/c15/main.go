package main

// C15 — signature-protected work cannot be driven remotely without a valid token.
//
// Real daemons: V (work-verification key; work types vsleep [verifysignature] and psleep; unix +
// TCP control service + tcp-listener), N (no verification key; psleep) and M (mesh peer of both,
// used to open control sessions to V and N through the mesh with its `connect` command).
// Product of: command {submit, cancel, release, force-release, results} x connection {unix, TCP,
// mesh stream} x deciding work type {verifying, plain, remote signwork=true/false, unknown} x
// token.  Tokens are REAL JWTs made with golang-jwt: RS512 valid (also with a second audience,
// without expiry), RS256 / PS512 by the configured key, HS256 keyed with the public key (PEM and
// DER bytes), alg none, ES256, expired, not yet valid, other audience, no audience, other key,
// truncated, one character flipped, garbage, empty, absent.
//
// Model-independent oracle (property text): a command must be REFUSED (ERROR reply; set of units,
// their status records and the data directory unchanged; nothing streamed) when
//   - the deciding work type does not verify and a token was sent (any connection), or
//   - it verifies, the connection is not the unix socket, and the token is not one signed by the
//     configured key, inside its validity period, with this node among its audiences.
// Correspondence: Model/Sig.v exec gives the same effect/no-effect and reply class on every case.

import (
	"crypto/ecdsa"
	"crypto/elliptic"
	"crypto/rand"
	"crypto/rsa"
	"crypto/x509"
	"encoding/json"
	"encoding/pem"
	"fmt"
	"net"
	"os"
	"path/filepath"
	"sort"
	"strings"
	"sync"
	"time"

	. "verifharness/lib"

	"github.com/ansible/receptor/pkg/certificates"
	"github.com/golang-jwt/jwt/v4"
)

func main() { Main("C15", runC15, nil) }

// ---------- tokens ----------

type tokenBase struct {
	name  string
	tok   string // "" with absent=false: the empty string is sent
	send  bool   // false: no signature field at all
	valid bool   // by construction: signed by the configured key, in time, audience contains the node
	class string // Coq jwt_result: what the verifier of /repo makes of the token
}

type tokenSpec struct {
	tokenBase
	dims      []string // generated tokens: the dimensions that deviate from the baseline
	generated bool
}

func mustSign(t *jwt.Token, key interface{}) string {
	s, err := t.SignedString(key)
	Must(err)
	return s
}

func makeTokens(nodeID string, key, other *rsa.PrivateKey) []tokenSpec {
	now := time.Now()
	claims := func(exp, nbf time.Time, aud []string) *jwt.RegisteredClaims {
		c := &jwt.RegisteredClaims{}
		if !exp.IsZero() {
			c.ExpiresAt = jwt.NewNumericDate(exp)
		}
		if !nbf.IsZero() {
			c.NotBefore = jwt.NewNumericDate(nbf)
		}
		if aud != nil {
			c.Audience = aud
		}
		return c
	}
	good := claims(now.Add(30*time.Minute), time.Time{}, []string{nodeID})
	pubDER, _ := x509.MarshalPKIXPublicKey(&key.PublicKey)
	pubPEM := pem.EncodeToMemory(&pem.Block{Type: "PUBLIC KEY", Bytes: pubDER})
	ecKey, err := ecdsa.GenerateKey(elliptic.P256(), rand.Reader)
	Must(err)
	valid := mustSign(jwt.NewWithClaims(jwt.SigningMethodRS512, good), key)
	flip := []byte(valid)
	// flip one character in the middle of the payload part
	p1 := strings.Index(valid, ".")
	p2 := strings.LastIndex(valid, ".")
	mid := (p1 + p2) / 2
	if flip[mid] == 'A' {
		flip[mid] = 'B'
	} else {
		flip[mid] = 'A'
	}
	none := mustSign(jwt.NewWithClaims(jwt.SigningMethodNone, good), jwt.UnsafeAllowNoneSignatureType)
	base := []tokenBase{
		{"absent", "", false, false, "JMalformed"},
		{"empty", "", true, false, "JMalformed"},
		{"valid-rs512", valid, true, true, "JValid"},
		{"valid-rs512-two-audiences", mustSign(jwt.NewWithClaims(jwt.SigningMethodRS512, claims(now.Add(time.Hour), time.Time{}, []string{"elsewhere", nodeID})), key), true, true, "JValid"},
		{"valid-rs512-no-expiry", mustSign(jwt.NewWithClaims(jwt.SigningMethodRS512, claims(time.Time{}, time.Time{}, []string{nodeID})), key), true, true, "JValid"},
		{"rs256-configured-key", mustSign(jwt.NewWithClaims(jwt.SigningMethodRS256, good), key), true, true, "JValid"},
		{"ps512-configured-key", mustSign(jwt.NewWithClaims(jwt.SigningMethodPS512, good), key), true, true, "JValid"},
		{"hs256-keyed-with-public-pem", mustSign(jwt.NewWithClaims(jwt.SigningMethodHS256, good), pubPEM), true, false, "JBadAlg"},
		{"hs256-keyed-with-public-der", mustSign(jwt.NewWithClaims(jwt.SigningMethodHS256, good), pubDER), true, false, "JBadAlg"},
		{"hs512-keyed-with-public-pem", mustSign(jwt.NewWithClaims(jwt.SigningMethodHS512, good), pubPEM), true, false, "JBadAlg"},
		{"alg-none", none, true, false, "JBadAlg"},
		{"alg-none-with-rs512-signature", none + valid[p2+1:], true, false, "JBadAlg"},
		{"es256", mustSign(jwt.NewWithClaims(jwt.SigningMethodES256, good), ecKey), true, false, "JBadAlg"},
		{"expired", mustSign(jwt.NewWithClaims(jwt.SigningMethodRS512, claims(now.Add(-time.Minute), time.Time{}, []string{nodeID})), key), true, false, "JExpired"},
		{"not-yet-valid", mustSign(jwt.NewWithClaims(jwt.SigningMethodRS512, claims(now.Add(2*time.Hour), now.Add(time.Hour), []string{nodeID})), key), true, false, "JExpired"},
		{"other-audience", mustSign(jwt.NewWithClaims(jwt.SigningMethodRS512, claims(now.Add(time.Hour), time.Time{}, []string{"elsewhere"})), key), true, false, "JWrongAud"},
		{"audience-prefix-of-node", mustSign(jwt.NewWithClaims(jwt.SigningMethodRS512, claims(now.Add(time.Hour), time.Time{}, []string{nodeID[:len(nodeID)-1]})), key), true, false, "JWrongAud"},
		{"no-audience", mustSign(jwt.NewWithClaims(jwt.SigningMethodRS512, claims(now.Add(time.Hour), time.Time{}, nil)), key), true, false, "JWrongAud"},
		{"other-key", mustSign(jwt.NewWithClaims(jwt.SigningMethodRS512, good), other), true, false, "JBadKey"},
		{"truncated", valid[:len(valid)-12], true, false, "JBadKey"},
		{"header-and-payload-only", valid[:p2+1], true, false, "JBadKey"},
		{"one-char-flipped", string(flip), true, false, "JBadKey"},
		{"leading-space", " " + valid, true, false, "JMalformed"},
		{"garbage", "not-a-token", true, false, "JMalformed"},
		{"dots", "..", true, false, "JMalformed"},
		{"long-garbage", strings.Repeat("QUJD", 3000) + "." + strings.Repeat("e", 500) + ".x", true, false, "JMalformed"},
	}
	out := make([]tokenSpec, len(base))
	for i, b := range base {
		out[i] = tokenSpec{tokenBase: b}
	}
	return out
}

// ---------- nodes ----------

type tunit struct {
	id   string
	kind string // verify | plain | remote-signed | remote-unsigned
}

type node struct {
	d      *Daemon
	keyOK  bool
	tcp    int
	pool   map[string][]*tunit
	tokens []tokenSpec
	gen    *tokenGen
}

var tTarget, tDial, tSnap, tCmd time.Duration

type harness struct {
	c     *Ctx
	im    *Impl
	cf    *CaseFile
	V, N  *node
	W     *node // a verifying node whose ID contains "unix"
	M     *Daemon
	fatal string
	mu    sync.Mutex

	signers     []*signer
	pubF, privF string
	dir         string
	mkDaemon    func(string) *Daemon
	vListen     int
	otherF      string
}

func freePort() int {
	l, err := net.Listen("tcp", "127.0.0.1:0")
	Must(err)
	defer l.Close()
	return l.Addr().(*net.TCPAddr).Port
}

const sleeper = `    command: sh
    params: '-c "echo C15OUT; exec sleep 300"'
`

func setup(c *Ctx, im *Impl, cf *CaseFile) *harness {
	dir, err := os.MkdirTemp("", "vh-c15-")
	Must(err)
	key, err := rsa.GenerateKey(rand.Reader, 2048)
	Must(err)
	other, err := rsa.GenerateKey(rand.Reader, 2048)
	Must(err)
	osw := &certificates.OsWrapper{}
	privF, pubF := filepath.Join(dir, "sign.key"), filepath.Join(dir, "verify.pub")
	Must(certificates.SaveToPEMFile(privF, []interface{}{key}, osw))
	Must(certificates.SaveToPEMFile(pubF, []interface{}{&key.PublicKey}, osw))
	mk := func(id string) *Daemon {
		d := &Daemon{Bin: c.Bin, ID: id, Dir: filepath.Join(dir, id)}
		d.Sock = filepath.Join(d.Dir, "ctl.sock")
		return d
	}
	V := &node{d: mk("c15v"), keyOK: true, tcp: freePort(), pool: map[string][]*tunit{}}
	vListen := freePort()
	V.d.Config = fmt.Sprintf(`---
- node:
    id: c15v
    datadir: %s
- log-level: info
- work-signing:
    privatekey: %s
    tokenexpiration: 30m
- work-verification:
    publickey: %s
- control-service:
    service: control
    filename: %s
    tcplisten: 127.0.0.1:%d
- tcp-listener:
    port: %d
    bindaddr: 127.0.0.1
- work-command:
    worktype: vsleep
    verifysignature: true
%s- work-command:
    worktype: psleep
%s- work-command:
    worktype: signedwork
    verifysignature: true
%s- work-command:
    worktype: plainkind
%s`, V.d.DataDir(), privF, pubF, V.d.Sock, V.tcp, vListen, sleeper, sleeper, sleeper, sleeper)
	N := &node{d: mk("c15n"), keyOK: false, tcp: freePort(), pool: map[string][]*tunit{}}
	nListen := freePort()
	N.d.Config = fmt.Sprintf(`---
- node:
    id: c15n
    datadir: %s
- log-level: info
- control-service:
    service: control
    filename: %s
    tcplisten: 127.0.0.1:%d
- tcp-listener:
    port: %d
    bindaddr: 127.0.0.1
- work-command:
    worktype: psleep
%s`, N.d.DataDir(), N.d.Sock, N.tcp, nListen, sleeper)
	// a verifying node whose ID contains the letters "unix": the exemption from verification belongs
	// to the unix-socket TRANSPORT, not to any text in an address (a mesh stream's network name is
	// netceptor-<node ID>)
	W := &node{d: mk(unixNodeID), keyOK: true, tcp: freePort(), pool: map[string][]*tunit{}}
	wListen := freePort()
	W.d.Config = fmt.Sprintf(`---
- node:
    id: %s
    datadir: %s
- log-level: info
- work-verification:
    publickey: %s
- control-service:
    service: control
    filename: %s
    tcplisten: 127.0.0.1:%d
- tcp-listener:
    port: %d
    bindaddr: 127.0.0.1
- work-command:
    worktype: vsleep
    verifysignature: true
%s- work-command:
    worktype: psleep
%s`, unixNodeID, W.d.DataDir(), pubF, W.d.Sock, W.tcp, wListen, sleeper, sleeper)
	M := mk("c15m")
	M.Config = fmt.Sprintf(`---
- node:
    id: c15m
    datadir: %s
- log-level: info
- work-signing:
    privatekey: %s
    tokenexpiration: 30m
- control-service:
    service: control
    filename: %s
- tcp-peer:
    address: 127.0.0.1:%d
- tcp-peer:
    address: 127.0.0.1:%d
- tcp-peer:
    address: 127.0.0.1:%d
`, M.DataDir(), privF, M.Sock, vListen, nListen, wListen)
	Must(V.d.Start())
	Must(N.d.Start())
	Must(W.d.Start())
	Must(M.Start())
	W.tokens = makeTokens(unixNodeID, key, other)
	V.tokens = makeTokens("c15v", key, other)
	N.tokens = makeTokens("c15n", key, other)
	V.gen, N.gen = newTokenGen("c15v", key, other), newTokenGen("c15n", key, other)
	otherF := filepath.Join(dir, "other.key")
	Must(certificates.SaveToPEMFile(otherF, []interface{}{other}, osw))
	h := &harness{c: c, im: im, cf: cf, V: V, N: N, W: W, M: M, pubF: pubF, privF: privF, dir: dir, mkDaemon: mk, vListen: vListen, otherF: otherF}
	// wait for the mesh routes
	deadline := time.Now().Add(15 * time.Second)
	for _, target := range []string{"c15v", "c15n", unixNodeID} {
		for {
			l, err := oneShotUnix(M.Sock, `{"command":"ping","target":"`+target+`"}`)
			if err == nil && strings.Contains(l, `"Success":true`) {
				break
			}
			if time.Now().After(deadline) {
				Must(fmt.Errorf("no mesh route from c15m to %s: %s %v", target, l, err))
			}
			time.Sleep(50 * time.Millisecond)
		}
	}
	return h
}

func (h *harness) teardown() {
	dir := filepath.Dir(h.V.d.Dir)
	h.V.d.Kill()
	h.N.d.Kill()
	h.W.d.Kill()
	h.M.Kill()
	for _, s := range h.signers {
		if s.d != h.M {
			s.d.Kill()
		}
	}
	killTree(dir)
	_ = os.RemoveAll(dir)
}

// killTree kills the detached command runners of this run (their command line names the scratch
// directory) and their children (the `sleep 300` processes, whose command line does not).
func killTree(dir string) {
	type proc struct {
		pid, ppid int
		cmd       string
	}
	scan := func() []proc {
		var ps []proc
		ents, _ := os.ReadDir("/proc")
		for _, e := range ents {
			pid := 0
			if _, err := fmt.Sscanf(e.Name(), "%d", &pid); err != nil || pid <= 1 || pid == os.Getpid() {
				continue
			}
			b, err := os.ReadFile("/proc/" + e.Name() + "/cmdline")
			if err != nil {
				continue
			}
			st, err := os.ReadFile("/proc/" + e.Name() + "/stat")
			if err != nil {
				continue
			}
			f := strings.Fields(string(st[strings.LastIndex(string(st), ")")+1:]))
			ppid := 0
			if len(f) > 1 {
				fmt.Sscanf(f[1], "%d", &ppid)
			}
			ps = append(ps, proc{pid, ppid, string(b)})
		}
		return ps
	}
	ps := scan()
	doomed := map[int]bool{}
	for _, p := range ps {
		if strings.Contains(p.cmd, dir) {
			doomed[p.pid] = true
		}
	}
	for changed := true; changed; {
		changed = false
		for _, p := range ps {
			if doomed[p.ppid] && !doomed[p.pid] {
				doomed[p.pid] = true
				changed = true
			}
		}
	}
	for pid := range doomed {
		if p, err := os.FindProcess(pid); err == nil {
			_ = p.Kill()
		}
	}
}

func (h *harness) dial(n *node, conn string) (*Sess, error) {
	switch conn {
	case "unix":
		return dialNet("unix", n.d.Sock)
	case "tcp":
		return dialNet("tcp", fmt.Sprintf("127.0.0.1:%d", n.tcp))
	default:
		return dialMesh(h.M.Sock, n.d.ID)
	}
}

// snapshot of everything the property speaks about: unit set, status records, files
func (h *harness) snapshot(n *node) (map[string]string, string) {
	l, err := oneShotUnix(n.d.Sock, `{"command":"work","subcommand":"list"}`)
	if err != nil {
		h.fatal = "work list on " + n.d.ID + ": " + err.Error()
		return nil, ""
	}
	var m map[string]json.RawMessage
	if err := json.Unmarshal([]byte(l), &m); err != nil {
		h.fatal = "unparsable work list: " + l
		return nil, ""
	}
	units := map[string]string{}
	for id, raw := range m {
		units[id] = string(raw) // encoding/json emits map keys sorted: canonical
	}
	var files []string
	ents, _ := os.ReadDir(n.d.UnitsDir())
	for _, e := range ents {
		sub, _ := os.ReadDir(filepath.Join(n.d.UnitsDir(), e.Name()))
		for _, f := range sub {
			if f.Name() == "status.lock" {
				continue
			}
			files = append(files, e.Name()+"/"+f.Name())
		}
		if len(sub) == 0 {
			files = append(files, e.Name()+"/")
		}
	}
	sort.Strings(files)
	return units, strings.Join(files, " ")
}

func (h *harness) submitUnix(n *node, fields map[string]string) (string, error) {
	s, err := dialNet("unix", n.d.Sock)
	if err != nil {
		return "", err
	}
	defer s.close()
	req := map[string]string{"command": "work", "subcommand": "submit"}
	for k, v := range fields {
		req[k] = v
	}
	jb, _ := json.Marshal(req)
	_ = s.send(append(jb, '\n'))
	l, err := s.line(10 * time.Second)
	if err != nil {
		return "", err
	}
	i := strings.Index(l, "with ID ")
	if i < 0 || strings.HasPrefix(l, "ERROR") {
		return "", fmt.Errorf("submit over the unix socket refused: %s", l)
	}
	id := strings.TrimSuffix(strings.Fields(l[i+8:])[0], ".")
	s.closeWrite()
	if _, err := s.line(10 * time.Second); err != nil {
		return id, err
	}
	return id, nil
}

// a target unit of the wanted class, ready (running with its output written / pending remote).
// Command units need >= 250 ms to be reported Running (the command runner's first status tick),
// so they are made in concurrent batches while no case is in flight.
func (h *harness) target(n *node, kind string) *tunit {
	if len(n.pool[kind]) == 0 {
		h.fill(n, kind, 16)
	}
	p := n.pool[kind]
	if len(p) == 0 {
		return nil
	}
	u := p[len(p)-1]
	n.pool[kind] = p[:len(p)-1]
	return u
}

func (h *harness) fill(n *node, kind string, count int) {
	t0 := time.Now()
	defer func() { h.mu.Lock(); tTarget += time.Since(t0); h.mu.Unlock() }()
	var f map[string]string
	switch kind {
	case "verify":
		f = map[string]string{"node": "localhost", "worktype": "vsleep"}
	case "plain":
		f = map[string]string{"node": "localhost", "worktype": "psleep"}
	case "remote-signed":
		f = map[string]string{"node": "ghost", "worktype": "psleep", "signwork": "true"}
	default:
		f = map[string]string{"node": "ghost", "worktype": "psleep", "signwork": "false"}
	}
	type res struct {
		id  string
		err error
	}
	ch := make(chan res, count)
	for i := 0; i < count; i++ {
		go func() {
			id, err := h.submitUnix(n, f)
			if err == nil && (kind == "verify" || kind == "plain") {
				deadline := time.Now().Add(15 * time.Second)
				for {
					l, _ := oneShotUnix(n.d.Sock, `{"command":"work","subcommand":"status","unitid":"`+id+`"}`)
					var st struct {
						State      int
						StdoutSize int64
					}
					_ = json.Unmarshal([]byte(l), &st)
					if st.State == 1 && st.StdoutSize >= 7 {
						break
					}
					if time.Now().After(deadline) {
						err = fmt.Errorf("unit %s did not reach Running: %s", id, l)
						break
					}
					time.Sleep(10 * time.Millisecond)
				}
			}
			ch <- res{id, err}
		}()
	}
	for i := 0; i < count; i++ {
		r := <-ch
		if r.err != nil {
			h.mu.Lock()
			h.fatal = "creating a " + kind + " unit: " + r.err.Error()
			h.mu.Unlock()
			continue
		}
		h.mu.Lock()
		h.im.Hist("target-units-created")
		n.pool[kind] = append(n.pool[kind], &tunit{id: r.id, kind: kind})
		h.mu.Unlock()
	}
	if kind != "verify" && kind != "plain" {
		time.Sleep(20 * time.Millisecond)
	}
}

func (h *harness) discard(n *node, id string) {
	_, _ = oneShotUnix(n.d.Sock, `{"command":"work","subcommand":"force-release","unitid":"`+id+`"}`)
}

var kindCoq = map[string]string{"verify": "WVerify", "plain": "WPlain", "remote-signed": "(WRemote true)", "remote-unsigned": "(WRemote false)", "unknown": "WUnknown"}
var kindVerifies = map[string]bool{"verify": true, "remote-signed": true}
var connCoq = map[string]string{"unix": "Unix", "tcp": "Tcp", "mesh": "Mesh"}

type caseSpec struct {
	Node    string `json:"node"`
	Conn    string `json:"connection"`
	Token   string `json:"token"`
	Cmd     string `json:"command"`
	Kind    string `json:"deciding_work_type"`
	Remote  bool   `json:"submit_to_other_node,omitempty"`
	SignW   string `json:"signwork,omitempty"`
	NoUnit  bool   `json:"unit_does_not_exist,omitempty"`
	AsPlain bool   `json:"plain_text_form,omitempty"`
	HasName bool   `json:"-"`
	WTName  string `json:"submitted_worktype,omitempty"` // explicit spelling of the work type (HasName)
}

// the registered command work types of the two nodes: name -> verifysignature
const unixNodeID = "unix-worker-1"

var registryOf = map[string]map[string]bool{
	unixNodeID: {"vsleep": true, "psleep": false},
	"c15v":     {"vsleep": true, "psleep": false, "signedwork": true, "plainkind": false},
	"c15n":     {"psleep": false},
}

func coqRegistry(node string) string {
	names := []string{}
	for k := range registryOf[node] {
		names = append(names, k)
	}
	sort.Strings(names)
	xs := []string{}
	for _, k := range names {
		xs = append(xs, "("+HxS(k)+", "+CoqBool(registryOf[node][k])+")")
	}
	return CoqList(xs)
}

func replyClass(l string) int {
	switch {
	case strings.HasPrefix(l, "ERROR"):
		return 1
	case strings.HasPrefix(l, "Streaming results"):
		return 2
	}
	return 0
}

// runCase performs one command and records oracle verdict + correspondence case.
func (h *harness) runCase(n *node, cs caseSpec, tk tokenSpec) {
	if h.fatal != "" {
		return
	}
	cs.Node, cs.Token = n.d.ID, tk.name
	var u *tunit
	req := map[string]interface{}{"command": "work", "subcommand": cs.Cmd}
	var cmdCoq, target string
	switch cs.Cmd {
	case "submit":
		wt := map[string]string{"verify": "vsleep", "plain": "psleep", "unknown": "nosuchtype", "remote-signed": "remote", "remote-unsigned": "remote"}[cs.Kind]
		if cs.HasName {
			wt = cs.WTName
		}
		req["worktype"] = wt
		req["node"] = "localhost"
		if cs.Remote {
			req["node"] = "ghost"
		}
		signwork := false
		switch cs.Kind {
		case "remote-signed":
			cs.SignW = "true"
		case "remote-unsigned":
			if cs.SignW == "true" {
				cs.SignW = "false"
			}
		}
		if cs.SignW != "" {
			req["signwork"] = cs.SignW
			signwork = cs.SignW == "true"
		}
		cmdCoq = fmt.Sprintf("(TSubmit %s %s %s)", kindCoq[cs.Kind], CoqBool(cs.Remote), CoqBool(signwork))
		target = "None"
	default:
		if cs.NoUnit {
			req["unitid"] = "nosuchunit"
			target = "None"
		} else {
			u = h.target(n, cs.Kind)
			if u == nil {
				return
			}
			req["unitid"] = u.id
			target = "(Some " + kindCoq[cs.Kind] + ")"
		}
		switch cs.Cmd {
		case "cancel":
			cmdCoq = "TCancel"
		case "release":
			cmdCoq = "(TRelease false)"
		case "force-release":
			cmdCoq = "(TRelease true)"
		default:
			cmdCoq = "TResults"
			req["startpos"] = 0
		}
	}
	if tk.send {
		req["signature"] = tk.tok
	}
	t1 := time.Now()
	before, filesBefore := h.snapshot(n)
	tSnap += time.Since(t1)
	t1 = time.Now()
	s, err := h.dial(n, cs.Conn)
	tDial += time.Since(t1)
	t1 = time.Now()
	if err != nil {
		h.fatal = fmt.Sprintf("dial %s/%s: %v", n.d.ID, cs.Conn, err)
		return
	}
	var line []byte
	if cs.AsPlain && cs.Cmd == "submit" {
		line = []byte("work submit " + fmt.Sprint(req["node"]) + " " + fmt.Sprint(req["worktype"]))
	} else if cs.AsPlain {
		line = []byte("work " + cs.Cmd + " " + fmt.Sprint(req["unitid"]))
	} else {
		line, _ = json.Marshal(req)
	}
	_ = s.send(append(line, '\n'))
	l, err := s.line(15 * time.Second)
	if err != nil {
		s.close()
		if !n.d.wait(500*time.Millisecond) || n.d.Alive() {
			h.fatal = fmt.Sprintf("no reply to %+v: %v", cs, err)
		} else {
			h.fatal = fmt.Sprintf("the node died: no reply to %+v", cs)
		}
		return
	}
	rc := replyClass(l)
	streamed := 0
	createdID := ""
	switch {
	case cs.Cmd == "submit" && rc == 0:
		if i := strings.Index(l, "with ID "); i >= 0 {
			createdID = strings.TrimSuffix(strings.Fields(l[i+8:])[0], ".")
		}
		s.closeWrite()
		_, _ = s.line(10 * time.Second)
	case rc == 2:
		streamed = len(s.more(150 * time.Millisecond))
	}
	s.close()
	tCmd += time.Since(t1)
	t1 = time.Now()
	after, filesAfter := h.snapshot(n)
	tSnap += time.Since(t1)
	if h.fatal != "" {
		return
	}
	// what happened
	var created, removed, changed []string
	for id := range after {
		if _, ok := before[id]; !ok {
			created = append(created, id)
		} else if before[id] != after[id] {
			changed = append(changed, id)
		}
	}
	for id := range before {
		if _, ok := after[id]; !ok {
			removed = append(removed, id)
		}
	}
	effect := len(created)+len(removed)+len(changed) > 0 || filesBefore != filesAfter || rc == 2 || streamed > 0
	eff := []string{}
	if len(created) > 0 {
		eff = append(eff, "created")
	}
	if len(changed) > 0 {
		eff = append(eff, "stopped/changed")
	}
	if len(removed) > 0 {
		eff = append(eff, "removed")
	}
	if rc == 2 {
		eff = append(eff, fmt.Sprintf("read(%d bytes)", streamed))
	}
	if filesBefore != filesAfter && len(eff) == 0 {
		eff = append(eff, "files-changed")
	}
	// oracle
	verifies := kindVerifies[cs.Kind]
	tokenPresent := tk.send && tk.tok != ""
	tokenGood := tk.valid && n.keyOK
	unitExists := cs.Cmd == "submit" || !cs.NoUnit
	mustRefuse := false
	why := ""
	if unitExists {
		switch {
		case !verifies && tokenPresent:
			mustRefuse, why = true, "unexpected-token"
		case verifies && cs.Conn != "unix" && !tokenGood:
			mustRefuse, why = true, "unauthorized"
		}
	}
	rec := map[string]interface{}{"case": cs, "reply": l, "effects": eff}
	if mustRefuse {
		h.im.Hist("oracle:must-refuse:" + why)
		if effect {
			h.im.Violate(fmt.Sprintf("%s %s over %s with token %q on a %s work type took effect (%v); reply %q", n.d.ID, cs.Cmd, cs.Conn, tk.name, cs.Kind, eff, l),
				why+"-effect:"+cs.Cmd, rec)
		} else if rc != 1 {
			h.im.Violate(fmt.Sprintf("%s %s over %s with token %q on a %s work type was not answered with an error: %q", n.d.ID, cs.Cmd, cs.Conn, tk.name, cs.Kind, l),
				why+"-no-error:"+cs.Cmd, rec)
		}
	} else {
		h.im.Hist("oracle:may-proceed")
	}
	// whatever spelling was submitted: a unit of a verifying work type comes into being only with a
	// valid token (or over the unix socket); a spelling that is not registered creates nothing here
	recorded := ""
	for _, id := range created {
		var st struct{ WorkType string }
		_ = json.Unmarshal([]byte(after[id]), &st)
		recorded = st.WorkType
		if registryOf[n.d.ID][st.WorkType] && cs.Conn != "unix" && !tokenGood {
			h.im.Violate(fmt.Sprintf("%s submit of work type %q over %s with token %q created unit %s of the VERIFYING work type %q", n.d.ID, req["worktype"], cs.Conn, tk.name, id, st.WorkType),
				"unverified-unit-created", rec)
		}
		if cs.Cmd == "submit" && !cs.Remote {
			wtS, _ := req["worktype"].(string)
			if _, reg := registryOf[n.d.ID][wtS]; !reg && wtS != "remote" {
				h.im.Violate(fmt.Sprintf("%s submit of the unregistered work type name %q created unit %s (recorded work type %q)", n.d.ID, wtS, id, st.WorkType),
					"unknown-worktype-created-unit", rec)
			}
		}
	}
	if cs.HasName {
		h.im.Hist("worktype-spelling-cases")
	}
	if effect {
		h.im.Hist("effect:" + cs.Cmd + ":" + cs.Conn)
	} else {
		h.im.Hist("refused-or-no-effect:" + cs.Cmd + ":" + cs.Conn)
	}
	if tk.generated {
		h.im.Hist("token:generated")
		if len(tk.dims) == 0 {
			h.im.Hist("tokdim:baseline")
		}
		for _, d := range tk.dims {
			h.im.Hist("tokdim:" + d)
		}
		h.im.Hist(fmt.Sprintf("token:generated:%d-deviations", len(tk.dims)))
	} else if strings.HasPrefix(tk.name, "raw[") {
		h.im.Hist("token:raw-structural")
	} else {
		h.im.Hist("token:" + tk.name)
	}
	h.im.Hist("kind:" + cs.Kind)
	nontrivial := cs.Conn != "unix" && unitExists
	key := fmt.Sprintf("%+v", cs)
	h.im.Count(key, nontrivial)
	h.im.Sample(rec)
	if cs.HasName {
		wtS, _ := req["worktype"].(string)
		rcd := "None"
		if len(created) > 0 {
			rcd = "(Some " + HxS(recorded) + ")"
		}
		h.cf.Add(fmt.Sprintf("SName %s %s %s %s %s %s %s %s %s %d %s", CoqBool(n.keyOK), connCoq[cs.Conn], CoqBool(!tokenPresent), tk.class, coqRegistry(n.d.ID),
			HxS(wtS), CoqBool(cs.Remote), CoqBool(cs.SignW == "true"), CoqBool(effect), rc, rcd),
			fmt.Sprintf("%+v worktype=%q reply=%q effects=%v recorded=%q", cs, wtS, l, eff, recorded))
	} else {
		h.cf.Add(fmt.Sprintf("SCase (mkcase %s %s %s %s %s %s %s %d)", CoqBool(n.keyOK), connCoq[cs.Conn], CoqBool(!tokenPresent), tk.class, target, cmdCoq, CoqBool(effect), rc),
			fmt.Sprintf("%+v reply=%q effects=%v", cs, l, eff))
	}
	// housekeeping
	for _, id := range created {
		h.discard(n, id)
	}
	if createdID != "" && len(created) == 0 {
		h.discard(n, createdID)
	}
	if u != nil {
		if len(removed) > 0 {
			// gone
		} else if len(changed) > 0 {
			h.discard(n, u.id)
		} else {
			n.pool[u.kind] = append(n.pool[u.kind], u)
		}
	}
}

func spellingsOf(t string) []string {
	up := strings.ToUpper(t)
	title := strings.ToUpper(t[:1]) + t[1:]
	mixed := []byte(t)
	for i := range mixed {
		if i%2 == 1 && mixed[i] >= 'a' && mixed[i] <= 'z' {
			mixed[i] -= 32
		}
	}
	out := []string{up, title, string(mixed), " " + t, t + " ", t + "\x00", t + ".", t + "-x", t + "x", t[:len(t)-1], "\t" + t, t + "\n"}
	// Unicode simple-fold variants: U+017F for s, U+212A for k
	if strings.Contains(t, "s") {
		out = append(out, strings.Replace(t, "s", "\u017f", 1), strings.ReplaceAll(up, "S", "\u017f"))
	}
	if strings.Contains(t, "k") {
		out = append(out, strings.Replace(t, "k", "\u212a", 1))
	}
	return out
}

func (h *harness) spellings(thorough bool, tokByName func(*node, string) tokenSpec) {
	n := h.V
	i := 0
	run := func(name string, remote, plain bool, conn, tok, signw string) {
		if h.fatal != "" {
			return
		}
		kind := "unknown"
		if v, ok := registryOf[n.d.ID][name]; ok {
			kind = map[bool]string{true: "verify", false: "plain"}[v]
		}
		cs := caseSpec{Cmd: "submit", Conn: conn, Kind: kind, Remote: remote, AsPlain: plain, HasName: true, WTName: name, SignW: signw}
		h.runCase(n, cs, tokByName(n, tok))
	}
	names := []string{"vsleep", "signedwork", "psleep", "plainkind", "remote"}
	for _, t := range names {
		verifying := registryOf[n.d.ID][t]
		for _, sp := range spellingsOf(t) {
			i++
			conn := "tcp"
			if i%5 == 0 {
				conn = "mesh"
			}
			signw := ""
			if t == "remote" && i%2 == 0 {
				signw = "true"
			}
			toks := []string{"absent", "valid-rs512"}
			if verifying || thorough {
				toks = append(toks, "other-key")
			}
			for _, tk := range toks {
				run(sp, false, false, conn, tk, signw) // JSON, this node
			}
			run(sp, true, false, conn, "absent", signw) // JSON, another node
			// plain text, this node (a blank would split the name into two tokens: JSON only)
			plainOK := !strings.ContainsAny(sp, " \n")
			if plainOK {
				run(sp, false, true, conn, "absent", "")
			}
			if thorough {
				run(sp, true, false, conn, "valid-rs512", signw)
				if plainOK {
					run(sp, true, true, conn, "absent", "")
				}
				run(sp, false, false, "unix", "absent", signw)
				run(sp, false, false, "unix", "other-key", signw)
			}
		}
		// the exact names, for contrast (plain-text form included)
		if t != "remote" {
			run(t, false, true, "tcp", "absent", "")
			run(t, false, false, "tcp", "absent", "")
			run(t, false, false, "mesh", "valid-rs512", "")
		}
	}
}

func clipTok(s string) string {
	if len(s) > 120 {
		return s[:120] + "…"
	}
	return s
}

func runC15(c *Ctx) {
	im := NewImpl("C15", c.Seed, c.Tier)
	im.Rule = "cases = command x connection kind x deciding work type x token (real JWTs) x node (with / without verification key): core product exhaustively (4 token classes); generated tokens = baseline, every single and every pair of deviations over the dimensions signing key x algorithm x exp x nbf x iat x aud x iss/sub noise x encoding, plus random full combinations (40 quick / 1500 thorough); 26 hand-made tokens sampled from one splitmix64 stream (thorough: their full product); non-trivial = the command arrives over TCP or a mesh stream and addresses an existing unit / a submit; distinct by full case"
	cf := &CaseFile{Dir: c.Out, Prop: "C15", Imports: []string{"Model.Sig"}, CaseType: "sig_obs", CheckFn: "sig_obs_check", PerShard: 400}
	if c.Bin == "" {
		Must(fmt.Errorf("VERIF_BIN not set"))
	}
	h := setup(c, im, cf)
	defer h.teardown()
	// command units need >= 250 ms each to be reported Running: make the first batches of every
	// class at the same time
	{
		var wg sync.WaitGroup
		for _, nk := range []struct {
			n    *node
			kind string
			cnt  int
		}{{h.V, "verify", 24}, {h.V, "plain", 16}, {h.V, "remote-signed", 24}, {h.V, "remote-unsigned", 12},
			{h.N, "plain", 8}, {h.N, "remote-signed", 8}, {h.N, "remote-unsigned", 8}} {
			wg.Add(1)
			go func(n *node, kind string, cnt int) {
				defer wg.Done()
				h.fill(n, kind, cnt)
			}(nk.n, nk.kind, nk.cnt)
		}
		t0 := time.Now()
		wg.Wait()
		im.Extra["prefill_ms"] = time.Since(t0).Milliseconds()
	}
	r := c.Rng
	conns := []string{"unix", "tcp", "mesh"}
	cmds := []string{"submit", "cancel", "release", "force-release", "results"}
	kindsOf := func(n *node, cmd string) []string {
		ks := []string{"plain", "remote-signed", "remote-unsigned"}
		if n.keyOK {
			ks = append([]string{"verify"}, ks...)
		}
		if cmd == "submit" {
			ks = append(ks, "unknown")
		}
		return ks
	}
	tokByName := func(n *node, name string) tokenSpec {
		for _, t := range n.tokens {
			if t.name == name {
				return t
			}
		}
		panic(name)
	}
	mk := func(n *node, cmd, conn, kind string, tk tokenSpec) {
		cs := caseSpec{Cmd: cmd, Conn: conn, Kind: kind}
		if cmd == "submit" {
			cs.Remote = r.Chance(35)
			switch kind {
			case "verify", "plain", "unknown":
				if r.Chance(30) {
					cs.SignW = []string{"true", "false"}[r.Intn(2)]
				}
			case "remote-unsigned":
				if r.Bool() {
					cs.SignW = "false"
				}
			}
		} else if !tk.send && r.Chance(25) && cmd != "results" {
			cs.AsPlain = true
		}
		h.runCase(n, cs, tk)
	}
	// core: every command x connection x work type class x {absent, valid, expired, other key}
	for _, n := range []*node{h.V, h.N} {
		for _, cmd := range cmds {
			for _, conn := range conns {
				for _, kind := range kindsOf(n, cmd) {
					toks := []string{"absent", "valid-rs512", "expired", "other-key"}
					if !c.Thorough() {
						switch {
						case conn == "unix":
							toks = []string{"absent", "other-key"}
						case !n.keyOK:
							toks = []string{"absent", "valid-rs512"}
						}
					}
					for _, tn := range toks {
						mk(n, cmd, conn, kind, tokByName(n, tn))
					}
				}
			}
		}
	}
	// commands on units that do not exist
	for _, cmd := range cmds[1:] {
		for _, conn := range conns {
			for _, tn := range []string{"absent", "valid-rs512"} {
				h.runCase(h.V, caseSpec{Cmd: cmd, Conn: conn, Kind: "plain", NoUnit: true}, tokByName(h.V, tn))
			}
		}
	}
	// generated tokens: baseline, every single deviation and every pair of deviations of the
	// dimensions key x alg x exp x nbf x iat x aud x noise x encoding, each on a verifying work
	// type over TCP or a mesh stream (now and then on a plain type: unexpected token)
	genCase := func(n *node, i int, d tokDims) {
		if h.fatal != "" {
			return
		}
		cmd := cmds[i%len(cmds)]
		kind := []string{"verify", "remote-signed"}[(i/len(cmds))%2]
		if !n.keyOK {
			kind = "remote-signed"
		}
		if i%11 == 10 {
			kind = "plain"
		}
		conn := "tcp"
		if i%4 == 3 {
			conn = "mesh"
		}
		mk(n, cmd, conn, kind, n.gen.make(d))
	}
	for i, d := range singlesAndPairs() {
		genCase(h.V, i, d)
	}
	nRandTok := 20
	if c.Thorough() {
		nRandTok = 1500
	}
	for i := 0; i < nRandTok; i++ {
		n := h.V
		if i%10 == 9 {
			n = h.N
		}
		genCase(n, r.Intn(1000), randomDims(r))
	}
	// work type NAMES: spellings around every registered type (and around "remote"), JSON and
	// plain-text submit, this node and another node, without / with a valid / with a bad token
	h.spellings(c.Thorough(), tokByName)
	// raw signature strings of every structure: refused, no effect, node alive
	for i, rs := range rawSignatures(r, "c15v", c.Thorough()) {
		if h.fatal != "" {
			break
		}
		tk := tokenSpec{tokenBase: tokenBase{"raw[" + rs.name + "]", rs.tok, true, false, "JMalformed"}}
		kind := []string{"verify", "remote-signed"}[(i/5)%2]
		conn := []string{"tcp", "mesh"}[i%2]
		mk(h.V, cmds[i%len(cmds)], conn, kind, tk)
		if !h.V.d.Alive() {
			im.Violate(fmt.Sprintf("the node died on a %s with signature %s (%q)", cmds[i%len(cmds)], rs.name, clipTok(rs.tok)), "daemon-crashed:raw-signature", map[string]string{"signature": clipTok(rs.tok), "command": cmds[i%len(cmds)], "connection": conn})
			break
		}
	}
	// node IDs: the same slice of the matrix on the verifying node called unix-worker-1, over a mesh
	// stream, over TCP and (the only exempt transport) over its real unix socket
	for _, cmd := range cmds {
		for _, conn := range []string{"mesh", "tcp"} {
			for _, tn := range []string{"absent", "valid-rs512", "other-key", "expired"} {
				mk(h.W, cmd, conn, "verify", tokByName(h.W, tn))
			}
		}
		mk(h.W, cmd, "unix", "verify", tokByName(h.W, "absent"))
		mk(h.W, cmd, "mesh", "plain", tokByName(h.W, "valid-rs512"))
	}
	// the signing side end to end, the key file at verification time, configurations that must not start
	phase := func(name string, f func()) {
		t0 := time.Now()
		f()
		im.Extra["phase_ms_"+name] = time.Since(t0).Milliseconds()
	}
	if h.fatal == "" && h.V.d.Alive() {
		phase("start-signers", func() { h.startSigners(h.dir, h.privF, h.otherF, h.vListen, h.mkDaemon) })
		phase("signed-remote", h.signedRemote)
		phase("broken-key-file", func() { h.brokenKeyFile(tokByName) })
		phase("bad-configs", func() { h.badConfigs(h.dir, h.mkDaemon) })
	}
	// the rest of the product
	if c.Thorough() {
		for _, n := range []*node{h.V, h.N} {
			for _, cmd := range cmds {
				for _, conn := range conns {
					for _, kind := range kindsOf(n, cmd) {
						for _, tk := range n.tokens {
							mk(n, cmd, conn, kind, tk)
						}
					}
				}
			}
		}
	} else {
		for i := 0; i < 40 && h.fatal == ""; i++ {
			n := h.V
			if r.Chance(20) {
				n = h.N
			}
			cmd := cmds[r.Intn(len(cmds))]
			ks := kindsOf(n, cmd)
			conn := conns[1+r.Intn(2)]
			if r.Chance(15) {
				conn = "unix"
			}
			mk(n, cmd, conn, ks[r.Intn(len(ks))], n.tokens[r.Intn(len(n.tokens))])
		}
	}
	if h.fatal != "" {
		im.Violate("harness could not complete a case: "+h.fatal, "harness-stuck", nil)
	}
	if !h.V.d.Alive() {
		if b, err := os.ReadFile(h.V.d.LogPath()); err == nil {
			if j := strings.Index(string(b), "panic: "); j >= 0 {
				line := string(b)[j:]
				if k := strings.Index(line, "\n"); k > 0 {
					line = line[:k]
				}
				im.Violate("the verifying node died: "+line, "daemon-crashed", nil)
			}
		}
	}
	if !h.V.d.Alive() || !h.N.d.Alive() {
		im.Violate("a daemon died during the run", "daemon-died", nil)
	}
	im.Extra["time_ms"] = map[string]int64{"create_target_units": tTarget.Milliseconds(), "dial": tDial.Milliseconds(), "snapshots": tSnap.Milliseconds(), "command": tCmd.Milliseconds()}
	Must(cf.Write())
	Must(im.Write(c.Out))
}
