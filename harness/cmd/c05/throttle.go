package main

// Results of a mirrored unit asked while the local record is already final and the local copy of
// the output is still short.  On the submitting node the copy of a remote unit's output is only
// started once a record with a size has arrived, and over a slow link it takes seconds: a unit
// that prints a megabyte or two at once is, for all that time, Succeeded / Failed / Canceled with
// StdoutSize = the full size on the submitting node while its stdout file there holds a part of
// it.  `work results` asked then — from 0, from beyond the copy, from the middle of it, from just
// below its end — must deliver exactly stdout[p:] up to the RECORDED size and end only then.
//
// The link: the harness proxy, which lets the bytes from the remote node towards the submitting
// node pass at a fixed rate.  Three units one after the other, one per final state.

import (
	"bytes"
	"fmt"
	"os"
	"path/filepath"
	"sync"
	"time"

	. "verifharness/lib"
)

func (p *tcpProxy) SetRate(bytesPerSecond int64) {
	p.mu.Lock()
	p.rate = bytesPerSecond
	p.mu.Unlock()
}

type thrSample struct {
	T      time.Duration
	Exists bool
	Local  int64
	LinesA int
}

type thrReader struct {
	Moment   string
	P        int
	TAsk     time.Duration // taken before the request was sent
	Got      []byte
	Ended    bool
	Err      string
	TEnd     time.Duration
	AtLocal  int64 // local copy when asked
	EndLocal int64 // local copy right after the stream ended
	EndState int
	EndSize  int64
	ToModel  bool
}

func runThrottled(c *Ctx, sh *shared, dir string) {
	rep := func(extra map[string]interface{}) map[string]interface{} {
		m := map[string]interface{}{"scenario": "throttled"}
		for k, v := range extra {
			m[k] = v
		}
		return m
	}
	fail := func(what, sig string) { sh.violate(what, sig, rep(nil)) }
	dirA, dirB := filepath.Join(dir, "a"), filepath.Join(dir, "b")
	var b *Node
	portB := 0
	for try := 0; ; try++ { // a free port may have been taken by someone else by the time it is used
		portB = freePort()
		b = NewNode(c.Bin, "c05b-throttled", dirB, fmt.Sprintf("- tcp-listener:\n    port: %d\n", portB)+workCommandYAML(dirB))
		err := startNode(b)
		if err == nil {
			break
		}
		b.Kill()
		b.KillStrays()
		if try == 2 {
			fail("node B does not start: "+err.Error(), "harness-start")
			return
		}
	}
	defer func() { b.Stop(); b.KillStrays() }()
	px, err := newProxy(fmt.Sprintf("127.0.0.1:%d", portB))
	if err != nil {
		fail("proxy: "+err.Error(), "harness-start")
		return
	}
	defer px.Close()
	const rate = 400 * 1000
	px.SetRate(rate)
	a := NewNode(c.Bin, "c05a-throttled", dirA, fmt.Sprintf("- tcp-peer:\n    address: 127.0.0.1:%d\n", px.Port()))
	logA := filepath.Join(dirA, "status.log")
	a.Env = []string{"VERIF_STATUS_LOG=" + logA}
	if err := startNode(a); err != nil {
		fail("node A does not start: "+err.Error(), "harness-start")
		return
	}
	defer func() { a.Stop(); a.KillStrays() }()
	if !waitPing(a.Sock, b.ID, 90*time.Second) {
		fail("node A never reaches node B", "harness-mesh")
		return
	}
	type variant struct {
		name   string
		pl     plan
		cancel bool
	}
	variants := []variant{
		{"succeeded", plan{Name: "big-succeeded", Steps: []string{"w1500000"}}, false},
		{"failed", plan{Name: "big-failed", Steps: []string{"w800000", "x3"}}, false},
		{"canceled", plan{Name: "big-canceled", Steps: []string{"w1200000", "h"}}, true},
	}
	if os.Getenv("C05_THR") != "" { // development aid
		for _, v := range variants {
			if v.name == os.Getenv("C05_THR") {
				variants = []variant{v}
				break
			}
		}
	}
	runVariant := func(v variant, attempt int) bool {
		full := v.pl.size()
		want := pattern[:full]
		info := map[string]interface{}{"variant": v.name, "plan": v.pl, "rate_bytes_per_s": rate}
		unitA, _, err := Submit(a.Sock, map[string]interface{}{"node": b.ID, "worktype": "emit", "params": v.pl.params()}, nil, 30*time.Second)
		if err != nil || unitA == "" {
			sh.violate(fmt.Sprintf("remote submit failed: %v", err), "remote-submit", rep(info))
			return true
		}
		t0 := time.Now()
		fileA := filepath.Join(a.UnitDir(unitA), "stdout")
		localSize := func() (bool, int64) {
			fi, err := os.Stat(fileA)
			if err != nil {
				return false, 0
			}
			return true, fi.Size()
		}
		var mu sync.Mutex
		var readers []*thrReader
		var rwg sync.WaitGroup
		ask := func(moment string, p int, toModel bool) {
			_, at := localSize()
			r := &thrReader{Moment: moment, P: p, AtLocal: at, ToModel: toModel}
			mu.Lock()
			readers = append(readers, r)
			mu.Unlock()
			rwg.Add(1)
			go func() {
				defer rwg.Done()
				r.TAsk = time.Since(t0)
				got, ended, err := WorkResults(a.Sock, unitA, int64(p), 50*time.Second)
				r.TEnd = time.Since(t0)
				_, r.EndLocal = localSize()
				if st, serr := WorkStatus(a.Sock, unitA, 3*time.Second); serr == nil {
					r.EndState, r.EndSize = stateOf(st), sizeOf(st)
				}
				r.Got, r.Ended = got, ended
				if err != nil {
					r.Err = err.Error()
				}
			}()
		}
		ask("at-submission", 0, false)
		var samples []thrSample
		unitB := ""
		cancelled, sawFinalBehind, sawMid, converged := false, false, false, false
		var finalBehindLocal, midLocal int64
		var finalA map[string]interface{}
		var cancelErr error
		var cwg sync.WaitGroup
		deadline := t0.Add(60 * time.Second)
		for time.Now().Before(deadline) {
			ex, loc := localSize()
			samples = append(samples, thrSample{T: time.Since(t0), Exists: ex, Local: loc, LinesA: countLines(logA)})
			stA, errA := WorkStatus(a.Sock, unitA, 3*time.Second)
			if errA == nil && unitB == "" {
				if ed, ok := stA["ExtraData"].(map[string]interface{}); ok {
					unitB, _ = ed["RemoteUnitID"].(string)
				}
			}
			if v.cancel && !cancelled && unitB != "" {
				// once the remote command has printed everything (and hangs): cancel on the submitting node
				if stB, errB := WorkStatus(b.Sock, unitB, 3*time.Second); errB == nil && stateOf(stB) == 1 && sizeOf(stB) == int64(full) {
					cancelled = true
					cwg.Add(1)
					go func() {
						defer cwg.Done()
						_, cancelErr = OneShot(a.Sock, map[string]interface{}{"command": "work", "subcommand": "cancel", "unitid": unitA}, 40*time.Second)
					}()
				}
			}
			final := errA == nil && (stateOf(stA) == 2 || stateOf(stA) == 3 || stateOf(stA) == 4) && sizeOf(stA) == int64(full)
			_, loc = localSize()
			if os.Getenv("C05_DEBUG") != "" {
				fmt.Fprintf(os.Stderr, "throttled %s %8v local=%d state=%d size=%d err=%v\n", v.name, time.Since(t0).Round(time.Millisecond), loc, stateOf(stA), sizeOf(stA), errA)
			}
			switch {
			case final && !sawFinalBehind && loc < int64(full):
				// the moment the seeded faults of this kind need: record final, copy short
				sawFinalBehind, finalBehindLocal = true, loc
				ask("final-copy-behind", 0, v.name != "failed")
				ask("final-copy-behind", full/2, false)
				ask("final-copy-behind", full-1, false)
			case final && sawFinalBehind && !sawMid && loc >= int64(full)*3/10 && loc < int64(full)*8/10:
				sawMid, midLocal = true, loc
				ask("final-copy-midway", int(loc)/2, v.name == "succeeded")
				ask("final-copy-midway", int(loc)-1, v.name != "canceled")
				ask("final-copy-midway", int(loc), false)
			case final && loc >= int64(full):
				finalA, converged = stA, true
			}
			if converged {
				break
			}
			time.Sleep(20 * time.Millisecond)
		}
		cwg.Wait()
		rwg.Wait()
		la, _ := os.ReadFile(fileA)
		ex, loc := localSize()
		samples = append(samples, thrSample{T: time.Since(t0), Exists: ex, Local: loc, LinesA: countLines(logA)})
		linesA := unitLines(readStatusLog(logA), filepath.Join(a.UnitDir(unitA), "status"))
		info["final_behind_local"], info["midway_local"], info["transfer"] = finalBehindLocal, midLocal, time.Since(t0).Round(10*time.Millisecond).String()

		sh.mu.Lock()
		im := sh.im
		im.Evaluations += len(samples)
		im.Count(fmt.Sprintf("throttled/%s/%d", v.name, attempt), sawFinalBehind)
		im.Extra[fmt.Sprintf("throttled:%s:%d", v.name, attempt)] = map[string]interface{}{"record_final_while_copy_at": finalBehindLocal, "seen": sawFinalBehind, "midway_at": midLocal, "midway_seen": sawMid,
			"converged": converged, "wall": time.Since(t0).Round(100 * time.Millisecond).String(), "local_state": stateOf(finalA), "readers": len(readers)}
		switch {
		case sawFinalBehind && sawMid:
			im.Hist("remote-sample:final-record-copy-behind+midway")
		case sawFinalBehind:
			im.Hist("remote-sample:final-record-copy-behind")
		default:
			im.Hist("remote-sample:final-record-window-missed")
		}
		if v.cancel && cancelErr != nil {
			im.Violate("work cancel of the mirrored unit failed: "+cancelErr.Error(), "cancel-error", rep(info))
		}
		if !converged {
			im.Violate(fmt.Sprintf("local stdout (%d bytes) did not reach the %d bytes of the remote output within 60 s over a %d bytes/s link (local state %d)", len(la), full, rate, stateOf(finalA)), "mirror-not-converged", rep(info))
		} else if !bytes.Equal(la, want) {
			im.Violate(fmt.Sprintf("local stdout (%d bytes) differs from the remote output (%d bytes)", len(la), full), "mirror-differs", rep(info))
		}
		for _, r := range readers {
			ri := rep(info)
			ri["moment"], ri["p"], ri["got"], ri["ended"], ri["asked_at"], ri["ended_at"] = r.Moment, r.P, len(r.Got), r.Ended, r.TAsk.String(), r.TEnd.String()
			ri["local_copy_when_asked"], ri["local_copy_when_ended"], ri["record_when_ended"] = r.AtLocal, r.EndLocal, fmt.Sprintf("state %d size %d", r.EndState, r.EndSize)
			im.Count(fmt.Sprintf("throttled/%s/%d/%s/%d", v.name, attempt, r.Moment, r.P), r.AtLocal < int64(full))
			im.Hist("moment:" + r.Moment)
			wantP := want[r.P:]
			switch {
			case r.Err != "":
				im.Violate("work results of the mirrored unit failed: "+r.Err, "results-error", ri)
			case r.Ended && len(r.Got) < len(wantP) && bytes.HasPrefix(wantP, r.Got):
				im.Violate(fmt.Sprintf("work results %d of a mirrored unit (%s) ended after %d of the %d bytes from that offset on: when it ended the local record was state %d with output size %d and the local copy had %d bytes — the stream ended before the recorded size was reached",
					r.P, v.name, len(r.Got), len(wantP), r.EndState, r.EndSize, r.EndLocal), "results-ended-before-recorded-size", ri)
			case !bytes.Equal(r.Got, wantP) && !(!r.Ended && bytes.HasPrefix(wantP, r.Got)):
				im.Violate(fmt.Sprintf("work results %d of a mirrored unit (%s): %d bytes differing from stdout[%d:] (%d bytes)", r.P, v.name, len(r.Got), r.P, len(wantP)), "results-wrong-bytes", ri)
			case !r.Ended:
				im.Violate(fmt.Sprintf("work results %d of a mirrored unit (%s) still open after 50 s; %d of %d bytes received", r.P, v.name, len(r.Got), len(wantP)), "results-no-end", ri)
			}
		}
		sh.mu.Unlock()

		// the same sessions for the model: the history of the local copy and of the local record
		if converged && bytes.Equal(la, want) {
			for _, r := range readers {
				if !r.ToModel || r.Err != "" {
					continue
				}
				pre, post := mirroredWorld(samples, linesA, want, r.TAsk)
				sh.mu.Lock()
				sh.rc.Add(fmt.Sprintf("CR (RMCase %d %s %s %s %s)", r.P, CoqList(pre), CoqList(post), coqBytes(r.Got, r.P), CoqBool(r.Ended)),
					fmt.Sprintf("results of a mirrored unit over a %d bytes/s link: variant=%s moment=%s p=%d local-copy-when-asked=%d got=%d ended=%v", rate, v.name, r.Moment, r.P, r.AtLocal, len(r.Got), r.Ended))
				sh.mu.Unlock()
			}
		}
		return sawFinalBehind
	}
	for _, v := range variants {
		// the moment "record final, copy short" depends on the order in which the remote node's
		// answers arrive: a run that missed it is repeated once
		for attempt := 0; attempt < 2; attempt++ {
			if runVariant(v, attempt) {
				break
			}
		}
	}
}

// mirroredWorld writes what the submitting node saw of a mirrored unit as environment events of
// Model/Results.v: the records copied from the remote node (status-rewrite log of the submitting
// node; a rewrite that changes neither state nor size is left out) and the growth of the local
// copy (from the samples; coarsened — evaluating a megabyte history in Coq costs seconds per
// append: one append at the first final record, one at the moment of asking, one per quarter of
// the output, one at the end).  A sample reads the size of the copy first and the log afterwards.
// Split at tAsk: events of samples finished before the request was sent / the rest.
func mirroredWorld(samples []thrSample, linesA []statusLine, out []byte, tAsk time.Duration) (pre, post []string) {
	cur, created, li := 0, false, 0
	lastSt, lastSz, sawFinal := -1, int64(-1), false
	emit := func(t time.Duration, ev string) {
		if t < tAsk {
			pre = append(pre, ev)
		} else {
			post = append(post, ev)
		}
	}
	grow := func(t time.Duration, to int) {
		if to > len(out) {
			to = len(out)
		}
		if to > cur {
			emit(t, "EAppend "+coqBytes(out[cur:to], cur))
			cur = to
		}
	}
	status := func(t time.Duration, l statusLine) {
		if l.New.State == lastSt && l.New.StdoutSize == lastSz {
			return
		}
		lastSt, lastSz = l.New.State, l.New.StdoutSize
		emit(t, fmt.Sprintf("ESetStatus %d %d", l.New.State, l.New.StdoutSize))
	}
	quarter := len(out)/4 + 1
	for i, s := range samples {
		if s.Exists && !created {
			emit(s.T, "ECreate")
			created = true
		}
		firstFinal := false
		for j := li; j < len(linesA) && linesA[j].Index < s.LinesA; j++ {
			if !sawFinal && linesA[j].New.State >= 2 {
				firstFinal, sawFinal = true, true
			}
		}
		lastBefore := s.T < tAsk && (i+1 == len(samples) || samples[i+1].T >= tAsk)
		if firstFinal || lastBefore || int(s.Local)/quarter > cur/quarter || i+1 == len(samples) {
			grow(s.T, int(s.Local))
		}
		for li < len(linesA) && linesA[li].Index < s.LinesA {
			status(s.T, linesA[li])
			li++
		}
	}
	t := time.Duration(1 << 62)
	for ; li < len(linesA); li++ {
		status(t, linesA[li])
	}
	grow(t, len(out))
	return pre, post
}
