package main

// Direction-specific stalls: the proxy between the two daemons holds the bytes going from the
// remote node towards the submitting node for 300-900 ms at a time and then releases everything
// it holds in ONE write, again and again while several transfers run, so that the answer to a
// `work results` request (header line, and a quarter of a second later the first output) reaches
// the mirror in one piece.  Oracle as everywhere.

import (
	"bytes"
	"fmt"
	"net"
	"os"
	"path/filepath"
	"sync"
	"time"

	. "verifharness/lib"
)

// HoldFor makes the proxy keep the remote->local traffic back for d from now (whole messages,
// 2-byte length framed as the TCP backend sends them).  With lose they are dropped instead — a
// lossy link; not used by the scenarios: on the unchanged tree a transfer over a link that loses
// everything for most of the time can take longer than the observation window.
func (p *tcpProxy) HoldFor(d time.Duration, lose bool) {
	p.mu.Lock()
	p.holdUntil = time.Now().Add(d)
	p.lose = lose
	p.mu.Unlock()
}

func (p *tcpProxy) held() (bool, bool) {
	p.mu.Lock()
	defer p.mu.Unlock()
	return time.Now().Before(p.holdUntil), p.lose
}

// pipeHeld copies src -> dst message by message, keeping back or dropping while the proxy says so.
func (p *tcpProxy) pipeHeld(dst, src net.Conn) {
	var mu sync.Mutex
	var pending []byte
	done := make(chan struct{})
	flush := func() {
		mu.Lock()
		if len(pending) > 0 {
			_, _ = dst.Write(pending)
			p.mu.Lock()
			p.Flushes++
			p.mu.Unlock()
			pending = nil
		}
		mu.Unlock()
	}
	go func() {
		t := time.NewTicker(5 * time.Millisecond)
		defer t.Stop()
		for {
			select {
			case <-done:
				return
			case <-t.C:
				if h, _ := p.held(); !h {
					flush()
				}
			}
		}
	}()
	buf := make([]byte, 1<<16)
	var in []byte
	var total int64
	broken := false
	var next time.Time // pacing of a throttled link: the time the link is free again
	pace := func(n int) {
		p.mu.Lock()
		rate := p.rate
		p.mu.Unlock()
		if rate <= 0 {
			return
		}
		now := time.Now()
		if next.Before(now) {
			next = now
		}
		next = next.Add(time.Duration(n) * time.Second / time.Duration(rate))
		if d := next.Sub(now); d > 2*time.Millisecond {
			time.Sleep(d)
		}
	}
	for !broken {
		n, err := src.Read(buf)
		if n > 0 {
			total += int64(n)
			in = append(in, buf[:n]...)
			// whole messages only
			for len(in) >= 2 {
				l := int(in[0]) | int(in[1])<<8
				if len(in) < l+2 {
					break
				}
				msg := in[:l+2]
				h, lose := p.held()
				mu.Lock()
				switch {
				case h && lose:
					p.mu.Lock()
					p.Dropped++
					p.mu.Unlock()
					mu.Unlock()
				case h || len(pending) > 0:
					pending = append(pending, msg...)
					mu.Unlock()
				default:
					mu.Unlock()
					if _, werr := dst.Write(msg); werr != nil {
						broken = true
					}
					pace(len(msg))
				}
				in = in[l+2:]
			}
			in = append([]byte{}, in...)
		}
		if err != nil {
			break
		}
	}
	close(done)
	flush()
	p.mu.Lock()
	p.Carried += total
	delete(p.conns, src)
	delete(p.conns, dst)
	p.mu.Unlock()
	_ = dst.Close()
	_ = src.Close()
}

func runStalls(c *Ctx, sh *shared, dir string) {
	rep := map[string]interface{}{"scenario": "stalls"}
	fail := func(what, sig string) { sh.violate(what, sig, rep) }
	dirB := filepath.Join(dir, "b")
	portB := freePort()
	b := NewNode(c.Bin, "c05b-stalls", dirB, fmt.Sprintf("- tcp-listener:\n    port: %d\n", portB)+workCommandYAML(dirB))
	if err := startNode(b); err != nil {
		fail("node B does not start: "+err.Error(), "harness-start")
		return
	}
	defer func() { b.Stop(); b.KillStrays() }()
	px, err := newProxy(fmt.Sprintf("127.0.0.1:%d", portB))
	if err != nil {
		fail("proxy: "+err.Error(), "harness-start")
		return
	}
	defer px.Close()
	a := NewNode(c.Bin, "c05a-stalls", filepath.Join(dir, "a"), fmt.Sprintf("- tcp-peer:\n    address: 127.0.0.1:%d\n", px.Port()))
	if err := startNode(a); err != nil {
		fail("node A does not start: "+err.Error(), "harness-start")
		return
	}
	defer func() { a.Stop(); a.KillStrays() }()
	if !waitPing(a.Sock, b.ID, 90*time.Second) {
		fail("node A never reaches node B", "harness-mesh")
		return
	}
	// the stall schedule: its own PRNG stream, so that it does not depend on goroutine timing
	rng := NewRng(c.Seed*7919 + 17)
	stop := make(chan struct{})
	var stWG sync.WaitGroup
	stWG.Add(1)
	stalls := 0
	go func() {
		defer stWG.Done()
		for {
			select {
			case <-stop:
				return
			case <-time.After(time.Duration(40+rng.Intn(160)) * time.Millisecond):
			}
			d := time.Duration(300+rng.Intn(600)) * time.Millisecond
			px.HoldFor(d, false)
			stalls++
			select {
			case <-stop:
				return
			case <-time.After(d):
			}
		}
	}()
	nUnits := 4
	if c.Thorough() {
		nUnits = 12
	}
	pl := plan{Name: "stalled", Steps: []string{"w3000", "s1500", "w2000", "s1200", "w500"}}
	want := pattern[:pl.size()]
	type run struct {
		unitA, problem string
		local          []byte
		converged      bool
		samples        int
	}
	runs := make([]*run, nUnits)
	var wg sync.WaitGroup
	for i := range runs {
		runs[i] = &run{}
		wg.Add(1)
		go func(i int, r *run) {
			defer wg.Done()
			time.Sleep(time.Duration(i) * 700 * time.Millisecond)
			unitA, _, err := Submit(a.Sock, map[string]interface{}{"node": b.ID, "worktype": "emit", "params": pl.params()}, nil, 40*time.Second)
			if err != nil || unitA == "" {
				r.problem = fmt.Sprintf("remote submit failed: %v", err)
				return
			}
			r.unitA = unitA
			file := filepath.Join(a.UnitDir(unitA), "stdout")
			deadline := time.Now().Add(pl.sleeps() + 60*time.Second)
			for time.Now().Before(deadline) {
				bts, _ := os.ReadFile(file)
				r.local = bts
				r.samples++
				if !bytes.HasPrefix(want, bts) {
					r.problem = fmt.Sprintf("local stdout (%d bytes) is not a prefix of the remote output", len(bts))
					return
				}
				if len(bts) == len(want) {
					if st, err := WorkStatus(a.Sock, unitA, 3*time.Second); err == nil && stateOf(st) == 2 && sizeOf(st) == int64(len(want)) {
						r.converged = true
						return
					}
				}
				time.Sleep(50 * time.Millisecond)
			}
		}(i, runs[i])
	}
	wg.Wait()
	close(stop)
	stWG.Wait()
	px.HoldFor(0, false)
	sh.mu.Lock()
	sh.im.Extra["stalls"] = map[string]interface{}{"stalls": stalls, "flushes_in_one_write": px.Flushes, "messages_lost": px.Dropped, "units": nUnits}
	sh.mu.Unlock()
	for i, r := range runs {
		sh.mu.Lock()
		sh.im.Count(fmt.Sprintf("stalls/unit%d", i), true)
		sh.im.Hist("remote-sample:stalled-link")
		sh.im.Evaluations += r.samples
		switch {
		case r.unitA == "":
			sh.im.Violate(r.problem, "remote-submit", rep)
		case r.problem != "":
			sh.im.Violate(r.problem+" (the link from the remote node was being held back and released in one piece)", "mirror-not-prefix", rep)
		case !r.converged:
			sh.im.Violate(fmt.Sprintf("local stdout (%d bytes) did not become equal to the remote output (%d bytes) under a stalling link", len(r.local), len(want)), "mirror-not-converged", rep)
		}
		sh.mu.Unlock()
		if !r.converged {
			continue
		}
		for _, p := range []int{0, 3000, len(want)} {
			got, ended, err := WorkResults(a.Sock, r.unitA, int64(p), 20*time.Second)
			sh.mu.Lock()
			sh.im.Count(fmt.Sprintf("stalls/unit%d/results/%d", i, p), true)
			if err != nil || !ended || !bytes.Equal(got, want[p:]) {
				sh.im.Violate(fmt.Sprintf("results of the mirrored unit from %d: %d bytes (want %d), ended=%v err=%v", p, len(got), len(want)-p, ended, err), "results-wrong-bytes", rep)
			}
			sh.mu.Unlock()
		}
	}
}
