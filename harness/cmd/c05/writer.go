package main

// writer.go — the in-process producer: the real STDoutWriter (pkg/workceptor/stdio_utils.go) and
// the real status file, driven through histories of writes over a scripted file that accepts any
// part of a write, reports errors with or without progress, and with the status save failing at
// chosen writes (the unit directory is moved away for the duration of the call).
//
// Model-independent oracle (from the property: results end when everything RECORDED has been sent,
// so a recorded size ahead of the output is a stream that never ends; Size() is what the finishing
// status records): after every operation
//   - the bytes in the stdout file are the accepted prefixes, in order, nothing else
//   - Write returned the accepted count
//   - Size() == length of the stdout file
//   - StdoutSize in the status file <= length of the stdout file, == after a write whose save worked
// Every history is also replayed against Model/Writer.v (WCase).

import (
	"bytes"
	"errors"
	"fmt"
	"os"
	"path/filepath"

	"github.com/ansible/receptor/pkg/workceptor"

	. "verifharness/lib"
)

// scriptedFile is the file under the writer: the next Write accepts `accept` bytes (clamped to
// len(p), as io.Writer promises) and returns an error if `fail`.
type scriptedFile struct {
	f      *os.File
	accept int
	fail   bool
}

var errScripted = errors.New("scripted write error")

func (s *scriptedFile) Write(p []byte) (int, error) {
	n := s.accept
	if n > len(p) {
		n = len(p)
	}
	if n > 0 {
		if _, err := s.f.Write(p[:n]); err != nil {
			return 0, err
		}
	}
	if s.fail {
		return n, errScripted
	}
	return n, nil
}

func (s *scriptedFile) Close() error { return s.f.Close() }

type wOp struct {
	Kind   string `json:"kind"` // "write" | "status"
	P      []byte `json:"p,omitempty"`
	Accept int    `json:"accept,omitempty"`
	Fail   bool   `json:"fail,omitempty"`
	SaveOK bool   `json:"save_ok,omitempty"`
	State  int    `json:"state,omitempty"`
}

func (o wOp) coq() string {
	if o.Kind == "status" {
		return fmt.Sprintf("WStatus %d", o.State)
	}
	return fmt.Sprintf("WWrite %s %d %s %s", Hx(o.P), o.Accept, CoqBool(o.Fail), CoqBool(o.SaveOK))
}

func genWriterHistory(r *Rng, big bool) []wOp {
	n := r.Range(1, 10)
	var ops []wOp
	state := 0
	for i := 0; i < n; i++ {
		if r.Chance(15) && state < 2 {
			state = 1
			ops = append(ops, wOp{Kind: "status", State: 1})
			continue
		}
		var l int
		switch {
		case big && r.Chance(10):
			l = r.Range(60000, 70000)
		case r.Chance(10):
			l = 0
		default:
			l = r.Range(1, 40)
		}
		p := r.Bytes(l)
		o := wOp{Kind: "write", P: p, SaveOK: !r.Chance(12)}
		switch k := r.Intn(10); {
		case k < 5: // whole write
			o.Accept = l
		case k < 6: // whole write, file claims more than it was given room for
			o.Accept = l + r.Range(1, 5)
		case k < 8 && l > 0: // short write with the error io.Writer demands
			o.Accept, o.Fail = r.Intn(l), true
		case k < 9 && l > 0: // short write without an error (a sloppy writer)
			o.Accept = r.Intn(l)
		default: // everything written and an error all the same (O_SYNC failing after the data)
			o.Accept, o.Fail = l, true
		}
		ops = append(ops, o)
	}
	if r.Chance(70) {
		ops = append(ops, wOp{Kind: "status", State: []int{2, 3, 4}[r.Intn(3)]})
	}
	return ops
}

func runWriter(c *Ctx, sh *shared, dir string) {
	Must(os.MkdirAll(dir, 0o755))
	n := 120
	if c.Tier == "thorough" {
		n = 1200
	}
	hand := [][]wOp{
		// the shape of seeded C05-G: one short write, then the finishing status
		{{Kind: "write", P: []byte{1, 2, 3}, Accept: 1, Fail: true, SaveOK: true}, {Kind: "status", State: 2}},
		{{Kind: "write", P: []byte{1, 2, 3}, Accept: 0, Fail: true, SaveOK: true}, {Kind: "write", P: []byte{1, 2, 3}, Accept: 3, SaveOK: true}, {Kind: "status", State: 2}},
		{{Kind: "write", P: []byte{9}, Accept: 1, SaveOK: false}, {Kind: "write", P: []byte{8, 7}, Accept: 1, Fail: true, SaveOK: true}, {Kind: "status", State: 3}},
		{{Kind: "status", State: 2}},
	}
	var group []string
	rng := NewRng(c.Seed + 0x5717) // its own stream: the other scenarios draw from c.Rng concurrently
	for h := 0; h < n+len(hand); h++ {
		var ops []wOp
		if h < len(hand) {
			ops = hand[h]
		} else {
			ops = genWriterHistory(rng, h%7 == 0)
		}
		unitdir := filepath.Join(dir, fmt.Sprintf("u%d", h))
		away := unitdir + ".away"
		Must(os.MkdirAll(unitdir, 0o700))
		statusFile := filepath.Join(unitdir, "status")
		sfd := &workceptor.StatusFileData{}
		Must(sfd.UpdateBasicStatus(statusFile, 0, "", 0)) // BaseWorkUnit.Init + first save: (Pending, 0)
		sw, err := workceptor.NewStdoutWriter(workceptor.FileSystem{}, unitdir)
		Must(err)
		real, err := os.OpenFile(filepath.Join(unitdir, "stdout"), os.O_WRONLY|os.O_APPEND, 0o600)
		Must(err)
		sf := &scriptedFile{f: real}
		sw.SetWriter(sf)
		var want []byte
		var obs []string
		short, errs, nosave := false, false, false
		bad := func(what, sig string, i int) {
			sh.violate(fmt.Sprintf("in-process writer, history %d, after operation %d (%s): %s", h, i, ops[i].Kind, what), sig,
				map[string]interface{}{"scenario": "writer", "history": h, "ops": ops, "at": i})
		}
		for i, o := range ops {
			var rn int
			var rerr error
			savedOK := true
			if o.Kind == "status" {
				rerr = sfd.UpdateBasicStatus(statusFile, o.State, "d", sw.Size())
				if rerr != nil {
					bad("UpdateBasicStatus failed: "+rerr.Error(), "writer-status-error", i)
				}
				rerr = nil
			} else {
				sf.accept, sf.fail = o.Accept, o.Fail
				if !o.SaveOK {
					Must(os.Rename(unitdir, away))
				}
				rn, rerr = sw.Write(o.P)
				if !o.SaveOK {
					Must(os.Rename(away, unitdir))
				}
				acc := o.Accept
				if acc > len(o.P) {
					acc = len(o.P)
				}
				want = append(want, o.P[:acc]...)
				if rn != acc {
					bad(fmt.Sprintf("Write returned %d, the file accepted %d", rn, acc), "writer-count-differs", i)
				}
				if acc < len(o.P) {
					short = true
				}
				if o.Fail {
					errs = true
				}
				if !o.SaveOK && acc > 0 {
					nosave, savedOK = true, false
				}
				if o.Fail && rerr == nil {
					bad("the file's error was not returned", "writer-error-swallowed", i)
				}
			}
			got, _ := os.ReadFile(filepath.Join(unitdir, "stdout"))
			if !bytes.Equal(got, want) {
				bad("the stdout file is not the sequence of accepted prefixes", "writer-file-differs", i)
			}
			if sw.Size() != int64(len(got)) {
				bad(fmt.Sprintf("Size() = %d, the stdout file has %d bytes", sw.Size(), len(got)), "writer-size-not-file-length", i)
			}
			rec := &workceptor.StatusFileData{}
			if err := rec.Load(statusFile); err != nil {
				bad("status file unreadable: "+err.Error(), "writer-status-unreadable", i)
			}
			if rec.StdoutSize > int64(len(got)) {
				bad(fmt.Sprintf("recorded StdoutSize %d is ahead of the output (%d bytes): results of this unit can never end", rec.StdoutSize, len(got)), "writer-size-ahead-of-output", i)
			}
			if savedOK && (o.Kind == "status" || rn > 0) && rec.StdoutSize != int64(len(got)) {
				bad(fmt.Sprintf("recorded StdoutSize %d after a successful save, the output has %d bytes", rec.StdoutSize, len(got)), "writer-size-behind-after-save", i)
			}
			obs = append(obs, fmt.Sprintf("mkObs %d %s %d %d %d", rn, CoqBool(rerr != nil), sw.Size(), rec.StdoutSize, rec.State))
		}
		_ = sf.Close()
		var cops []string
		for _, o := range ops {
			cops = append(cops, o.coq())
		}
		final, _ := os.ReadFile(filepath.Join(unitdir, "stdout"))
		sh.mu.Lock()
		group = append(group, fmt.Sprintf("WCase %s %s %s", CoqList(cops), CoqList(obs), Hx(final)))
		if len(group) == 40 || h == n+len(hand)-1 {
			sh.rc.Add("CW "+CoqList(group), fmt.Sprintf("in-process writer histories %d..%d (seed %d)", h+1-len(group), h, c.Seed))
			group = nil
		}
		sh.im.Count(fmt.Sprintf("writer:%d:%d", h, len(ops)), short || errs || nosave)
		sh.im.Hist("writer:histories")
		if short {
			sh.im.Hist("writer:with-short-write")
		}
		if errs {
			sh.im.Hist("writer:with-write-error")
		}
		if nosave {
			sh.im.Hist("writer:with-failing-save")
		}
		sh.mu.Unlock()
		_ = os.RemoveAll(unitdir)
	}
}
