package main

// A scripted stand-in for the remote node: a real netceptor node inside the harness process
// (TCP listener backend) whose "control" service speaks the line protocol a remote work unit
// uses — greeting, work submit, work status, work results — and decides how the answer to
// `work results` is cut into writes: header line and first output bytes in ONE write, the header
// split in two writes at every position (its second part alone or together with the first output
// bytes), or header and output a quarter of a second apart as a real node does.  The submitting
// node is the real receptor binary.  Oracle as everywhere: the local stdout is at every look a
// prefix of the remote output and becomes equal to it; `work results` on the submitting node
// returns exactly the rest from any offset.  Every results stream is also a header case for
// Model/Mirror.v client_mirror (the writes of the stand-in, the bytes the mirror appended).

import (
	"bufio"
	"bytes"
	"context"
	"encoding/json"
	"fmt"
	"io"
	"net"
	"os"
	"path/filepath"
	"strconv"
	"strings"
	"sync"
	"time"

	. "verifharness/lib"

	"github.com/ansible/receptor/pkg/backends"
	"github.com/ansible/receptor/pkg/netceptor"
)

const standinSize = 4000

type siStream struct {
	Start  int
	Writes [][]byte
}

type siUnit struct {
	ID      string
	Mode    string
	Created time.Time
	mu      sync.Mutex
	Streams []*siStream
}

// visible: how much output the remote unit has produced, and whether it has finished
func (u *siUnit) visible() (int, bool) {
	switch d := time.Since(u.Created); {
	case d < 1200*time.Millisecond:
		return 1500, false
	case d < 2400*time.Millisecond:
		return 3000, false
	default:
		return standinSize, true
	}
}

type standin struct {
	id       string
	mu       sync.Mutex
	units    map[string]*siUnit
	n        int
	conns    int
	BadHello int // connections greeted with another node's name (connectToRemote must refuse and retry)
	Dropped  int // status connections closed in the middle of the polling (monitorRemoteStatus must reconnect)
	Gone     int // "unknown work unit" answers
}

func (s *standin) serve(conn net.Conn) {
	defer conn.Close()
	s.mu.Lock()
	s.conns++
	bad := s.conns%6 == 0
	if bad {
		s.BadHello++
	}
	s.mu.Unlock()
	if bad {
		_, _ = conn.Write([]byte("Receptor Control, node somebody-else\n"))
		time.Sleep(50 * time.Millisecond)
		return
	}
	_, _ = conn.Write([]byte(fmt.Sprintf("Receptor Control, node %s\n", s.id)))
	reader := bufio.NewReader(conn)
	statusReplies := 0
	for {
		line, err := reader.ReadString('\n')
		if err != nil {
			return
		}
		line = strings.TrimSpace(line)
		switch {
		case strings.HasPrefix(line, "work status "):
			s.mu.Lock()
			u := s.units[strings.TrimPrefix(line, "work status ")]
			s.mu.Unlock()
			if u == nil || (u.Mode == "gone" && time.Since(u.Created) > 1800*time.Millisecond) {
				s.mu.Lock()
				s.Gone++
				s.mu.Unlock()
				_, _ = conn.Write([]byte("ERROR: unknown work unit " + strings.TrimPrefix(line, "work status ") + "\n"))
				continue
			}
			statusReplies++
			if statusReplies%4 == 0 {
				s.mu.Lock()
				s.Dropped++
				s.mu.Unlock()
				return // the connection breaks before the answer
			}
			vis, fin := u.visible()
			st := map[string]interface{}{"State": 1, "Detail": "Running: PID 4242", "StdoutSize": vis, "WorkType": "emit", "ExtraData": nil}
			if fin {
				st["State"], st["Detail"] = 2, "exit status 0"
			}
			b, _ := json.Marshal(st)
			_, _ = conn.Write(append(b, '\n'))
		case strings.HasPrefix(line, "{"):
			cmd := map[string]interface{}{}
			if json.Unmarshal([]byte(line), &cmd) != nil {
				return
			}
			switch cmd["subcommand"] {
			case "submit":
				mode, _ := cmd["params"].(string)
				s.mu.Lock()
				s.n++
				u := &siUnit{ID: fmt.Sprintf("sTaNd%04d", s.n), Mode: mode, Created: time.Now()}
				s.units[u.ID] = u
				s.mu.Unlock()
				_, _ = conn.Write([]byte(fmt.Sprintf("Work unit created with ID %s. Send stdin data and EOF.\n", u.ID)))
				_, _ = io.Copy(io.Discard, reader)
				_, _ = conn.Write([]byte(fmt.Sprintf("{\"result\":\"Job Started\",\"unitid\":\"%s\"}\n", u.ID)))
				return
			case "results":
				id, _ := cmd["unitid"].(string)
				s.mu.Lock()
				u := s.units[id]
				s.mu.Unlock()
				if u == nil || (u.Mode == "gone" && time.Since(u.Created) > 1800*time.Millisecond) {
					_, _ = conn.Write([]byte("ERROR: unknown work unit\n"))
					return
				}
				pos, _ := cmd["startpos"].(float64)
				s.results(conn, u, int(pos))
				return
			default:
				return
			}
		default:
			return
		}
	}
}

// results answers one `work results` request, cutting header and first output as the unit's mode says.
func (s *standin) results(conn net.Conn, u *siUnit, pos int) {
	st := &siStream{Start: pos}
	u.mu.Lock()
	u.Streams = append(u.Streams, st)
	u.mu.Unlock()
	write := func(b []byte) bool {
		if len(b) == 0 {
			return true
		}
		u.mu.Lock()
		st.Writes = append(st.Writes, append([]byte{}, b...))
		u.mu.Unlock()
		_, err := conn.Write(b)
		return err == nil
	}
	header := []byte(fmt.Sprintf("Streaming results for work unit %s\n", u.ID))
	vis, _ := u.visible()
	sent := pos
	first := []byte{}
	if sent < vis {
		first = pattern[sent:vis]
	}
	switch {
	case u.Mode == "joined":
		if !write(append(append([]byte{}, header...), first...)) {
			return
		}
		sent += len(first)
	case strings.HasPrefix(u.Mode, "split"):
		k, _ := strconv.Atoi(strings.TrimPrefix(u.Mode, "split"))
		if k < 1 || k >= len(header) {
			k = len(header) / 2
		}
		if !write(header[:k]) {
			return
		}
		time.Sleep(60 * time.Millisecond)
		if k%2 == 1 { // the rest of the header together with the first output bytes
			if !write(append(append([]byte{}, header[k:]...), first...)) {
				return
			}
			sent += len(first)
		} else if !write(header[k:]) {
			return
		}
	default: // as a real node: the header, a quarter of a second, then the output
		if !write(header) {
			return
		}
		time.Sleep(250 * time.Millisecond)
	}
	for {
		vis, fin := u.visible()
		if sent < vis {
			if !write(pattern[sent:vis]) {
				return
			}
			sent = vis
		} else if fin {
			return
		}
		time.Sleep(50 * time.Millisecond)
	}
}

func standinModes(c *Ctx) []string {
	hl := len("Streaming results for work unit sTaNd0000\n")
	modes := []string{"joined", "joined", "plain", "gone"}
	if c.Thorough() {
		for k := 1; k < hl; k++ {
			modes = append(modes, fmt.Sprintf("split%d", k))
		}
		return modes
	}
	// quick: the ends, the middle, and a sample of the other positions, both parities
	for _, k := range []int{1, 2, hl / 2, hl/2 + 1, hl - 2, hl - 1, 9, 10, 23, 24, 33, 34} {
		modes = append(modes, fmt.Sprintf("split%d", k))
	}
	return modes
}

func runStandin(c *Ctx, sh *shared, dir string) {
	fail := func(what, sig string) { sh.violate(what, sig, map[string]interface{}{"scenario": "standin"}) }
	QuietLogs()
	ctx, cancel := context.WithCancel(context.Background())
	defer cancel()
	si := &standin{id: "c05standin", units: map[string]*siUnit{}}
	nb := netceptor.New(ctx, si.id)
	defer nb.Shutdown()
	// a free port may have been taken by someone else by the time it is used: try another
	port, listening := 0, false
	var lerr error
	for try := 0; try < 5 && !listening; try++ {
		port = freePort()
		bl, err := backends.NewTCPListener(fmt.Sprintf("127.0.0.1:%d", port), nil, nb.Logger)
		if err == nil {
			err = nb.AddBackend(bl)
		}
		listening, lerr = err == nil, err
	}
	if !listening {
		fail(fmt.Sprintf("stand-in node does not listen: %v", lerr), "harness-start")
		return
	}
	li, err := nb.ListenAndAdvertise("control", nil, nil)
	if err != nil {
		fail("stand-in control service: "+err.Error(), "harness-start")
		return
	}
	go func() {
		for {
			cn, err := li.Accept()
			if err != nil {
				return
			}
			go si.serve(cn)
		}
	}()
	dirA := filepath.Join(dir, "a")
	a := NewNode(c.Bin, "c05sa", dirA, fmt.Sprintf("- tcp-peer:\n    address: 127.0.0.1:%d\n", port))
	if err := startNode(a); err != nil {
		fail("node A does not start: "+err.Error(), "harness-start")
		return
	}
	defer func() { a.Stop(); a.KillStrays() }()
	if !waitPing(a.Sock, si.id, 90*time.Second) {
		fail("node A never reaches the stand-in node", "harness-mesh")
		return
	}
	modes := standinModes(c)
	type run struct {
		mode, unitA, unitB string
		converged          bool
		notPrefix          string
		local              []byte
		goneSize           int64
	}
	runs := make([]*run, len(modes))
	var wg sync.WaitGroup
	sem := make(chan struct{}, 16)
	for i, m := range modes {
		runs[i] = &run{mode: m}
		wg.Add(1)
		go func(r *run) {
			defer wg.Done()
			sem <- struct{}{}
			defer func() { <-sem }()
			unitA, _, err := Submit(a.Sock, map[string]interface{}{"node": si.id, "worktype": "emit", "params": r.mode}, nil, 30*time.Second)
			if err != nil || unitA == "" {
				r.notPrefix = fmt.Sprintf("remote submit failed: %v", err)
				return
			}
			r.unitA = unitA
			file := filepath.Join(a.UnitDir(unitA), "stdout")
			deadline := time.Now().Add(25 * time.Second)
			for time.Now().Before(deadline) {
				b, _ := os.ReadFile(file)
				r.local = b
				if !bytes.HasPrefix(pattern[:standinSize], b) {
					r.notPrefix = fmt.Sprintf("local stdout (%d bytes) is not a prefix of the remote output (mode %s)", len(b), r.mode)
					return
				}
				if r.mode == "gone" {
					// the remote unit disappears: the local unit must end Failed, keeping a prefix
					if st, err := WorkStatus(a.Sock, unitA, 3*time.Second); err == nil && stateOf(st) == 3 {
						r.converged = true
						r.goneSize = sizeOf(st)
						return
					}
				} else if len(b) == standinSize {
					if st, err := WorkStatus(a.Sock, unitA, 3*time.Second); err == nil && stateOf(st) == 2 && sizeOf(st) == standinSize {
						if ed, ok := st["ExtraData"].(map[string]interface{}); ok {
							r.unitB, _ = ed["RemoteUnitID"].(string)
						}
						r.converged = true
						return
					}
				}
				time.Sleep(50 * time.Millisecond)
			}
		}(runs[i])
	}
	wg.Wait()
	want := pattern[:standinSize]
	for _, r := range runs {
		rep := map[string]interface{}{"scenario": "standin", "mode": r.mode, "local_bytes": len(r.local)}
		sh.mu.Lock()
		sh.im.Count("standin/"+r.mode, true)
		sh.im.Hist("standin:" + strings.TrimRight(r.mode, "0123456789"))
		switch {
		case r.notPrefix != "" && r.unitA == "":
			sh.im.Violate(r.notPrefix, "remote-submit", rep)
		case r.notPrefix != "":
			sh.im.Violate(r.notPrefix+": the header line and the output arrived cut as "+r.mode, "mirror-not-prefix", rep)
		case !r.converged:
			sh.im.Violate(fmt.Sprintf("local stdout (%d bytes) did not become equal to the remote output (%d bytes) within 25 s (mode %s)", len(r.local), standinSize, r.mode), "mirror-not-converged", rep)
		}
		sh.mu.Unlock()
		if !r.converged {
			continue
		}
		if r.mode == "gone" {
			// what is left of a unit whose remote unit is gone: its record says Failed with the size
			// the remote last reported, its stdout holds what had been mirrored; asking for the results
			// yields that prefix (whether the stream then ends is recorded, not judged: the recorded
			// size can never be sent)
			got, ended, err := WorkResults(a.Sock, r.unitA, 0, 4*time.Second)
			b, _ := os.ReadFile(filepath.Join(a.UnitDir(r.unitA), "stdout"))
			sh.mu.Lock()
			sh.im.Extra["standin:gone"] = map[string]interface{}{"recorded_size": r.goneSize, "local_bytes": len(b), "results_bytes": len(got), "results_ended": ended, "err": fmt.Sprint(err)}
			if err == nil && !bytes.Equal(got, b) {
				sh.im.Violate(fmt.Sprintf("results of a unit whose remote unit is gone: %d bytes, local stdout holds %d", len(got), len(b)), "results-wrong-bytes", rep)
			}
			sh.mu.Unlock()
			continue
		}
		for _, p := range []int{0, 1, 1500, standinSize - 1, standinSize, standinSize + 1} {
			got, ended, err := WorkResults(a.Sock, r.unitA, int64(p), 20*time.Second)
			var w []byte
			if p < len(want) {
				w = want[p:]
			}
			sh.mu.Lock()
			sh.im.Count(fmt.Sprintf("standin/%s/results/%d", r.mode, p), true)
			switch {
			case err != nil:
				sh.im.Violate("work results of the mirrored unit failed: "+err.Error(), "results-error", rep)
			case !bytes.Equal(got, w):
				sh.im.Violate(fmt.Sprintf("results of the mirrored unit from %d: %d bytes, want %d", p, len(got), len(w)), "results-wrong-bytes", rep)
			case !ended:
				sh.im.Violate(fmt.Sprintf("results of the mirrored unit from %d did not end", p), "results-no-end", rep)
			}
			sh.mu.Unlock()
		}
	}
	// header cases: what the stand-in wrote on each stream, what the mirror appended
	si.mu.Lock()
	defer si.mu.Unlock()
	sh.mu.Lock()
	sh.im.Extra["standin:faults"] = map[string]interface{}{"connections": si.conns, "greeted_with_another_name": si.BadHello, "status_connections_dropped": si.Dropped, "unknown_unit_answers": si.Gone}
	sh.mu.Unlock()
	for _, r := range runs {
		u := si.units[r.unitB]
		if u == nil || !r.converged {
			continue
		}
		u.mu.Lock()
		for _, st := range u.Streams {
			n := -len(fmt.Sprintf("Streaming results for work unit %s\n", u.ID))
			var ws []string
			for _, w := range st.Writes {
				n += len(w)
				ws = append(ws, Hx(w))
			}
			if n < 0 || st.Start+n > len(r.local) || len(st.Writes) == 0 {
				continue
			}
			sh.mu.Lock()
			sh.rc.Add(fmt.Sprintf("CH (HCase %s %s)", CoqList(ws), coqBytes(r.local[st.Start:st.Start+n], st.Start)),
				fmt.Sprintf("header mode=%s stream from %d in %d writes, %d output bytes", r.mode, st.Start, len(st.Writes), n))
			sh.mu.Unlock()
		}
		u.mu.Unlock()
	}
}
