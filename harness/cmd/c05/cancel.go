package main

// Cancelled remote units: a command that prints continuously and prints a last burst when it is
// interrupted is run on the remote node and cancelled on the submitting node at a random moment,
// while output is flowing and part of it has not been mirrored yet.  Oracle as everywhere, for
// the final state Canceled as for any other: the local stdout is always a prefix of the remote
// stdout and becomes equal to it, the local record carries the remote's final size, and
// `work results` on the submitting node returns exactly the rest from any offset and ENDS.

import (
	"bytes"
	"fmt"
	"os"
	"path/filepath"
	"sync"
	"time"

	. "verifharness/lib"
)

func runCancels(c *Ctx, sh *shared, dir string) {
	rep := func(extra map[string]interface{}) map[string]interface{} {
		m := map[string]interface{}{"scenario": "cancels"}
		for k, v := range extra {
			m[k] = v
		}
		return m
	}
	fail := func(what, sig string) { sh.violate(what, sig, rep(nil)) }
	dirA, dirB := filepath.Join(dir, "a"), filepath.Join(dir, "b")
	portB := freePort()
	b := NewNode(c.Bin, "c05b-cancels", dirB, fmt.Sprintf("- tcp-listener:\n    port: %d\n", portB)+workCommandYAML(dirB))
	logA, logB := filepath.Join(dirA, "status.log"), filepath.Join(dirB, "status.log")
	b.Env = []string{"VERIF_STATUS_LOG=" + logB}
	if err := startNode(b); err != nil {
		fail("node B does not start: "+err.Error(), "harness-start")
		return
	}
	defer func() { b.Stop(); b.KillStrays() }()
	a := NewNode(c.Bin, "c05a-cancels", dirA, fmt.Sprintf("- tcp-peer:\n    address: 127.0.0.1:%d\n", portB))
	a.Env = []string{"VERIF_STATUS_LOG=" + logA}
	if err := startNode(a); err != nil {
		fail("node A does not start: "+err.Error(), "harness-start")
		return
	}
	defer func() { a.Stop(); a.KillStrays() }()
	if !waitPing(a.Sock, b.ID, 90*time.Second) {
		fail("node A never reaches node B", "harness-mesh")
		return
	}
	rng := NewRng(c.Seed*104729 + 5)
	n := 4
	if c.Thorough() {
		n = 12
	}
	delays := make([]time.Duration, n)
	for i := range delays {
		delays[i] = time.Duration(900+rng.Intn(2400)) * time.Millisecond // after the submit was answered: output is flowing
	}
	pl := plan{Name: "talker", Steps: []string{"w300", "t"}}
	type run struct {
		unitA, unitB, problem, sig string
		local, remote              []byte
		final                      map[string]interface{}
		converged                  bool
		samples                    int
	}
	runs := make([]*run, n)
	var wg sync.WaitGroup
	for i := range runs {
		runs[i] = &run{}
		wg.Add(1)
		go func(i int, r *run) {
			defer wg.Done()
			unitA, _, err := Submit(a.Sock, map[string]interface{}{"node": b.ID, "worktype": "emit", "params": pl.params()}, nil, 30*time.Second)
			if err != nil || unitA == "" {
				r.problem, r.sig = fmt.Sprintf("remote submit failed: %v", err), "remote-submit"
				return
			}
			r.unitA = unitA
			tCancel := time.Now().Add(delays[i])
			fileA := filepath.Join(a.UnitDir(unitA), "stdout")
			cancelled := false
			var deadline time.Time
			look := func() bool {
				la, _ := os.ReadFile(fileA)
				var rb []byte
				if r.unitB != "" {
					rb, _ = os.ReadFile(filepath.Join(b.UnitDir(r.unitB), "stdout")) // after the local file: it only grows
				}
				r.local, r.remote = la, rb
				r.samples++
				if r.unitB != "" && !bytes.HasPrefix(rb, la) {
					r.problem, r.sig = fmt.Sprintf("local stdout (%d bytes) is not a prefix of the remote stdout (%d bytes) of a unit being cancelled", len(la), len(rb)), "mirror-not-prefix"
					return false
				}
				return true
			}
			for {
				if r.unitB == "" {
					if st, err := WorkStatus(a.Sock, unitA, 3*time.Second); err == nil {
						if ed, ok := st["ExtraData"].(map[string]interface{}); ok {
							r.unitB, _ = ed["RemoteUnitID"].(string)
						}
					}
				}
				if !look() {
					return
				}
				if !cancelled && time.Now().After(tCancel) && r.unitB != "" {
					if _, err := OneShot(a.Sock, map[string]interface{}{"command": "work", "subcommand": "cancel", "unitid": unitA}, 20*time.Second); err != nil {
						r.problem, r.sig = "work cancel failed: "+err.Error(), "cancel-error"
						return
					}
					cancelled = true
					deadline = time.Now().Add(25 * time.Second)
				}
				if cancelled {
					stA, errA := WorkStatus(a.Sock, unitA, 3*time.Second)
					stB, errB := WorkStatus(b.Sock, r.unitB, 3*time.Second)
					if errA == nil && errB == nil && stateOf(stB) == 4 && stateOf(stA) == 4 &&
						int64(len(r.remote)) == sizeOf(stB) && bytes.Equal(r.local, r.remote) && sizeOf(stA) == sizeOf(stB) {
						r.final, r.converged = stA, true
						return
					}
					if time.Now().After(deadline) {
						r.final = stA
						return
					}
				}
				time.Sleep(50 * time.Millisecond)
			}
		}(i, runs[i])
	}
	wg.Wait()
	if d := os.Getenv("C05_DEBUGDIR"); d != "" {
		_ = os.WriteFile(filepath.Join(d, "logA"), []byte(a.Log()), 0o644)
		_ = os.WriteFile(filepath.Join(d, "logB"), []byte(b.Log()), 0o644)
		x, _ := os.ReadFile(logA)
		_ = os.WriteFile(filepath.Join(d, "statusA"), x, 0o644)
		x, _ = os.ReadFile(logB)
		_ = os.WriteFile(filepath.Join(d, "statusB"), x, 0o644)
		for i, r := range runs {
			_ = os.WriteFile(filepath.Join(d, fmt.Sprintf("unit%d", i)), []byte(r.unitA+" "+r.unitB), 0o644)
		}
	}
	allA, allB := readStatusLog(logA), readStatusLog(logB)
	for i, r := range runs {
		info := rep(map[string]interface{}{"cancel_after_ms": delays[i].Milliseconds(), "local_bytes": len(r.local), "remote_bytes": len(r.remote), "local_state": stateOf(r.final), "local_size": sizeOf(r.final)})
		sh.mu.Lock()
		sh.im.Count(fmt.Sprintf("cancels/unit%d", i), true)
		sh.im.Hist("remote-sample:cancelled-unit")
		sh.im.Evaluations += r.samples
		switch {
		case r.problem != "":
			sh.im.Violate(r.problem, r.sig, info)
		case !r.converged:
			sh.im.Violate(fmt.Sprintf("cancelled remote unit: local stdout (%d bytes) did not become equal to the remote stdout (%d bytes) within 25 s of the cancel (local record: state %d, size %d)",
				len(r.local), len(r.remote), stateOf(r.final), sizeOf(r.final)), "mirror-not-converged", info)
		}
		sh.mu.Unlock()
		if r.problem != "" || r.unitB == "" {
			continue
		}
		// `work results` of the cancelled unit on the submitting node: exactly the rest, and it ends
		want := r.remote
		for _, p := range []int{0, len(want) / 2, len(want)} {
			got, ended, err := WorkResults(a.Sock, r.unitA, int64(p), 20*time.Second)
			sh.mu.Lock()
			sh.im.Count(fmt.Sprintf("cancels/unit%d/results/%d", i, p), true)
			switch {
			case err != nil:
				sh.im.Violate("work results of the cancelled mirrored unit failed: "+err.Error(), "results-error", info)
			case !ended:
				sh.im.Violate(fmt.Sprintf("results of the cancelled mirrored unit from %d did not end (%d of %d bytes received)", p, len(got), len(want)-p), "results-no-end", info)
			case !bytes.Equal(got, want[p:]):
				sh.im.Violate(fmt.Sprintf("results of the cancelled mirrored unit from %d: %d bytes, want %d", p, len(got), len(want)-p), "results-wrong-bytes", info)
			}
			sh.mu.Unlock()
		}
		// the same history for the model
		if r.converged {
			linesB := unitLines(allB, filepath.Join(b.UnitDir(r.unitB), "status"))
			linesA := unitLines(allA, filepath.Join(a.UnitDir(r.unitA), "status"))
			tr := mirrorTrace(linesA, linesB, b.Cmd.Process.Pid, r.remote, nil, nil)
			sh.mu.Lock()
			sh.rc.Add(fmt.Sprintf("CM (MCase %s %s true)", CoqList(tr), coqBytes(r.local, 0)),
				fmt.Sprintf("mirror of a cancelled unit: cancel %v after submit, local=%d remote=%d", delays[i], len(r.local), len(r.remote)))
			sh.mu.Unlock()
		}
	}
}
