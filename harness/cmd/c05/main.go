package main

// C05 — work results stream exactly the output from any offset and end when complete; the local
// copy of a remote unit's output is a prefix of the remote output and becomes equal to it.
//
// Process level: the real receptor binary (ctx.Bin) runs a work type whose command is a bash
// script that emits a scripted sequence of writes and pauses of a fixed byte pattern.
//   local.go   one node; for every plan, `work results <unit> <p>` asked before / while / after
//              the unit runs; bytes compared with stdout[p:], end of stream with completion;
//              every observation also written as a Coq case for Model/Results.v
//   remote.go  two (thorough: three) nodes joined through a harness TCP proxy that cuts and heals
//              the link; local and remote stdout sampled for the prefix relation; Coq cases for
//              Model/Mirror.v
//   stall.go, standin.go, cancel.go   the link holding bytes back, a scripted remote node,
//              cancelled remote units
//   long.go    one results stream open for 70 s beside everything else (unix socket and TCP)
//   listeners.go  the same stream over every other kind of control-service listener (TCP with
//              TLS, with client certificates, netceptor services plain and with TLS)
//   throttle.go  a slow link: `work results` on the submitting node while its record of the remote
//              unit is final and its copy of the output is short; Coq cases (RMCase) for
//              Model/Results.v under the mirrored-world contract

import (
	"bufio"
	"bytes"
	"encoding/json"
	"fmt"
	"os"
	"path/filepath"
	"strconv"
	"strings"
	"sync"
	"time"

	. "verifharness/lib"
)

func main() { Main("C05", runC05, nil) }

// ---------- the pattern and the emitting script ----------

const maxPattern = 1 << 21

// patByte mirrors Model/Results.v pat_byte.
func patByte(i int) byte { return byte((7*i + i/251) % 256) }

var pattern = func() []byte {
	b := make([]byte, maxPattern)
	for i := range b {
		b[i] = patByte(i)
	}
	return b
}()

const emitScript = `#!/bin/bash
# usage: emit.sh <pattern-file> <step>...   w<N> write the next N pattern bytes, s<MS> sleep,
# x<CODE> exit with CODE, h hang until interrupted, t talk: 64 bytes every 50 ms until interrupted,
# then a last burst of 700 bytes
pat=$1; shift
off=0
# a talker handles the interrupt from its first moment on: the last burst, then exit (bash runs
# the handler when the pipeline in progress has finished, so nothing is written after the exit)
case " $* " in *" t "*) trap 'tail -c +$((off+1)) "$pat" | head -c 700; exit 130' INT TERM;; esac
for st in "$@"; do
  case $st in
    w*) n=${st#w}; tail -c +$((off+1)) "$pat" | head -c "$n"; off=$((off+n));;
    s*) ms=${st#s}; sleep $(printf '%d.%03d' $((ms/1000)) $((ms%1000)));;
    x*) exit ${st#x};;
    h) trap 'exit 130' INT TERM; while :; do sleep 0.05; done;;
    t) while :; do tail -c +$((off+1)) "$pat" | head -c 64; off=$((off+64)); sleep 0.05; done;;
  esac
done
exit 0
`

// workCommandYAML returns the work-command entry and writes script + pattern file into dir.
func workCommandYAML(dir string) string {
	_ = os.MkdirAll(dir, 0o755)
	script, pat := filepath.Join(dir, "emit.sh"), filepath.Join(dir, "pattern.bin")
	Must(os.WriteFile(script, []byte(emitScript), 0o755))
	Must(os.WriteFile(pat, pattern, 0o644))
	return fmt.Sprintf("- work-command:\n    worktype: emit\n    command: bash\n    params: \"%s %s\"\n    allowruntimeparams: true\n", script, pat)
}

// plan is one scripted producer.
type plan struct {
	Name   string   `json:"name"`
	Steps  []string `json:"steps"`
	Cancel bool     `json:"cancel,omitempty"` // the unit hangs after its output and is cancelled
}

func (p plan) params() string { return strings.Join(p.Steps, " ") }

func (p plan) size() int {
	n := 0
	for _, s := range p.Steps {
		if s[0] == 'w' {
			v, _ := strconv.Atoi(s[1:])
			n += v
		}
	}
	return n
}

func (p plan) sleeps() time.Duration {
	var d time.Duration
	for _, s := range p.Steps {
		if s[0] == 's' {
			v, _ := strconv.Atoi(s[1:])
			d += time.Duration(v) * time.Millisecond
		}
	}
	return d
}

// boundaries are the cumulative sizes after each write.
func (p plan) boundaries() []int {
	var out []int
	n := 0
	for _, s := range p.Steps {
		if s[0] == 'w' {
			v, _ := strconv.Atoi(s[1:])
			n += v
			out = append(out, n)
		}
	}
	return out
}

func (p plan) exitCode() int {
	for _, s := range p.Steps {
		if s[0] == 'x' {
			v, _ := strconv.Atoi(s[1:])
			return v
		}
	}
	return 0
}

// ---------- the status-rewrite log (VERIF_STATUS_LOG) ----------

type statusSnap struct {
	State      int
	StdoutSize int64
	WorkType   string
	Detail     string
}

type statusLine struct {
	Index int        // line number in the log file
	Pid   int        `json:"pid"`
	File  string     `json:"file"`
	Empty bool       `json:"empty"`
	Old   statusSnap `json:"old"`
	New   statusSnap `json:"new"`
}

func readStatusLog(path string) []statusLine {
	f, err := os.Open(path)
	if err != nil {
		return nil
	}
	defer f.Close()
	var out []statusLine
	sc := bufio.NewScanner(f)
	sc.Buffer(make([]byte, 1<<20), 1<<20)
	i := 0
	for sc.Scan() {
		var l statusLine
		if json.Unmarshal(sc.Bytes(), &l) == nil {
			l.Index = i
			out = append(out, l)
		}
		i++
	}
	return out
}

// countLines counts complete lines of a file (cheap: the logs stay small).
func countLines(path string) int {
	b, err := os.ReadFile(path)
	if err != nil {
		return 0
	}
	return bytes.Count(b, []byte{'\n'})
}

// ---------- Coq printing of pattern bytes ----------

// coqBytes prints b, which is expected to sit at offset off of the pattern, compactly.
func coqBytes(b []byte, off int) string {
	if len(b) == 0 {
		return "[]"
	}
	if off >= 0 && off+len(b) <= len(pattern) && bytes.Equal(b, pattern[off:off+len(b)]) {
		return fmt.Sprintf("(patc %d %d)", off, len(b))
	}
	return Hx(b)
}

// envTrace turns the status lines of one unit and its final stdout into environment events of
// Model/Results.v.  Lines written by another process after the daemon recorded Canceled are left
// out: Cancel() stops MonitorLocalStatus, so the daemon's in-memory status — what GetResults
// consults — no longer follows the file.  Returns the events of the lines with Index < split
// and of the others, and whether stdout had bytes beyond the last recorded size.
func envTrace(lines []statusLine, daemonPid int, out []byte, stdoutExists bool, split int, wrap func(string) string) (pre, post []string, trailing bool) {
	cur, created, canceled := 0, false, false
	emit := func(idx int, ev string) {
		if wrap != nil {
			ev = wrap(ev)
		}
		if idx < split {
			pre = append(pre, ev)
		} else {
			post = append(post, ev)
		}
	}
	for _, l := range lines {
		if canceled && l.Pid != daemonPid {
			continue
		}
		if !created && stdoutExists && l.New.State >= 1 {
			emit(l.Index, "ECreate")
			created = true
		}
		sz := int(l.New.StdoutSize)
		if sz > cur && sz <= len(out) {
			if !created {
				emit(l.Index, "ECreate")
				created = true
			}
			emit(l.Index, "EAppend "+coqBytes(out[cur:sz], cur))
			cur = sz
		}
		emit(l.Index, fmt.Sprintf("ESetStatus %d %d", l.New.State, l.New.StdoutSize))
		if l.Pid == daemonPid && l.New.State == 4 {
			canceled = true
		}
	}
	if cur < len(out) {
		trailing = true
		emit(1<<30, "EAppend "+coqBytes(out[cur:], cur))
	}
	return pre, post, trailing
}

// ---------- run ----------

type shared struct {
	mu sync.Mutex
	im *Impl
	rc *CaseFile // Model/Results.v cases
}

func (s *shared) violate(what, sig string, replay interface{}) {
	s.mu.Lock()
	s.im.Violate(what, sig, replay)
	s.mu.Unlock()
}

func runC05(c *Ctx) {
	im := NewImpl("C05", c.Seed, c.Tier)
	im.Rule = "local: one scripted producer (bash script emitting writes and pauses of a byte pattern: empty output, 1 byte, 64 KiB multiples and straddles, output after a pause, pause before exit, failing exit, cancelled, random plans from the seed) per unit; one observation = one `work results <unit> <p>` session asked before / while / after the unit runs with p in {0, 1, write boundaries and their neighbours, size, size+1}; non-trivial = the unit has output and (the session overlaps the run or p > 0). remote: one transfer through a TCP proxy that cuts and heals the link, one observation = one 50 ms sample of (local stdout, remote stdout), non-trivial = local non-empty and shorter than remote; plus transfers over a link that holds the remote node's bytes for 300-900 ms and releases them in one write (several units, stalls repeated throughout) and transfers from a scripted stand-in remote node that writes the results header and the first output in one write or splits the header at a position (quick: a sample of positions, thorough: every position), one observation = one 50 ms look at the local stdout or one `work results` session on the mirrored unit; plus three units (Succeeded, Failed, Canceled; 0.8-1.5 MB printed at once) over a link of a few hundred KB/s, where the record on the submitting node is final with the full size while the local copy is short, one observation = one `work results` session asked at submission / at the moment the record turned final / with the copy 30-80 % complete, from 0, from beyond the copy, from its middle, its last byte and its end, non-trivial = the copy was short when asked; plus one unit writing a line every second for 64 s (thorough: 130 s) followed from offset 0 from its submission over the unix socket and over a TCP control service, beside everything else, and over every other kind of control-service listener of the same daemon: TCP with TLS (tls-server + tcptls, certificates made with the binary's --cert-init/--cert-makereq/--cert-signreq; a TLS 1.2 and a TLS 1.3 client, a listener requiring client certificates; two more TLS sessions opened at submission that ask after 12 s and 25 s of silence) and netceptor services (plain and with a tls-server/tls-client pair, reached through `connect <node> <service> [tls]` on the unix socket), one observation = one session, a stream broken off by anything but the harness's own patience before the full output arrived counts as ended early; distinct by (plan, moment, p) / sample content / (mode, offset); plus the in-process producer (white box): the real STDoutWriter and status file over a scripted file, one observation = one history of 1-11 operations (writes of 0-40 bytes, some of 60-70 KB, the file accepting all, more than offered, a strict part with or without an error, or all with an error; the status save failing at 12 % of the writes; status changes; a finishing status), non-trivial = the history has a short write, a write error or a failing save"
	if c.Bin == "" {
		fmt.Fprintln(os.Stderr, "C05 needs the receptor binary (VERIF_BIN)")
		os.Exit(3)
	}
	tmp, err := os.MkdirTemp("", "vh-c05-")
	Must(err)
	defer os.RemoveAll(tmp)
	sh := &shared{im: im,
		rc: &CaseFile{Dir: c.Out, Prop: "C05", Imports: []string{"Model.Results", "Model.Mirror"}, CaseType: "c05_case", CheckFn: "c05_check", PerShard: 12}}
	var wg sync.WaitGroup
	only := os.Getenv("C05_ONLY") // development aid: "local", "remote" or "long"
	// the long-lived stream: started first, joined last
	var lwg sync.WaitGroup
	if only == "" || only == "long" {
		lwg.Add(1)
		go func() {
			defer lwg.Done()
			t0 := time.Now()
			guarded(sh, "long-stream", func(s *shared, again string) { runLong(c, s, filepath.Join(tmp, "long"+again)) })
			sh.mu.Lock()
			sh.im.Extra["wall:long-stream"] = time.Since(t0).Round(100 * time.Millisecond).String()
			sh.mu.Unlock()
		}()
	}
	// the in-process producer (white box, a second or two): before anything else
	if only == "" || only == "writer" {
		runWriter(c, sh, filepath.Join(tmp, "writer"))
	}
	if only == "writer" {
		Must(sh.rc.Write())
		Must(im.Write(c.Out))
		return
	}
	wg.Add(2)
	go func() {
		defer wg.Done()
		if only != "remote" && only != "long" {
			t0 := time.Now()
			guarded(sh, "local", func(s *shared, again string) { runLocal(c, s, filepath.Join(tmp, "local"+again)) })
			sh.mu.Lock()
			sh.im.Extra["wall:local"] = time.Since(t0).Round(100 * time.Millisecond).String()
			sh.mu.Unlock()
		}
	}()
	go func() {
		defer wg.Done()
		if only != "local" && only != "long" {
			runRemote(c, sh, filepath.Join(tmp, "remote"))
		}
	}()
	wg.Wait()
	lwg.Wait()
	spreadHeavy(sh.rc)
	Must(sh.rc.Write())
	Must(im.Write(c.Out))
}

// spreadHeavy reorders the cases so that the megabyte histories (sessions on mirrored units over a
// slow link, seconds each in Coq) open different shards: the shards are evaluated in parallel.
func spreadHeavy(cf *CaseFile) {
	per := cf.PerShard
	var heavy, light []int
	for i, t := range cf.Cases {
		if strings.HasPrefix(t, "CR (RMCase") {
			heavy = append(heavy, i)
		} else {
			light = append(light, i)
		}
	}
	if len(heavy) == 0 || per <= 1 {
		return
	}
	var order []int
	for len(heavy) > 0 || len(light) > 0 {
		if len(heavy) > 0 {
			order = append(order, heavy[0])
			heavy = heavy[1:]
		}
		n := per - 1
		if len(heavy) == 0 && len(order)%per == 0 {
			n = per
		}
		if n > len(light) {
			n = len(light)
		}
		order = append(order, light[:n]...)
		light = light[n:]
		if len(light) == 0 && len(heavy) > 0 {
			// no light cases left: the remaining heavy ones follow, padded by nothing
			order = append(order, heavy...)
			heavy = nil
		}
	}
	cases, labels := make([]string, len(order)), make([]string, len(order))
	for k, i := range order {
		cases[k], labels[k] = cf.Cases[i], cf.Labels[i]
	}
	cf.Cases, cf.Labels = cases, labels
}
