package main

// One long-lived results stream, running beside everything else (started first, joined last): a
// unit that writes a line every second for more than a minute, followed from offset 0 from the moment it
// was submitted, once over the unix control socket, once over a TCP control service and once over
// every other kind of control-service listener (listeners.go: TCP with TLS, netceptor services).  A
// stream is not bounded by anything but the unit: it must end only when the unit has finished,
// with exactly the full output — not after some fixed time the server allows a command.

import (
	"bytes"
	"fmt"
	"os"
	"path/filepath"
	"sync"
	"time"

	. "verifharness/lib"
)

func runLong(c *Ctx, sh *shared, dir string) {
	rep := map[string]interface{}{"scenario": "long-stream"}
	fail := func(what, sig string) { sh.violate(what, sig, rep) }
	var n *Node
	tcpPort := 0
	statusLog := filepath.Join(dir, "status.log")
	var more []*longSession // listeners.go: every other kind of control-service listener
	for try := 0; ; try++ { // a free port may have been taken by someone else by the time it is used
		tcpPort = freePort()
		n = NewNode(c.Bin, "c05long", dir, "")
		moreYAML, ms, kerr := listenerKinds(c.Bin, dir, n.ID, n.Sock)
		if kerr != nil {
			fail("certificates for the TLS control services: "+kerr.Error(), "harness-start")
			return
		}
		more = ms
		n.Extra = workCommandYAML(dir) + fmt.Sprintf("- control-service:\n    service: ctltcp\n    tcplisten: 127.0.0.1:%d\n", tcpPort) + moreYAML
		n.Env = []string{"VERIF_STATUS_LOG=" + statusLog}
		err := startNode(n)
		if err == nil {
			break
		}
		n.Kill()
		n.KillStrays()
		if try == 2 {
			fail("node does not start: "+err.Error(), "harness-start")
			return
		}
	}
	defer func() { n.Stop(); n.KillStrays() }()
	seconds := 64
	if c.Thorough() {
		seconds = 130
	}
	pl := plan{Name: "long-talker"}
	for i := 0; i < seconds; i++ {
		pl.Steps = append(pl.Steps, "w40", "s1000")
	}
	pl.Steps = append(pl.Steps, "w7")
	want := pattern[:pl.size()]
	rep["plan"] = fmt.Sprintf("%d x (w40 s1000) w7", seconds)
	var unit string
	var err error
	for try := 0; try < 100; try++ { // the control socket answers before the work types are registered
		unit, _, err = Submit(n.Sock, map[string]interface{}{"node": "localhost", "worktype": "emit", "params": pl.params()}, nil, 20*time.Second)
		if err == nil && unit != "" {
			break
		}
		time.Sleep(100 * time.Millisecond)
	}
	if err != nil || unit == "" {
		fail(fmt.Sprintf("submit failed: %v", err), "harness-submit")
		return
	}
	t0 := time.Now()
	askLines := countLines(statusLog)
	plainSession := func(via, addr string) *longSession {
		return &longSession{via: via, fetch: func(unit string, timeout time.Duration) ([]byte, bool, string, error) {
			got, ended, err := WorkResults(addr, unit, 0, timeout)
			return got, ended, "", err
		}}
	}
	sessions := append([]*longSession{plainSession("unix socket", n.Sock), plainSession("tcp", fmt.Sprintf("tcp:127.0.0.1:%d", tcpPort))}, more...)
	var wg sync.WaitGroup
	for _, s := range sessions {
		wg.Add(1)
		go func(s *longSession) {
			defer wg.Done()
			s.got, s.ended, s.broke, s.err = s.fetch(unit, time.Duration(3*seconds+120)*time.Second) // patience only: on a loaded machine a unit of N one-second steps takes much longer than N s
			s.tEnd = time.Since(t0)
		}(s)
	}
	final, _ := WaitState(n.Sock, unit, []int{2, 3, 4}, time.Duration(3*seconds+100)*time.Second)
	tFinal := time.Since(t0)
	wg.Wait()
	out, _ := os.ReadFile(filepath.Join(n.UnitDir(unit), "stdout"))
	sh.mu.Lock()
	im := sh.im
	if stateOf(final) != 2 || !bytes.Equal(out, want) {
		im.Violate(fmt.Sprintf("the long unit ended in state %d with %d of %d bytes of output", stateOf(final), len(out), len(want)), "stdout-content", rep)
	}
	im.Extra["long-stream"] = map[string]interface{}{"unit_ran": tFinal.Round(100 * time.Millisecond).String(), "bytes": len(want)}
	for _, s := range sessions {
		info := map[string]interface{}{"scenario": "long-stream", "via": s.via, "plan": rep["plan"], "got": len(s.got), "ended": s.ended, "ended_at": s.tEnd.Round(100 * time.Millisecond).String(), "unit_final_at": tFinal.Round(100 * time.Millisecond).String()}
		im.Count("long-stream/"+s.via, true)
		im.Hist("moment:long-stream")
		switch {
		case s.err != nil:
			im.Violate(fmt.Sprintf("work results (%s) of the long unit failed: %v", s.via, s.err), "results-error", info)
		case s.broke != "" && len(s.got) < len(want) && bytes.HasPrefix(want, s.got):
			// something happened (not: something did not happen in time): the connection was terminated under the stream
			info["read_error"] = s.broke
			im.Violate(fmt.Sprintf("work results 0 (%s) of a unit that writes for %d s was broken off after %v (%s) with %d of %d bytes, while the unit was still running (it finished after %v): a stream open for a long time ends before the unit does",
				s.via, seconds, s.tEnd.Round(100*time.Millisecond), s.broke, len(s.got), len(want), tFinal.Round(100*time.Millisecond)), "results-long-stream-ended-early", info)
		case s.ended && len(s.got) < len(want) && bytes.HasPrefix(want, s.got):
			im.Violate(fmt.Sprintf("work results 0 (%s) of a unit that writes for %d s ended cleanly after %v with %d of %d bytes, while the unit was still running (it finished after %v): a stream open for a long time ends before the unit does",
				s.via, seconds, s.tEnd.Round(100*time.Millisecond), len(s.got), len(want), tFinal.Round(100*time.Millisecond)), "results-long-stream-ended-early", info)
		case !bytes.Equal(s.got, want) && !(!s.ended && bytes.HasPrefix(want, s.got)):
			im.Violate(fmt.Sprintf("work results 0 (%s) of the long unit: %d bytes differing from the %d of stdout", s.via, len(s.got), len(want)), "results-wrong-bytes", info)
		case !s.ended:
			im.Violate(fmt.Sprintf("work results 0 (%s) of the long unit still open %v after it was asked; %d of %d bytes", s.via, s.tEnd.Round(time.Second), len(s.got), len(want)), "results-no-end", info)
		case s.tEnd < time.Duration(seconds)*time.Second:
			im.Violate(fmt.Sprintf("work results 0 (%s) of the long unit ended after %v, before its %d pauses of a second can have passed", s.via, s.tEnd, seconds), "results-ended-early", info)
		}
	}
	sh.mu.Unlock()
	// the sessions asked at submission, for the model: the unix socket and every other kind of listener
	for i, s := range sessions {
		if i == 1 || s.idle > 0 || s.err != nil || !bytes.Equal(out, want) {
			continue
		}
		lines := unitLines(readStatusLog(statusLog), filepath.Join(n.UnitDir(unit), "status"))
		pre, post, _ := envTrace(lines, n.Cmd.Process.Pid, out, true, askLines, nil)
		sh.mu.Lock()
		sh.rc.Add(fmt.Sprintf("CR (RCase 0 %s %s %s %s)", CoqList(pre), CoqList(post), coqBytes(s.got, 0), CoqBool(s.ended)),
			fmt.Sprintf("results (%s) of a unit writing for %d s, followed from its submission: got=%d ended=%v after %v", s.via, seconds, len(s.got), s.ended, s.tEnd.Round(time.Second)))
		sh.mu.Unlock()
	}
}
