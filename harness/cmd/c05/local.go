package main

import (
	"bytes"
	"encoding/json"
	"fmt"
	"os"
	"path/filepath"
	"sort"
	"strings"
	"sync"
	"sync/atomic"
	"time"

	. "verifharness/lib"
)

// reading is one `work results <unit> <p>` session.
type reading struct {
	P        int       `json:"p"`
	Moment   string    `json:"moment"` // before | while | after
	AskLines int       `json:"-"`      // lines in the status log when the request was sent
	Got      []byte    `json:"-"`
	Ended    bool      `json:"ended"`
	Err      string    `json:"err,omitempty"`
	TAsk     time.Time `json:"-"`
	TEnd     time.Time `json:"-"`
}

// unitRun is everything observed of one unit.
type unitRun struct {
	Plan     plan
	Unit     string
	TStart   time.Time // stdin closed: the unit cannot start earlier
	TDone    time.Time // first status answer showing a finished (or cancelled) unit
	Final    map[string]interface{}
	Readings []*reading
	giveUp   atomic.Int64 // unix nanos after which readers stop waiting (0 = not yet known)
}

// readResults runs one session; it keeps reading until the stream ends or giveUp passes.
func readResults(sock, unit string, r *reading, statusLog string, giveUp *atomic.Int64, hardStop time.Time) {
	c, err := DialCtl(sock, 5*time.Second)
	if err != nil {
		r.Err = "dial: " + err.Error()
		return
	}
	defer c.Close()
	req, _ := json.Marshal(map[string]interface{}{"command": "work", "subcommand": "results", "unitid": unit, "startpos": r.P})
	if r.P%2 == 1 {
		// the other spelling of the same command (controlsvc.go InitFromString): "work results <unit> <startpos>"
		req = []byte(fmt.Sprintf("work results %s %d", unit, r.P))
	}
	r.AskLines = countLines(statusLog)
	r.TAsk = time.Now()
	l, err := c.Cmd(string(req), 5*time.Second)
	if err != nil {
		r.Err = "request: " + err.Error()
		return
	}
	if !strings.HasPrefix(l, "Streaming results") {
		r.Err = "reply: " + l
		return
	}
	buf := make([]byte, 1<<16)
	for {
		_ = c.Conn.SetReadDeadline(time.Now().Add(100 * time.Millisecond))
		n, err := c.R.Read(buf)
		r.Got = append(r.Got, buf[:n]...)
		if err != nil {
			if ne, ok := err.(interface{ Timeout() bool }); ok && ne.Timeout() {
				g := giveUp.Load()
				if (g != 0 && time.Now().UnixNano() > g) || time.Now().After(hardStop) {
					r.TEnd = time.Now()
					return
				}
				continue
			}
			// EOF (or reset): the stream ended
			r.Ended = true
			r.TEnd = time.Now()
			return
		}
	}
}

func stateOf(st map[string]interface{}) int {
	if st == nil {
		return -1
	}
	f, ok := st["State"].(float64)
	if !ok {
		return -1
	}
	return int(f)
}

func sizeOf(st map[string]interface{}) int64 {
	if st == nil {
		return -1
	}
	f, _ := st["StdoutSize"].(float64)
	return int64(f)
}

// offsetsFor picks the start offsets for a plan: 0, 1, every write boundary and its neighbours,
// size, size+1 — thinned out by the PRNG for the moments that get fewer sessions.
func offsetsFor(p plan, r *Rng, max int) []int {
	set := map[int]bool{0: true, 1: true, p.size(): true, p.size() + 1: true}
	for _, b := range p.boundaries() {
		set[b] = true
		set[b+1] = true
		if b > 0 {
			set[b-1] = true
		}
	}
	var all []int
	for k := range set {
		all = append(all, k)
	}
	sort.Ints(all)
	if len(all) <= max {
		return all
	}
	// always keep 0, size and size+1; fill the rest at random
	keep := map[int]bool{0: true, p.size(): true, p.size() + 1: true}
	for len(keep) < max {
		keep[all[r.Intn(len(all))]] = true
	}
	var out []int
	for k := range keep {
		out = append(out, k)
	}
	sort.Ints(out)
	return out
}

// runUnit submits one unit and observes it with readers at the three moments.
func runUnit(n *Node, statusLog string, p plan, offs [3][]int, whileAfter time.Duration) (*unitRun, error) {
	u := &unitRun{Plan: p}
	req, _ := json.Marshal(map[string]interface{}{"command": "work", "subcommand": "submit", "node": "localhost", "worktype": "emit", "params": p.params()})
	var c *Ctl
	var l string
	var err error
	for try := 0; ; try++ {
		c, err = DialCtl(n.Sock, 5*time.Second)
		if err != nil {
			return nil, err
		}
		l, err = c.Cmd(string(req), 5*time.Second)
		if err == nil && strings.Contains(l, "unknown work type") && try < 100 {
			// the control service answers before the work-command entry of the configuration is registered
			c.Close()
			time.Sleep(100 * time.Millisecond)
			continue
		}
		break
	}
	defer c.Close()
	if err != nil || !strings.Contains(l, "with ID ") {
		return nil, fmt.Errorf("submit: %q %v", l, err)
	}
	u.Unit = strings.TrimSuffix(strings.Fields(l[strings.Index(l, "with ID ")+8:])[0], ".")
	hardStop := time.Now().Add(p.sleeps() + 25*time.Second)
	var wg sync.WaitGroup
	start := func(moment string, ps []int) {
		for _, off := range ps {
			r := &reading{P: off, Moment: moment}
			u.Readings = append(u.Readings, r)
			wg.Add(1)
			go func() {
				defer wg.Done()
				readResults(n.Sock, u.Unit, r, statusLog, &u.giveUp, hardStop)
			}()
		}
	}
	start("before", offs[0])
	time.Sleep(150 * time.Millisecond)
	u.TStart = time.Now()
	if err := c.CloseWrite(); err != nil {
		return nil, err
	}
	if _, err := c.ReadLine(10 * time.Second); err != nil {
		return nil, fmt.Errorf("submit: no final reply: %v", err)
	}
	time.Sleep(whileAfter)
	start("while", offs[1])
	// follow the unit to its end
	want := int64(p.size())
	deadline := time.Now().Add(p.sleeps() + 20*time.Second)
	var seenAll time.Time
	for time.Now().Before(deadline) {
		st, err := WorkStatus(n.Sock, u.Unit, 3*time.Second)
		if err == nil {
			s := stateOf(st)
			if s == 2 || s == 3 || s == 4 {
				u.Final = st
				u.TDone = time.Now()
				break
			}
			if p.Cancel && s == 1 && sizeOf(st) == want {
				if seenAll.IsZero() {
					seenAll = time.Now()
				} else if time.Since(seenAll) > 500*time.Millisecond {
					// all output recorded for a while: cancel
					_, _ = OneShot(n.Sock, map[string]interface{}{"command": "work", "subcommand": "cancel", "unitid": u.Unit}, 15*time.Second)
				}
			}
		}
		time.Sleep(25 * time.Millisecond)
	}
	if u.TDone.IsZero() {
		u.giveUp.Store(time.Now().UnixNano())
		wg.Wait()
		return u, fmt.Errorf("unit %s (%s) did not finish", u.Unit, p.Name)
	}
	u.giveUp.Store(u.TDone.Add(4 * time.Second).UnixNano())
	start("after", offs[2])
	wg.Wait()
	return u, nil
}

func localPlans(c *Ctx) []plan {
	ps := []plan{
		{Name: "empty", Steps: []string{"s200"}},
		{Name: "one-byte", Steps: []string{"w1"}},
		{Name: "three-writes", Steps: []string{"w100", "s300", "w50", "s300", "w7"}},
		{Name: "64k", Steps: []string{"w65536"}},
		{Name: "2x64k", Steps: []string{"w65536", "s300", "w65536"}},
		{Name: "64k-straddle", Steps: []string{"w65535", "s200", "w2"}},
		{Name: "output-after-pause", Steps: []string{"s700", "w20"}},
		{Name: "pause-before-exit", Steps: []string{"w30", "s900"}},
		{Name: "failing-exit", Steps: []string{"w10", "s100", "x3"}},
		{Name: "cancelled", Steps: []string{"w10", "s300", "h"}, Cancel: true},
		{Name: "cancelled-empty", Steps: []string{"s100", "h"}, Cancel: true},
	}
	nRandom := 4
	if c.Thorough() {
		nRandom = 24
		ps = append(ps,
			plan{Name: "1m", Steps: []string{"w1048576"}},
			plan{Name: "3x64k+1", Steps: []string{"w65536", "s100", "w65536", "s100", "w65537"}},
			plan{Name: "slow-drip", Steps: []string{"w1", "s260", "w1", "s260", "w1", "s260", "w1", "s260", "w1"}})
	}
	r := c.Rng
	for i := 0; i < nRandom; i++ {
		var steps []string
		for k := 1 + r.Intn(5); k > 0; k-- {
			var sz int
			switch r.Intn(5) {
			case 0:
				sz = 1 + r.Intn(10)
			case 1:
				sz = 65535 + r.Intn(3)
			case 2:
				sz = 1000 + r.Intn(30000)
			default:
				sz = 1 + r.Intn(3000)
			}
			steps = append(steps, fmt.Sprintf("w%d", sz))
			if r.Chance(70) {
				steps = append(steps, fmt.Sprintf("s%d", 20+r.Intn(400)))
			}
		}
		pl := plan{Name: fmt.Sprintf("random-%d", i), Steps: steps}
		if r.Chance(15) {
			pl.Steps = append(pl.Steps, "x1")
		}
		ps = append(ps, pl)
	}
	return ps
}

func runLocal(c *Ctx, sh *shared, dir string) {
	n := NewNode(c.Bin, "c05local", dir, workCommandYAML(dir))
	statusLog := filepath.Join(dir, "status.log")
	n.Env = []string{"VERIF_STATUS_LOG=" + statusLog}
	if err := startNode(n); err != nil {
		sh.violate("receptor does not start: "+err.Error(), "harness-start", nil)
		return
	}
	defer func() { n.Stop(); n.KillStrays() }()
	daemonPid := n.Cmd.Process.Pid
	plans := localPlans(c)
	type job struct {
		p     plan
		offs  [3][]int
		delay time.Duration
	}
	var jobs []job
	for _, p := range plans {
		maxOff := 5
		if p.size() >= 65535 {
			maxOff = 3
		}
		var offs [3][]int
		for m := 0; m < 3; m++ {
			offs[m] = offsetsFor(p, c.Rng, maxOff)
		}
		d := p.sleeps() * time.Duration(20+c.Rng.Intn(60)) / 100
		jobs = append(jobs, job{p, offs, d})
	}
	results := make([]*unitRun, len(jobs))
	errs := make([]error, len(jobs))
	var wg sync.WaitGroup
	sem := make(chan struct{}, 8)
	for i := range jobs {
		wg.Add(1)
		go func(i int) {
			defer wg.Done()
			sem <- struct{}{}
			defer func() { <-sem }()
			results[i], errs[i] = runUnit(n, statusLog, jobs[i].p, jobs[i].offs, jobs[i].delay)
		}(i)
	}
	var exp *unitRun
	var expErr error
	wg.Add(1)
	go func() { defer wg.Done(); exp, expErr = runExpiring(n, statusLog) }()
	wg.Wait()
	if !n.Alive() {
		sh.violate("the daemon died while serving results: "+n.ExitState(), "daemon-died", nil)
	}
	allLines := readStatusLog(statusLog)
	if expErr != nil && exp == nil {
		sh.violate("scenario could not run: "+expErr.Error(), "harness-scenario", "expiring")
	} else {
		judgeExpiring(sh, n, exp, expErr, allLines, daemonPid)
	}
	for i, u := range results {
		if errs[i] != nil && u == nil {
			sh.violate("scenario could not run: "+errs[i].Error(), "harness-scenario", jobs[i].p)
			continue
		}
		judgeUnit(sh, n, u, errs[i], allLines, daemonPid)
	}
}

// judgeUnit applies the model-independent oracle to every session of one unit and writes the
// Coq cases.
func judgeUnit(sh *shared, n *Node, u *unitRun, runErr error, allLines []statusLine, daemonPid int) {
	p := u.Plan
	unitDir := n.UnitDir(u.Unit)
	out, oerr := os.ReadFile(filepath.Join(unitDir, "stdout"))
	stdoutExists := oerr == nil
	statusFile := filepath.Join(unitDir, "status")
	var lines []statusLine
	for _, l := range allLines {
		if l.File == statusFile {
			lines = append(lines, l)
		}
	}
	rep := func(r *reading) map[string]interface{} {
		m := map[string]interface{}{"plan": p, "unit_state": stateOf(u.Final)}
		if r != nil {
			m["p"], m["moment"], m["got_bytes"], m["ended"] = r.P, r.Moment, len(r.Got), r.Ended
		}
		return m
	}
	sh.mu.Lock()
	defer sh.mu.Unlock()
	im := sh.im
	if runErr != nil {
		im.Violate(runErr.Error(), "unit-did-not-finish", rep(nil))
		return
	}
	// the producer itself: the script wrote what it was told to, the record says so
	if !bytes.Equal(out, pattern[:p.size()]) {
		im.Violate(fmt.Sprintf("stdout of plan %s has %d bytes, differing from the %d scripted ones", p.Name, len(out), p.size()), "stdout-content", rep(nil))
	}
	if sizeOf(u.Final) != int64(len(out)) {
		im.Violate(fmt.Sprintf("final StdoutSize %d differs from the size of stdout %d", sizeOf(u.Final), len(out)), "status-size", rep(nil))
	}
	wantState := 2
	if p.Cancel {
		wantState = 4
	} else if p.exitCode() != 0 {
		wantState = 3
	}
	if stateOf(u.Final) != wantState {
		im.Violate(fmt.Sprintf("unit of plan %s ended in state %d, expected %d", p.Name, stateOf(u.Final), wantState), "unit-state", rep(nil))
	}
	earliestEnd := u.TStart.Add(p.sleeps())
	for _, r := range u.Readings {
		key := fmt.Sprintf("%s/%s/%d", p.Name, r.Moment, r.P)
		im.Count(key, len(out) > 0 && (r.Moment != "after" || r.P > 0))
		im.Hist("moment:" + r.Moment)
		switch {
		case r.P == 0:
			im.Hist("offset:0")
		case r.P < len(out):
			im.Hist("offset:inside")
		case r.P == len(out):
			im.Hist("offset:size")
		default:
			im.Hist("offset:beyond")
		}
		im.Hist("plan:" + strings.SplitN(p.Name, "-", 2)[0])
		im.Sample(map[string]interface{}{"kind": "results", "plan": p, "p": r.P, "moment": r.Moment, "ended": r.Ended, "bytes": len(r.Got)})
		if r.Err != "" {
			im.Violate("work results failed: "+r.Err, "results-error", rep(r))
			continue
		}
		var want []byte
		if r.P < len(out) {
			want = out[r.P:]
		}
		// exactly the bytes from p on
		if !bytes.Equal(r.Got, want) {
			switch {
			case r.Ended && bytes.HasPrefix(want, r.Got):
				im.Violate(fmt.Sprintf("results from %d ended after %d of %d bytes (plan %s, asked %s)", r.P, len(r.Got), len(want), p.Name, r.Moment), "results-truncated", rep(r))
			case !r.Ended && bytes.HasPrefix(want, r.Got):
				// reported below as a stream that did not end
			default:
				im.Violate(fmt.Sprintf("results from %d differ from stdout[%d:] (got %d bytes, want %d; plan %s, asked %s)", r.P, r.P, len(r.Got), len(want), p.Name, r.Moment), "results-wrong-bytes", rep(r))
			}
		}
		// ending once finished ...
		if !r.Ended {
			sig := "results-no-end"
			if p.Cancel {
				sig = "results-cancelled-never-ends"
			}
			im.Violate(fmt.Sprintf("results from %d (plan %s, asked %s) still open 4 s after the unit reached state %d; %d of %d bytes received", r.P, p.Name, r.Moment, stateOf(u.Final), len(r.Got), len(want)), sig, rep(r))
		} else if r.TEnd.Before(earliestEnd) {
			// ... never earlier: the script cannot have finished before its pauses have elapsed
			im.Violate(fmt.Sprintf("results from %d (plan %s, asked %s) ended %v before the unit can have finished", r.P, p.Name, r.Moment, earliestEnd.Sub(r.TEnd)), "results-ended-early", rep(r))
		}
		// the same observation for the model
		pre, post, trailing := envTrace(lines, daemonPid, out, stdoutExists, r.AskLines, nil)
		if trailing && !p.Cancel {
			im.Violate("stdout grew after the last recorded size", "producer-contract", rep(r))
		}
		got := coqBytes(r.Got, r.P)
		sh.rc.Add(fmt.Sprintf("CR (RCase %d %s %s %s %s)", r.P, CoqList(pre), CoqList(post), got, CoqBool(r.Ended)),
			fmt.Sprintf("results plan=%s steps=%v moment=%s p=%d got=%d ended=%v", p.Name, p.Steps, r.Moment, r.P, len(r.Got), r.Ended))
	}
}

// runExpiring: a remote unit for a node that does not exist, with a time to live of two seconds.  It
// never produces a stdout file; when the time is over it is Failed ("Work unit expired").  Results
// asked before must end then — not earlier — with nothing; results asked afterwards end at once.
func runExpiring(n *Node, statusLog string) (*unitRun, error) {
	u := &unitRun{Plan: plan{Name: "expiring"}}
	t0 := time.Now() // the time to live starts when the unit is allocated: not before the request is sent
	unit, _, err := Submit(n.Sock, map[string]interface{}{"node": "c05nowhere", "worktype": "emit", "ttl": "2s"}, nil, 20*time.Second)
	if err != nil || unit == "" {
		return nil, fmt.Errorf("submit with ttl: %v", err)
	}
	u.Unit, u.TStart = unit, t0
	hardStop := time.Now().Add(20 * time.Second)
	var wg sync.WaitGroup
	start := func(moment string, ps []int) {
		for _, off := range ps {
			r := &reading{P: off, Moment: moment}
			u.Readings = append(u.Readings, r)
			wg.Add(1)
			go func() { defer wg.Done(); readResults(n.Sock, unit, r, statusLog, &u.giveUp, hardStop) }()
		}
	}
	start("before", []int{0, 1, 7})
	for time.Now().Before(hardStop) {
		if st, err := WorkStatus(n.Sock, unit, 3*time.Second); err == nil && stateOf(st) == 3 {
			u.Final, u.TDone = st, time.Now()
			break
		}
		time.Sleep(25 * time.Millisecond)
	}
	if u.TDone.IsZero() {
		u.giveUp.Store(time.Now().UnixNano())
		wg.Wait()
		return u, fmt.Errorf("the unit with a time to live of 2 s did not fail within 20 s")
	}
	u.giveUp.Store(u.TDone.Add(4 * time.Second).UnixNano())
	start("after", []int{0, 2})
	wg.Wait()
	return u, nil
}

func judgeExpiring(sh *shared, n *Node, u *unitRun, runErr error, allLines []statusLine, daemonPid int) {
	statusFile := filepath.Join(n.UnitDir(u.Unit), "status")
	var lines []statusLine
	for _, l := range allLines {
		if l.File == statusFile {
			lines = append(lines, l)
		}
	}
	sh.mu.Lock()
	defer sh.mu.Unlock()
	im := sh.im
	rep := map[string]interface{}{"plan": "remote unit for an unreachable node, ttl 2s"}
	if runErr != nil {
		im.Violate(runErr.Error(), "unit-did-not-finish", rep)
		return
	}
	if _, err := os.Stat(filepath.Join(n.UnitDir(u.Unit), "stdout")); err == nil {
		im.Hist("expiring:stdout-file-exists")
	}
	for _, r := range u.Readings {
		im.Count(fmt.Sprintf("expiring/%s/%d", r.Moment, r.P), r.Moment == "before")
		im.Hist("moment:" + r.Moment)
		im.Hist("plan:expiring")
		rep := map[string]interface{}{"plan": "remote unit for an unreachable node, ttl 2s", "p": r.P, "moment": r.Moment, "ended": r.Ended, "got_bytes": len(r.Got)}
		switch {
		case r.Err != "":
			im.Violate("work results failed: "+r.Err, "results-error", rep)
		case len(r.Got) > 0:
			im.Violate(fmt.Sprintf("results of a unit without output delivered %d bytes", len(r.Got)), "results-wrong-bytes", rep)
		case !r.Ended:
			im.Violate(fmt.Sprintf("results from %d of a unit that failed without output (asked %s) still open 4 s after it failed", r.P, r.Moment), "results-no-end", rep)
		case r.Moment == "before" && r.TEnd.Before(u.TStart.Add(1800*time.Millisecond)):
			im.Violate(fmt.Sprintf("results from %d ended %v after the submission, before the unit's time to live (2 s) was over", r.P, r.TEnd.Sub(u.TStart)), "results-ended-early", rep)
		}
		pre, post, _ := envTrace(lines, daemonPid, nil, false, r.AskLines, nil)
		sh.rc.Add(fmt.Sprintf("CR (RCase %d %s %s [] %s)", r.P, CoqList(pre), CoqList(post), CoqBool(r.Ended)),
			fmt.Sprintf("results of a unit that never has a stdout file (ttl expired): moment=%s p=%d ended=%v", r.Moment, r.P, r.Ended))
	}
}
