package main

import (
	"bytes"
	"fmt"
	"io"
	"net"
	"os"
	"path/filepath"
	"strings"
	"sync"
	"time"

	. "verifharness/lib"
)

// ---------- a TCP proxy that can cut and heal the link ----------

type tcpProxy struct {
	ln      net.Listener
	target  string
	mu      sync.Mutex
	conns   map[net.Conn]bool
	cut     bool
	Carried int64
	// remote->local bytes are kept back until holdUntil and then released in one write (stall.go)
	holdUntil time.Time
	lose      bool
	Flushes   int
	Dropped   int
	// remote->local bytes per second (0: unlimited) (throttle.go)
	rate int64
}

func newProxy(target string) (*tcpProxy, error) {
	ln, err := net.Listen("tcp", "127.0.0.1:0")
	if err != nil {
		return nil, err
	}
	p := &tcpProxy{ln: ln, target: target, conns: map[net.Conn]bool{}}
	go p.serve()
	return p, nil
}

func (p *tcpProxy) Port() int { return p.ln.Addr().(*net.TCPAddr).Port }

func (p *tcpProxy) serve() {
	for {
		c, err := p.ln.Accept()
		if err != nil {
			return
		}
		p.mu.Lock()
		cut := p.cut
		p.mu.Unlock()
		if cut {
			_ = c.Close()
			continue
		}
		d, err := net.DialTimeout("tcp", p.target, 2*time.Second)
		if err != nil {
			_ = c.Close()
			continue
		}
		p.mu.Lock()
		p.conns[c], p.conns[d] = true, true
		throttled := p.rate > 0
		p.mu.Unlock()
		if tc, ok := d.(*net.TCPConn); ok && throttled {
			// a slow link, not a long one: what the remote node has sent and the link has not carried
			// yet must stay small, or a status reply waits seconds behind the output queued before it
			_ = tc.SetReadBuffer(64 << 10)
		}
		pipe := func(dst, src net.Conn) {
			n, _ := io.Copy(dst, src)
			p.mu.Lock()
			p.Carried += n
			delete(p.conns, src)
			delete(p.conns, dst)
			p.mu.Unlock()
			_ = dst.Close()
			_ = src.Close()
		}
		go pipe(d, c)
		go p.pipeHeld(c, d) // from the remote node towards the submitting node
	}
}

// Cut closes every proxied connection and refuses new ones until Heal.
func (p *tcpProxy) Cut() {
	p.mu.Lock()
	p.cut = true
	for c := range p.conns {
		_ = c.Close()
	}
	p.mu.Unlock()
}

func (p *tcpProxy) Heal()  { p.mu.Lock(); p.cut = false; p.mu.Unlock() }
func (p *tcpProxy) Close() { p.Cut(); _ = p.ln.Close() }

// startNode starts a node; on an overloaded machine the 15 s the library allows for the control
// socket may not be enough: as long as the process lives, keep waiting.
func startNode(n *Node) error {
	err := n.Start()
	if err == nil {
		return nil
	}
	for t0 := time.Now(); strings.Contains(err.Error(), "did not come up") && n.Alive() && time.Since(t0) < 120*time.Second; time.Sleep(100 * time.Millisecond) {
		if c, derr := net.DialTimeout("unix", n.Sock, time.Second); derr == nil {
			c.Close()
			return nil
		}
	}
	return err
}

func freePort() int {
	ln, err := net.Listen("tcp", "127.0.0.1:0")
	Must(err)
	defer ln.Close()
	return ln.Addr().(*net.TCPAddr).Port
}

// ---------- the mirrored transfer ----------

type sample struct {
	T                  time.Duration
	Local, Remote      int
	LinesA, LinesB     int
	PrefixOK, LinkDown bool
}

type cutSpec struct {
	At, For time.Duration
	Relay   bool // restart the relay node instead of cutting the proxy
	Remote  bool // kill the remote node (SIGKILL; its command runner goes on) and start it again
}

type remoteScenario struct {
	Name  string
	Plan  plan
	Cuts  []cutSpec
	Relay bool // three nodes: A - proxy - R - B
}

func remoteScenarios(c *Ctx) []remoteScenario {
	sc := []remoteScenario{{
		Name: "two-cuts",
		Plan: plan{Name: "remote-two-cuts", Steps: []string{"w1000", "s1200", "w5000", "s2500", "w70000", "s2500", "w300", "s1500", "w10"}},
		Cuts: []cutSpec{{At: 2500 * time.Millisecond, For: 700 * time.Millisecond}},
	}}
	// the remote node itself (its control service, its daemon) is killed and restarted while the
	// unit runs there under its runner and is being mirrored
	sc = append(sc, remoteScenario{Name: "remote-restart",
		Plan: plan{Name: "remote-node-restart", Steps: []string{"w2000", "s1500", "w3000", "s2500", "w400", "s1500", "w10"}},
		Cuts: []cutSpec{{At: 2200 * time.Millisecond, For: 300 * time.Millisecond, Remote: true}}})
	if c.Thorough() {
		// a cut stream stalls until the QUIC idle timeout (about 45 s): the second cut of a scenario
		// comes after the transfer has resumed
		sc[0].Plan = plan{Name: "remote-two-cuts", Steps: []string{"w1000", "s1200", "w5000", "s2500", "w70000", "s50000", "w300", "s8000", "w10"}}
		sc[0].Cuts = append(sc[0].Cuts, cutSpec{At: 56 * time.Second, For: 1 * time.Second})
		sc = append(sc,
			remoteScenario{Name: "cut-after-finish",
				Plan: plan{Name: "remote-cut-after-finish", Steps: []string{"w200000", "s1000", "w5"}},
				Cuts: []cutSpec{{At: 300 * time.Millisecond, For: 6 * time.Second}}},
			remoteScenario{Name: "relay-restart", Relay: true,
				Plan: plan{Name: "remote-relay-restart", Steps: []string{"w3000", "s3000", "w66000", "s50000", "w77", "s8000", "w1"}},
				Cuts: []cutSpec{{At: 4 * time.Second, For: 1 * time.Second, Relay: true}, {At: 58 * time.Second, For: 500 * time.Millisecond}}},
			remoteScenario{Name: "no-cut",
				Plan: plan{Name: "remote-no-cut", Steps: []string{"w10", "s500", "w65536", "s500", "w1"}}},
		)
	}
	return sc
}

func runRemote(c *Ctx, sh *shared, dir string) {
	switch os.Getenv("C05_SCEN") { // development aid
	case "cancels":
		runCancels(c, sh, filepath.Join(dir, "cancels"))
		return
	case "throttled":
		runThrottled(c, sh, filepath.Join(dir, "throttled"))
		return
	}
	scs := remoteScenarios(c)
	var wg sync.WaitGroup
	for i := range scs {
		wg.Add(1)
		go func(i int) {
			defer wg.Done()
			t0 := time.Now()
			guarded(sh, scs[i].Name, func(s *shared, again string) { runRemoteScenario(c, s, filepath.Join(dir, scs[i].Name+again), scs[i]) })
			sh.mu.Lock()
			sh.im.Extra["wall:"+scs[i].Name] = time.Since(t0).Round(100 * time.Millisecond).String()
			sh.mu.Unlock()
		}(i)
	}
	// the header line of a results stream against every chunking: a link that holds the remote
	// node's bytes back and releases them in one piece, and a scripted remote that cuts header and
	// output as it likes
	timed := func(name string, f func()) {
		defer wg.Done()
		t0 := time.Now()
		f()
		sh.mu.Lock()
		sh.im.Extra["wall:"+name] = time.Since(t0).Round(100 * time.Millisecond).String()
		sh.mu.Unlock()
	}
	wg.Add(4)
	go timed("throttled", func() {
		guarded(sh, "throttled", func(s *shared, again string) { runThrottled(c, s, filepath.Join(dir, "throttled"+again)) })
	})
	go timed("cancels", func() {
		guarded(sh, "cancels", func(s *shared, again string) { runCancels(c, s, filepath.Join(dir, "cancels"+again)) })
	})
	go timed("stalls", func() {
		guarded(sh, "stalls", func(s *shared, again string) { runStalls(c, s, filepath.Join(dir, "stalls"+again)) })
	})
	go timed("standin", func() {
		guarded(sh, "standin", func(s *shared, again string) { runStandin(c, s, filepath.Join(dir, "standin"+again)) })
	})
	wg.Wait()
}

func waitPing(sock, target string, timeout time.Duration) bool {
	deadline := time.Now().Add(timeout)
	for time.Now().Before(deadline) {
		l, err := OneShot(sock, map[string]interface{}{"command": "ping", "target": target}, 3*time.Second)
		if err == nil && strings.Contains(l, "Success\":true") {
			return true
		}
		time.Sleep(100 * time.Millisecond)
	}
	return false
}

func runRemoteScenario(c *Ctx, sh *shared, dir string, sc remoteScenario) {
	rep := map[string]interface{}{"scenario": sc.Name, "plan": sc.Plan, "cuts": fmt.Sprint(sc.Cuts)}
	fail := func(what, sig string) { sh.violate(what, sig, rep) }
	idA, idB, idR := "c05a-"+sc.Name, "c05b-"+sc.Name, "c05r-"+sc.Name
	dirB := filepath.Join(dir, "b")
	portB := freePort()
	b := NewNode(c.Bin, idB, dirB, fmt.Sprintf("- tcp-listener:\n    port: %d\n", portB)+workCommandYAML(dirB))
	logB := filepath.Join(dirB, "status.log")
	b.Env = []string{"VERIF_STATUS_LOG=" + logB}
	if err := startNode(b); err != nil {
		fail("node B does not start: "+err.Error(), "harness-start")
		return
	}
	defer func() { b.Stop(); b.KillStrays() }()
	upstream := fmt.Sprintf("127.0.0.1:%d", portB)
	var relay *Node
	if sc.Relay {
		portR := freePort()
		relay = NewNode(c.Bin, idR, filepath.Join(dir, "r"), fmt.Sprintf("- tcp-listener:\n    port: %d\n- tcp-peer:\n    address: 127.0.0.1:%d\n", portR, portB))
		if err := startNode(relay); err != nil {
			fail("relay does not start: "+err.Error(), "harness-start")
			return
		}
		defer func() { relay.Stop(); relay.KillStrays() }()
		upstream = fmt.Sprintf("127.0.0.1:%d", portR)
	}
	px, err := newProxy(upstream)
	if err != nil {
		fail("proxy: "+err.Error(), "harness-start")
		return
	}
	defer px.Close()
	dirA := filepath.Join(dir, "a")
	a := NewNode(c.Bin, idA, dirA, fmt.Sprintf("- tcp-peer:\n    address: 127.0.0.1:%d\n", px.Port()))
	logA := filepath.Join(dirA, "status.log")
	a.Env = []string{"VERIF_STATUS_LOG=" + logA}
	if err := startNode(a); err != nil {
		fail("node A does not start: "+err.Error(), "harness-start")
		return
	}
	defer func() { a.Stop(); a.KillStrays() }()
	if !waitPing(a.Sock, idB, 90*time.Second) {
		fail("node A never reaches node B", "harness-mesh")
		return
	}
	unitA, _, err := Submit(a.Sock, map[string]interface{}{"node": idB, "worktype": "emit", "params": sc.Plan.params()}, nil, 20*time.Second)
	if err != nil || unitA == "" {
		fail(fmt.Sprintf("remote submit failed: %v", err), "remote-submit")
		return
	}
	t0 := time.Now()
	// the remote unit ID, from the local record
	unitB := ""
	for time.Since(t0) < 10*time.Second && unitB == "" {
		st, err := WorkStatus(a.Sock, unitA, 3*time.Second)
		if err == nil {
			if ed, ok := st["ExtraData"].(map[string]interface{}); ok {
				unitB, _ = ed["RemoteUnitID"].(string)
			}
		}
		time.Sleep(20 * time.Millisecond)
	}
	if unitB == "" {
		fail("the local record never names the remote unit", "remote-binding")
		return
	}
	fileA, fileB := filepath.Join(a.UnitDir(unitA), "stdout"), filepath.Join(b.UnitDir(unitB), "stdout")
	// the link schedule
	var linkMu sync.Mutex
	linkDown := false
	type brk struct{ At time.Duration }
	var breaks []brk
	stopCuts := make(chan struct{})
	var cutWG sync.WaitGroup
	cutWG.Add(1)
	go func() {
		defer cutWG.Done()
		for _, cs := range sc.Cuts {
			select {
			case <-stopCuts:
				return
			case <-time.After(time.Until(t0.Add(cs.At))):
			}
			linkMu.Lock()
			linkDown = true
			breaks = append(breaks, brk{time.Since(t0)})
			linkMu.Unlock()
			if cs.Remote {
				b.Kill()
				time.Sleep(cs.For)
				_ = startNode(b)
			} else if cs.Relay && relay != nil {
				relay.Kill()
				time.Sleep(cs.For)
				_ = startNode(relay)
			} else {
				px.Cut()
				time.Sleep(cs.For)
				px.Heal()
			}
			linkMu.Lock()
			linkDown = false
			linkMu.Unlock()
		}
	}()
	// sample until converged
	var samples []sample
	deadline := t0.Add(sc.Plan.sleeps() + 60*time.Second)
	var lastCut time.Duration
	for _, cs := range sc.Cuts {
		if cs.At+cs.For > lastCut {
			lastCut = cs.At + cs.For
		}
	}
	converged := false
	var finalA map[string]interface{}
	for time.Now().Before(deadline) {
		la, _ := os.ReadFile(fileA)
		rb, _ := os.ReadFile(fileB) // read after the local file: the remote one only grows
		linkMu.Lock()
		down := linkDown
		linkMu.Unlock()
		s := sample{T: time.Since(t0), Local: len(la), Remote: len(rb), LinesA: countLines(logA), LinesB: countLines(logB),
			PrefixOK: bytes.HasPrefix(rb, la), LinkDown: down}
		samples = append(samples, s)
		if !s.PrefixOK {
			break
		}
		if time.Since(t0) > lastCut && len(samples)%4 == 0 {
			st, err := WorkStatus(a.Sock, unitA, 3*time.Second)
			if err == nil && (stateOf(st) == 2 || stateOf(st) == 3) && int64(len(la)) >= sizeOf(st) && len(la) == sc.Plan.size() {
				finalA = st
				converged = true
				break
			}
		}
		time.Sleep(50 * time.Millisecond)
	}
	close(stopCuts)
	cutWG.Wait()
	if os.Getenv("C05_DEBUG") != "" {
		last := sample{}
		for _, s := range samples {
			if s.Local != last.Local || s.Remote != last.Remote || s.LinkDown != last.LinkDown {
				fmt.Fprintf(os.Stderr, "%s %8v local=%d remote=%d down=%v\n", sc.Name, s.T.Round(time.Millisecond), s.Local, s.Remote, s.LinkDown)
			}
			last = s
		}
		_ = os.WriteFile("/tmp/c0405/logA-"+sc.Name, []byte(a.Log()), 0o644)
		_ = os.WriteFile("/tmp/c0405/logB-"+sc.Name, []byte(b.Log()), 0o644)
	}
	time.Sleep(300 * time.Millisecond)
	la, _ := os.ReadFile(fileA)
	rb, _ := os.ReadFile(fileB)
	stB, _ := WorkStatus(b.Sock, unitB, 3*time.Second)

	sh.mu.Lock()
	im := sh.im
	seen := map[string]bool{}
	for _, s := range samples {
		key := fmt.Sprintf("%s/%d/%d", sc.Name, s.Local, s.Remote)
		if !seen[key] {
			seen[key] = true
			im.Count("sample "+key, s.Local > 0 && s.Local < s.Remote)
		} else {
			im.Evaluations++
		}
		switch {
		case s.LinkDown:
			im.Hist("remote-sample:link-down")
		case s.Local < s.Remote:
			im.Hist("remote-sample:behind")
		default:
			im.Hist("remote-sample:equal")
		}
		if !s.PrefixOK {
			im.Violate(fmt.Sprintf("local stdout (%d bytes) is not a prefix of the remote stdout (%d bytes) %v after submission", s.Local, s.Remote, s.T), "mirror-not-prefix", rep)
		}
	}
	im.Sample(map[string]interface{}{"kind": "mirror", "scenario": sc.Name, "plan": sc.Plan, "cuts": fmt.Sprint(sc.Cuts), "samples": len(samples), "converged_after": fmt.Sprint(time.Since(t0)), "proxy_bytes": px.Carried})
	im.Extra["mirror:"+sc.Name] = map[string]interface{}{"samples": len(samples), "breaks": len(breaks), "converged": converged, "local": len(la), "remote": len(rb)}
	if !bytes.Equal(rb, pattern[:sc.Plan.size()]) {
		im.Violate(fmt.Sprintf("remote stdout has %d bytes, differing from the %d scripted ones", len(rb), sc.Plan.size()), "stdout-content", rep)
	}
	if !converged {
		im.Violate(fmt.Sprintf("local stdout (%d bytes) did not become equal to the remote stdout (%d bytes) within %v after the last cut healed (local state %d)", len(la), len(rb), time.Since(t0)-lastCut, stateOf(finalA)), "mirror-not-converged", rep)
	} else {
		if !bytes.Equal(la, rb) {
			im.Violate("local and remote stdout differ at the end", "mirror-differs", rep)
		}
		if stateOf(finalA) != stateOf(stB) || sizeOf(finalA) != sizeOf(stB) {
			im.Violate(fmt.Sprintf("local record (state %d, size %d) differs from the remote one (state %d, size %d)", stateOf(finalA), sizeOf(finalA), stateOf(stB), sizeOf(stB)), "mirror-status", rep)
		}
	}
	sh.mu.Unlock()

	// results of the remote unit asked on the submitting node, from a few offsets
	if converged {
		for _, p := range []int{0, 1, 1000, len(rb) - 1, len(rb), len(rb) + 1} {
			got, ended, err := WorkResults(a.Sock, unitA, int64(p), 20*time.Second)
			var want []byte
			if p < len(rb) {
				want = rb[p:]
			}
			sh.mu.Lock()
			im.Count(fmt.Sprintf("%s/mirrored-results/%d", sc.Name, p), true)
			im.Hist("moment:after-mirror")
			if err != nil {
				im.Violate("work results of the mirrored unit failed: "+err.Error(), "results-error", rep)
			} else if !bytes.Equal(got, want) {
				im.Violate(fmt.Sprintf("results of the mirrored unit from %d: %d bytes, want %d", p, len(got), len(want)), "results-wrong-bytes", rep)
			} else if !ended {
				im.Violate(fmt.Sprintf("results of the mirrored unit from %d did not end", p), "results-no-end", rep)
			}
			sh.mu.Unlock()
		}
	}

	// the same history for the model
	linesB := unitLines(readStatusLog(logB), filepath.Join(b.UnitDir(unitB), "status"))
	linesA := unitLines(readStatusLog(logA), filepath.Join(a.UnitDir(unitA), "status"))
	tr := mirrorTrace(linesA, linesB, b.Cmd.Process.Pid, rb, samples, func() []time.Duration {
		var o []time.Duration
		for _, x := range breaks {
			o = append(o, x.At)
		}
		return o
	}())
	sh.mu.Lock()
	sh.rc.Add(fmt.Sprintf("CM (MCase %s %s %s)", CoqList(tr), coqBytes(la, 0), CoqBool(converged)),
		fmt.Sprintf("mirror scenario=%s steps=%v cuts=%v local=%d remote=%d converged=%v", sc.Name, sc.Plan.Steps, sc.Cuts, len(la), len(rb), converged))
	sh.mu.Unlock()
}

func unitLines(all []statusLine, statusFile string) []statusLine {
	var out []statusLine
	for _, l := range all {
		if l.File == statusFile {
			out = append(out, l)
		}
	}
	return out
}

// mirrorTrace builds the history as a mirror trace of Model/Mirror.v: the remote producer's
// events (from B's status log and stdout), one MSync per status copy written on A (placed right
// after the remote event that produced the copied values) and one MBreak per cut (placed by
// the time the cut was made relative to the times at which the samples saw B's log grow).
func mirrorTrace(linesA, linesB []statusLine, pidB int, remoteOut []byte, samples []sample, breaks []time.Duration) []string {
	// first-seen time of each B line, by index into linesB
	seenAt := make([]time.Duration, len(linesB))
	for i, l := range linesB {
		seenAt[i] = 1 << 62
		for _, s := range samples {
			if s.LinesB > l.Index {
				seenAt[i] = s.T
				break
			}
		}
	}
	// copies made on A by monitorRemoteStatus: (state, size) pairs in order, without repeats
	type pair struct {
		st int
		sz int64
	}
	var copies []pair
	for _, l := range linesA {
		p := pair{l.New.State, l.New.StdoutSize}
		if l.New.State == 0 && !strings.HasPrefix(l.New.Detail, "Not started") && l.New.StdoutSize == 0 {
			continue // the submit path's own Pending records
		}
		if len(copies) == 0 || copies[len(copies)-1] != p {
			copies = append(copies, p)
		}
	}
	var tr []string
	cur, created := 0, false
	ci, bi := 0, 0
	for i, l := range linesB {
		for bi < len(breaks) && breaks[bi] < seenAt[i] {
			tr = append(tr, "MBreak")
			bi++
		}
		if !created && l.New.State >= 1 {
			tr = append(tr, "MEnv ECreate")
			created = true
		}
		sz := int(l.New.StdoutSize)
		if sz > cur && sz <= len(remoteOut) {
			if !created {
				tr = append(tr, "MEnv ECreate")
				created = true
			}
			tr = append(tr, "MEnv (EAppend "+coqBytes(remoteOut[cur:sz], cur)+")")
			cur = sz
		}
		tr = append(tr, fmt.Sprintf("MEnv (ESetStatus %d %d)", l.New.State, l.New.StdoutSize))
		if ci < len(copies) && copies[ci].st == l.New.State && copies[ci].sz == l.New.StdoutSize {
			tr = append(tr, "MSync")
			ci++
		}
	}
	for ; bi < len(breaks); bi++ {
		tr = append(tr, "MBreak")
	}
	if cur < len(remoteOut) {
		tr = append(tr, "MEnv (EAppend "+coqBytes(remoteOut[cur:], cur)+")")
	}
	tr = append(tr, "MSync")
	_ = pidB
	return tr
}
