package main

// Every kind of control-service listener the daemon offers, for the long-lived results stream of
// long.go.  `work results` is served by whatever connection the control service accepted: a unix
// socket, a plain TCP socket, a TCP socket wrapped in TLS (tls-server entry + tcptls; with and
// without client certificates, TLS 1.2 and 1.3), or a netceptor service (plain, or with the
// receptor-level TLS of a tls-server/tls-client pair; reached through the `connect` command of
// another session, the way receptorctl does it).  Each of these wraps the connection differently
// before the session starts (handshakes, deadlines, bridges), and nothing of that wrapping may
// bound the stream: it ends when the unit has finished and all recorded output was sent, not
// some time after the connection was accepted.  One session per kind follows the 64-second unit
// from its submission; two more TLS sessions connect at submission, stay idle for 12 and 25 s
// and ask then (the first reply is written long after the accept).
//
// The certificates are made with the daemon's own --cert-init / --cert-makereq / --cert-signreq.

import (
	"bufio"
	"crypto/tls"
	"crypto/x509"
	"encoding/json"
	"errors"
	"fmt"
	"net"
	"os"
	"os/exec"
	"path/filepath"
	"strings"
	"time"

	. "verifharness/lib"
)

// longSession is one `work results <unit> 0` session of the long-lived scenario.
type longSession struct {
	via   string
	idle  time.Duration // time between opening the session and asking
	fetch func(unit string, timeout time.Duration) (got []byte, ended bool, broke string, err error)
	got   []byte
	ended bool   // clean end of stream
	broke string // the stream was terminated by something else than the harness's own timeout
	err   error  // the session could not be opened / the command was refused
	tEnd  time.Duration
}

// certKit makes a CA and one certificate (server and client use; DNS name localhost, address
// 127.0.0.1, receptor node ID) with the receptor binary.
func certKit(bin, dir, nodeID string) (ca, cert, key string, err error) {
	_ = os.MkdirAll(dir, 0o755)
	p := func(s string) string { return filepath.Join(dir, s) }
	run := func(args ...string) error {
		cmd := exec.Command(bin, args...)
		out, e := cmd.CombinedOutput()
		if e != nil {
			return fmt.Errorf("%s %s: %v: %s", filepath.Base(bin), args[0], e, strings.TrimSpace(string(out)))
		}
		return nil
	}
	if err = run("--cert-init", "commonname=c05 test CA", "bits=2048", "outcert="+p("ca.crt"), "outkey="+p("ca.key")); err != nil {
		return
	}
	if err = run("--cert-makereq", "bits=2048", "commonname="+nodeID, "dnsname=localhost", "ipaddress=127.0.0.1", "nodeid="+nodeID,
		"outreq="+p("node.csr"), "outkey="+p("node.key")); err != nil {
		return
	}
	if err = run("--cert-signreq", "req="+p("node.csr"), "cacert="+p("ca.crt"), "cakey="+p("ca.key"), "outcert="+p("node.crt"), "verify=yes"); err != nil {
		return
	}
	return p("ca.crt"), p("node.crt"), p("node.key"), nil
}

// followResults asks `work results unit 0` on an open session and reads to the end.
func followResults(c *Ctl, unit string, timeout time.Duration) (got []byte, ended bool, broke string, err error) {
	b, _ := json.Marshal(map[string]interface{}{"command": "work", "subcommand": "results", "unitid": unit, "startpos": 0})
	l, err := c.Cmd(string(b), 60*time.Second)
	if err != nil {
		return nil, false, "", fmt.Errorf("work results: %w", err)
	}
	if strings.HasPrefix(l, "ERROR") {
		return nil, false, "", fmt.Errorf("%s", l)
	}
	got, rerr := c.ReadAll(timeout)
	var ne net.Error
	switch {
	case rerr == nil:
		ended = true
	case errors.As(rerr, &ne) && ne.Timeout(): // the harness's own patience: still open
	default:
		broke = rerr.Error()
	}
	return got, ended, broke, nil
}

// openTLS dials a TLS control socket and reads the greeting.
func openTLS(addr string, cfg *tls.Config) (*Ctl, error) {
	d := &net.Dialer{Timeout: 30 * time.Second}
	conn, err := tls.DialWithDialer(d, "tcp", addr, cfg)
	if err != nil {
		return nil, err
	}
	ctl := &Ctl{Conn: conn, R: bufio.NewReaderSize(conn, 1<<16)}
	_ = conn.SetReadDeadline(time.Now().Add(60 * time.Second))
	g, err := ctl.R.ReadString('\n')
	if err != nil {
		conn.Close()
		return nil, fmt.Errorf("no greeting: %w", err)
	}
	ctl.Greeting = strings.TrimRight(g, "\n")
	return ctl, nil
}

// listenerKinds returns the YAML of the additional control services (and the TLS entries they
// use) and one session per way in.
func listenerKinds(bin, dir, nodeID, sock string) (yaml string, sessions []*longSession, err error) {
	ca, cert, key, err := certKit(bin, filepath.Join(dir, "certs"), nodeID)
	if err != nil {
		return "", nil, err
	}
	caPEM, err := os.ReadFile(ca)
	if err != nil {
		return "", nil, err
	}
	pool := x509.NewCertPool()
	pool.AppendCertsFromPEM(caPEM)
	clientCert, err := tls.LoadX509KeyPair(cert, key)
	if err != nil {
		return "", nil, err
	}
	pServer, pMutual := freePort(), freePort()
	for pMutual == pServer {
		pMutual = freePort()
	}
	var sb strings.Builder
	fmt.Fprintf(&sb, "- tls-server:\n    name: srv\n    cert: %s\n    key: %s\n", cert, key)
	fmt.Fprintf(&sb, "- tls-server:\n    name: srvmutual\n    cert: %s\n    key: %s\n    requireclientcert: true\n    clientcas: %s\n    mintls13: true\n", cert, key, ca)
	fmt.Fprintf(&sb, "- tls-client:\n    name: cli\n    cert: %s\n    key: %s\n    rootcas: %s\n", cert, key, ca)
	fmt.Fprintf(&sb, "- control-service:\n    service: ctltls\n    tcplisten: 127.0.0.1:%d\n    tcptls: srv\n", pServer)
	fmt.Fprintf(&sb, "- control-service:\n    service: ctlmut\n    tcplisten: 127.0.0.1:%d\n    tcptls: srvmutual\n", pMutual)
	fmt.Fprintf(&sb, "- control-service:\n    service: ctlnc\n")
	fmt.Fprintf(&sb, "- control-service:\n    service: ctlnct\n    tls: srvmutual\n")

	tlsSession := func(via string, port int, cfg *tls.Config, idle time.Duration) *longSession {
		return &longSession{via: via, idle: idle, fetch: func(unit string, timeout time.Duration) ([]byte, bool, string, error) {
			c, err := openTLS(fmt.Sprintf("127.0.0.1:%d", port), cfg)
			for t0 := time.Now(); err != nil && time.Since(t0) < 30*time.Second; { // the listeners come up one after the other
				time.Sleep(200 * time.Millisecond)
				c, err = openTLS(fmt.Sprintf("127.0.0.1:%d", port), cfg)
			}
			if err != nil {
				return nil, false, "", err
			}
			defer c.Close()
			time.Sleep(idle)
			return followResults(c, unit, timeout)
		}}
	}
	bridged := func(via, service, tlsName string) *longSession {
		return &longSession{via: via, fetch: func(unit string, timeout time.Duration) ([]byte, bool, string, error) {
			line := "connect " + nodeID + " " + service
			if tlsName != "" {
				line += " " + tlsName
			}
			open := func() (*Ctl, error) {
				c, err := DialCtl(sock, 60*time.Second)
				if err != nil {
					return nil, err
				}
				l, err := c.Cmd(line, 60*time.Second)
				if err == nil && !strings.HasPrefix(l, "Connecting") {
					err = fmt.Errorf("connect answered %q", l)
				}
				if err == nil {
					var g string
					if g, err = c.ReadLine(60 * time.Second); err != nil || !strings.HasPrefix(g, "Receptor Control") {
						err = fmt.Errorf("greeting of the connected service: %q %v", g, err)
					}
				}
				if err != nil {
					c.Close()
					return nil, fmt.Errorf("%s: %w", line, err)
				}
				return c, nil
			}
			c, err := open()
			for t0 := time.Now(); err != nil && time.Since(t0) < 30*time.Second; { // the services come up one after the other
				time.Sleep(200 * time.Millisecond)
				c, err = open()
			}
			if err != nil {
				return nil, false, "", err
			}
			defer c.Close()
			return followResults(c, unit, timeout)
		}}
	}
	tls12 := &tls.Config{RootCAs: pool, ServerName: "localhost", MinVersion: tls.VersionTLS12, MaxVersion: tls.VersionTLS12}
	tls13 := &tls.Config{RootCAs: pool, ServerName: "localhost", MinVersion: tls.VersionTLS13}
	mutual := &tls.Config{RootCAs: pool, ServerName: "localhost", MinVersion: tls.VersionTLS13, Certificates: []tls.Certificate{clientCert}}
	sessions = []*longSession{
		tlsSession("tcp+tls 1.2", pServer, tls12, 0),
		tlsSession("tcp+tls 1.3", pServer, tls13, 0),
		tlsSession("tcp+tls client certificate", pMutual, mutual, 0),
		tlsSession("tcp+tls asked after 12 s idle", pServer, tls13, 12*time.Second),
		tlsSession("tcp+tls client certificate asked after 25 s idle", pMutual, mutual, 25*time.Second),
		bridged("netceptor service", "ctlnc", ""),
		bridged("netceptor service with tls", "ctlnct", "cli"),
	}
	return sb.String(), sessions, nil
}
