package main

// The harness's patience is not the property.  A daemon that is alive, has logged no error and
// has not answered within the time the harness gives it (a start-up or a first ping on a busy
// machine, a submit that was not answered) is not a verdict: the scenario is run again from
// scratch, and if that happens again it is recorded as `inconclusive:daemon-start-timeout` and
// not judged.  A daemon that EXITS during start-up, or that answers wrongly, is a verdict.
// Bounds that are about the property (results must end, the mirror must converge) have generous
// margins and are confirmed by a second run from scratch before they are reported.

import (
	"fmt"
	"strings"

	. "verifharness/lib"
)

func exitedAtStart(what string) bool {
	return strings.Contains(what, "exited during start-up") || strings.Contains(what, "panic")
}

func patienceSig(sig, what string) bool {
	if exitedAtStart(what) {
		return false
	}
	switch sig {
	case "harness-start", "harness-mesh", "harness-submit", "harness-scenario", "remote-submit", "remote-binding", "cancel-error":
		return true
	}
	return false
}

func timingSig(sig string) bool {
	switch sig {
	case "mirror-not-converged", "results-no-end", "results-cancelled-never-ends", "results-error":
		return true
	}
	return false
}

func inconclusive(im *Impl, where, what string) {
	im.Hist("inconclusive:daemon-start-timeout")
	lst, _ := im.Extra["inconclusive"].([]string)
	im.Extra["inconclusive"] = append(lst, where+": "+what)
}

// guarded runs a whole scenario on a result sheet of its own; see the head of this file.
func guarded(sh *shared, name string, run func(s *shared, again string)) {
	for attempt := 0; attempt < 2; attempt++ {
		tmp := &shared{im: NewImpl(sh.im.Property, sh.im.Seed, sh.im.Tier), rc: &CaseFile{}}
		again := ""
		if attempt > 0 {
			again = "-again"
		}
		run(tmp, again)
		nRetry, nOther := 0, 0
		for _, v := range tmp.im.Violations {
			if patienceSig(v.Sig, v.What) || timingSig(v.Sig) {
				nRetry++
			} else {
				nOther++
			}
		}
		if attempt == 0 && nOther == 0 && nRetry > 0 {
			sh.mu.Lock()
			sh.im.Hist("rerun-from-scratch:" + name)
			sh.mu.Unlock()
			continue
		}
		sh.mu.Lock()
		sh.im.Evaluations += tmp.im.Evaluations
		for k := range tmp.im.Distinct {
			if !sh.im.Distinct[k] {
				sh.im.Distinct[k] = true
				sh.im.NonTrivial++
			}
		}
		for k, n := range tmp.im.Histogram {
			sh.im.Histogram[k] += n
		}
		for k, x := range tmp.im.Extra {
			sh.im.Extra[k] = x
		}
		for _, x := range tmp.im.Samples {
			sh.im.Sample(x)
		}
		for _, v := range tmp.im.Violations {
			if patienceSig(v.Sig, v.What) {
				inconclusive(sh.im, "scenario "+name, fmt.Sprintf("[%s] %s", v.Sig, v.What))
				continue
			}
			sh.im.Violations = append(sh.im.Violations, v)
		}
		for i := range tmp.rc.Cases {
			sh.rc.Add(tmp.rc.Cases[i], tmp.rc.Labels[i])
		}
		sh.mu.Unlock()
		return
	}
}
