package main

// A receptor daemon with a configuration written by this harness, and control sessions over the
// unix socket or TCP.

import (
	"bufio"
	"crypto/tls"
	"fmt"
	"net"
	"os"
	"os/exec"
	"path/filepath"
	"strings"
	"syscall"
	"time"
)

type Daemon struct {
	Env                        []string // extra environment
	Bin, ID, Dir, Sock, Config string
	Cmd                        *exec.Cmd
	runs                       int
	done                       chan struct{}
}

func (d *Daemon) DataDir() string { return filepath.Join(d.Dir, "data") }
func (d *Daemon) UnitsDir() string {
	return filepath.Join(d.Dir, "data", d.ID)
}
func (d *Daemon) LogPath() string { return filepath.Join(d.Dir, fmt.Sprintf("log.%d", d.runs)) }

func (d *Daemon) Start() error {
	_ = os.MkdirAll(d.Dir, 0o755)
	cfg := filepath.Join(d.Dir, "receptor.yml")
	if err := os.WriteFile(cfg, []byte(d.Config), 0o600); err != nil {
		return err
	}
	_ = os.Remove(d.Sock)
	d.runs++
	logf, err := os.Create(d.LogPath())
	if err != nil {
		return err
	}
	cmd := exec.Command(d.Bin, "--config", cfg)
	cmd.Stdout, cmd.Stderr = logf, logf
	if len(d.Env) > 0 {
		cmd.Env = append(os.Environ(), d.Env...)
	}
	cmd.SysProcAttr = &syscall.SysProcAttr{Setpgid: true}
	if err := cmd.Start(); err != nil {
		logf.Close()
		return err
	}
	d.Cmd = cmd
	d.done = make(chan struct{})
	done := d.done
	go func() {
		_ = cmd.Wait()
		logf.Close()
		close(done)
	}()
	deadline := time.Now().Add(15 * time.Second)
	for time.Now().Before(deadline) {
		select {
		case <-done:
			b, _ := os.ReadFile(d.LogPath())
			return fmt.Errorf("receptor %s exited during start-up: %s", d.ID, tail(string(b), 600))
		default:
		}
		c, err := net.DialTimeout("unix", d.Sock, 200*time.Millisecond)
		if err == nil {
			c.Close()
			return nil
		}
		time.Sleep(15 * time.Millisecond)
	}
	return fmt.Errorf("control socket %s did not come up", d.Sock)
}

func tail(s string, n int) string {
	if len(s) > n {
		return s[len(s)-n:]
	}
	return s
}

func (d *Daemon) Alive() bool {
	if d.done == nil {
		return false
	}
	select {
	case <-d.done:
		return false
	default:
		return true
	}
}

func (d *Daemon) wait(t time.Duration) bool {
	if d.done == nil {
		return true
	}
	select {
	case <-d.done:
		return true
	case <-time.After(t):
		return false
	}
}

func (d *Daemon) Kill() {
	if d.Cmd != nil && d.Cmd.Process != nil {
		if os.Getenv("GOCOVERDIR") != "" && d.Alive() {
			// coverage diagnostic (tools/coverage.sh): let the daemon write its counters first
			_ = d.Cmd.Process.Signal(syscall.SIGUSR1)
			time.Sleep(300 * time.Millisecond)
		}
		_ = d.Cmd.Process.Kill()
		d.wait(5 * time.Second)
	}
}

func (d *Daemon) Stop() {
	if d.Cmd != nil && d.Cmd.Process != nil && d.Alive() {
		_ = d.Cmd.Process.Signal(syscall.SIGTERM)
		if !d.wait(3 * time.Second) {
			d.Kill()
		}
	}
}

// ---------- control sessions ----------

type Sess struct {
	c        net.Conn
	r        *bufio.Reader
	Greeting string
}

// dialUnix / dialTCP open a session and read the greeting.
func dialNet(network, addr string) (*Sess, error) {
	c, err := net.DialTimeout(network, addr, 3*time.Second)
	if err != nil {
		return nil, err
	}
	return sessOn(c)
}

// sessOn reads the greeting on an established connection
func sessOn(c net.Conn) (*Sess, error) {
	s := &Sess{c: c, r: bufio.NewReaderSize(c, 1<<16)}
	g, err := s.line(5 * time.Second)
	if err != nil {
		c.Close()
		return nil, fmt.Errorf("no greeting: %w", err)
	}
	s.Greeting = g
	return s, nil
}

// dialMesh reaches the control service of node target through the mesh: a session on the unix
// socket of another node, bridged by its `connect` command.
func dialMesh(viaSock, target string) (*Sess, error) {
	s, err := dialNet("unix", viaSock)
	if err != nil {
		return nil, err
	}
	if err := s.send([]byte("connect " + target + " control\n")); err != nil {
		s.close()
		return nil, err
	}
	l, err := s.line(10 * time.Second)
	if err != nil || !strings.HasPrefix(l, "Connecting") {
		s.close()
		return nil, fmt.Errorf("connect to %s failed: %q %v", target, l, err)
	}
	g, err := s.line(10 * time.Second)
	if err != nil || !strings.Contains(g, target) {
		s.close()
		return nil, fmt.Errorf("no greeting from %s through the mesh: %q %v", target, g, err)
	}
	s.Greeting = g
	return s, nil
}

func (s *Sess) line(t time.Duration) (string, error) {
	_ = s.c.SetReadDeadline(time.Now().Add(t))
	l, err := s.r.ReadString('\n')
	return strings.TrimRight(l, "\n"), err
}

// more reads whatever else arrives within t.
func (s *Sess) more(t time.Duration) []byte {
	_ = s.c.SetReadDeadline(time.Now().Add(t))
	var out []byte
	buf := make([]byte, 4096)
	for {
		n, err := s.r.Read(buf)
		out = append(out, buf[:n]...)
		if err != nil {
			return out
		}
	}
}

func (s *Sess) send(b []byte) error {
	_ = s.c.SetWriteDeadline(time.Now().Add(5 * time.Second))
	_, err := s.c.Write(b)
	return err
}

func (s *Sess) closeWrite() {
	switch c := s.c.(type) {
	case *net.UnixConn:
		_ = c.CloseWrite()
	case *net.TCPConn:
		_ = c.CloseWrite()
	case *tls.Conn:
		_ = c.CloseWrite()
	}
}
func (s *Sess) close() { _ = s.c.Close() }

func oneShotUnix(sock, req string) (string, error) {
	s, err := dialNet("unix", sock)
	if err != nil {
		return "", err
	}
	defer s.close()
	if err := s.send([]byte(req + "\n")); err != nil {
		return "", err
	}
	return s.line(10 * time.Second)
}
