package main

// Parameters at and beyond their bounds, systematically:
//   (A) every command word the control service and workceptor register, in plain-text form, with
//       every parameter string of a pool (empty, one blank, several blanks, tabs, blanks+tabs,
//       leading / trailing blanks around a valid argument, too many arguments) — and the same pool
//       as JSON string values of every string field;
//   (B) every numeric parameter (the start position of `work results`, plain and JSON) from
//       {-1, 0, size-1, size, size+1, 2^31-1, 2^31, 2^63-1, 2^63, 1e30, "abc", "1.5", " 7"}
//       relative to the real stdout size, against finished and running units with empty and
//       non-empty stdout;
//   (C) every unit-ID parameter from {known, unknown, empty, blanks} for every unit command, both forms.
// (A) and (C) are ordinary sessions (doCase: liveness, probes, ERROR oracle, model case).  (B)
// needs the stream to be read to its end, so it has its own driver; the requests of one unit run
// at the same time (a results stream needs >= 250 ms before it ends).

import (
	"encoding/json"
	"fmt"
	"os"
	"path/filepath"
	"sort"
	"strconv"
	"strings"
	"sync"
	"time"

	. "verifharness/lib"
)

// ---------- (A) parameter strings ----------

func paramPool(arg string) []string {
	return []string{"", " ", "   ", "\t", " \t \t", " " + arg, "  " + arg, " " + arg + "   ", "\t" + arg,
		" " + arg + "\t", " " + arg + " extra1 extra2 extra3 extra4 extra5"}
}

func (w *world) paramStrings() []sessSpec {
	var out []sessSpec
	i := 0
	conn := func() string {
		i++
		if i%3 == 0 {
			return "tcp"
		}
		return "unix"
	}
	type word struct{ w, arg string }
	words := []word{{"ping", self}, {"traceroute", self}, {"status", "x"}, {"reload", "x"}, {"connect", self + " control"},
		{"work", "list"}, {"work submit", "localhost cat"}, {"work list", phIdx}, {"work status", phIdx}, {"work results", phIdx + " 0"},
		{"work cancel", phIdx}, {"work release", phDisk}, {"work force-release", phDisk}, {"work frobnicate", "x"}, {"nosuchcommand", "x"}}
	for _, wd := range words {
		for _, p := range paramPool(wd.arg) {
			line := wd.w + p
			inv := 0
			if strings.TrimSpace(p) == "" && (wd.w == "ping" || wd.w == "traceroute" || wd.w == "connect") && p == "" {
				inv = 1
			}
			if wd.w == "nosuchcommand" || wd.w == "work frobnicate" {
				inv = 1
			}
			out = append(out, sessSpec{conn: conn(), input: []byte(line + "\n"), lines: []reqLine{{[]byte(line), inv, "bounds-plain"}},
				label: fmt.Sprintf("bounds: plain %q", line)})
		}
	}
	// the same pool as JSON string values
	blanks := []string{"", " ", "   ", " \t ", " " + self, self + "  ", self + " extra"}
	one := func(label string, obj map[string]interface{}) {
		inv := 0
		if surelyInvalid(obj) {
			inv = 1
		}
		raw := jsonLine(obj)
		out = append(out, sessSpec{conn: conn(), input: append(raw, '\n'), lines: []reqLine{{raw, inv, "bounds-json"}}, label: "bounds: json " + label})
	}
	for _, v := range blanks {
		one(fmt.Sprintf("ping target=%q", v), map[string]interface{}{"command": "ping", "target": v})
		one(fmt.Sprintf("traceroute target=%q", v), map[string]interface{}{"command": "traceroute", "target": v})
		one(fmt.Sprintf("connect node=%q", v), map[string]interface{}{"command": "connect", "node": v, "service": "control"})
		one(fmt.Sprintf("connect service=%q", v), map[string]interface{}{"command": "connect", "node": self, "service": v})
		one(fmt.Sprintf("connect tls=%q", v), map[string]interface{}{"command": "connect", "node": self, "service": "control", "tls": v})
		one(fmt.Sprintf("status requested_fields=[%q]", v), map[string]interface{}{"command": "status", "requested_fields": []interface{}{v}})
		one(fmt.Sprintf("work subcommand=%q", v), map[string]interface{}{"command": "work", "subcommand": v})
		one(fmt.Sprintf("work submit node=%q", v), map[string]interface{}{"command": "work", "subcommand": "submit", "node": v, "worktype": "cat"})
		one(fmt.Sprintf("work submit worktype=%q", v), map[string]interface{}{"command": "work", "subcommand": "submit", "node": "localhost", "worktype": v})
		one(fmt.Sprintf("command=%q", v), map[string]interface{}{"command": v, "target": self})
	}
	for _, ttl := range []string{"0", "-1", "0s", "-1s", "1e30s", "9223372036854775807ns", "9223372036854775808ns", " 7s", "7s ", "1.5", "abc", ""} {
		one(fmt.Sprintf("work submit remote ttl=%q", ttl), map[string]interface{}{"command": "work", "subcommand": "submit", "node": "ghost", "worktype": "cat", "ttl": ttl})
	}
	// (C) unit IDs
	ids := []string{phIdx, phDisk, "nosuchunit", "", " ", "   ", "\t", " " + phIdx, phIdx + " "}
	for _, sub := range []string{"list", "status", "cancel", "release", "force-release", "results"} {
		for _, id := range ids {
			m := map[string]interface{}{"command": "work", "subcommand": sub, "unitid": id}
			if sub == "results" {
				m["startpos"] = 0
			}
			one(fmt.Sprintf("work %s unitid=%q", sub, id), m)
			line := "work " + sub + " " + id
			if sub == "results" {
				line += " 0"
			}
			out = append(out, sessSpec{conn: conn(), input: []byte(line + "\n"), lines: []reqLine{{[]byte(line), 0, "bounds-plain"}},
				label: fmt.Sprintf("bounds: plain %q", line)})
		}
	}
	return out
}

// ---------- (B) start positions ----------

type resUnit struct {
	id       string
	what     string
	stdout   []byte
	finished bool
}

// a finished unit fabricated on disk (record says Pid 0) with the given stdout, brought into the index
func (w *world) makeFinishedWithOutput(out []byte) string {
	w.mu.Lock()
	w.seq++
	id := fmt.Sprintf("fin%05d", w.seq)
	w.mu.Unlock()
	p := filepath.Join(w.d.UnitsDir(), id)
	Must(os.MkdirAll(p, 0o700))
	st := fmt.Sprintf(`{"State":2,"Detail":"exit status 0","StdoutSize":%d,"WorkType":"cat","ExtraData":{"Pid":0,"Params":""}}`+"\n", len(out))
	Must(os.WriteFile(filepath.Join(p, "status"), []byte(st), 0o600))
	Must(os.WriteFile(filepath.Join(p, "stdout"), out, 0o600))
	s, err := dialNet("unix", w.d.Sock)
	if err == nil {
		_ = s.send([]byte("work status " + id + "\n"))
		_, _ = s.line(3 * time.Second)
		s.close()
	}
	return id
}

// a running unit of work type wt; waits until it is reported Running with want bytes of stdout
func (w *world) makeRunning(wt string, want int) string {
	s, err := dialNet("unix", w.d.Sock)
	if err != nil {
		return ""
	}
	defer s.close()
	_ = s.send([]byte("work submit localhost " + wt + "\n"))
	l, err := s.line(5 * time.Second)
	i := strings.Index(l, "with ID ")
	if err != nil || i < 0 {
		return ""
	}
	id := strings.TrimSuffix(strings.Fields(l[i+8:])[0], ".")
	s.closeWrite()
	_, _ = s.line(5 * time.Second)
	deadline := time.Now().Add(10 * time.Second)
	for time.Now().Before(deadline) {
		c, err := dialNet("unix", w.d.Sock)
		if err != nil {
			return ""
		}
		_ = c.send([]byte("work status " + id + "\n"))
		r, _ := c.line(3 * time.Second)
		c.close()
		var st struct {
			State      int
			StdoutSize int64
		}
		_ = json.Unmarshal([]byte(r), &st)
		if st.State == 1 && st.StdoutSize >= int64(want) {
			return id
		}
		time.Sleep(20 * time.Millisecond)
	}
	return ""
}

type posReq struct {
	line    string
	form    string
	desc    string
	isInt   bool  // the start position is an integer the command accepts
	pos     int64 // its value when it fits int64 and is in [0, 2^62]; else -1 (nothing can be there)
	invalid bool  // surely not a valid request
}

func posRequests(id string, size int) []posReq {
	var out []posReq
	plain := func(desc, p string, isInt bool, pos int64, invalid bool) {
		out = append(out, posReq{"work results " + id + " " + p, "plain", desc, isInt, pos, invalid})
	}
	jsn := func(desc, p string, isInt bool, pos int64, invalid bool) {
		out = append(out, posReq{`{"command":"work","subcommand":"results","unitid":"` + id + `","startpos":` + p + `}`, "json", desc, isInt, pos, invalid})
	}
	type iv struct {
		desc string
		v    string
		pos  int64
		fits bool // fits int64
	}
	ints := []iv{{"-1", "-1", -1, true}, {"0", "0", 0, true}, {"size-1", strconv.Itoa(size - 1), int64(size - 1), true}, {"size", strconv.Itoa(size), int64(size), true},
		{"size+1", strconv.Itoa(size + 1), int64(size + 1), true}, {"size+4096", strconv.Itoa(size + 4096), int64(size + 4096), true},
		{"2^31-1", "2147483647", 2147483647, true}, {"2^31", "2147483648", 2147483648, true},
		{"2^63-1", "9223372036854775807", -1, true}, {"2^63", "9223372036854775808", -1, false}, {"-2^63", "-9223372036854775808", -1, true}}
	for _, x := range ints {
		p := x.pos
		if p < 0 {
			p = -1
		}
		// plain text: strconv.ParseInt refuses what does not fit; JSON: any number converts
		plain(x.desc, x.v, x.fits, p, !x.fits)
		jsn(x.desc, x.v, true, p, false)
	}
	for _, s := range []string{"1e30", "abc", "1.5", "+3", "0x10", "07", ""} {
		ok := s == "+3" || s == "07"
		pos := int64(-1)
		if s == "+3" {
			pos = 3
		} else if s == "07" {
			pos = 7
		}
		if s != "" {
			plain("text "+s, s, ok, pos, !ok)
		}
		jsn("string "+s, `"`+s+`"`, false, -1, true)
	}
	plain("blank before the number", " 7", false, -1, true)
	plain("blank after the number", "7 ", false, -1, true)
	jsn("string with blank", `" 7"`, false, -1, true)
	jsn("1e30", "1e30", true, -1, false)
	jsn("1.5", "1.5", true, 1, false)
	jsn("-0.5", "-0.5", true, 0, false)
	jsn("null", "null", false, -1, true)
	jsn("true", "true", false, -1, true)
	jsn("[0]", "[0]", false, -1, true)
	return out
}

type posResult struct {
	req     posReq
	class   int
	body    []byte
	ended   bool
	err     string
	elapsed time.Duration
}

func (w *world) runPos(u resUnit, rq posReq, conn string) posResult {
	res := posResult{req: rq, class: 9}
	network, addr := "unix", w.d.Sock
	if conn == "tcp" {
		network, addr = "tcp", fmt.Sprintf("127.0.0.1:%d", w.tcp)
	}
	s, err := dialNet(network, addr)
	if err != nil {
		res.err = "dial: " + err.Error()
		return res
	}
	defer s.close()
	t0 := time.Now()
	_ = s.send([]byte(rq.line + "\n"))
	l, err := s.line(5 * time.Second)
	if err != nil {
		res.err = "no reply: " + err.Error()
		return res
	}
	res.class = classify(l)
	if res.class == 2 {
		wait := 900 * time.Millisecond // a running unit's stream stays open
		if u.finished {
			wait = 4 * time.Second
		}
		_ = s.c.SetReadDeadline(time.Now().Add(wait))
		buf := make([]byte, 65536)
		for {
			n, err := s.r.Read(buf)
			res.body = append(res.body, buf[:n]...)
			if err != nil {
				res.ended = err.Error() == "EOF"
				break
			}
		}
	}
	res.elapsed = time.Since(t0)
	return res
}

func (w *world) startPositions() {
	if w.fatal != "" {
		return
	}
	text := []byte("line one of the output\nline two\n0123456789abcdef\n")
	units := []resUnit{
		{w.makeFinishedWithOutput(text), "finished unit with stdout", text, true},
		{w.makeFinishedWithOutput(nil), "finished unit with empty stdout", nil, true},
	}
	var wg sync.WaitGroup
	var run1, run2 string
	wg.Add(2)
	go func() { defer wg.Done(); run1 = w.makeRunning("sleeper", 7) }()
	go func() { defer wg.Done(); run2 = w.makeRunning("quiet", 0) }()
	wg.Wait()
	if run1 != "" {
		units = append(units, resUnit{run1, "running unit with stdout", []byte("C08OUT\n"), false})
	}
	if run2 != "" {
		units = append(units, resUnit{run2, "running unit with empty stdout", nil, false})
	}
	if run1 == "" || run2 == "" {
		w.im.Violate("could not start a running unit for the start-position cases", "harness-stuck", nil)
	}
	for _, u := range units {
		if w.fatal != "" {
			break
		}
		reqs := posRequests(u.id, len(u.stdout))
		before, _, err := w.listUnits()
		if err != nil {
			w.afterInput("preparing the start-position cases", nil)
			continue
		}
		results := make([]posResult, len(reqs))
		var g sync.WaitGroup
		for i := range reqs {
			g.Add(1)
			go func(i int) {
				defer g.Done()
				results[i] = w.runPos(u, reqs[i], []string{"unix", "tcp"}[i%2])
			}(i)
		}
		g.Wait()
		rec := map[string]interface{}{"what": "work results with start positions around the stdout size", "unit": u.what, "stdout_size": len(u.stdout)}
		after := w.afterInput(fmt.Sprintf("work results on a %s (%d bytes) with %d start positions at the same time", u.what, len(u.stdout), len(reqs)), rec)
		if after == nil {
			// crashed or wedged: find the request (the daemon has been restarted; the fixtures are
			// on disk and indexed again at start-up, a running unit is now a finished one)
			for i := range reqs {
				if w.fatal != "" {
					break
				}
				r := w.runPos(resUnit{u.id, u.what, u.stdout, true}, reqs[i], "tcp")
				time.Sleep(350 * time.Millisecond)
				rec1 := map[string]interface{}{"request": reqs[i].line, "unit": u.what, "stdout_size": len(u.stdout), "reply_class": r.class}
				if w.afterInput(fmt.Sprintf("%q on a %s (stdout %d bytes)", reqs[i].line, u.what, len(u.stdout)), rec1) == nil {
					break
				}
			}
			continue
		}
		for i, r := range results {
			rq := reqs[i]
			w.im.Hist("startpos:" + rq.form + ":" + u.what)
			w.im.Count(fmt.Sprintf("startpos %s %s", u.what, rq.line), true)
			rec1 := map[string]interface{}{"request": rq.line, "unit": u.what, "stdout_size": len(u.stdout), "reply_class": r.class, "bytes": len(r.body), "ended": r.ended, "error": r.err}
			w.im.Sample(rec1)
			if r.err != "" {
				w.im.Violate(fmt.Sprintf("%q on a %s: %s", rq.line, u.what, r.err), "same-session-stalled", rec1)
				continue
			}
			if rq.invalid && r.class != 1 {
				w.im.Violate(fmt.Sprintf("%q (start position is not an integer) was not answered with an ERROR line (class %d)", rq.line, r.class), "invalid-not-error:startpos", rec1)
			}
			if r.class == 2 {
				want := []byte{}
				if rq.pos >= 0 && rq.pos <= int64(len(u.stdout)) {
					want = u.stdout[rq.pos:]
				}
				if string(r.body) != string(want) {
					w.im.Violate(fmt.Sprintf("%q on a %s with %d bytes of stdout streamed %d bytes, expected %d", rq.line, u.what, len(u.stdout), len(r.body), len(want)),
						"results-content:startpos", rec1)
				}
				if u.finished && !r.ended {
					w.im.Violate(fmt.Sprintf("%q on a %s: the stream did not end within 4 s", rq.line, u.what), "results-not-ended:startpos", rec1)
				}
			}
			// model case: reply class only
			rep := []int{r.class}
			w.mu.Lock()
			diskNow := []string{}
			for id := range w.disk {
				diskNow = append(diskNow, id)
			}
			var frgn [][2]string
			for rel, base := range w.foreign {
				frgn = append(frgn, [2]string{rel, base})
			}
			w.mu.Unlock()
			sort.Strings(diskNow)
			sort.Slice(frgn, func(a, b int) bool { return frgn[a][0] < frgn[b][0] })
			sp := sessSpec{conn: []string{"unix", "tcp"}[i%2], input: []byte(rq.line + "\n"), label: fmt.Sprintf("bounds: start position %s (%s) on a %s", rq.desc, rq.form, u.what)}
			w.addCase(sp, before, diskNow, rep, "", after, frgn)
		}
	}
	for _, u := range units {
		w.release(u.id)
	}
}
