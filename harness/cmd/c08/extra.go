package main

// Listener kinds, reload failures, the payload-trace variant of stdin reading, results streams
// whose unit goes away — code on the property's path that the plain unix/TCP sessions do not reach.

import (
	"crypto/rand"
	"crypto/rsa"
	"crypto/tls"
	"encoding/json"
	"fmt"
	"net"
	"os"
	"path/filepath"
	"sort"
	"strings"
	"sync"
	"time"

	. "verifharness/lib"

	"github.com/ansible/receptor/pkg/certificates"
)

func (w *world) makeCerts() {
	osw := &certificates.OsWrapper{}
	ca, err := certificates.CreateCA(&certificates.CertOptions{CommonName: "c08 CA", Bits: 2048}, &certificates.RsaWrapper{})
	Must(err)
	w.caFile = filepath.Join(w.dir, "ca.crt")
	Must(certificates.SaveToPEMFile(w.caFile, []interface{}{ca.Certificate}, osw))
	req, key, err := certificates.CreateCertReqWithKey(&certificates.CertOptions{CommonName: self, Bits: 2048,
		CertNames: certificates.CertNames{NodeIDs: []string{self}, DNSNames: []string{self, "localhost"}, IPAddresses: []net.IP{net.ParseIP("127.0.0.1")}}})
	Must(err)
	crt, err := certificates.SignCertReq(req, ca, &certificates.CertOptions{})
	Must(err)
	w.crtFile, w.keyFile = filepath.Join(w.dir, "n.crt"), filepath.Join(w.dir, "n.key")
	Must(certificates.SaveToPEMFile(w.crtFile, []interface{}{crt}, osw))
	Must(certificates.SaveToPEMFile(w.keyFile, []interface{}{key}, osw))
}

// spreadConn: sessions asked for over TCP are spread over every kind of non-unix listener
func (w *world) spreadConn(conn string) string {
	if conn != "tcp" {
		return conn
	}
	w.mu.Lock()
	w.connSeq++
	n := w.connSeq
	w.mu.Unlock()
	switch {
	case n%23 == 0:
		return "mesh-tls"
	case n%7 == 0:
		return "mesh"
	case n%4 == 0:
		return "tls"
	}
	return "tcp"
}

// dialKind opens a control session over: unix socket | TCP | TCP with TLS | a mesh stream to the
// node's own control service (through its `connect` command) | the same with TLS on the stream
func (w *world) dialKind(kind string) (*Sess, error) {
	switch kind {
	case "unix", "":
		return dialNet("unix", w.d.Sock)
	case "tcp":
		return dialNet("tcp", fmt.Sprintf("127.0.0.1:%d", w.tcp))
	case "tls":
		d := &net.Dialer{Timeout: 3 * time.Second}
		c, err := tls.DialWithDialer(d, "tcp", fmt.Sprintf("127.0.0.1:%d", w.tlsPort), &tls.Config{InsecureSkipVerify: true}) //nolint:gosec
		if err != nil {
			return nil, err
		}
		return sessOn(c)
	case "mesh", "mesh-tls":
		s, err := dialNet("unix", w.d.Sock)
		if err != nil {
			return nil, err
		}
		line := "connect " + self + " control\n"
		if kind == "mesh-tls" {
			line = "connect " + self + " control2 cli\n"
		}
		_ = s.send([]byte(line))
		l, err := s.line(5 * time.Second)
		if err != nil || !strings.HasPrefix(l, "Connecting") {
			s.close()
			return nil, fmt.Errorf("%s: %q %v", strings.TrimSpace(line), l, err)
		}
		g, err := s.line(5 * time.Second)
		if err != nil || !strings.Contains(g, self) {
			s.close()
			return nil, fmt.Errorf("no greeting through the mesh: %q %v", g, err)
		}
		return s, nil
	}
	return nil, fmt.Errorf("unknown connection kind %q", kind)
}

// hostile clients of the TLS listener
func (w *world) tlsAbuse(kind string) {
	c, err := net.DialTimeout("tcp", fmt.Sprintf("127.0.0.1:%d", w.tlsPort), 2*time.Second)
	if err != nil {
		return
	}
	defer c.Close()
	switch kind {
	case "tls-garbage":
		_, _ = c.Write([]byte("ping " + self + "\nGET / HTTP/1.1\r\n\r\n\x16\x03\x01\xff\xff" + strings.Repeat("\x00", 600)))
		_ = c.SetReadDeadline(time.Now().Add(300 * time.Millisecond))
		buf := make([]byte, 256)
		_, _ = c.Read(buf)
	case "tls-half-hello":
		_, _ = c.Write([]byte{0x16, 0x03, 0x01, 0x02, 0x00, 0x01, 0x00, 0x01, 0xfc, 0x03, 0x03})
		time.Sleep(100 * time.Millisecond)
	case "tls-silent":
		// says nothing: the handshake goroutine waits for its 10 s deadline; everybody else must
		// be served meanwhile (the probe follows while this connection is still open)
		if after := w.afterInput("a silent client on the TLS listener", map[string]interface{}{"what": "tls-silent"}); after == nil {
			return
		}
	}
}

// a remote unit whose target does not exist: it has no stdout file
func (w *world) makeRemotePending() string {
	s, err := dialNet("unix", w.d.Sock)
	if err != nil {
		return "nounit"
	}
	defer s.close()
	_ = s.send([]byte("work submit ghost cat\n"))
	l, err := s.line(3 * time.Second)
	i := strings.Index(l, "with ID ")
	if err != nil || i < 0 {
		return "nounit"
	}
	id := strings.TrimSuffix(strings.Fields(l[i+8:])[0], ".")
	s.closeWrite()
	_, _ = s.line(5 * time.Second)
	return id
}

// reload with a configuration file that cannot be reloaded: every variant must be answered (an
// object with Success false), leave the daemon serving, and the original file must reload again
func (w *world) reloadVariants() {
	if w.fatal != "" {
		return
	}
	cfgPath := filepath.Join(w.d.Dir, "receptor.yml")
	orig, err := os.ReadFile(cfgPath)
	if err != nil {
		return
	}
	variants := []struct{ name, content string }{
		{"broken-yaml", string(orig) + "- work-command: [unclosed\n"},
		{"not-a-list", "node: {id: x}\n"},
		{"empty-file", ""},
		{"non-reloadable-item-added", string(orig) + "- work-command:\n    worktype: extra\n    command: cat\n"},
		{"non-reloadable-item-removed", strings.Replace(string(orig), "- work-command:\n    worktype: quiet\n    command: sleep\n    params: \"300\"\n", "", 1)},
		{"non-reloadable-item-modified", strings.Replace(string(orig), "command: cat", "command: tac", 1)},
		{"unknown-action", string(orig) + "- no-such-action:\n    x: 1\n"},
		{"backend-added", string(orig) + fmt.Sprintf("- tcp-listener:\n    port: %d\n    bindaddr: 127.0.0.1\n", freePort())},
		{"original", string(orig)},
	}
	for i, v := range variants {
		if w.fatal != "" {
			break
		}
		_ = os.WriteFile(cfgPath, []byte(v.content), 0o600)
		line := "reload"
		if i%2 == 1 {
			line = `{"command":"reload"}`
		}
		w.im.Hist("reload:" + v.name)
		w.doCase(sessSpec{conn: []string{"unix", "tcp"}[i%2], input: []byte(line + "\n"), lines: []reqLine{{[]byte(line), 0, "reload-variant"}},
			label: "reload with configuration file variant " + v.name}, true)
	}
	_ = os.WriteFile(cfgPath, orig, 0o600)
}

// RECEPTOR_PAYLOAD_TRACE_LEVEL switches `work submit` to another way of reading stdin from the
// connection (line-wise, buffered in memory, logged): a second daemon runs with it
func (w *world) payloadTrace() {
	if w.fatal != "" {
		return
	}
	p := &Daemon{Bin: w.c.Bin, ID: "c08p", Dir: filepath.Join(w.dir, "p"), Env: []string{"RECEPTOR_PAYLOAD_TRACE_LEVEL=2"}}
	p.Sock = filepath.Join(p.Dir, "ctl.sock")
	port := freePort()
	p.Config = fmt.Sprintf("---\n- node:\n    id: c08p\n    datadir: %s\n- log-level: info\n- local-only:\n- work-command:\n    worktype: cat\n    command: cat\n- control-service:\n    service: control\n    filename: %s\n    tcplisten: 127.0.0.1:%d\n",
		p.DataDir(), p.Sock, port)
	if err := p.Start(); err != nil {
		w.im.Violate("a daemon with RECEPTOR_PAYLOAD_TRACE_LEVEL set did not start: "+err.Error(), "harness-stuck", nil)
		return
	}
	defer func() { p.Kill(); killTree(p.Dir) }()
	stdins := []struct {
		name string
		data []byte
		how  string
	}{
		{"lines", []byte("one\ntwo\nthree\n"), "eof"},
		{"no-final-newline", []byte("one\ntwo"), "eof"},
		{"empty", nil, "eof"},
		{"binary", []byte{0, 1, 2, 0xff, 0xfe, '\n', 0x80, '\r', '\n', 0}, "eof"},
		{"256KiB-one-line", []byte(strings.Repeat("x", 1<<18)), "eof"},
		// the trace mode appends line by line to one string (quadratic): 64 KiB in 4096 lines is
		// answered at once, 1 MiB in 65536 lines takes longer than 10 s (reported, not part of the check)
		{"64KiB-many-lines", []byte(strings.Repeat("abcdefghijklmno\n", 1<<12)), "eof"},
		{"abrupt-mid-line", []byte("partial line without end"), "close"},
		{"reset-mid-stream", []byte(strings.Repeat("y\n", 5000)), "reset"},
	}
	for i, st := range stdins {
		network, addr := "unix", p.Sock
		if i%2 == 1 || st.how == "reset" {
			network, addr = "tcp", fmt.Sprintf("127.0.0.1:%d", port)
		}
		rec := map[string]interface{}{"what": "work submit stdin with payload tracing: " + st.name, "connection": network}
		w.im.Hist("payload-trace:" + st.name)
		w.im.Count("payload-trace "+st.name, true)
		func() {
			s, err := dialNet(network, addr)
			if err != nil {
				w.im.Violate("payload-trace daemon does not accept sessions: "+err.Error(), "wedged:payload-trace", rec)
				return
			}
			defer s.close()
			_ = s.send([]byte("work submit localhost cat\n"))
			l, err := s.line(3 * time.Second)
			if err != nil || !strings.HasPrefix(l, "Work unit created") {
				w.im.Violate(fmt.Sprintf("work submit on the payload-trace daemon: %q %v", l, err), "same-session-stalled", rec)
				return
			}
			for off := 0; off < len(st.data); off += 65536 {
				end := off + 65536
				if end > len(st.data) {
					end = len(st.data)
				}
				if s.send(st.data[off:end]) != nil {
					break
				}
			}
			switch st.how {
			case "eof":
				s.closeWrite()
				if fin, err := s.line(10 * time.Second); err != nil || !strings.HasPrefix(fin, "{") {
					w.im.Violate(fmt.Sprintf("no final reply to work submit (%s) with payload tracing: %q %v", st.name, fin, err), "same-session-stalled", rec)
				}
			case "reset":
				if tc, ok := s.c.(*net.TCPConn); ok {
					_ = tc.SetLinger(0)
				}
			}
		}()
		// liveness + fresh session on that daemon
		time.Sleep(30 * time.Millisecond)
		if !p.Alive() {
			w.im.Violate("the payload-trace daemon died after stdin "+st.name, "daemon-crashed:payload-trace", rec)
			return
		}
		t0 := time.Now()
		ps, err := dialNet("tcp", fmt.Sprintf("127.0.0.1:%d", port))
		if err == nil {
			_ = ps.send([]byte("work list\n"))
			_, err = ps.line(2 * time.Second)
			ps.close()
		}
		if err != nil || time.Since(t0) > 2*time.Second {
			w.im.Violate(fmt.Sprintf("work list on a fresh session of the payload-trace daemon not answered within 2 s after stdin %s: %v", st.name, err), "wedged:payload-trace", rec)
			return
		}
	}
}

// results streams of a running unit that is released (and of one that is cancelled) under them:
// every stream must end, nothing may crash
func (w *world) streamsVsRelease() {
	ids := []string{w.makeRunning("sleeper", 7), w.makeRunning("quiet", 0)}
	var wg sync.WaitGroup
	var mu sync.Mutex
	ended := map[string]bool{}
	for i, id := range ids {
		if id == "" {
			continue
		}
		for k := 0; k < 2; k++ {
			wg.Add(1)
			go func(i, k int, id string) {
				defer wg.Done()
				s, err := w.dialKind([]string{"unix", "tcp", "tls", "mesh"}[(2*i+k)%4])
				if err != nil {
					return
				}
				defer s.close()
				_ = s.send([]byte(fmt.Sprintf(`{"command":"work","subcommand":"results","unitid":"%s","startpos":%d}`+"\n", id, k*3)))
				if _, err := s.line(3 * time.Second); err != nil {
					return
				}
				_ = s.c.SetReadDeadline(time.Now().Add(9 * time.Second))
				buf := make([]byte, 4096)
				for {
					if _, err := s.r.Read(buf); err != nil {
						mu.Lock()
						ended[fmt.Sprintf("%s/%d", id, k)] = err.Error() == "EOF" || strings.Contains(err.Error(), "reset") || strings.Contains(err.Error(), "closed")
						mu.Unlock()
						return
					}
				}
			}(i, k, id)
		}
	}
	time.Sleep(400 * time.Millisecond)
	for i, id := range ids {
		if id == "" {
			continue
		}
		s, err := dialNet("unix", w.d.Sock)
		if err != nil {
			continue
		}
		sub := "release"
		if i == 1 {
			sub = "force-release"
		}
		_ = s.send([]byte("work " + sub + " " + id + "\n"))
		_, _ = s.line(5 * time.Second)
		s.close()
	}
	wg.Wait()
	n := 0
	for _, ok := range ended {
		if ok {
			n++
		}
	}
	w.mu.Lock()
	w.im.Hist(fmt.Sprintf("streams-vs-release:%d-of-%d-streams-ended", n, len(ended)))
	w.im.Count(fmt.Sprintf("streams-vs-release %d", w.im.Evaluations), true)
	if n < len(ended) {
		w.im.Violate(fmt.Sprintf("%d of %d results streams did not end within 9 s after their unit was released", len(ended)-n, len(ended)),
			"results-not-ended:released-unit", map[string]interface{}{"ended": ended})
	}
	w.mu.Unlock()
}

// A node that VERIFIES signatures (verification key + a verifysignature work type), reached over
// TCP and over a mesh stream, fed raw `signature` strings of every structure (rawsig.go) on every
// signature-carrying command: the node stays alive, the reply is an ERROR line, nothing happens.
func (w *world) rawSignaturePhase() {
	if w.fatal != "" {
		return
	}
	key, err := rsa.GenerateKey(rand.Reader, 2048)
	Must(err)
	pubF := filepath.Join(w.dir, "verify.pub")
	Must(certificates.SaveToPEMFile(pubF, []interface{}{&key.PublicKey}, &certificates.OsWrapper{}))
	v := &Daemon{Bin: w.c.Bin, ID: "c08v", Dir: filepath.Join(w.dir, "v")}
	v.Sock = filepath.Join(v.Dir, "ctl.sock")
	port := freePort()
	v.Config = fmt.Sprintf("---\n- node:\n    id: c08v\n    datadir: %s\n- log-level: info\n- local-only:\n- work-verification:\n    publickey: %s\n- work-command:\n    worktype: vcat\n    command: cat\n    verifysignature: true\n- control-service:\n    service: control\n    filename: %s\n    tcplisten: 127.0.0.1:%d\n",
		v.DataDir(), pubF, v.Sock, port)
	if err := v.Start(); err != nil {
		w.im.Violate("the verifying node did not start: "+err.Error(), "harness-stuck", nil)
		return
	}
	defer func() { v.Kill(); killTree(v.Dir) }()
	// a finished unit of the verifying type (the unix socket needs no token)
	mkUnit := func() string {
		s, err := dialNet("unix", v.Sock)
		if err != nil {
			return ""
		}
		defer s.close()
		_ = s.send([]byte("work submit localhost vcat\n"))
		l, err := s.line(5 * time.Second)
		i := strings.Index(l, "with ID ")
		if err != nil || i < 0 {
			return ""
		}
		id := strings.TrimSuffix(strings.Fields(l[i+8:])[0], ".")
		_ = s.send([]byte("x\n"))
		s.closeWrite()
		_, _ = s.line(5 * time.Second)
		return id
	}
	unit := mkUnit()
	list := func() string {
		s, err := dialNet("unix", v.Sock)
		if err != nil {
			return "?"
		}
		defer s.close()
		_ = s.send([]byte("work list\n"))
		_ = s.c.SetReadDeadline(time.Now().Add(2 * time.Second))
		l, err := s.r.ReadString('\n')
		if err != nil {
			return "?"
		}
		var m map[string]struct{ State int }
		_ = json.Unmarshal([]byte(l), &m)
		ids := []string{}
		for k, u := range m {
			ids = append(ids, fmt.Sprintf("%s:%d", k, u.State))
		}
		sort.Strings(ids)
		return strings.Join(ids, ",")
	}
	cmds := []string{"submit", "cancel", "release", "force-release", "results"}
	for i := 0; i < 200 && !strings.Contains(list(), unit+":2"); i++ {
		time.Sleep(25 * time.Millisecond) // the fixture unit finishes on its own
	}
	before := list()
	for i, rs := range rawSignatures(w.c.Rng, "c08v", w.c.Thorough()) {
		cmd := cmds[i%len(cmds)]
		req := map[string]interface{}{"command": "work", "subcommand": cmd, "signature": rs.tok}
		switch cmd {
		case "submit":
			req["node"], req["worktype"] = "localhost", "vcat"
		case "results":
			req["unitid"], req["startpos"] = unit, 0
		default:
			req["unitid"] = unit
		}
		jb, _ := json.Marshal(req)
		rec := map[string]interface{}{"what": "raw signature " + rs.name, "command": cmd, "signature": clip(rs.tok, 120)}
		w.im.Hist("raw-signature:" + cmd)
		w.im.Count(fmt.Sprintf("raw-signature %d %s", i, rs.name), true)
		var s *Sess
		var err error
		if i%2 == 0 {
			s, err = dialNet("tcp", fmt.Sprintf("127.0.0.1:%d", port))
		} else {
			s, err = dialNet("unix", v.Sock)
			if err == nil {
				_ = s.send([]byte("connect c08v control\n"))
				_, _ = s.line(5 * time.Second)
				_, err = s.line(5 * time.Second)
			}
		}
		reply := ""
		if err == nil {
			_ = s.send(append(jb, '\n'))
			reply, err = s.line(5 * time.Second)
			s.close()
		}
		if err != nil {
			v.wait(500 * time.Millisecond)
		}
		if !v.Alive() {
			lg, _ := os.ReadFile(v.LogPath())
			what := tail(string(lg), 300)
			if j := strings.Index(string(lg), "panic: "); j >= 0 {
				what = firstLine(string(lg)[j:])
			}
			w.im.Violate(fmt.Sprintf("the verifying node died on work %s with signature %s (%q): %s", cmd, rs.name, clip(rs.tok, 60), what), "daemon-crashed:raw-signature", rec)
			return
		}
		if err != nil {
			w.im.Violate(fmt.Sprintf("work %s with signature %s was not answered: %v", cmd, rs.name, err), "same-session-stalled", rec)
			continue
		}
		if !strings.HasPrefix(reply, "ERROR") {
			w.im.Violate(fmt.Sprintf("work %s with the raw signature %s (%q) over a network connection was not answered with ERROR: %q", cmd, rs.name, clip(rs.tok, 60), reply), "invalid-not-error:raw-signature", rec)
		}
		if after := list(); after != before {
			w.im.Violate(fmt.Sprintf("work %s with the raw signature %s took effect: units %s -> %s", cmd, rs.name, before, after), "invalid-changed-state:raw-signature", rec)
			before = after
		}
	}
}
