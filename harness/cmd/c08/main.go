package main

// C08 — no control-service input can crash or wedge a node; sessions are isolated.
//
// One real receptor daemon (unix + TCP control service, work type `cat`), driven with
//   * the systematic product: every command (ping, status, connect, traceroute, reload, work +
//     every subcommand, unknown ones) x every field absent / of every JSON type x a set of string
//     values (existing, disk-only, foreign-path, path-character and absent unit IDs ...), in JSON
//     and in plain-text form;
//   * random byte streams (CR/LF/'{'/quotes sprinkled in), several lines per session;
//   * unterminated last lines with a half-close, over-long (1 MiB) lines, abrupt disconnects in
//     the middle of a line / of a work submit / of a results stream / of a connect bridge;
//   * N concurrent sessions.
// Oracles (model-independent): the process is alive; a request line that is surely not a valid
// command (by the documented shape of the commands) is answered first with a line starting with
// ERROR and leaves the unit list unchanged; a sentinel `ping` at the end of the SAME session and
// `ping` + `work list` on a FRESH session are answered within 2 s after every input.
// Correspondence: Model/Ctl.v [session] (repaired tree) gives the same class for every reply line
// (JSON object / ERROR / stream) and the same unit list afterwards.

import (
	"bytes"
	"encoding/json"
	"fmt"
	"net"
	"os"
	"path/filepath"
	"sort"
	"strings"
	"sync"
	"time"

	. "verifharness/lib"
)

func main() { Main("C08", runC08, nil) }

const self = "c08n"

type world struct {
	c        *Ctx
	im       *Impl
	cf       *CaseFile
	d        *Daemon
	tcp      int
	tlsPort  int
	caFile   string
	crtFile  string
	keyFile  string
	connSeq  int
	dir      string
	disk     map[string]bool   // disk-only unit IDs created and (as far as known) not loaded yet
	foreign  map[string]string // relative path -> base name
	uIdx     string            // a unit that is in the index
	seq      int
	restarts int
	mu       sync.Mutex
	fatal    string
}

func freePort() int {
	l, err := net.Listen("tcp", "127.0.0.1:0")
	Must(err)
	defer l.Close()
	return l.Addr().(*net.TCPAddr).Port
}

func (w *world) config() string {
	return fmt.Sprintf(`---
- node:
    id: %s
    datadir: %s
- log-level: info
- local-only:
- work-command:
    worktype: cat
    command: cat
- work-command:
    worktype: sleeper
    command: sh
    params: '-c "echo C08OUT; exec sleep 300"'
- work-command:
    worktype: quiet
    command: sleep
    params: "300"
- tls-server:
    name: srv
    cert: %s
    key: %s
- tls-client:
    name: cli
    cert: %s
    key: %s
    rootcas: %s
- control-service:
    service: control
    filename: %s
    tcplisten: 127.0.0.1:%d
- control-service:
    service: control2
    tls: srv
    tcplisten: 127.0.0.1:%d
    tcptls: srv
`, self, w.d.DataDir(), w.crtFile, w.keyFile, w.crtFile, w.keyFile, w.caFile, w.d.Sock, w.tcp, w.tlsPort)
}

func setup(c *Ctx, im *Impl, cf *CaseFile) *world {
	dir, err := os.MkdirTemp("", "vh-c08-")
	Must(err)
	w := &world{c: c, im: im, cf: cf, dir: dir, tcp: freePort(), tlsPort: freePort(), disk: map[string]bool{}, foreign: map[string]string{}}
	w.makeCerts()
	w.d = &Daemon{Bin: c.Bin, ID: self, Dir: filepath.Join(dir, "n")}
	w.d.Sock = filepath.Join(w.d.Dir, "ctl.sock")
	w.d.Config = w.config()
	Must(w.d.Start())
	w.uIdx = w.makeIndexed()
	return w
}

func (w *world) teardown() {
	w.d.Kill()
	killTree(w.dir)
	_ = os.RemoveAll(w.dir)
}

// killTree kills the detached command runners of this run (their command line names the scratch
// directory) and their children (`sleep 300`).
func killTree(dir string) {
	type proc struct {
		pid, ppid int
		cmd       string
	}
	var ps []proc
	ents, _ := os.ReadDir("/proc")
	for _, e := range ents {
		pid := 0
		if _, err := fmt.Sscanf(e.Name(), "%d", &pid); err != nil || pid <= 1 || pid == os.Getpid() {
			continue
		}
		b, err := os.ReadFile("/proc/" + e.Name() + "/cmdline")
		if err != nil {
			continue
		}
		st, err := os.ReadFile("/proc/" + e.Name() + "/stat")
		if err != nil {
			continue
		}
		f := strings.Fields(string(st[strings.LastIndex(string(st), ")")+1:]))
		ppid := 0
		if len(f) > 1 {
			fmt.Sscanf(f[1], "%d", &ppid)
		}
		ps = append(ps, proc{pid, ppid, string(b)})
	}
	doomed := map[int]bool{}
	for _, p := range ps {
		if strings.Contains(p.cmd, dir) {
			doomed[p.pid] = true
		}
	}
	for changed := true; changed; {
		changed = false
		for _, p := range ps {
			if doomed[p.ppid] && !doomed[p.pid] {
				doomed[p.pid] = true
				changed = true
			}
		}
	}
	for pid := range doomed {
		if p, err := os.FindProcess(pid); err == nil {
			_ = p.Kill()
		}
	}
}

const statusJSON = `{"State":2,"Detail":"exit status 0","StdoutSize":0,"WorkType":"cat","ExtraData":{"Pid":0,"Params":""}}` + "\n"

// a finished unit that is in the index.  Its record says Pid 0, so that `work cancel` never
// signals a process (the PID of a finished command runner may have been reused by now).
func (w *world) makeIndexed() string {
	id := w.makeDiskOnly()
	s, err := dialNet("unix", w.d.Sock)
	Must(err)
	defer s.close()
	_ = s.send([]byte("work status " + id + "\n"))
	l, err := s.line(3 * time.Second)
	if err != nil || !strings.HasPrefix(l, "{") {
		// a tree without the findUnit repair dead-locks here (reported by the corpus case):
		// start over and go on with a submitted unit
		s.close()
		w.restart()
		return w.makeSubmitted()
	}
	w.mu.Lock()
	delete(w.disk, id)
	w.mu.Unlock()
	return id
}

func (w *world) makeSubmitted() string {
	s, err := dialNet("unix", w.d.Sock)
	if err != nil {
		return "nounit"
	}
	defer s.close()
	_ = s.send([]byte("work submit localhost cat\n"))
	l, err := s.line(3 * time.Second)
	i := strings.Index(l, "with ID ")
	if err != nil || i < 0 {
		return "nounit"
	}
	id := strings.TrimSuffix(strings.Fields(l[i+8:])[0], ".")
	_ = s.send([]byte("x\n"))
	s.closeWrite()
	_, _ = s.line(5 * time.Second)
	return id
}

// a unit directory with a status file that the daemon has not seen
func (w *world) makeDiskOnly() string {
	w.mu.Lock()
	w.seq++
	id := fmt.Sprintf("disk%04d", w.seq)
	w.disk[id] = true
	w.mu.Unlock()
	p := filepath.Join(w.d.UnitsDir(), id)
	Must(os.MkdirAll(p, 0o700))
	Must(os.WriteFile(filepath.Join(p, "status"), []byte(statusJSON), 0o600))
	return id
}

// a unit directory outside the node's own directory, reachable with "../"
func (w *world) makeForeign() string {
	w.mu.Lock()
	w.seq++
	base := fmt.Sprintf("frgn%04d", w.seq)
	rel := "../other/" + base
	w.foreign[rel] = base
	w.mu.Unlock()
	p := filepath.Join(w.d.DataDir(), "other", base)
	Must(os.MkdirAll(p, 0o700))
	Must(os.WriteFile(filepath.Join(p, "status"), []byte(statusJSON), 0o600))
	return rel
}

// ---------- probes ----------

func (w *world) listUnits() ([]string, time.Duration, error) {
	t0 := time.Now()
	s, err := dialNet("unix", w.d.Sock)
	if err != nil {
		return nil, time.Since(t0), err
	}
	defer s.close()
	_ = s.send([]byte("work list\n"))
	l, err := s.line(2 * time.Second)
	if err != nil {
		return nil, time.Since(t0), fmt.Errorf("work list: %v", err)
	}
	var m map[string]json.RawMessage
	if err := json.Unmarshal([]byte(l), &m); err != nil {
		return nil, time.Since(t0), fmt.Errorf("work list reply %q", l)
	}
	ids := []string{}
	for k := range m {
		ids = append(ids, k)
	}
	sort.Strings(ids)
	return ids, time.Since(t0), nil
}

func (w *world) pingFresh() (time.Duration, error) {
	t0 := time.Now()
	s, err := dialNet("tcp", fmt.Sprintf("127.0.0.1:%d", w.tcp))
	if err != nil {
		return time.Since(t0), err
	}
	defer s.close()
	_ = s.send([]byte("ping " + self + "\n"))
	l, err := s.line(2 * time.Second)
	if err != nil || !strings.Contains(l, `"Success":true`) {
		return time.Since(t0), fmt.Errorf("ping: %q %v", l, err)
	}
	return time.Since(t0), nil
}

// afterInput: liveness + fresh-session probes; restarts the daemon after a crash or wedge so
// that the run can go on.  Returns the unit list (nil if unavailable).
func (w *world) afterInput(label string, rec interface{}) []string {
	if w.d.Alive() {
		// a panic takes a moment to end the process: when the first probe fails, look again
		if _, err := w.pingFresh(); err != nil {
			w.d.wait(500 * time.Millisecond)
		}
	}
	if !w.d.Alive() {
		logTail, sig := "", "daemon-crashed"
		if b, err := os.ReadFile(w.d.LogPath()); err == nil {
			lg := string(b)
			switch {
			case strings.Contains(lg, "fatal error: concurrent map writes"):
				sig, logTail = "daemon-crashed:concurrent-map-writes", "fatal error: concurrent map writes"
			case strings.Contains(lg, "panic: "):
				logTail = lg[strings.Index(lg, "panic: "):]
				if strings.Contains(logTail, "StatusCommandType") {
					sig = "daemon-crashed:status-requested_fields"
				}
			case strings.Contains(lg, "fatal error: "):
				logTail = lg[strings.Index(lg, "fatal error: "):]
			default:
				logTail = tail(lg, 300)
			}
		}
		w.im.Violate("the daemon died after "+label+": "+firstLine(logTail), sig, rec)
		w.restart()
		return nil
	}
	if dt, err := w.pingFresh(); err != nil || dt > 2*time.Second {
		w.im.Violate(fmt.Sprintf("ping on a fresh session not answered within 2 s after %s (%v, %v)", label, dt, err), "wedged:ping", rec)
		w.restart()
		return nil
	}
	ids, dt, err := w.listUnits()
	if err != nil || dt > 2*time.Second {
		w.im.Violate(fmt.Sprintf("work list on a fresh session not answered within 2 s after %s (%v, %v)", label, dt, err), "wedged:work-list", rec)
		w.restart()
		return nil
	}
	return ids
}

func firstLine(s string) string {
	if i := strings.Index(s, "\n"); i >= 0 {
		return s[:i]
	}
	return s
}

const maxRestarts = 5

func (w *world) restart() {
	w.d.Kill()
	w.im.Hist("daemon-restarted-after-violation")
	w.restarts++
	if w.restarts >= maxRestarts {
		w.fatal = fmt.Sprintf("stopping early: the daemon crashed or wedged %d times", w.restarts)
		return
	}
	if err := w.d.Start(); err != nil {
		w.fatal = "restart: " + err.Error()
		return
	}
	// everything on disk is indexed at start-up
	w.mu.Lock()
	w.disk = map[string]bool{}
	w.mu.Unlock()
}

// ---------- request lines ----------

type reqLine struct {
	raw     []byte
	invalid int // 1: surely not a valid command (must be answered with ERROR); 0: valid or undetermined
	kind    string
}

// JSON value variants for the product
type jvariant struct {
	name string
	val  interface{}
	omit bool
}

func typeVariants() []jvariant {
	return []jvariant{
		{"absent", nil, true},
		{"null", nil, false},
		{"bool", true, false},
		{"number", 5, false},
		{"number-float", 1.5e300, false},
		{"string", "x", false},
		{"empty-string", "", false},
		{"array-of-strings", []interface{}{"NodeID", "x"}, false},
		{"array-mixed", []interface{}{"a", 1, nil}, false},
		{"empty-array", []interface{}{}, false},
		{"object", map[string]interface{}{"a": 1}, false},
	}
}

// documented shape of the commands: field -> (required, type) ; type: "string" | "strings" | "number"
type fieldSpec struct {
	required bool
	typ      string
}

func specOf(cmd, sub string) map[string]fieldSpec {
	switch cmd {
	case "ping", "traceroute":
		return map[string]fieldSpec{"target": {true, "string"}}
	case "status":
		return map[string]fieldSpec{"requested_fields": {false, "strings"}}
	case "connect":
		return map[string]fieldSpec{"node": {true, "string"}, "service": {true, "string"}, "tls": {false, "string"}}
	case "reload":
		return map[string]fieldSpec{}
	case "work":
		switch sub {
		case "submit":
			return map[string]fieldSpec{"subcommand": {true, "string"}, "node": {true, "string"}, "worktype": {true, "string"}}
		case "status", "cancel", "release", "force-release":
			return map[string]fieldSpec{"subcommand": {true, "string"}, "unitid": {true, "string"}}
		case "results":
			return map[string]fieldSpec{"subcommand": {true, "string"}, "unitid": {true, "string"}, "startpos": {true, "number"}}
		case "list":
			return map[string]fieldSpec{"subcommand": {true, "string"}}
		}
		return map[string]fieldSpec{"subcommand": {true, "string"}}
	}
	return nil
}

func typeOK(v interface{}, typ string) bool {
	switch typ {
	case "string":
		_, ok := v.(string)
		return ok
	case "number":
		switch v.(type) {
		case int, float64:
			return true
		}
		return false
	case "strings":
		l, ok := v.([]interface{})
		if !ok {
			return false
		}
		for _, x := range l {
			if _, ok := x.(string); !ok {
				return false
			}
		}
		return true
	}
	return true
}

var knownCmds = map[string]bool{"ping": true, "status": true, "connect": true, "traceroute": true, "reload": true, "work": true}
var knownSubs = map[string]bool{"submit": true, "list": true, "status": true, "cancel": true, "release": true, "force-release": true, "results": true}

// surelyInvalid: by the documented shape alone
func surelyInvalid(obj map[string]interface{}) bool {
	c, ok := obj["command"].(string)
	if !ok || !knownCmds[c] {
		return true
	}
	sub := ""
	if c == "work" {
		s, ok := obj["subcommand"].(string)
		if !ok {
			return true
		}
		sub = strings.ToLower(s)
		if !knownSubs[sub] {
			return true
		}
		if sub == "submit" {
			for _, v := range obj {
				if _, ok := v.(string); !ok {
					return true
				}
			}
		}
	}
	for f, sp := range specOf(c, sub) {
		v, present := obj[f]
		if !present {
			if sp.required {
				return true
			}
			continue
		}
		if (sp.required || sp.typ == "strings") && !typeOK(v, sp.typ) {
			return true
		}
	}
	return false
}

func jsonLine(obj map[string]interface{}) []byte {
	b, _ := json.Marshal(obj)
	return b
}

// ---------- Go value -> Coq jv ----------

func coqJV(v interface{}) string {
	switch x := v.(type) {
	case nil:
		return "JNull"
	case bool:
		return "(JBool " + CoqBool(x) + ")"
	case float64:
		return "JNum"
	case string:
		return "(JStr " + HxS(x) + ")"
	case []interface{}:
		xs := []string{}
		for _, e := range x {
			xs = append(xs, coqJV(e))
		}
		return "(JArr " + CoqList(xs) + ")"
	case map[string]interface{}:
		return "(JObj " + coqObj(x) + ")"
	}
	return "JNull"
}

func coqObj(m map[string]interface{}) string {
	ks := []string{}
	for k := range m {
		ks = append(ks, k)
	}
	sort.Strings(ks)
	xs := []string{}
	for _, k := range ks {
		xs = append(xs, "("+HxS(k)+", "+coqJV(m[k])+")")
	}
	return CoqList(xs)
}

func asciiLower(s string) string {
	b := []byte(s)
	for i := range b {
		if b[i] >= 'A' && b[i] <= 'Z' {
			b[i] += 32
		}
	}
	return string(b)
}

// the reader of RunControlSession, written independently with the standard library
func refLines(input []byte) ([][]byte, []byte) {
	noCR := bytes.ReplaceAll(input, []byte{'\r'}, nil)
	parts := bytes.Split(noCR, []byte{'\n'})
	return parts[:len(parts)-1], parts[len(parts)-1]
}

// ---------- one session ----------

type sessSpec struct {
	conn   string // unix | tcp
	input  []byte // request bytes (without the sentinel)
	eof    bool   // half-close after the input instead of sending the sentinel
	lines  []reqLine
	label  string
	expect []int // corpus entries: the reply classes a correct node gives
}

func classify(l string) int {
	switch {
	case strings.HasPrefix(l, "ERROR"):
		return 1
	case strings.HasPrefix(l, "Work unit created with ID"), strings.HasPrefix(l, "Streaming results"), strings.HasPrefix(l, "Connecting"):
		return 2
	case strings.HasPrefix(l, "{"):
		return 0
	}
	return 9
}

// the sentinel is a request whose reply no generated request produces
const sentinelLine = `{"command":"status","requested_fields":["NodeID","SystemCPUCount"]}`

func isSentinelReply(l string) bool {
	return strings.HasPrefix(l, `{"NodeID":"c08n","SystemCPUCount":`)
}

// runSession drives one session and returns the classes of the reply lines, the ID of a created
// unit (or ""), and whether the session itself stayed responsive.
func (w *world) runSession(sp sessSpec) (replies []int, newid string, ok bool, note string) {
	s, err := w.dialKind(sp.conn)
	if err != nil {
		return nil, "", false, "dial: " + err.Error()
	}
	defer s.close()
	payload := sp.input
	if !sp.eof {
		payload = append(append([]byte{}, sp.input...), []byte(sentinelLine+"\n")...)
	}
	go func() {
		// write in a goroutine: a 1 MiB line is consumed one byte at a time
		for off := 0; off < len(payload); off += 65536 {
			end := off + 65536
			if end > len(payload) {
				end = len(payload)
			}
			_ = s.c.SetWriteDeadline(time.Now().Add(20 * time.Second))
			if _, err := s.c.Write(payload[off:end]); err != nil {
				return
			}
		}
		if sp.eof {
			s.closeWrite()
		}
	}()
	budget := 2*time.Second + time.Duration(len(payload)/50000)*time.Second
	for {
		l, err := s.line(budget)
		if err != nil {
			if sp.eof && (err.Error() == "EOF" || strings.Contains(err.Error(), "reset")) {
				if l != "" {
					replies = append(replies, classify(l))
				}
				return replies, newid, true, ""
			}
			return replies, newid, false, fmt.Sprintf("after %d replies: %v", len(replies), err)
		}
		if !sp.eof && isSentinelReply(l) {
			return replies, newid, true, ""
		}
		c := classify(l)
		replies = append(replies, c)
		if c == 2 {
			switch {
			case strings.HasPrefix(l, "Work unit created"):
				if i := strings.Index(l, "with ID "); i >= 0 {
					newid = strings.TrimSuffix(strings.Fields(l[i+8:])[0], ".")
				}
				// whatever followed in the input (the sentinel included) is stdin; end it
				time.Sleep(5 * time.Millisecond)
				s.closeWrite()
				_, _ = s.line(5 * time.Second)
			case strings.HasPrefix(l, "Connecting"):
				// a nested control session: greeting, then the sentinel is answered by it
				_, _ = s.line(2 * time.Second)
			}
			return replies, newid, true, ""
		}
	}
}

// doCase: run a session sequentially with all oracles and the correspondence case
func (w *world) doCase(sp sessSpec, withModel bool) {
	if w.fatal != "" {
		return
	}
	sp = w.instantiate(sp)
	sp.conn = w.spreadConn(sp.conn)
	before, _, err := w.listUnits()
	if err != nil {
		// the housekeeping of the previous case (release of the units it left) hit a crash or wedge
		w.afterInput("housekeeping after the previous case (force-release of the units it left)", nil)
		if before, _, err = w.listUnits(); err != nil {
			w.fatal = "work list before a case: " + err.Error()
			return
		}
	}
	w.mu.Lock()
	diskNow := []string{}
	for id := range w.disk {
		diskNow = append(diskNow, id)
	}
	sort.Strings(diskNow)
	type fp struct{ rel, base string }
	var frgn []fp
	for rel, base := range w.foreign {
		frgn = append(frgn, fp{rel, base})
	}
	sort.Slice(frgn, func(i, j int) bool { return frgn[i].rel < frgn[j].rel })
	w.mu.Unlock()
	rec := map[string]interface{}{"connection": sp.conn, "input": clip(string(sp.input), 300), "half_close": sp.eof, "what": sp.label}
	replies, newid, ok, note := w.runSession(sp)
	rec["replies"] = replies
	if !ok && !strings.Contains(note, "i/o timeout") {
		w.d.wait(500 * time.Millisecond) // connection torn down: the process may be on its way out
	}
	if !ok && w.d.Alive() {
		// the same session stopped answering
		w.im.Violate(fmt.Sprintf("session stopped answering (%s) after input %s", note, sp.label), "same-session-stalled", rec)
	}
	after := w.afterInput(sp.label, rec)
	w.im.Hist("session:" + sp.conn)
	rec["connection"] = sp.conn
	for _, l := range sp.lines {
		w.im.Hist("line:" + l.kind)
	}
	nontrivial := len(sp.lines) > 0
	w.im.Count(sp.label+string(sp.input), nontrivial)
	w.im.Sample(rec)
	if after == nil {
		return // crashed or wedged: already reported, daemon restarted
	}
	// ERROR oracle: line i is answered by reply i only when each earlier line produced exactly one
	// reply; the generators guarantee that for single-line sessions, which carry the label
	if len(sp.lines) == 1 && sp.lines[0].invalid == 1 {
		w.im.Hist("oracle:invalid-line-checked")
		if len(replies) == 0 || replies[0] != 1 {
			w.im.Violate(fmt.Sprintf("a request that is not a valid command was not answered with an ERROR line: %s -> %v", sp.label, replies), "invalid-not-error:"+category(sp.lines[0].kind), rec)
		}
		if strings.Join(before, ",") != strings.Join(after, ",") {
			w.im.Violate(fmt.Sprintf("a request that is not a valid command changed the unit list %v -> %v: %s", before, after, sp.label), "invalid-changed-state:"+category(sp.lines[0].kind), rec)
		}
	}
	if sp.expect != nil && fmt.Sprint(sp.expect) != fmt.Sprint(replies) {
		w.im.Violate(fmt.Sprintf("%s: reply classes %v, expected %v", sp.label, replies, sp.expect), "corpus-reply-differs", rec)
	}
	// bookkeeping of disk-only units that got loaded
	w.mu.Lock()
	for _, id := range after {
		delete(w.disk, id)
	}
	w.mu.Unlock()
	if newid == "" {
		// a unit allocated without the ID being announced (work submit failing after the
		// allocation): identify it by difference
		known := map[string]bool{}
		for _, id := range before {
			known[id] = true
		}
		for _, id := range diskNow {
			known[id] = true
		}
		for _, f := range frgn {
			known[f.base] = true
		}
		for _, id := range after {
			if !known[id] {
				newid = id
			}
		}
	}
	if withModel {
		w.addCase(sp, before, diskNow, replies, newid, after, func() [][2]string {
			out := [][2]string{}
			for _, f := range frgn {
				out = append(out, [2]string{f.rel, f.base})
			}
			return out
		}())
	}
	// keep the index small: drop what this case created or loaded
	for _, id := range after {
		if id != w.uIdx {
			w.release(id)
		}
	}
	if !contains(after, w.uIdx) {
		w.uIdx = w.makeIndexed()
	}
}

// the generators name units by placeholder; the actual IDs are put in when the case runs
const (
	phIdx  = "@UIDX@"
	phDisk = "@DISK@"
	phFrgn = "@FRGN@"
)

func (w *world) instantiate(sp sessSpec) sessSpec {
	rep := func(b []byte) []byte {
		if bytes.Contains(b, []byte(phIdx)) {
			b = bytes.ReplaceAll(b, []byte(phIdx), []byte(w.uIdx))
		}
		for bytes.Contains(b, []byte(phDisk)) {
			b = bytes.Replace(b, []byte(phDisk), []byte(w.makeDiskOnly()), 1)
		}
		for bytes.Contains(b, []byte(phFrgn)) {
			b = bytes.Replace(b, []byte(phFrgn), []byte(w.makeForeign()), 1)
		}
		return b
	}
	if !bytes.Contains(sp.input, []byte("@")) {
		return sp
	}
	sp.input = rep(append([]byte{}, sp.input...))
	sp.label = strings.ReplaceAll(sp.label, phIdx, w.uIdx)
	return sp
}

// category: the generator family of a request line (keeps violation signatures few and stable)
func category(kind string) string {
	if strings.Contains(kind, "/") {
		return "product"
	}
	return kind
}

func contains(xs []string, x string) bool {
	for _, y := range xs {
		if y == x {
			return true
		}
	}
	return false
}

func clip(s string, n int) string {
	if len(s) > n {
		return fmt.Sprintf("%s…(%d bytes)", s[:n], len(s))
	}
	return s
}

func (w *world) release(id string) {
	s, err := dialNet("unix", w.d.Sock)
	if err != nil {
		return
	}
	defer s.close()
	b, _ := json.Marshal(map[string]string{"command": "work", "subcommand": "force-release", "unitid": id})
	_ = s.send(append(b, '\n'))
	_, _ = s.line(3 * time.Second)
}

func (w *world) addCase(sp sessSpec, before, disk []string, replies []int, newid string, after []string, frgn [][2]string) {
	// oracle tables for the model: json.Unmarshal, strings.ToLower, time.ParseDuration
	lines, rest := refLines(sp.input)
	all := lines
	if sp.eof {
		all = append(append([][]byte{}, lines...), rest)
	}
	var parses, lowers, ttls []string
	seenP, seenL, seenT := map[string]bool{}, map[string]bool{}, map[string]bool{}
	addLower := func(wd string) {
		if l := strings.ToLower(wd); l != asciiLower(wd) && !seenL[wd] {
			seenL[wd] = true
			lowers = append(lowers, "("+HxS(wd)+", "+HxS(l)+")")
		}
	}
	for _, ln := range all {
		if len(ln) == 0 {
			continue
		}
		if ln[0] == '{' {
			if seenP[string(ln)] {
				continue
			}
			seenP[string(ln)] = true
			var m map[string]interface{}
			if err := json.Unmarshal(ln, &m); err != nil || m == nil {
				parses = append(parses, "("+Hx(ln)+", None)")
				continue
			}
			parses = append(parses, "("+Hx(ln)+", Some "+coqObj(m)+")")
			if sc, ok := m["subcommand"].(string); ok {
				addLower(sc)
			}
			for k := range m {
				addLower(k)
			}
			if t, ok := m["ttl"].(string); ok && !seenT[t] {
				seenT[t] = true
				_, err := time.ParseDuration(t)
				ttls = append(ttls, "("+HxS(t)+", "+CoqBool(err == nil)+")")
			}
		} else {
			parts := strings.SplitN(string(ln), " ", 2)
			addLower(parts[0])
			if len(parts) > 1 {
				addLower(strings.Split(parts[1], " ")[0])
			}
		}
	}
	fr := []string{}
	for _, f := range frgn {
		fr = append(fr, "("+HxS(f[0])+", "+HxS(f[1])+")")
	}
	node := fmt.Sprintf("(mknode %s %s %s %s %s %s [] [(%s, %s)])", HxS(self), CoqBool(sp.conn == "unix"),
		CoqStrList(before), CoqStrList(disk), CoqList(fr), CoqStrList([]string{"cat", "sleeper", "quiet"}), HxS(self), HxS("control"))
	rs := []string{}
	for _, r := range replies {
		rs = append(rs, fmt.Sprint(r))
	}
	w.cf.Add(fmt.Sprintf("CSession %s %s %s %s %s %s %s %s %s", node, Hx(sp.input), CoqBool(sp.eof), CoqList(parses), CoqList(lowers), CoqList(ttls),
		HxS(newid), CoqList(rs), CoqStrList(after)), fmt.Sprintf("%s [%s] input=%q replies=%v", sp.label, sp.conn, clip(string(sp.input), 400), replies))
}

// ---------- generators ----------

func (w *world) product() []sessSpec {
	r := w.c.Rng
	var out []sessSpec
	conn := func() string {
		if r.Chance(35) {
			return "tcp"
		}
		return "unix"
	}
	one := func(kind, label string, obj map[string]interface{}) {
		inv := 0
		if surelyInvalid(obj) {
			inv = 1
		}
		raw := jsonLine(obj)
		out = append(out, sessSpec{conn: conn(), input: append(raw, '\n'), lines: []reqLine{{raw, inv, kind}}, label: label})
	}
	base := func(cmd, sub string) map[string]interface{} {
		m := map[string]interface{}{"command": cmd}
		switch cmd {
		case "ping", "traceroute":
			m["target"] = self
		case "connect":
			m["node"], m["service"] = self, "control"
		case "work":
			m["subcommand"] = sub
			switch sub {
			case "submit":
				m["node"], m["worktype"] = "localhost", "cat"
			case "status", "cancel", "release", "force-release":
				m["unitid"] = phIdx
			case "results":
				m["unitid"], m["startpos"] = phIdx, 0
			}
		}
		return m
	}
	type cs struct{ cmd, sub string }
	cmds := []cs{{"ping", ""}, {"status", ""}, {"connect", ""}, {"traceroute", ""}, {"reload", ""},
		{"work", "submit"}, {"work", "list"}, {"work", "status"}, {"work", "cancel"}, {"work", "release"}, {"work", "force-release"}, {"work", "results"}, {"work", "frobnicate"}}
	fieldsOf := func(c cs) []string {
		f := []string{"command", "zzz"}
		switch c.cmd {
		case "ping", "traceroute":
			f = append(f, "target")
		case "status":
			f = append(f, "requested_fields")
		case "connect":
			f = append(f, "node", "service", "tls")
		case "work":
			f = append(f, "subcommand", "unitid", "signature")
			switch c.sub {
			case "submit":
				f = append(f, "node", "worktype", "tlsclient", "ttl", "signwork", "params", "secret_x")
			case "results":
				f = append(f, "startpos")
			}
		}
		return f
	}
	for _, c := range cmds {
		for _, f := range fieldsOf(c) {
			for _, tv := range typeVariants() {
				m := base(c.cmd, c.sub)
				// release consumes the indexed unit: give those their own
				if (c.sub == "release" || c.sub == "force-release") && f != "unitid" {
					// the shared unit is recreated by doCase when it disappears
				}
				if tv.omit {
					delete(m, f)
				} else {
					m[f] = tv.val
				}
				one(fmt.Sprintf("%s%s/%s=%s", c.cmd, dash(c.sub), f, tv.name), fmt.Sprintf("product %s %s field %s %s", c.cmd, c.sub, f, tv.name), m)
			}
		}
	}
	// string values of the fields that name things
	ids := func() []string {
		return []string{phIdx, phDisk, phFrgn, "nosuchunit", "", ".", "..", "/", "../" + self, "../../..", "a/b", "a\\b",
			strings.Repeat("u", 300), "unit\x00id", "ünït", phIdx + "/", "./" + phIdx}
	}
	for _, sub := range []string{"status", "list", "cancel", "release", "force-release", "results"} {
		for _, id := range ids() {
			m := base("work", sub)
			m["unitid"] = id
			one("work-"+sub+"/unitid-value", fmt.Sprintf("work %s unitid=%q", sub, id), m)
		}
	}
	for _, v := range []string{"localhost", "LOCALHOST", self, "ghost", ""} {
		for _, wt := range []string{"cat", "remote", "nosuchtype", "", "CAT"} {
			m := base("work", "submit")
			m["node"], m["worktype"] = v, wt
			one("work-submit/node-worktype-value", fmt.Sprintf("work submit node=%q worktype=%q", v, wt), m)
		}
	}
	for _, ttl := range []string{"10m", "bogus", "1.5h", "-5s", "5"} {
		for _, nd := range []string{"localhost", "ghost"} {
			m := base("work", "submit")
			m["node"], m["ttl"] = nd, ttl
			one("work-submit/ttl-value", fmt.Sprintf("work submit node=%q ttl=%q", nd, ttl), m)
		}
	}
	for _, extra := range []map[string]interface{}{{"signwork": "true"}, {"signwork": "TRUE"}, {"signwork": "true", "worktype": "remote"}, {"signwork": "true", "worktype": "remote", "node": "ghost"},
		{"tlsclient": "nosuch", "node": "ghost"}, {"secret_a": "v", "node": "ghost"}, {"SECRET_a": "v", "node": "ghost"}, {"secret_a": "v"}, {"params": "-x"}, {"params": ""}, {"signature": "tok"}, {"signature": ""}} {
		m := base("work", "submit")
		for k, v := range extra {
			m[k] = v
		}
		one("work-submit/option-value", fmt.Sprintf("work submit %v", extra), m)
	}
	for _, sc := range []string{"LIST", "List", "Status", "SUBMIT", "", " list", "list ", "worK"} {
		m := base("work", strings.ToLower(strings.TrimSpace(sc)))
		m["subcommand"] = sc
		one("work/subcommand-spelling", fmt.Sprintf("work subcommand=%q", sc), m)
	}
	for _, c := range []string{"PING", "Ping", "", " ping", "ping ", "pıng", "work ", "Kork"} {
		one("command-spelling", fmt.Sprintf("command=%q", c), map[string]interface{}{"command": c, "target": self})
	}
	for _, pr := range [][2]string{{self, "control"}, {self, "nosvc"}, {"ghost", "control"}, {"", ""}, {self, ""}} {
		one("connect/target-value", fmt.Sprintf("connect %q %q", pr[0], pr[1]), map[string]interface{}{"command": "connect", "node": pr[0], "service": pr[1]})
		one("connect/target-value", fmt.Sprintf("connect %q %q tls=x", pr[0], pr[1]), map[string]interface{}{"command": "connect", "node": pr[0], "service": pr[1], "tls": "x"})
	}
	// JSON that is not a request object
	for _, raw := range []string{`{`, `{}`, `{"command"}`, `{"command":}`, `{"command":"ping","target":"x"`, `{"command":"ping","target":"x"}}`, `{"command":"ping","command":5}`,
		`{"command":5,"command":"status"}`, `{"a":{"b":{"c":[1,2,{"d":null}]}}}`, `{"command":"status","requested_fields":[[]]}`, `{"command":"status","requested_fields":{"0":"NodeID"}}`,
		`{"command":"status","requested_fields":"NodeID"}`, `{"command":"status","requested_fields":null}`, `{"command":"status","requested_fields":0}`,
		`{"command":"status","requested_fields":true}`, `{"command":"status","requested_fields":[]}`, `{"command":"status","requested_fields":["NodeID","nosuch"]}`,
		`{"command":"work","subcommand":"results","unitid":"x","startpos":"5"}`, `{"command":"work","subcommand":"results","unitid":"x","startpos":-1}`,
		`{"command":"work","subcommand":"results","unitid":"x","startpos":1e400}`, `{"command":"ping","target":"\ud800"}`, `{"command":"ping","target":"\u0000"}`,
		`{"command":"ping", "target":"x"} trailing`, "{\"command\":\"ping\",\t\"target\":\"x\"}", `{"COMMAND":"ping","target":"x"}`, `{"Command":"ping","target":"x"}`,
		"{" + strings.Repeat(`"k":[`, 200) + strings.Repeat(`]`, 200) + "}", `{"command":"ping","target":"` + strings.Repeat("A", 5000) + `"}`} {
		inv := 0
		var m map[string]interface{}
		if err := json.Unmarshal([]byte(raw), &m); err != nil || surelyInvalid(m) {
			inv = 1
		}
		out = append(out, sessSpec{conn: conn(), input: []byte(raw + "\n"), lines: []reqLine{{[]byte(raw), inv, "raw-json"}}, label: "raw json " + clip(raw, 80)})
	}
	// plain-text forms
	plain := []string{"ping", "ping " + self, "ping  " + self, " ping " + self, "PING " + self, "ping " + self + " extra", "status", "status x", "status ", "STATUS",
		"traceroute", "traceroute ghost", "reload", "reload now", "connect", "connect " + self, "connect " + self + " control", "connect " + self + " nosvc", "connect " + self + " control x",
		"connect a b c d", "connect  ", "work", "work ", "work list", "work LIST", "work list " + phIdx, "work list nosuch", "work list a b c", "work status", "work status " + phIdx,
		"work status  " + phIdx, "work status " + phIdx + " x", "work status nosuch", "work status " + phDisk, "work status " + phFrgn, "work status ..", "work status ",
		"work cancel " + phDisk, "work release " + phDisk, "work force-release nosuch", "work results", "work results " + phIdx, "work results " + phIdx + " 0",
		"work results " + phIdx + " abc", "work results " + phIdx + " 99999999999999999999", "work results " + phIdx + " -1", "work results " + phIdx + " +3", "work results " + phIdx + " 1 2",
		"work results nosuch 0", "work results " + phDisk + " 0", "work submit", "work submit localhost", "work submit localhost cat", "work submit localhost cat -x", "work submit localhost nosuch",
		"work submit ghost cat", "work submit ghost cat a b c", "work frobnicate", "help", "quit", "GET / HTTP/1.1", "\x00", "\xff\xfe", "ping\t" + self, "work\tlist", "'; DROP TABLE units; --"}
	surePlainInvalid := map[string]bool{"ping": true, "status x": true, "traceroute": true, "connect": true, "connect " + self: true, "connect a b c d": true, "work": true, "work ": true,
		"work status": true, "work results": true, "work submit": true, "work submit localhost": true, "work frobnicate": true, "help": true, "quit": true, "GET / HTTP/1.1": true,
		"\x00": true, "\xff\xfe": true, " ping " + self: true, "ping\t" + self: true, "work\tlist": true, "'; DROP TABLE units; --": true,
		"work status " + phIdx + " x": true, "work results " + phIdx + " abc": true, "work results " + phIdx + " 1 2": true, "work results " + phIdx + " 99999999999999999999": true}
	for _, p := range plain {
		inv := 0
		if surePlainInvalid[p] {
			inv = 1
		}
		out = append(out, sessSpec{conn: conn(), input: []byte(p + "\n"), lines: []reqLine{{[]byte(p), inv, "plain-text"}}, label: "plain " + fmt.Sprintf("%q", p)})
	}
	return out
}

func dash(s string) string {
	if s == "" {
		return ""
	}
	return "-" + s
}

// random byte streams: several lines, CR and LF anywhere, lines that start with '{'
func (w *world) randomStream() sessSpec {
	r := w.c.Rng
	var buf bytes.Buffer
	nl := 1 + r.Intn(5)
	for i := 0; i < nl; i++ {
		n := r.Intn(60)
		if r.Chance(10) {
			n = 200 + r.Intn(800)
		}
		if r.Chance(25) {
			buf.WriteByte('{')
		}
		for j := 0; j < n; j++ {
			var b byte
			switch x := r.Intn(100); {
			case x < 8:
				b = '\r'
			case x < 12:
				b = ' '
			case x < 18:
				b = "{}[]\":,"[r.Intn(7)]
			case x < 50:
				b = byte(0x21 + r.Intn(0x5e))
			default:
				b = byte(r.U64())
			}
			if b == '\n' {
				b = 'n'
			}
			buf.WriteByte(b)
		}
		if r.Chance(15) {
			buf.WriteString("\r\n")
		} else {
			buf.WriteByte('\n')
		}
		if r.Chance(15) {
			buf.WriteString("\n\r\n")
		}
	}
	in := buf.Bytes()
	// keep out accidental command words: the first word of every line gets a prefix byte if needed
	lines, _ := refLines(in)
	for _, ln := range lines {
		wd := strings.ToLower(strings.SplitN(string(ln), " ", 2)[0])
		if knownCmds[wd] {
			return w.randomStream()
		}
	}
	conn := "unix"
	if r.Chance(40) {
		conn = "tcp"
	}
	var rl []reqLine
	for _, ln := range lines {
		if len(ln) > 0 {
			rl = append(rl, reqLine{ln, 0, "random-bytes"})
		}
	}
	if len(rl) == 1 {
		rl[0].invalid = 1
	}
	return sessSpec{conn: conn, input: in, lines: rl, label: fmt.Sprintf("random stream (%d lines, %d bytes)", len(rl), len(in))}
}

// several valid and invalid commands on one session, last one possibly unterminated + half-close
func (w *world) mixedSession() sessSpec {
	r := w.c.Rng
	pool := []string{"ping " + self, "status", `{"command":"status","requested_fields":["NodeID"]}`, "work list", "nonsense", `{"command":"ping"}`, `{bad json`, "work status nosuch",
		`{"command":"work","subcommand":"list"}`, "traceroute " + self, `{"command":"status","requested_fields":7}`, "work status " + phIdx, "work cancel " + phIdx, "", "\r", "work results nosuch 0",
		`{"command":"work","subcommand":"status","unitid":5}`, "connect ghost control", "reload"}
	var buf bytes.Buffer
	var rl []reqLine
	n := 2 + r.Intn(6)
	for i := 0; i < n; i++ {
		p := pool[r.Intn(len(pool))]
		buf.WriteString(p)
		if p != "" && p != "\r" {
			rl = append(rl, reqLine{[]byte(p), 0, "mixed"})
		}
		if i == n-1 && r.Chance(50) {
			s := sessSpec{conn: []string{"unix", "tcp"}[r.Intn(2)], input: buf.Bytes(), eof: true, lines: rl, label: fmt.Sprintf("mixed session, %d lines, last unterminated + half-close", len(rl))}
			return s
		}
		if r.Chance(20) {
			buf.WriteString("\r\n")
		} else {
			buf.WriteString("\n")
		}
	}
	return sessSpec{conn: []string{"unix", "tcp"}[r.Intn(2)], input: buf.Bytes(), lines: rl, label: fmt.Sprintf("mixed session, %d lines", len(rl))}
}

// ---------- disconnects and over-long lines: oracle only ----------

func (w *world) abrupt(kind string) {
	if w.fatal != "" {
		return
	}
	r := w.c.Rng
	network, addr := "unix", w.d.Sock
	if r.Bool() {
		network, addr = "tcp", fmt.Sprintf("127.0.0.1:%d", w.tcp)
	}
	rec := map[string]interface{}{"what": "abrupt disconnect: " + kind, "connection": network}
	func() {
		var s *Sess
		var err error
		if strings.HasPrefix(kind, "tls-") {
			w.tlsAbuse(kind)
			return
		}
		if kind == "before-greeting" {
			c, err := net.DialTimeout(network, addr, 2*time.Second)
			if err == nil {
				c.Close()
			}
			return
		}
		s, err = dialNet(network, addr)
		if err != nil {
			return
		}
		defer s.close()
		switch kind {
		case "mid-line":
			_ = s.send([]byte(`{"command":"work","subcomm`))
		case "mid-long-line":
			_ = s.send(bytes.Repeat([]byte("A"), 200000))
		case "after-command-before-reply":
			_ = s.send([]byte("status\nwork list\nping " + self + "\n"))
		case "submit-stdin":
			_ = s.send([]byte("work submit localhost cat\n"))
			_, _ = s.line(2 * time.Second)
			_ = s.send([]byte("partial stdin"))
		case "results-stream":
			_ = s.send([]byte("work results " + w.uIdx + " 0\n"))
			_, _ = s.line(2 * time.Second)
		case "connect-bridge":
			_ = s.send([]byte("connect " + self + " control\n"))
			_, _ = s.line(2 * time.Second)
			_ = s.send([]byte("work li"))
		case "results-no-stdout":
			// a unit without a stdout file: the results goroutine waits for it; the client leaves
			id := w.makeRemotePending()
			_ = s.send([]byte("work results " + id + " 0\n"))
			_, _ = s.line(2 * time.Second)
			time.Sleep(700 * time.Millisecond)
		case "mesh-mid-line":
			_ = s.send([]byte("connect " + self + " control\n"))
			_, _ = s.line(2 * time.Second)
			_, _ = s.line(2 * time.Second)
			_ = s.send([]byte(`{"command":"work","subcommand":"li`))
		case "reset":
			if tc, ok := s.c.(*net.TCPConn); ok {
				_ = tc.SetLinger(0)
			}
			_ = s.send([]byte("ping " + self + "\nwork list\n"))
		}
	}()
	w.im.Hist("abrupt:" + kind)
	w.im.Count(fmt.Sprintf("abrupt %s %d", kind, w.im.Evaluations), true)
	if after := w.afterInput("abrupt disconnect ("+kind+")", rec); after != nil {
		for _, id := range after {
			if id != w.uIdx {
				w.release(id)
			}
		}
	}
}

func (w *world) overlong(kind string, size int) {
	if w.fatal != "" {
		return
	}
	var in []byte
	inv := 0
	switch kind {
	case "ping-target":
		in = append([]byte("ping "), bytes.Repeat([]byte("A"), size)...)
	case "garbage":
		in = bytes.Repeat([]byte("B"), size)
		inv = 1
	case "json-string":
		in = []byte(`{"command":"ping","target":"` + strings.Repeat("C", size) + `"}`)
	case "json-broken":
		in = append([]byte(`{"command":"ping","target":"`), bytes.Repeat([]byte("D"), size)...)
		inv = 1
	case "unitid":
		in = []byte(`{"command":"work","subcommand":"status","unitid":"` + strings.Repeat("E", size) + `"}`)
	}
	sp := sessSpec{conn: "tcp", input: append(in, '\n'), lines: []reqLine{{nil, inv, "over-long"}}, label: fmt.Sprintf("over-long line (%s, %d bytes)", kind, size)}
	t0 := time.Now()
	replies, _, ok, note := w.runSession(sp)
	rec := map[string]interface{}{"what": sp.label, "replies": replies, "seconds": time.Since(t0).Seconds()}
	w.im.Hist("overlong:" + kind)
	w.im.Count(sp.label, true)
	if !ok && w.d.Alive() {
		w.im.Violate("session stopped answering ("+note+") after "+sp.label, "same-session-stalled", rec)
	}
	if w.afterInput(sp.label, rec) != nil && inv == 1 && (len(replies) == 0 || replies[0] != 1) {
		w.im.Violate(fmt.Sprintf("%s was not answered with an ERROR line: %v", sp.label, replies), "invalid-not-error:over-long", rec)
	}
}

// ---------- concurrent sessions ----------

func (w *world) concurrent(n, perSession int) {
	if w.fatal != "" {
		return
	}
	// inputs are generated up front from the single PRNG so that a seed replays
	var specs [][]sessSpec
	prod := w.product()
	for i := 0; i < n; i++ {
		var ss []sessSpec
		for j := 0; j < perSession; j++ {
			switch w.c.Rng.Intn(3) {
			case 0:
				ss = append(ss, w.randomStream())
			case 1:
				ss = append(ss, w.instantiate(w.mixedSession()))
			default:
				ss = append(ss, w.instantiate(prod[w.c.Rng.Intn(len(prod))]))
			}
		}
		specs = append(specs, ss)
	}
	var wg sync.WaitGroup
	var mu sync.Mutex
	stalled := 0
	stalledWhat := []string{}
	notErr := []string{}
	for i := 0; i < n; i++ {
		wg.Add(1)
		go func(ss []sessSpec) {
			defer wg.Done()
			for _, sp := range ss {
				replies, _, ok, note := w.runSession(sp)
				mu.Lock()
				if !ok {
					stalled++
					stalledWhat = append(stalledWhat, fmt.Sprintf("%s [%s, half-close=%v]: %s; input %q", sp.label, sp.conn, sp.eof, note, clip(string(sp.input), 200)))
				}
				if ok && len(sp.lines) == 1 && sp.lines[0].invalid == 1 && (len(replies) == 0 || replies[0] != 1) {
					notErr = append(notErr, sp.label)
				}
				mu.Unlock()
			}
		}(specs[i])
	}
	wg.Wait()
	rec := map[string]interface{}{"what": fmt.Sprintf("%d concurrent sessions x %d inputs", n, perSession), "stalled": stalledWhat}
	w.im.Hist(fmt.Sprintf("concurrent:%d-sessions", n))
	w.im.Count(fmt.Sprintf("concurrent %d %d %d", n, perSession, w.im.Evaluations), true)
	w.im.Evaluations += n*perSession - 1
	if stalled > 0 && w.d.Alive() {
		w.im.Violate(fmt.Sprintf("%d of the concurrent sessions stopped answering", stalled), "same-session-stalled:concurrent", rec)
	}
	for _, l := range notErr {
		w.im.Violate("under concurrency, not answered with ERROR: "+l, "invalid-not-error:concurrent", rec)
	}
	if after := w.afterInput("concurrent sessions", rec); after != nil {
		for _, id := range after {
			if id != w.uIdx {
				w.release(id)
			}
		}
		w.mu.Lock()
		for _, id := range after {
			delete(w.disk, id)
		}
		w.mu.Unlock()
	}
}

type corpusEntry struct {
	Label   string `json:"label"`
	Conn    string `json:"connection"`
	Input   string `json:"input"`
	Invalid bool   `json:"surely_invalid"`
	EOF     bool   `json:"half_close"`
	Expect  []int  `json:"expect_reply_classes"`
}

func (w *world) runCorpus() {
	root := os.Getenv("VERIF_ROOT")
	files, _ := filepath.Glob(filepath.Join(root, "corpus", "C08", "*.json"))
	sort.Strings(files)
	var entries []corpusEntry
	for _, f := range files {
		b, err := os.ReadFile(f)
		if err != nil {
			continue
		}
		var e corpusEntry
		if json.Unmarshal(b, &e) == nil && e.Input != "" {
			entries = append(entries, e)
		}
	}
	if len(entries) == 0 {
		// the three historical inputs, should the corpus directory be unavailable
		entries = []corpusEntry{
			{"status requested_fields of non-list type", "tcp", `{"command":"status","requested_fields":"NodeID"}` + "\n", true, false, nil},
			{"work status of a unit that exists only on disk", "tcp", "work status " + phDisk + "\n", false, false, nil},
			{"work status of a path outside the data directory", "tcp", "work status " + phFrgn + "\n", true, false, nil},
		}
	}
	for _, e := range entries {
		inv := 0
		if e.Invalid {
			inv = 1
		}
		w.im.Hist("corpus-entries")
		w.doCase(sessSpec{conn: e.Conn, input: []byte(e.Input), eof: e.EOF, expect: e.Expect, lines: []reqLine{{nil, inv, "corpus"}}, label: "corpus: " + e.Label}, true)
	}
}

// `work list` / `work status` on some sessions while others release units whose directories
// take a while to remove (and submit-and-release fresh ones): the unit index lock and the units'
// status locks are taken by both sides; any inversion of their order wedges every work command.
func (w *world) listVsRelease(nUnits, filesPer int) {
	if w.fatal != "" {
		return
	}
	var ids []string
	for i := 0; i < nUnits; i++ {
		id := w.makeDiskOnly()
		dir := filepath.Join(w.d.UnitsDir(), id)
		for j := 0; j < filesPer; j++ {
			_ = os.WriteFile(filepath.Join(dir, fmt.Sprintf("artifact%05d", j)), []byte("x"), 0o600)
		}
		_ = os.WriteFile(filepath.Join(dir, "stdout"), bytes.Repeat([]byte("o"), 4096), 0o600)
		ids = append(ids, id)
	}
	// bring them into the index
	for _, id := range ids {
		s, err := dialNet("unix", w.d.Sock)
		if err != nil {
			break
		}
		_ = s.send([]byte("work status " + id + "\n"))
		_, _ = s.line(3 * time.Second)
		s.close()
	}
	w.mu.Lock()
	for _, id := range ids {
		delete(w.disk, id)
	}
	w.mu.Unlock()
	var mu sync.Mutex
	var stalled []string
	stop := make(chan struct{})
	var listers, releasers sync.WaitGroup
	nLists, nReleases := 0, 0
	cmd := func(s *Sess, line string) bool {
		if s.send([]byte(line+"\n")) != nil {
			return false
		}
		t0 := time.Now()
		if _, err := s.line(5 * time.Second); err != nil {
			mu.Lock()
			stalled = append(stalled, fmt.Sprintf("%q: no answer after %v (%v)", line, time.Since(t0).Round(time.Millisecond), err))
			mu.Unlock()
			return false
		}
		return true
	}
	for l := 0; l < 2; l++ {
		listers.Add(1)
		go func(l int) {
			defer listers.Done()
			network, addr := "unix", w.d.Sock
			if l == 1 {
				network, addr = "tcp", fmt.Sprintf("127.0.0.1:%d", w.tcp)
			}
			s, err := dialNet(network, addr)
			if err != nil {
				return
			}
			defer s.close()
			for i := 0; ; i++ {
				select {
				case <-stop:
					return
				default:
				}
				line := "work list"
				if i%4 == 3 {
					line = "work status " + ids[i%len(ids)]
				} else if i%8 == 5 {
					line = `{"command":"work","subcommand":"list","unitid":"` + ids[i%len(ids)] + `"}`
				}
				if !cmd(s, line) {
					return
				}
				mu.Lock()
				nLists++
				mu.Unlock()
			}
		}(l)
	}
	for r := 0; r < 2; r++ {
		releasers.Add(1)
		go func(r int) {
			defer releasers.Done()
			s, err := dialNet("unix", w.d.Sock)
			if err != nil {
				return
			}
			defer s.close()
			for i := r; i < len(ids); i += 2 {
				sub := "release"
				if i%3 == 2 {
					sub = "force-release"
				}
				if !cmd(s, "work "+sub+" "+ids[i]) {
					return
				}
				mu.Lock()
				nReleases++
				mu.Unlock()
				if i%4 == r {
					// submit-and-release of a fresh unit on a session of its own
					if id := w.makeSubmitted(); id != "nounit" {
						if !cmd(s, "work release "+id) {
							return
						}
					}
				}
			}
		}(r)
	}
	done := make(chan struct{})
	go func() { releasers.Wait(); close(done) }()
	select {
	case <-done:
	case <-time.After(20 * time.Second):
	}
	close(stop)
	listers.Wait()
	rec := map[string]interface{}{"what": "work list / work status on 2 sessions while 2 sessions release units with large directories",
		"units": nUnits, "files_per_unit": filesPer, "lists_answered": nLists, "releases_answered": nReleases, "stalled": stalled}
	w.im.Hist("concurrent:list-vs-release")
	w.im.Hist(fmt.Sprintf("list-vs-release:lists-answered-%d+", nLists/50*50))
	w.im.Count(fmt.Sprintf("list-vs-release %d", w.im.Evaluations), true)
	w.im.Evaluations += nLists + nReleases
	if len(stalled) > 0 && w.d.Alive() {
		w.im.Violate(fmt.Sprintf("work commands stopped being answered while listing and releasing concurrently (%d lists, %d of %d releases answered): %s",
			nLists, nReleases, nUnits, stalled[0]), "wedged:list-vs-release", rec)
	}
	if after := w.afterInput("concurrent work list and work release", rec); after != nil {
		for _, id := range after {
			if id != w.uIdx {
				w.release(id)
			}
		}
	}
}

// the same state-changing built-in from several sessions at once
func (w *world) concurrentReload(n, reps int) {
	if w.fatal != "" {
		return
	}
	var wg sync.WaitGroup
	for i := 0; i < n; i++ {
		wg.Add(1)
		go func(i int) {
			defer wg.Done()
			network, addr := "unix", w.d.Sock
			if i%2 == 1 {
				network, addr = "tcp", fmt.Sprintf("127.0.0.1:%d", w.tcp)
			}
			s, err := dialNet(network, addr)
			if err != nil {
				return
			}
			defer s.close()
			for j := 0; j < reps; j++ {
				if s.send([]byte("reload\n")) != nil {
					return
				}
				if _, err := s.line(5 * time.Second); err != nil {
					return
				}
			}
		}(i)
	}
	wg.Wait()
	w.im.Hist("concurrent:reload")
	w.im.Count(fmt.Sprintf("concurrent reload %d", w.im.Evaluations), true)
	w.im.Evaluations += n*reps - 1
	w.afterInput(fmt.Sprintf("%d sessions sending reload %d times each at the same time", n, reps),
		map[string]interface{}{"what": "concurrent reload", "sessions": n, "repetitions": reps})
}

func runC08(c *Ctx) {
	im := NewImpl("C08", c.Seed, c.Tier)
	im.Rule = "sessions on the real daemon: (1) systematic product command x field x {absent, null, bool, number, string, arrays, object} plus value sets for unit IDs (indexed, disk-only, foreign path, path characters, absent), nodes, work types, ttl, options, spellings; raw JSON shapes; plain-text forms; parameters at their bounds: every registered command word x a pool of blank/tab/leading/trailing/too-many parameter strings in plain and JSON form, unit IDs {known, unknown, empty, blanks} for every unit command, `work results` start positions {-1, 0, size-1, size, size+1, 2^31-1, 2^31, 2^63-1, 2^63, 1e30, non-numbers} in both forms against finished and running units with empty and non-empty stdout (stream read to its end and compared with the file); (2) random byte streams of 1-5 lines with CR/LF/'{' sprinkled in; (3) mixed multi-command sessions, half of them ending in an unterminated line + half-close; (4) abrupt disconnects at 8 points, 1 MiB lines of 5 kinds, N concurrent sessions, concurrent reloads, work list/status on two sessions against release of units with large directories on two others (oracle only); (5) long-lived sessions: one session per kind of listener (unix, TCP, TCP+TLS, mesh stream, mesh stream+TLS) opened at the start of the run and used every 3-4 s (a valid command and a line that is not a valid command, both drawn from pools) until it is at least 14 s (thorough 45 s) old, in the background beside the other phases: every request answered within 5 s with the right class (JSON object / ERROR line), the session open at the end, a fresh session of the same kind answered afterwards; a failed session is repeated from scratch before it is reported; the reply classes go to the model as one session; non-trivial = at least one non-empty request line; distinct by full input"
	cf := &CaseFile{Dir: c.Out, Prop: "C08", Imports: []string{"Model.Ctl"}, CaseType: "ctl_case", CheckFn: "ctl_check", PerShard: 130}
	if c.Bin == "" {
		Must(fmt.Errorf("VERIF_BIN not set"))
	}
	w := setup(c, im, cf)
	defer w.teardown()
	if os.Getenv("VERIF_C08_PHASE") == "long" {
		// development aid: only the long-lived sessions
		w.joinLong(w.startLong())
		Must(cf.Write())
		Must(im.Write(c.Out))
		return
	}
	if os.Getenv("VERIF_C08_PHASE") == "list-vs-release" {
		// development aid: only the lock-order phase
		for i := 0; i < 3; i++ {
			w.listVsRelease(16, 1500)
		}
		Must(cf.Write())
		Must(im.Write(c.Out))
		return
	}
	// long-lived sessions on every kind of listener run beside everything below (long.go)
	long := w.startLong()
	// corpus first: the historical crash, wedge and path escape (corpus/C08/*.json; concurrent
	// reload is replayed by concurrentReload below)
	w.runCorpus()
	for _, sp := range w.product() {
		w.doCase(sp, true)
	}
	// parameters at and beyond their bounds (bounds.go)
	for _, sp := range w.paramStrings() {
		w.doCase(sp, true)
	}
	w.startPositions()
	w.reloadVariants()
	w.payloadTrace()
	w.rawSignaturePhase()
	nRand, nMixed, nAbrupt, nConc := 60, 40, 2, 2
	sizes := []int{1 << 20}
	if c.Thorough() {
		nRand, nMixed, nAbrupt, nConc = 3000, 1500, 12, 10
	}
	for i := 0; i < nRand; i++ {
		sp := w.randomStream()
		w.doCase(sp, true)
		lines, rest := refLines(sp.input)
		cf.Add(fmt.Sprintf("CLines %s %s %s", Hx(sp.input), CoqBytesList(lines), Hx(rest)), "line reader reference on a random stream")
	}
	for i := 0; i < nMixed; i++ {
		w.doCase(w.mixedSession(), true)
	}
	for i := 0; i < nAbrupt; i++ {
		for _, k := range []string{"before-greeting", "mid-line", "mid-long-line", "after-command-before-reply", "submit-stdin", "results-stream", "connect-bridge", "reset",
			"results-no-stdout", "tls-garbage", "tls-half-hello", "tls-silent", "mesh-mid-line"} {
			w.abrupt(k)
		}
	}
	streamsDone := make(chan struct{})
	go func() { defer close(streamsDone); w.streamsVsRelease() }()
	for _, size := range sizes {
		kinds := []string{"ping-target", "garbage", "json-broken"}
		if c.Thorough() {
			kinds = append(kinds, "json-string", "unitid")
		}
		for _, k := range kinds {
			w.overlong(k, size)
		}
	}
	<-streamsDone
	w.afterInput("results streams whose unit is released under them", map[string]interface{}{"what": "results stream vs release"})
	for i := 0; i < nConc; i++ {
		w.concurrent(8, 12)
		w.concurrentReload(8, 25)
		w.listVsRelease(16, 1500)
	}
	w.joinLong(long)
	if w.fatal != "" && w.restarts < maxRestarts {
		im.Violate("harness could not go on: "+w.fatal, "harness-stuck", nil)
	}
	im.Extra["stopped_early"] = w.fatal
	Must(cf.Write())
	Must(im.Write(c.Out))
}
