package main

// Long-lived sessions.  The property quantifies over every input of a session, whatever the AGE of
// the session: "no input may wedge the service or a session".  The other phases open a session,
// use it for a moment and close it.  Here one session per kind of listener (unix socket, TCP, TCP
// with TLS, mesh stream, mesh stream with TLS) is opened at the start of the run and used again
// and again, with idle gaps of 3-4 s in between, until it is well past every set-up time limit of
// a connection (the handshake deadline of the TLS listener is 10 s): every round sends one valid
// command and one line that is not a valid command; the first must be answered with a JSON
// object, the second with an ERROR line, each within longReplyBound, and the session must still
// be open after the last round.  A fresh session of the same kind is used afterwards.  The
// sessions run in the background beside the other phases and are judged when those are done.

import (
	"fmt"
	"sort"
	"sync"
	"time"
)

const longReplyBound = 5 * time.Second

var longKinds = []string{"unix", "tcp", "tls", "mesh", "mesh-tls"}

var longValid = []string{
	"ping " + self,
	"status",
	`{"command":"ping","target":"` + self + `"}`,
	`{"command":"status","requested_fields":["NodeID"]}`,
	"work list",
}

var longInvalid = []string{
	"no such command",
	`{"command":"nope"}`,
	"ping",
	"work status nosuchunit-long",
	`{"command":"work","subcommand":"status"}`,
	`{"command":"ping"}`,
	// (a JSON line without a usable command word is answered with TWO error lines; the pool keeps
	// to one reply per line)
}

type longStep struct {
	gap     time.Duration // idle time before the round
	valid   string
	invalid string
}

type longRound struct {
	AgeMs   int64  `json:"session_age_ms"`
	Line    string `json:"line"`
	Expect  int    `json:"expected_class"`
	Class   int    `json:"class"`
	ReplyMs int64  `json:"reply_ms"`
	Reply   string `json:"reply"`
}

type longResult struct {
	kind   string
	steps  []longStep
	rounds []longRound
	input  []byte
	fail   string // "" = every request answered as the property demands
	sig    string
	runs   int // generation of the daemon the session was opened on
	maxAge time.Duration
}

type longPhase struct {
	res  []*longResult
	wg   sync.WaitGroup
	plan map[string][]longStep
}

// the schedule is drawn from the run's generator before anything runs in the background
func (w *world) longPlan(minAge time.Duration) []longStep {
	r := w.c.Rng
	steps := []longStep{{0, r.Pick(longValid), r.Pick(longInvalid)}}
	for age := time.Duration(0); age < minAge; {
		gap := time.Duration(r.Range(3000, 4000)) * time.Millisecond
		age += gap
		steps = append(steps, longStep{gap, r.Pick(longValid), r.Pick(longInvalid)})
	}
	return steps
}

// ask sends one request line and reads the one reply line
func longAsk(s *Sess, t0 time.Time, line string, expect int) (longRound, error) {
	rd := longRound{AgeMs: time.Since(t0).Milliseconds(), Line: line, Expect: expect, Class: -1}
	q0 := time.Now()
	if err := s.send([]byte(line + "\n")); err != nil {
		return rd, fmt.Errorf("send: %v", err)
	}
	l, err := s.line(longReplyBound)
	rd.ReplyMs = time.Since(q0).Milliseconds()
	if err != nil {
		return rd, err
	}
	rd.Class, rd.Reply = classify(l), clip(l, 80)
	return rd, nil
}

func (w *world) longSession(kind string, steps []longStep) *longResult {
	res := &longResult{kind: kind, steps: steps, runs: w.d.runs}
	s, err := w.dialKind(kind)
	if err != nil {
		res.fail, res.sig = "the session could not be opened: "+err.Error(), "long-session-stalled:"+kind
		return res
	}
	defer s.close()
	t0 := time.Now()
	for _, st := range steps {
		time.Sleep(st.gap) // idle
		for i, line := range []string{st.valid, st.invalid} {
			rd, err := longAsk(s, t0, line, i)
			res.rounds = append(res.rounds, rd)
			res.input = append(res.input, []byte(line+"\n")...)
			res.maxAge = time.Since(t0)
			if err != nil {
				res.fail = fmt.Sprintf("request %q on a session %.1f s old was not answered within %v: %v", line, float64(rd.AgeMs)/1000, longReplyBound, err)
				res.sig = "long-session-stalled:" + kind
				return res
			}
			if rd.Class != i {
				what := "a valid command was not answered with a JSON object"
				if i == 1 {
					what = "a line that is not a valid command was not answered with an ERROR line"
				}
				res.fail = fmt.Sprintf("%s on a session %.1f s old: %q -> class %d", what, float64(rd.AgeMs)/1000, line, rd.Class)
				res.sig = "long-session-wrong-class:" + kind
				return res
			}
		}
	}
	// still open: the sentinel request is answered
	if err := s.send([]byte(sentinelLine + "\n")); err == nil {
		l, err := s.line(longReplyBound)
		if err != nil || !isSentinelReply(l) {
			res.fail, res.sig = fmt.Sprintf("the session was not open any more after its last round (%v old): %q %v", time.Since(t0).Round(time.Second), clip(l, 80), err), "long-session-stalled:"+kind
		}
	} else {
		res.fail, res.sig = "the session was not open any more after its last round: "+err.Error(), "long-session-stalled:"+kind
	}
	return res
}

// startLong opens the long-lived sessions; they run beside whatever the caller does next
func (w *world) startLong() *longPhase {
	minAge := 14 * time.Second
	if w.c.Thorough() {
		minAge = 45 * time.Second
	}
	p := &longPhase{plan: map[string][]longStep{}}
	for _, k := range longKinds {
		p.plan[k] = w.longPlan(minAge)
	}
	p.res = make([]*longResult, len(longKinds))
	for i, k := range longKinds {
		p.wg.Add(1)
		go func(i int, k string) {
			defer p.wg.Done()
			p.res[i] = w.longSession(k, p.plan[k])
		}(i, k)
	}
	return p
}

// joinLong judges the long-lived sessions (in the caller's goroutine: Impl is not shared)
func (w *world) joinLong(p *longPhase) {
	p.wg.Wait()
	if w.fatal != "" {
		return
	}
	// a verdict of the form "not answered in time" is formed twice: a session that failed (or that
	// lost its daemon to the restart after another phase's violation) is repeated from scratch
	var again sync.WaitGroup
	for i, r := range p.res {
		if r.fail == "" {
			continue
		}
		if r.runs != w.d.runs {
			w.im.Hist("long-session:daemon-restarted-under-it")
		}
		w.im.Hist("long-session:repeated-from-scratch")
		again.Add(1)
		go func(i int, first *longResult) {
			defer again.Done()
			second := w.longSession(first.kind, first.steps)
			if second.fail != "" {
				second.fail += " (first attempt: " + first.fail + ")"
			}
			p.res[i] = second
		}(i, r)
	}
	again.Wait()
	units, _, lerr := w.listUnits()
	for _, r := range p.res {
		w.im.Hist("long-session:" + r.kind)
		w.im.Hist(fmt.Sprintf("long-session-age:%ds", int(r.maxAge.Seconds())/2*2))
		w.im.Count("long-lived session "+r.kind+" "+string(r.input), len(r.rounds) > 0)
		rec := map[string]interface{}{"what": "long-lived session", "connection": r.kind, "rounds": r.rounds}
		w.im.Sample(rec)
		if r.fail != "" {
			if !w.d.Alive() {
				w.afterInput("a long-lived session over "+r.kind, rec)
				continue
			}
			w.im.Violate("long-lived session over "+r.kind+": "+r.fail, r.sig, rec)
			continue
		}
		for _, rd := range r.rounds {
			if rd.Expect == 1 {
				w.im.Hist("oracle:invalid-line-checked")
			}
		}
		// the model on the same lines: reply classes (the commands used do not touch a unit; the
		// unit list around a background session is not observable, the list of now stands for both)
		if lerr == nil {
			var classes []int
			for _, rd := range r.rounds {
				classes = append(classes, rd.Class)
			}
			w.mu.Lock()
			disk := []string{}
			for id := range w.disk {
				disk = append(disk, id)
			}
			w.mu.Unlock()
			sort.Strings(disk)
			w.addCase(sessSpec{conn: r.kind, input: r.input, label: fmt.Sprintf("long-lived session (%d requests, %d s)", len(r.rounds), int(r.maxAge.Seconds()))},
				units, disk, classes, "", units, nil)
		}
		// a fresh session of the same kind afterwards
		w.longFresh(r.kind, rec)
	}
}

func (w *world) longFresh(kind string, rec map[string]interface{}) {
	try := func() string {
		s, err := w.dialKind(kind)
		if err != nil {
			return "dial: " + err.Error()
		}
		defer s.close()
		t0 := time.Now()
		for i, line := range []string{"ping " + self, "no such command"} {
			rd, err := longAsk(s, t0, line, i)
			if err != nil {
				return fmt.Sprintf("%q not answered within %v: %v", line, longReplyBound, err)
			}
			if rd.Class != i {
				return fmt.Sprintf("%q answered with class %d", line, rd.Class)
			}
		}
		return ""
	}
	w.im.Hist("long-session-fresh:" + kind)
	if e := try(); e != "" {
		if e = try(); e != "" {
			w.im.Violate("a fresh session over "+kind+" after the long-lived one: "+e, "wedged:fresh-after-long:"+kind, rec)
		}
	}
}
