#!/bin/sh
# setup_cmd: offline, from files on disk only.  Builds the Coq development (full .vo build) and
# warms the Go build cache with the harness and the receptor binary built from /repo.
set -e
cd "$(dirname "$0")"
export GOFLAGS=-mod=mod GOPROXY=off GOSUMDB=off GOTOOLCHAIN=local CGO_ENABLED=0
mkdir -p .build evidence replays
./coq/gen_coqproject.sh
timeout 3000 make -C coq -j16 > .build/coq-setup.log 2>&1 || { tail -30 .build/coq-setup.log; exit 1; }
./harness/gen_gomod.sh
for d in harness/cmd/*/; do p=$(basename "$d" | tr a-z A-Z); (cd harness && timeout 3000 go build -tags verif -o "../.build/vh-$p" "./cmd/$(basename "$d")"); done
(cd harness && timeout 3000 go build -tags verif -o ../.build/receptor github.com/ansible/receptor/cmd/receptor-cl)
echo setup ok
