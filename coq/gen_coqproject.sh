#!/bin/sh
# regenerate _CoqProject from the files present (so that adding a file needs no shared edit)
cd "$(dirname "$0")"
{ echo "-R theories Receptor"; echo "-arg -w -arg -notation-overridden,-deprecated-hint-without-locality,-deprecated-instance-without-locality"; find theories -name '*.v' | LC_ALL=C sort; } > _CoqProject.new
if ! cmp -s _CoqProject.new _CoqProject 2>/dev/null; then mv _CoqProject.new _CoqProject; coq_makefile -f _CoqProject -o Makefile >/dev/null; else rm _CoqProject.new; fi
[ -f Makefile ] || coq_makefile -f _CoqProject -o Makefile >/dev/null
