(* Model/Status.v — the status record of a work unit (pkg/workceptor: StatusFileData and its
   ExtraData) and when the content of a status file parses (property C04).

   Only the fields the property speaks about are kept: State, StdoutSize, WorkType and the part
   of ExtraData that binds the unit to something outside the record — the runner's PID for a
   command unit; remote node, remote work type, remote unit ID and RemoteStarted for a remote
   unit.  Detail (free text) is dropped.

   The file holds JSON text in the code.  Two facts about that text matter here and are all the
   model keeps of it: what was written by one Write is read back as the same record, and an
   empty (or cut) text is not a record (json.Unmarshal: "unexpected end of JSON input").  The
   model therefore uses its own small self-delimiting encoding into a list of cells ([N], not
   restricted to 0..255) with exactly these two properties ([parse_encode], [parse_nil] in
   Proofs/Status.v); no statement depends on its details. *)
From Receptor Require Export Base.Hex.
Open Scope N_scope.

Definition S_PENDING : N := 0.
Definition S_RUNNING : N := 1.
Definition S_SUCCEEDED : N := 2.
Definition S_FAILED : N := 3.
Definition S_CANCELED : N := 4.

Definition st_complete (s : N) : bool := (s =? S_SUCCEEDED) || (s =? S_FAILED).
(* the states in which a unit is at rest for good: IsComplete, or cancelled *)
Definition st_final (s : N) : bool := st_complete s || (s =? S_CANCELED).

Inductive extra :=
| XNone                                                   (* null / cleared *)
| XCmd (pid : N)                                          (* CommandExtraData *)
| XRemote (node rtype runit : bytes) (started : bool).    (* RemoteExtraData *)

Record status := mkStatus { s_state : N; s_size : N; s_wtype : bytes; s_extra : extra }.

(* ---------- encoding ---------- *)
Definition enc_bytes (b : bytes) : bytes := N.of_nat (length b) :: b.

Definition enc_extra (e : extra) : bytes :=
  match e with
  | XNone => [0]
  | XCmd pid => [1; pid]
  | XRemote n t u st => [2] ++ enc_bytes n ++ enc_bytes t ++ enc_bytes u ++ [if st then 1 else 0]
  end.

Definition encode (s : status) : bytes :=
  [123; s_state s; s_size s] ++ enc_bytes (s_wtype s) ++ enc_extra (s_extra s) ++ [125; 10].

Definition take_bytes (l : bytes) : option (bytes * bytes) :=
  match l with
  | [] => None
  | n :: r =>
    if Nat.leb (N.to_nat n) (length r) then Some (firstn (N.to_nat n) r, skipn (N.to_nat n) r)
    else None
  end.

Definition dec_extra (l : bytes) : option (extra * bytes) :=
  match l with
  | 0 :: r => Some (XNone, r)
  | 1 :: pid :: r => Some (XCmd pid, r)
  | 2 :: r =>
    match take_bytes r with
    | Some (n, r1) =>
      match take_bytes r1 with
      | Some (t, r2) =>
        match take_bytes r2 with
        | Some (u, st :: r3) =>
          if st =? 0 then Some (XRemote n t u false, r3)
          else if st =? 1 then Some (XRemote n t u true, r3) else None
        | _ => None
        end
      | None => None
      end
    | None => None
    end
  | _ => None
  end.

Definition parse (l : bytes) : option status :=
  match l with
  | 123 :: st :: sz :: r =>
    match take_bytes r with
    | Some (wt, r1) =>
      match dec_extra r1 with
      | Some (ex, [125; 10]) => Some (mkStatus st sz wt ex)
      | _ => None
      end
    | None => None
    end
  | _ => None
  end.

(* ---------- comparisons ---------- *)
Definition beq_extra (a b : extra) : bool :=
  match a, b with
  | XNone, XNone => true
  | XCmd p, XCmd q => p =? q
  | XRemote n t u s, XRemote n' t' u' s' =>
    beq_bytes n n' && beq_bytes t t' && beq_bytes u u' && Bool.eqb s s'
  | _, _ => false
  end.

Definition beq_status (a b : status) : bool :=
  (s_state a =? s_state b) && (s_size a =? s_size b) && beq_bytes (s_wtype a) (s_wtype b)
  && beq_extra (s_extra a) (s_extra b).

(* the binding of a remote unit: node, remote work type, remote unit ID ([] while none), started *)
Definition binding (e : extra) : option (bytes * bytes * bytes * bool) :=
  match e with XRemote n t u s => Some (n, t, u, s) | _ => None end.
