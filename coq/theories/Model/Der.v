(* Model/Der.v — the fragment of DER used by pkg/utils/other_name.go, as Go's encoding/asn1
   implements it (go1.23 src/encoding/asn1/{asn1,marshal}.go):
   - encoder: identifier octet, minimal definite length, content  (marshal.go appendLength);
   - decoder: parseTagAndLength (single-octet identifiers only: a high-tag-number identifier
     makes the model answer [Unsup], "the model does not decide this input"), with every error
     branch of the Go function: truncated, indefinite length, superfluous leading zeros,
     non-minimal length, length too large (accumulator >= 2^23 before a shift). *)
From Receptor Require Export Base.Hex.
Open Scope N_scope.

Inductive res (A : Type) := Ok (a : A) | Err (e : N) | Unsup.
Arguments Ok {A} a. Arguments Err {A} e. Arguments Unsup {A}.

Definition bind {A B} (r : res A) (f : A -> res B) : res B :=
  match r with Ok a => f a | Err e => Err e | Unsup => Unsup end.

(* error classes (small enum; Go error strings are projected onto it by the harness) *)
Definition E_TRUNC : N := 1.       (* truncated tag or length / data truncated / sequence truncated *)
Definition E_LEN : N := 2.         (* indefinite, non-minimal, leading zeros, too large *)
Definition E_TAG : N := 3.         (* tags don't match *)
Definition E_VALUE : N := 4.       (* invalid content (OID, UTF-8 ...) *)

(* ---------- encoder ---------- *)

Fixpoint be_digits (fuel : nat) (n : N) (acc : bytes) : bytes :=
  match fuel with
  | O => acc
  | S f => if n =? 0 then acc else be_digits f (n / 256) (n mod 256 :: acc)
  end.

(* minimal big-endian base-256 digits; [] for 0.  Eight digits are all a Go int can need
   (marshal.go lengthLength/appendBase256 loop on an int), so the model is exact below 2^64. *)
Definition base256 (n : N) : bytes := be_digits 8 n [].

Definition enc_len (n : N) : bytes :=
  if n <? 128 then [n]
  else let d := base256 n in (128 + N.of_nat (length d)) :: d.

Definition blen (b : bytes) : N := N.of_nat (length b).

Definition tlv (id : N) (content : bytes) : bytes :=
  id :: enc_len (blen content) ++ content.

(* ---------- decoder ---------- *)

Fixpoint read_len (k : nat) (r : bytes) (acc : N) : res (N * bytes) :=
  match k with
  | O => Ok (acc, r)
  | S k' =>
    match r with
    | [] => Err E_TRUNC
    | b :: r' =>
      if 8388608 <=? acc then Err E_LEN
      else let acc' := acc * 256 + b in
           if acc' =? 0 then Err E_LEN else read_len k' r' acc'
    end
  end.

(* identifier octet, declared length, bytes after the header *)
Definition parse_tl (b : bytes) : res (N * N * bytes) :=
  match b with
  | [] => Err E_TRUNC
  | id :: r =>
    if id mod 32 =? 31 then Unsup
    else match r with
         | [] => Err E_TRUNC
         | l :: r' =>
           if l <? 128 then Ok (id, l, r')
           else let k := l - 128 in
                if k =? 0 then Err E_LEN
                else bind (read_len (N.to_nat k) r' 0)
                          (fun p => let '(n, r'') := p in
                                    if n <? 128 then Err E_LEN else Ok (id, n, r''))
         end
  end.

Record elem := { e_id : N; e_content : bytes; e_full : bytes }.

(* one complete TLV at the head of [b]: element and the bytes that follow it *)
Definition parse_tlv (b : bytes) : res (elem * bytes) :=
  bind (parse_tl b) (fun p =>
    let '(id, n, r) := p in
    if n <=? blen r then
      let c := firstn (N.to_nat n) r in
      let rest := skipn (N.to_nat n) r in
      Ok ({| e_id := id; e_content := c;
             e_full := firstn (length b - length rest) b |}, rest)
    else Err E_TRUNC).

(* all TLVs of a SEQUENCE OF body; fuel = number of bytes (every element consumes at least 2) *)
Fixpoint parse_elems (fuel : nat) (b : bytes) : res (list elem) :=
  match b with
  | [] => Ok []
  | _ => match fuel with
         | O => Err E_TRUNC
         | S f => bind (parse_tlv b) (fun p =>
                    let '(e, rest) := p in
                    bind (parse_elems f rest) (fun es => Ok (e :: es)))
         end
  end.
