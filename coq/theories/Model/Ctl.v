(* Model/Ctl.v — property C08: the control service's command interpreter.
   Mirrors  pkg/controlsvc/controlsvc.go   RunControlSession (byte-wise line reader, JSON / plain
                                            dispatch, command lookup, error replies)
            pkg/controlsvc/{ping,status,connect,traceroute,reload}.go
                                            InitFromString / InitFromJSON / reply class of ControlFunc
            pkg/workceptor/controlsvc.go    the `work` command: InitFromString, InitFromJSON,
                                            strFromMap / intFromMap / boolFromMap, ControlFunc
            pkg/workceptor/workceptor.go    findUnit -> scanForUnit with the steps on activeUnitsLock
   after the three repairs (known_findings.json):
     [f_status] status.go: `requested_fields.([]interface{})` is a checked assertion;
     [f_lock]   findUnit releases the read lock before scanForUnit takes read, then write lock;
     [f_path]   scanForUnit ignores unit IDs that are not a plain directory name.
   The historical behaviour is kept under the same definitions with the flags off ([pinned]) so
   that each defect stays a machine-checked fact (Proofs/Ctl.v: *_refuted).

   Unchecked partial operations are explicit: [IPanic] / [LPanic] where Go would panic,
   [LDeadlock] where the session goroutine blocks for ever on the unit-index lock.

   Oracles (Section variables, nothing assumed of them):
     parse  : encoding/json.Unmarshal of a line starting with '{' into map[string]interface{}
     lower  : strings.ToLower
     ttl_ok : time.ParseDuration succeeds
     fresh  : the unit ID generateUnitID picks in a given node state *)
From Coq Require Import String.
From Receptor Require Export Model.CJson.
Open Scope N_scope.

Definition isnil (b : bytes) : bool := match b with [] => true | _ => false end.
Fixpoint mem_b (x : bytes) (l : list bytes) : bool :=
  match l with [] => false | y :: r => beq_bytes x y || mem_b x r end.
Fixpoint remove_b (x : bytes) (l : list bytes) : list bytes :=
  match l with [] => [] | y :: r => if beq_bytes x y then remove_b x r else y :: remove_b x r end.
Fixpoint has_prefix (p s : bytes) : bool :=
  match p, s with
  | [], _ => true
  | x :: p', y :: s' => (x =? y) && has_prefix p' s'
  | _ :: _, [] => false
  end.
Definition ascii_lower (b : N) : N := if (65 <=? b) && (b <=? 90) then b + 32 else b.
Definition eq_fold (a b : bytes) : bool := beq_bytes (map ascii_lower a) (map ascii_lower b).

(* ---------- reading lines ---------- *)

(* conn.Read one byte at a time: '\r' dropped wherever it is, '\n' ends the line.
   Result: the complete lines (empty ones included, they are skipped later) and the unterminated
   rest, which is executed as a line only when the peer half-closes (io.EOF with bytes pending). *)
Fixpoint lines_of (input : bytes) (acc : bytes) : list bytes * bytes :=
  match input with
  | [] => ([], rev acc)
  | b :: r =>
    if b =? 13 then lines_of r acc
    else if b =? 10 then let '(ls, tl) := lines_of r [] in (rev acc :: ls, tl)
    else lines_of r (b :: acc)
  end.

(* strings.SplitN(line, " ", 2) *)
Fixpoint split_sp (l : bytes) : bytes * option bytes :=
  match l with
  | [] => ([], None)
  | b :: r => if b =? 32 then ([], Some r) else let '(w, p) := split_sp r in (b :: w, p)
  end.

(* strings.Split(s, " "): never empty *)
Fixpoint split_all (l : bytes) : list bytes :=
  match l with
  | [] => [[]]
  | b :: r =>
    if b =? 32 then [] :: split_all r
    else match split_all r with t :: ts => (b :: t) :: ts | [] => [[b]] end
  end.

(* ---------- commands after InitFromString / InitFromJSON ---------- *)

Record wparams := mkwp {
  wp_unitid : option bytes;
  wp_signature : option bytes;
  wp_fields : list (bytes * bytes)      (* submit: every field of the request, all strings *)
}.

Inductive parsed :=
| PPing (target : bytes)
| PStatus (fields : option (list bytes))
| PConnect (node service tls : bytes)
| PTraceroute (target : bytes)
| PReload
| PWork (sub : bytes) (p : wparams).

Inductive ires := IOk (c : parsed) | IErr | IPanic (point : N).

Definition P_REQUESTED_FIELDS : N := 1.   (* status.go: requestedFields.([]interface{}) *)
Definition P_RUNLOCK : N := 2.            (* RUnlock / Unlock of a lock not held: runtime fatal error *)

Definition s_ping := str "ping". Definition s_status := str "status". Definition s_connect := str "connect".
Definition s_traceroute := str "traceroute". Definition s_reload := str "reload". Definition s_work := str "work".
Definition s_command := str "command". Definition s_target := str "target". Definition s_node := str "node".
Definition s_service := str "service". Definition s_tls := str "tls". Definition s_reqf := str "requested_fields".
Definition s_subcommand := str "subcommand". Definition s_unitid := str "unitid". Definition s_startpos := str "startpos".
Definition s_signature := str "signature". Definition s_worktype := str "worktype". Definition s_tlsclient := str "tlsclient".
Definition s_ttl := str "ttl". Definition s_signwork := str "signwork". Definition s_params := str "params".
Definition s_submit := str "submit". Definition s_list := str "list". Definition s_cancel := str "cancel".
Definition s_release := str "release". Definition s_frelease := str "force-release". Definition s_results := str "results".
Definition s_remote := str "remote". Definition s_localhost := str "localhost". Definition s_true := str "true".
Definition s_secret := str "secret_".

Definition is_unit_cmd (sub : bytes) : bool :=
  beq_bytes sub s_status || beq_bytes sub s_cancel || beq_bytes sub s_release || beq_bytes sub s_frelease.

(* strconv.ParseInt(s, 10, 64) succeeds (sign, digits, range); used by the plain `work results` *)
Definition digit (b : N) : bool := (48 <=? b) && (b <=? 57).
Fixpoint dec_val (l : bytes) (acc : N) : N :=
  match l with [] => acc | b :: r => dec_val r (10 * acc + (b - 48)) end.
Fixpoint drop_zeros (l : bytes) : bytes :=
  match l with 48 :: r => drop_zeros r | _ => l end.
Definition parse_int_ok (s : bytes) : bool :=
  let '(neg, ds) := match s with 43 :: r => (false, r) | 45 :: r => (true, r) | _ => (false, s) end in
  match ds with
  | [] => false
  | _ =>
    forallb digit ds &&
    (let sig := drop_zeros ds in
     (N.of_nat (length sig) <=? 19) &&
     (dec_val sig 0 <=? (if neg then 9223372036854775808 else 9223372036854775807)))
  end.

Section Ctl.
Variable parse : bytes -> option jobj.
Variable lower : bytes -> bytes.
Variable ttl_ok : bytes -> bool.

(* which repairs are in the tree *)
Record fixes := mkfix { f_status : bool; f_lock : bool; f_path : bool }.
Definition repaired := mkfix true true true.
Definition pinned := mkfix false false false.

(* --- controlsvc built-ins --- *)

Definition init_ping_s (params : bytes) : ires := if isnil params then IErr else IOk (PPing params).
Definition init_ping_j (m : jobj) : ires :=
  match jget s_target m with
  | None => IErr
  | Some v => match as_str v with Some s => IOk (PPing s) | None => IErr end
  end.

Definition init_traceroute_s (params : bytes) : ires := if isnil params then IErr else IOk (PTraceroute params).
Definition init_traceroute_j (m : jobj) : ires :=
  match jget s_target m with
  | None => IErr
  | Some v => match as_str v with Some s => IOk (PTraceroute s) | None => IErr end
  end.

Definition init_status_s (params : bytes) : ires := if isnil params then IOk (PStatus None) else IErr.
Definition init_status_j (fx : fixes) (m : jobj) : ires :=
  match jget s_reqf m with
  | None => IOk (PStatus None)
  | Some v =>
    match as_arr v with
    | None => if f_status fx then IErr else IPanic P_REQUESTED_FIELDS
    | Some l => match all_strs l with Some ss => IOk (PStatus (Some ss)) | None => IErr end
    end
  end.

Definition init_connect_s (params : bytes) : ires :=
  match split_all params with
  | [n; s] => IOk (PConnect n s [])
  | [n; s; t] => IOk (PConnect n s t)
  | _ => IErr
  end.
Definition init_connect_j (m : jobj) : ires :=
  match jget s_node m with
  | None => IErr
  | Some vn =>
    match as_str vn with
    | None => IErr
    | Some n =>
      match jget s_service m with
      | None => IErr
      | Some vs =>
        match as_str vs with
        | None => IErr
        | Some s =>
          match jget s_tls m with
          | None => IOk (PConnect n s [])
          | Some vt => match as_str vt with Some t => IOk (PConnect n s t) | None => IErr end
          end
        end
      end
    end
  end.

(* --- work --- *)

(* strFromMap *)
Definition str_from (m : jobj) (k : bytes) : option bytes :=
  match jget k m with Some v => as_str v | None => None end.

(* intFromMap: a number converts; a string never does (ParseInt error, or the fall-through
   "not convertible"); anything else does not *)
Definition int_from_ok (m : jobj) (k : bytes) : bool :=
  match jget k m with Some JNum => true | _ => false end.

Definition init_work_s (params : bytes) : ires :=
  let tokens := split_all params in
  let sub := lower (hd [] tokens) in
  if beq_bytes sub s_submit then
    match tokens with
    | _ :: n :: t :: rest =>
      let base := [(s_node, n); (s_worktype, t)] in
      let fl := match rest with
                | [] => base
                | x :: more => base ++ [(s_params, x ++ concat (map (fun y => 32 :: y) more))]
                                                (* strings.Join(tokens[3:], " "): only its emptiness matters *)
                end in
      IOk (PWork sub (mkwp None None fl))
    | _ => IErr
    end
  else if beq_bytes sub s_list then
    match tokens with
    | _ :: u :: _ => IOk (PWork sub (mkwp (Some u) None []))
    | _ => IOk (PWork sub (mkwp None None []))
    end
  else if is_unit_cmd sub then
    match tokens with
    | [_; u] => IOk (PWork sub (mkwp (Some u) None []))
    | _ => IErr
    end
  else if beq_bytes sub s_results then
    match tokens with
    | [_; u] => IOk (PWork sub (mkwp (Some u) None []))
    | [_; u; p] => if parse_int_ok p then IOk (PWork sub (mkwp (Some u) None [])) else IErr
    | _ => IErr
    end
  else IOk (PWork sub (mkwp None None [])).      (* "bad command" comes from ControlFunc *)

Definition init_work_j (m : jobj) : ires :=
  match str_from m s_subcommand with
  | None => IErr
  | Some sc =>
    let sub := lower sc in
    if beq_bytes sub s_submit then
      match str_fields m with
      | None => IErr                                   (* submit parameters must all be strings *)
      | Some fl =>
        match sget s_node fl, sget s_worktype fl with
        | Some _, Some _ => IOk (PWork sub (mkwp None None fl))
        | _, _ => IErr
        end
      end
    else if is_unit_cmd sub then
      match str_from m s_unitid with
      | None => IErr
      | Some u => IOk (PWork sub (mkwp (Some u) (str_from m s_signature) []))
      end
    else if beq_bytes sub s_list then IOk (PWork sub (mkwp (str_from m s_unitid) None []))
    else if beq_bytes sub s_results then
      match str_from m s_unitid with
      | None => IErr
      | Some u =>
        if int_from_ok m s_startpos then IOk (PWork sub (mkwp (Some u) (str_from m s_signature) []))
        else IErr
      end
    else IOk (PWork sub (mkwp None None []))
  end.

(* command lookup + Init: None = no such command *)
Definition init_string (cmd params : bytes) : option ires :=
  if beq_bytes cmd s_ping then Some (init_ping_s params)
  else if beq_bytes cmd s_status then Some (init_status_s params)
  else if beq_bytes cmd s_connect then Some (init_connect_s params)
  else if beq_bytes cmd s_traceroute then Some (init_traceroute_s params)
  else if beq_bytes cmd s_reload then Some (IOk PReload)
  else if beq_bytes cmd s_work then Some (init_work_s params)
  else None.

Definition init_json (fx : fixes) (cmd : bytes) (m : jobj) : option ires :=
  if beq_bytes cmd s_ping then Some (init_ping_j m)
  else if beq_bytes cmd s_status then Some (init_status_j fx m)
  else if beq_bytes cmd s_connect then Some (init_connect_j m)
  else if beq_bytes cmd s_traceroute then Some (init_traceroute_j m)
  else if beq_bytes cmd s_reload then Some (IOk PReload)
  else if beq_bytes cmd s_work then Some (init_work_j m)
  else None.

(* ---------- the node ---------- *)

Record node := mknode {
  n_self : bytes;                       (* node ID *)
  n_unix : bool;                        (* this session arrived on the unix socket *)
  n_index : list bytes;                 (* unit IDs in Workceptor.activeUnits *)
  n_disk : list bytes;                  (* unit directories with a loadable status file, not indexed *)
  n_foreign : list (bytes * bytes);     (* relative paths with a separator that lead from the data
                                           directory to some loadable unit directory, with its base name *)
  n_worktypes : list bytes;             (* registered command work types (no verification, no runtime params) *)
  n_tls : list bytes;                   (* tls-client profile names *)
  n_reach : list (bytes * bytes)        (* (node, service) a Dial reaches *)
}.

Definition with_units (nd : node) (idx dsk : list bytes) : node :=
  mknode (n_self nd) (n_unix nd) idx dsk (n_foreign nd) (n_worktypes nd) (n_tls nd) (n_reach nd).

Variable fresh : node -> bytes.

(* ---------- the unit-index lock ---------- *)

Inductive lockop := RLock | RUnlock | WLock | WUnlock.
(* what THIS goroutine holds; other goroutines hold the lock only for bounded sections *)
Record lockst := mklock { readers : nat; writer : bool }.
Definition lock_free := mklock 0 false.
Inductive lres := LOk (s : lockst) | LBlock | LFatal.

Definition lock_step (s : lockst) (o : lockop) : lres :=
  match o with
  | RLock => if writer s then LBlock else LOk (mklock (S (readers s)) false)
  | RUnlock => match readers s with O => LFatal | S n => LOk (mklock n (writer s)) end
  | WLock => if writer s then LBlock else match readers s with O => LOk (mklock 0 true) | S _ => LBlock end
  | WUnlock => if writer s then LOk (mklock (readers s) false) else LFatal
  end.

Fixpoint lock_run (s : lockst) (ops : list lockop) : lres :=
  match ops with
  | [] => LOk s
  | o :: r => match lock_step s o with LOk s' => lock_run s' r | x => x end
  end.

(* scanForUnit: nothing if the directory does not exist; else a read section, and a write section
   if the unit gets registered *)
Definition scan_ops (dir_exists registers : bool) : list lockop :=
  if dir_exists then [RLock; RUnlock] ++ (if registers then [WLock; WUnlock] else []) else [].

Definition find_ops (fx : fixes) (in_index dir_exists registers : bool) : list lockop :=
  if f_lock fx then
    [RLock; RUnlock] ++ (if in_index then [] else scan_ops dir_exists registers ++ [RLock; RUnlock])
  else
    [RLock] ++ (if in_index then [] else scan_ops dir_exists registers) ++ [RUnlock].

(* a unit ID that is not the name of an entry of the data directory *)
Definition bad_unit_id (id : bytes) : bool :=
  isnil id || beq_bytes id [46] || beq_bytes id [46; 46] || existsb (fun b => (b =? 47) || (b =? 92)) id.

Fixpoint assoc_b (k : bytes) (l : list (bytes * bytes)) : option bytes :=
  match l with [] => None | (k', v) :: r => if beq_bytes k' k then Some v else assoc_b k r end.

Inductive found := Found (nd : node) | NotFound (nd : node) | FDeadlock | FFatal.

(* findUnit *)
Definition find_unit (fx : fixes) (nd : node) (id : bytes) : found :=
  if mem_b id (n_index nd) then
    match lock_run lock_free (find_ops fx true false false) with
    | LOk _ => Found nd | LBlock => FDeadlock | LFatal => FFatal
    end
  else
    let skip := f_path fx && bad_unit_id id in
    let on_disk := negb skip && mem_b id (n_disk nd) in
    let foreign := if skip then None else assoc_b id (n_foreign nd) in
    let registers := on_disk || match foreign with
                                | Some nm => negb (mem_b nm (n_index nd))
                                | None => false end in
    let dir_exists := on_disk || match foreign with Some _ => true | None => false end in
    match lock_run lock_free (find_ops fx false dir_exists registers) with
    | LBlock => FDeadlock
    | LFatal => FFatal
    | LOk _ =>
      if on_disk then Found (with_units nd (n_index nd ++ [id]) (remove_b id (n_disk nd)))
      else match foreign with
           | Some nm =>
             if mem_b nm (n_index nd) then NotFound nd
             else NotFound (with_units nd (n_index nd ++ [nm]) (n_disk nd))   (* registered under its base name *)
           | None => NotFound nd
           end
    end.

(* ---------- ControlFunc: reply class and effect on the node ---------- *)

Inductive rclass := ROk | RErr | RStream.
   (* a JSON object line | a line starting with "ERROR" | the connection is taken over:
      bridged (connect), fed from a file until it is closed (work results), or read as stdin until
      EOF and then answered (work submit) *)

Inductive line_outcome :=
| LReplies (nd : node) (rs : list rclass)
| LPanic (point : N)
| LDeadlock.

Definition mem_pair (a b : bytes) (l : list (bytes * bytes)) : bool :=
  existsb (fun p => beq_bytes (fst p) a && beq_bytes (snd p) b) l.

Definition non_params : list bytes :=
  [s_command; s_subcommand; s_node; s_worktype; s_tlsclient; s_ttl; s_signwork; s_signature].

Definition opt_nil (o : option bytes) : bytes := match o with Some s => s | None => [] end.

Definition has_secret_param (fl : list (bytes * bytes)) : bool :=
  existsb (fun kv => negb (mem_b (fst kv) non_params) && has_prefix s_secret (lower (fst kv))) fl.

(* processSignature on a node without verification key and without verifying work types *)
Definition sig_ok (nd : node) (wtype signature : bytes) (signwork : bool) : bool :=
  let verify := beq_bytes wtype s_remote && signwork in
  if negb verify then isnil signature
  else n_unix nd.        (* VerifySignature fails: empty signature, or no key *)

Definition run_submit (nd : node) (fl : list (bytes * bytes)) : line_outcome :=
  let node_f := opt_nil (sget s_node fl) in
  let wtype := opt_nil (sget s_worktype fl) in
  let tlsc := opt_nil (sget s_tlsclient fl) in
  let ttl := opt_nil (sget s_ttl fl) in
  let signwork := beq_bytes (opt_nil (sget s_signwork fl)) s_true in
  let signature := opt_nil (sget s_signature fl) in
  if negb (sig_ok nd wtype signature signwork) then LReplies nd [RErr]
  else if beq_bytes node_f (n_self nd) || eq_fold node_f s_localhost then
    (* local unit *)
    if negb (isnil ttl) then LReplies nd [RErr]
    else if beq_bytes wtype s_remote then
      LReplies (with_units nd (n_index nd ++ [fresh nd]) (n_disk nd)) [RStream]
    else if negb (mem_b wtype (n_worktypes nd)) then LReplies nd [RErr]
    else if negb (isnil (opt_nil (sget s_params fl))) then LReplies nd [RErr]   (* extra params not allowed *)
    else LReplies (with_units nd (n_index nd ++ [fresh nd]) (n_disk nd)) [RStream]
  else
    (* AllocateRemoteUnit *)
    if negb (isnil tlsc) && negb (mem_b tlsc (n_tls nd)) then LReplies nd [RErr]
    else if has_secret_param fl && isnil tlsc then LReplies nd [RErr]
    else
      let nd' := with_units nd (n_index nd ++ [fresh nd]) (n_disk nd) in
      if negb (isnil ttl) && negb (ttl_ok ttl) then LReplies nd' [RErr]   (* after the allocation *)
      else LReplies nd' [RStream].

Definition of_found (f : found) (k : node -> line_outcome) : line_outcome :=
  match f with
  | Found nd => k nd
  | NotFound nd => LReplies nd [RErr]
  | FDeadlock => LDeadlock
  | FFatal => LPanic P_RUNLOCK
  end.

Definition run_work (fx : fixes) (nd : node) (sub : bytes) (p : wparams) : line_outcome :=
  if beq_bytes sub s_submit then run_submit nd (wp_fields p)
  else if beq_bytes sub s_list then
    match wp_unitid p with
    | None => LReplies nd [ROk]
    | Some u => of_found (find_unit fx nd u) (fun nd' => LReplies nd' [ROk])
    end
  else if beq_bytes sub s_status then
    match wp_unitid p with
    | None => LReplies nd [RErr]
    | Some u => of_found (find_unit fx nd u) (fun nd' => LReplies nd' [ROk])
    end
  else if beq_bytes sub s_cancel || beq_bytes sub s_release || beq_bytes sub s_frelease then
    match wp_unitid p with
    | None => LReplies nd [RErr]
    | Some u =>
      of_found (find_unit fx nd u) (fun nd' =>
        if negb (isnil (opt_nil (wp_signature p))) then LReplies nd' [RErr]   (* did not expect a signature *)
        else if beq_bytes sub s_cancel then LReplies nd' [ROk]
        else LReplies (with_units nd' (remove_b u (n_index nd')) (n_disk nd')) [ROk])
    end
  else if beq_bytes sub s_results then
    match wp_unitid p with
    | None => LReplies nd [RErr]
    | Some u =>
      of_found (find_unit fx nd u) (fun nd' =>
        if negb (isnil (opt_nil (wp_signature p))) then LReplies nd' [RErr]
        else of_found (find_unit fx nd' u) (fun nd'' => LReplies nd'' [RStream]))   (* GetResults looks it up again *)
    end
  else LReplies nd [RErr].                                                        (* bad command *)

Definition run_cmd (fx : fixes) (nd : node) (c : parsed) : line_outcome :=
  match c with
  | PPing _ | PTraceroute _ | PStatus _ | PReload => LReplies nd [ROk]     (* failures are reported inside the object *)
  | PConnect n s t =>
    if negb (isnil t) && negb (mem_b t (n_tls nd)) then LReplies nd [RErr]
    else if mem_pair n s (n_reach nd) then LReplies nd [RStream] else LReplies nd [RErr]
  | PWork sub p => run_work fx nd sub p
  end.

Definition after_init (fx : fixes) (nd : node) (i : option ires) : line_outcome :=
  match i with
  | None => LReplies nd [RErr]                    (* Unknown command *)
  | Some IErr => LReplies nd [RErr]
  | Some (IPanic pt) => LPanic pt
  | Some (IOk c) => run_cmd fx nd c
  end.

Definition prepend_err (o : line_outcome) : line_outcome :=
  match o with LReplies nd rs => LReplies nd (RErr :: rs) | x => x end.

(* one request line (already without '\r' and '\n') *)
Definition exec_line (fx : fixes) (nd : node) (line : bytes) : line_outcome :=
  match line with
  | [] => LReplies nd []
  | b :: _ =>
    if b =? 123 then
      match parse line with
      | None => LReplies nd [RErr; RErr]           (* the JSON error, then "Unknown command" for cmd = "" *)
      | Some m =>
        match jget s_command m with
        | None => LReplies nd [RErr; RErr]
        | Some v =>
          match as_str v with
          | None => LReplies nd [RErr; RErr]
          | Some cmd => after_init fx nd (init_json fx cmd m)
          end
        end
      end
    else
      let '(w, p) := split_sp line in
      after_init fx nd (init_string (lower w) (opt_nil p))
  end.

(* is the line a valid command: it names a command and its Init accepts it *)
Definition valid_line (fx : fixes) (line : bytes) : bool :=
  match line with
  | [] => false
  | b :: _ =>
    let i := if b =? 123 then
               match parse line with
               | None => None
               | Some m => match jget s_command m with
                           | Some v => match as_str v with Some cmd => init_json fx cmd m | None => None end
                           | None => None
                           end
               end
             else let '(w, p) := split_sp line in init_string (lower w) (opt_nil p) in
    match i with Some (IOk _) => true | _ => false end
  end.

(* ---------- a session ---------- *)

Inductive sess :=
| SReplies (nd : node) (rs : list rclass)
| SPanic (rs : list rclass) (point : N)
| SDeadlock (rs : list rclass).

Definition sess_cons (rs : list rclass) (s : sess) : sess :=
  match s with
  | SReplies nd rs' => SReplies nd (rs ++ rs')
  | SPanic rs' pt => SPanic (rs ++ rs') pt
  | SDeadlock rs' => SDeadlock (rs ++ rs')
  end.

Definition ends_stream (rs : list rclass) : bool :=
  match rev rs with RStream :: _ => true | _ => false end.

Fixpoint run_lines (fx : fixes) (nd : node) (ls : list bytes) : sess :=
  match ls with
  | [] => SReplies nd []
  | l :: r =>
    match exec_line fx nd l with
    | LReplies nd' rs =>
      if ends_stream rs then SReplies nd' rs        (* the rest of the input belongs to the stream *)
      else sess_cons rs (run_lines fx nd' r)
    | LPanic pt => SPanic [] pt
    | LDeadlock => SDeadlock []
    end
  end.

(* everything a client sends on one connection; [eof]: it half-closes at the end *)
Definition session (fx : fixes) (nd : node) (input : bytes) (eof : bool) : sess :=
  let '(ls, tl) := lines_of input [] in
  run_lines fx nd (if eof then ls ++ [tl] else ls).

End Ctl.

(* ---------- the reload command under concurrent sessions ---------- *)

(* ReloadCommand.ControlFunc updates package-level maps and re-runs the configuration parser;
   every control session is a goroutine of its own.  Events of a schedule: a session enters that
   section / leaves it.  [k] sessions are inside.  Without a lock (the pinned tree) a second
   session entering while one is inside is Go's "fatal error: concurrent map writes"; with the
   mutex of the repaired tree it waits (the event does not happen). *)
Inductive rl_ev := Enter | Leave.

Fixpoint rl_run (mutex : bool) (k : nat) (evs : list rl_ev) : option nat :=
  match evs with
  | [] => Some k
  | Enter :: r =>
    match k with
    | O => rl_run mutex 1 r
    | S _ => if mutex then rl_run mutex k r else None
    end
  | Leave :: r => rl_run mutex (pred k) r
  end.

(* ---------- lock order between the unit index and a unit's status ---------- *)

(* Two locks: Workceptor.activeUnitsLock (LIndex) and one unit's BaseWorkUnit.statusLock (LStatus).
   `work list` / `work status` read both; BaseWorkUnit.Release holds the status lock for the whole
   removal of the unit directory and then takes the index lock to delete the entry.  Two
   goroutines run their acquisition programs in any interleaving; a state in which neither can
   take its next step is a deadlock.  [lk_explore] visits every interleaving. *)
Inductive lk := LIndex | LStatus.
Inductive acq := AR (l : lk) | UR (l : lk) | AW (l : lk) | UW (l : lk).

Record rwst := mkrw { rw_readers : nat; rw_writer : bool }.
Record lkstate := mklk { lk_index : rwst; lk_status : rwst; lk_p0 : list acq; lk_p1 : list acq }.

Definition get_lk (s : lkstate) (l : lk) : rwst := match l with LIndex => lk_index s | LStatus => lk_status s end.
Definition set_lk (s : lkstate) (l : lk) (v : rwst) : lkstate :=
  match l with
  | LIndex => mklk v (lk_status s) (lk_p0 s) (lk_p1 s)
  | LStatus => mklk (lk_index s) v (lk_p0 s) (lk_p1 s)
  end.

(* the effect of one acquisition / release, None when it has to wait *)
Definition acq_step (s : lkstate) (a : acq) : option lkstate :=
  match a with
  | AR l => let v := get_lk s l in
            if rw_writer v then None else Some (set_lk s l (mkrw (S (rw_readers v)) false))
  | UR l => let v := get_lk s l in Some (set_lk s l (mkrw (pred (rw_readers v)) (rw_writer v)))
  | AW l => let v := get_lk s l in
            if rw_writer v then None
            else match rw_readers v with O => Some (set_lk s l (mkrw 0 true)) | S _ => None end
  | UW l => let v := get_lk s l in Some (set_lk s l (mkrw (rw_readers v) false))
  end.

Definition thread_step (s : lkstate) (t : bool) : option lkstate :=
  if t then
    match lk_p1 s with
    | [] => None
    | a :: r => match acq_step s a with
                | Some s' => Some (mklk (lk_index s') (lk_status s') (lk_p0 s') r)
                | None => None
                end
    end
  else
    match lk_p0 s with
    | [] => None
    | a :: r => match acq_step s a with
                | Some s' => Some (mklk (lk_index s') (lk_status s') r (lk_p1 s'))
                | None => None
                end
    end.

(* true: every interleaving runs both programs to their end *)
Fixpoint lk_explore (fuel : nat) (s : lkstate) : bool :=
  match fuel with
  | O => false
  | S f =>
    match lk_p0 s, lk_p1 s with
    | [], [] => true
    | _, _ =>
      match thread_step s false, thread_step s true with
      | None, None => false                                  (* nobody can move: deadlock *)
      | Some a, None => lk_explore f a
      | None, Some b => lk_explore f b
      | Some a, Some b => lk_explore f a && lk_explore f b
      end
    end
  end.

Definition lk_init (p0 p1 : list acq) : lkstate := mklk (mkrw 0 false) (mkrw 0 false) p0 p1.

(* `work list` of the tree: ListKnownUnitIDs (index read section), then per unit findUnit (index
   read section) and Status () (status read section) — never nested *)
Definition list_ops : list acq := [AR LIndex; UR LIndex; AR LIndex; UR LIndex; AR LStatus; UR LStatus].
(* a listing that reads the status INSIDE the index read section *)
Definition list_ops_nested : list acq := [AR LIndex; AR LStatus; UR LStatus; UR LIndex].
(* BaseWorkUnit.Release: status write lock (held during RemoveAll), then index write lock *)
Definition release_ops : list acq := [AW LStatus; AW LIndex; UW LIndex; UW LStatus].

(* ---------- correspondence cases ---------- *)

Definition rcode (r : rclass) : N := match r with ROk => 0 | RErr => 1 | RStream => 2 end.

Fixpoint beq_codes (a : list rclass) (b : list N) : bool :=
  match a, b with
  | [], [] => true
  | x :: a', y :: b' => (rcode x =? y) && beq_codes a' b'
  | _, _ => false
  end.

Fixpoint beq_blist (a b : list bytes) : bool :=
  match a, b with
  | [], [] => true
  | x :: a', y :: b' => beq_bytes x y && beq_blist a' b'
  | _, _ => false
  end.

(* lookup tables standing for the oracles on the inputs of one case *)
Fixpoint tbl {A} (d : A) (t : list (bytes * A)) (k : bytes) : A :=
  match t with [] => d | (k', v) :: r => if beq_bytes k' k then v else tbl d r k end.

Inductive ctl_case :=
| CSession (nd : node) (input : bytes) (eof : bool)
    (parses : list (bytes * option jobj))   (* Go's json.Unmarshal on every line that starts with '{' *)
    (lowers : list (bytes * bytes))         (* Go's strings.ToLower where it differs from ASCII lowering *)
    (ttls : list (bytes * bool))            (* time.ParseDuration succeeded *)
    (newid : bytes)                         (* the ID of the unit created, if one was *)
    (replies : list N)                      (* observed: class of every reply line, in order *)
    (units_after : list bytes)              (* observed: work list afterwards (sorted) *)
| CLines (input : bytes) (lines : list bytes) (rest : bytes).   (* Go reference of the line reader *)

Fixpoint blt (a b : bytes) : bool :=
  match a, b with
  | [], _ :: _ => true
  | _, [] => false
  | p :: a', q :: b' => if p <? q then true else if q <? p then false else blt a' b'
  end.
Fixpoint insert_b (x : bytes) (l : list bytes) : list bytes :=
  match l with
  | [] => [x]
  | y :: r => if beq_bytes x y then l else if blt x y then x :: l else y :: insert_b x r
  end.
Definition sort_b (l : list bytes) : list bytes := fold_right insert_b [] l.

Definition ctl_check (c : ctl_case) : bool :=
  match c with
  | CSession nd input eof parses lowers ttls newid replies units_after =>
    let lower := fun w => match tbl None (map (fun p => (fst p, Some (snd p))) lowers) w with
                          | Some l => l | None => map ascii_lower w end in
    match session (tbl None parses) lower (tbl true ttls) (fun _ => newid) repaired nd input eof with
    | SReplies nd' rs => beq_codes rs replies && beq_blist (sort_b (n_index nd')) units_after
    | _ => false
    end
  | CLines input lines rest =>
    let '(ls, tl) := lines_of input [] in beq_blist ls lines && beq_bytes tl rest
  end.
