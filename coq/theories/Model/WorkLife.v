(* Model/WorkLife.v — property C13: the life cycle of one command work unit as the interleaving
   of the programs that write its status record, and the allocation of unit IDs.

   Writers (pkg/workceptor; every write is an UpdateFullStatus/UpdateBasicStatus, i.e. by C14 an
   atomic read-modify-write [W f] of the stored record):

     submit path (controlsvc.go:286-327, command.go:290-312, 259-287), daemon goroutine
        AllocateUnit ... Save            record (Pending, 0)            [initial state of the model]
        W pending0  "Waiting for Input Data" ; on a read error  W failed0 and stop
        W pending0  "Starting Worker"
        W pending0  "Launching command runner"
        spawn the detached runner process ; on error  W failed0 ; W failed0  and stop
        W same      (ExtraData.Pid := runner pid)
     runner process (command.go:94-209)
        W pending0  "Not started yet" ; install the SIGINT handler ; start the command
        loop: every 250 ms  W (Running, stat(stdout))
              command exited  ->  W (Succeeded|Failed, stat(stdout)) ; exit
              SIGINT          ->  termThenKill: SIGINT to the command; if it has not exited after 10 s
                                  (it may ignore the signal) SIGKILL ; W (Failed "Killed", stat(stdout)) ; exit
        (before the handler is installed a SIGINT kills the runner silently; after the loop it
         is ignored; when both a tick/exit and the signal are ready Go's select picks any)
     waiter goroutine of the daemon (command.go:276-282): after cmd.Wait()  W same (ExtraData := nil)
     Cancel (command.go): cancels the unit's context and waits for a launch in progress (/repo
        commit a6deca5: the runner is launched under a lock, and not at all once the context is
        cancelled); then: no recorded Pid -> nothing.  Otherwise SIGINT to the runner
        ("already finished" when it has been reaped -> nothing), proc.Wait(), then
        W cancel = State := Canceled unless the record says Succeeded   (/repo commit 1beb8d4; the
        pinned tree wrote Canceled unconditionally: [wf_cancel_pinned], [run true]).
        proc.Wait() waits for the runner's exit only while the daemon is its parent: after a
        daemon restart it returns at once.
     Release (command.go:363-370, workunitbase.go:477-506): Cancel ; RemoveAll(unit dir) ; delete
        from the index.
     restart (workceptor.go:327-371, command.go:315-331): Load ; if the state read is Pending
        W (Failed "Pending at restart", stat(stdout)).

   A schedule is a list of actions; an action that is not enabled leaves the world unchanged.
   stdout grows while the command runs (environment action).  The [log] records every write as
   (writer, kind, old, new) exactly like the VERIF_STATUS_LOG hook of the real code. *)
From Receptor Require Export Base.Hex.
Open Scope N_scope.

Definition Pending : N := 0.
Definition Running : N := 1.
Definition Succeeded : N := 2.
Definition Failed : N := 3.
Definition Canceled : N := 4.

Definition stage (s : N) : N := if s =? 0 then 0 else if s =? 1 then 1 else 2.

Record rec := mkRec { st : N; sz : N }.

Definition rec_eqb (a b : rec) : bool := (st a =? st b) && (sz a =? sz b).

(* the transition relation of the property: never back to an earlier stage; Succeeded stays
   Succeeded with the same size; the size does not shrink while the unit is pending/running *)
Definition allowed (o n : rec) : bool :=
  (stage (st o) <=? stage (st n))
  && (negb (st o =? Succeeded) || ((st n =? Succeeded) && (sz n =? sz o)))
  && (negb (stage (st n) <=? 1) || (sz o <=? sz n)).

(* ---------- the writes ---------- *)

Inductive who := Daemon | Runner.

Inductive wkind :=
| KPending0      (* UpdateBasicStatus(Pending, _, 0): Waiting / Starting / Launching / Not started yet *)
| KFailed0       (* UpdateBasicStatus(Failed, _, 0): input error, start error *)
| KSame          (* state, detail and size unchanged: Pid recorded / ExtraData cleared / guarded cancel *)
| KTick          (* (Running, stat stdout) *)
| KFinal         (* (Succeeded | Failed, stat stdout) by the runner *)
| KKilled        (* (Failed "Killed", stat stdout) *)
| KCancel        (* (Canceled, unchanged) *)
| KRestartFail.  (* (Failed "Pending at restart", stat stdout) *)

Definition wf_pending0 (_ : rec) : rec := mkRec Pending 0.
Definition wf_failed0 (_ : rec) : rec := mkRec Failed 0.
Definition wf_tick (out : N) (_ : rec) : rec := mkRec Running out.
Definition wf_final (ok : bool) (out : N) (_ : rec) : rec := mkRec (if ok then Succeeded else Failed) out.
Definition wf_killed (out : N) (_ : rec) : rec := mkRec Failed out.
Definition wf_cancel (r : rec) : rec := if st r =? Succeeded then r else mkRec Canceled (sz r).
Definition wf_cancel_pinned (r : rec) : rec := mkRec Canceled (sz r).
Definition wf_restart (out : N) (_ : rec) : rec := mkRec Failed out.

(* ---------- the world of one unit ---------- *)

Inductive spc := SNew | SWait | SStarting | SLaunch | SStartErr | SSpawned | SDone.

Inductive rphase :=
| RNone                 (* not spawned *)
| RStart                (* spawned, nothing written yet, no signal handler *)
| RInit                 (* "Not started yet" written, handler not yet installed *)
| RLoop                 (* monitoring the command *)
| RKill                 (* SIGINT seen: SIGINT sent to the command, waiting for it *)
| REscalate             (* the grace period is over and the command still runs: SIGKILL *)
| RFin (ok : bool)      (* command over (or could not be started): about to write the final state *)
| RWrote                (* final state written, process still alive *)
| RGone (reaped : bool). (* exited; a zombie until reaped *)

Inductive cphase := CNone | CRun | CDone (ok : bool).

Inductive cpc := CCheck | CSignal | CWait | CWrite | CRmDir | CDelIdx | CEnd.
(* kind 0 = cancel, 1 = release, 2 = force-release *)
Record canc := mkCanc { k_kind : N; k_pc : cpc }.

Definition entry := (who * wkind * rec * rec)%type.

Record world := mkW {
  w_file : rec;  w_pidset : bool;  w_out : N;
  w_sub : spc;  w_run : rphase;  w_child : cphase;  w_sig : bool;  w_wdone : bool;
  w_cancels : list canc;
  w_restarted : bool;  w_dload : option N;
  w_dir : bool;  w_indexed : bool;
  w_log : list entry }.

Definition world0 : world :=
  mkW (mkRec Pending 0) false 0 SNew RNone CNone false false [] false None true true [].

(* setters *)
Definition set_sub s w := mkW (w_file w) (w_pidset w) (w_out w) s (w_run w) (w_child w) (w_sig w) (w_wdone w) (w_cancels w) (w_restarted w) (w_dload w) (w_dir w) (w_indexed w) (w_log w).
Definition set_run r w := mkW (w_file w) (w_pidset w) (w_out w) (w_sub w) r (w_child w) (w_sig w) (w_wdone w) (w_cancels w) (w_restarted w) (w_dload w) (w_dir w) (w_indexed w) (w_log w).
Definition set_child c w := mkW (w_file w) (w_pidset w) (w_out w) (w_sub w) (w_run w) c (w_sig w) (w_wdone w) (w_cancels w) (w_restarted w) (w_dload w) (w_dir w) (w_indexed w) (w_log w).
Definition set_sig b w := mkW (w_file w) (w_pidset w) (w_out w) (w_sub w) (w_run w) (w_child w) b (w_wdone w) (w_cancels w) (w_restarted w) (w_dload w) (w_dir w) (w_indexed w) (w_log w).
Definition set_out n w := mkW (w_file w) (w_pidset w) n (w_sub w) (w_run w) (w_child w) (w_sig w) (w_wdone w) (w_cancels w) (w_restarted w) (w_dload w) (w_dir w) (w_indexed w) (w_log w).
Definition set_pidset b w := mkW (w_file w) b (w_out w) (w_sub w) (w_run w) (w_child w) (w_sig w) (w_wdone w) (w_cancels w) (w_restarted w) (w_dload w) (w_dir w) (w_indexed w) (w_log w).
Definition set_wdone b w := mkW (w_file w) (w_pidset w) (w_out w) (w_sub w) (w_run w) (w_child w) (w_sig w) b (w_cancels w) (w_restarted w) (w_dload w) (w_dir w) (w_indexed w) (w_log w).
Definition set_cancels cs w := mkW (w_file w) (w_pidset w) (w_out w) (w_sub w) (w_run w) (w_child w) (w_sig w) (w_wdone w) cs (w_restarted w) (w_dload w) (w_dir w) (w_indexed w) (w_log w).
Definition set_dload d w := mkW (w_file w) (w_pidset w) (w_out w) (w_sub w) (w_run w) (w_child w) (w_sig w) (w_wdone w) (w_cancels w) (w_restarted w) d (w_dir w) (w_indexed w) (w_log w).
Definition set_dir b w := mkW (w_file w) (w_pidset w) (w_out w) (w_sub w) (w_run w) (w_child w) (w_sig w) (w_wdone w) (w_cancels w) (w_restarted w) (w_dload w) b (w_indexed w) (w_log w).
Definition set_indexed b w := mkW (w_file w) (w_pidset w) (w_out w) (w_sub w) (w_run w) (w_child w) (w_sig w) (w_wdone w) (w_cancels w) (w_restarted w) (w_dload w) (w_dir w) b (w_log w).

(* one atomic read-modify-write of the status record (C14).  When the unit directory is gone
   the lock file cannot be created (O_CREATE does not create directories): the write fails. *)
Definition W (by_ : who) (k : wkind) (f : rec -> rec) (w : world) : world :=
  if w_dir w then
    mkW (f (w_file w)) (w_pidset w) (w_out w) (w_sub w) (w_run w) (w_child w) (w_sig w) (w_wdone w)
        (w_cancels w) (w_restarted w) (w_dload w) (w_dir w) (w_indexed w)
        (w_log w ++ [(by_, k, w_file w, f (w_file w))])
  else w.

(* [pinned = true]: Cancel as on the pinned tree (unconditional Canceled) *)
Definition cancel_fn (pinned : bool) : rec -> rec := if pinned then wf_cancel_pinned else wf_cancel.

Inductive action :=
| ASubmit (fail : bool)      (* next step of the submit path; [fail] picks the error branch *)
| ARunner (choice : N)       (* next step of the runner; in the loop 0 = tick, 1 = notice exit, 2 = notice SIGINT *)
| AGrow (n : N)              (* the command writes n bytes of output *)
| AExit (ok : bool)          (* the command exits *)
| AReap                      (* the exited runner is reaped (cmd.Wait of the daemon, or init) *)
| AWaiter                    (* the daemon's waiter goroutine clears ExtraData *)
| ACancelNew (kind : N)      (* a client issues cancel / release / force-release *)
| ACancel (i : nat)          (* next step of the i-th cancel/release *)
| ARestart                   (* the daemon is killed and restarted: Load *)
| ARestartWrite.             (* ... Restart() acts on the state it loaded *)

Definition runner_alive (r : rphase) : bool :=
  match r with RNone | RGone _ => false | _ => true end.

Definition after_cancel (kind : N) : cpc := if kind =? 0 then CEnd else CRmDir.

Fixpoint set_nth {A} (n : nat) (x : A) (l : list A) : list A :=
  match l, n with
  | [], _ => []
  | _ :: t, O => x :: t
  | h :: t, S n' => h :: set_nth n' x t
  end.

(* the unit's context is cancelled by the first statement of every Cancel/Release (CancelContext);
   a restarted daemon builds new unit objects (the list of cancels is emptied then) *)
Definition ctx_cancelled (w : world) : bool := match w_cancels w with [] => false | _ => true end.

Definition launching (s : spc) : bool := match s with SSpawned => true | _ => false end.

Definition step_cancel (pinned : bool) (i : nat) (w : world) : world :=
  match nth_error (w_cancels w) i with
  | None => w
  | Some c =>
    let goto pc w' := set_cancels (set_nth i (mkCanc (k_kind c) pc) (w_cancels w')) w' in
    match k_pc c with
    | CCheck => if launching (w_sub w) then w               (* waits for the launch in progress *)
                else if w_pidset w then goto CSignal w else goto (after_cancel (k_kind c)) w
    | CSignal =>
      match w_run w with
      | RGone true => goto (after_cancel (k_kind c)) w                  (* "process already finished" *)
      | RStart | RInit => goto CWait (set_run (RGone false) w)          (* no handler yet: dies *)
      | RLoop => goto CWait (set_sig true w)
      | _ => goto CWait w                                               (* swallowed / zombie / none *)
      end
    | CWait =>
      if w_restarted w then goto CWrite w                                (* not our child: Wait fails at once *)
      else match w_run w with RGone _ => goto CWrite w | _ => w end      (* blocks until the runner exits *)
    | CWrite => goto (after_cancel (k_kind c)) (W Daemon KCancel (cancel_fn pinned) w)
    | CRmDir => goto CDelIdx (set_dir false w)
    | CDelIdx => goto CEnd (set_indexed false w)
    | CEnd => w
    end
  end.

Definition step (pinned : bool) (a : action) (w : world) : world :=
  match a with
  | ASubmit fail =>
    match w_sub w with
    | SNew => set_sub SWait (W Daemon KPending0 wf_pending0 w)
    | SWait => if fail then set_sub SDone (W Daemon KFailed0 wf_failed0 w)
               else set_sub SStarting (W Daemon KPending0 wf_pending0 w)
    | SStarting => set_sub SLaunch (W Daemon KPending0 wf_pending0 w)
    | SLaunch => if fail then set_sub SStartErr (W Daemon KFailed0 wf_failed0 w)
                 else if ctx_cancelled w then set_sub SStartErr w   (* runCommand refuses: not launched *)
                 else set_sub SSpawned (set_run RStart w)
    | SStartErr => set_sub SDone (W Daemon KFailed0 wf_failed0 w)
    | SSpawned => set_sub SDone (set_pidset true (W Daemon KSame (fun r => r) w))
    | SDone => w
    end
  | ARunner choice =>
    match w_run w with
    | RStart => set_run RInit (W Runner KPending0 wf_pending0 w)
    | RInit => if choice =? 0 then set_run RLoop (set_child CRun w) else set_run (RFin false) w
    | RLoop =>
      if choice =? 0 then W Runner KTick (wf_tick (w_out w)) w
      else if choice =? 1 then match w_child w with CDone ok => set_run (RFin ok) w | _ => w end
      else if w_sig w then set_run RKill w else w
    | RKill =>
      (* choice 0: the command obeyed the SIGINT (or was over already); otherwise it ignored it *)
      if choice =? 0 then
        set_run (RGone false)
          (W Runner KKilled (wf_killed (w_out w))
             (set_child (match w_child w with CRun => CDone false | c => c end) w))
      else set_run REscalate w
    | REscalate =>
      set_run (RGone false)
        (W Runner KKilled (wf_killed (w_out w))
           (set_child (match w_child w with CRun => CDone false | c => c end) w))
    | RFin ok => set_run RWrote (W Runner KFinal (wf_final ok (w_out w)) w)
    | RWrote => set_run (RGone false) w
    | RNone | RGone _ => w
    end
  | AGrow n => match w_child w with CRun => set_out (w_out w + n) w | _ => w end
  | AExit ok => match w_child w with CRun => set_child (CDone ok) w | _ => w end
  | AReap => match w_run w with RGone false => set_run (RGone true) w | _ => w end
  | AWaiter =>
    match w_run w, w_sub w with
    | RGone true, SDone =>
      if w_restarted w || w_wdone w then w
      else set_wdone true (set_pidset false (W Daemon KSame (fun r => r) w))
    | _, _ => w
    end
  | ACancelNew kind =>
    if w_indexed w then set_cancels (w_cancels w ++ [mkCanc kind CCheck]) w else w
  | ACancel i => step_cancel pinned i w
  | ARestart =>
    if w_dir w && w_indexed w then
      mkW (w_file w) (w_pidset w) (w_out w) SDone (w_run w) (w_child w) (w_sig w) true []
          true (Some (st (w_file w))) (w_dir w) (w_indexed w) (w_log w)
    else w
  | ARestartWrite =>
    match w_dload w with
    | Some s => set_dload None (if s =? Pending then W Daemon KRestartFail (wf_restart (w_out w)) w else w)
    | None => w
    end
  end.

Definition run (pinned : bool) (sched : list action) (w : world) : world :=
  fold_left (fun w a => step pinned a w) sched w.

Definition is_restart (a : action) : bool :=
  match a with ARestart | ARestartWrite => true | _ => false end.
Definition no_restart (sched : list action) : bool := forallb (fun a => negb (is_restart a)) sched.

(* ---------- what a status log must look like ---------- *)

(* the history of the stored record: the initial record and the result of every write *)
Definition history (r0 : rec) (log : list entry) : list rec := r0 :: map snd log.

Fixpoint chain (r : rec) (log : list entry) : bool :=
  match log with
  | [] => true
  | (_, _, o, n) :: rest => rec_eqb r o && chain n rest
  end.

(* is [n] what writer [by_] produces from [o] by a write of kind [k]?  The sizes written from
   stat(stdout) are free but never below the recorded one. *)
Definition write_ok (pinned : bool) (e : entry) : bool :=
  let '(by_, k, o, n) := e in
  match k, by_ with
  | KPending0, _ => rec_eqb n (wf_pending0 o)
  | KFailed0, Daemon => rec_eqb n (wf_failed0 o)
  | KSame, Daemon => rec_eqb n o
  | KTick, Runner => rec_eqb n (wf_tick (sz n) o) && (sz o <=? sz n)
  | KFinal, Runner => (rec_eqb n (wf_final true (sz n) o) || rec_eqb n (wf_final false (sz n) o)) && (sz o <=? sz n)
  | KKilled, Runner => rec_eqb n (wf_killed (sz n) o) && (sz o <=? sz n)
  | KCancel, Daemon => rec_eqb n (cancel_fn pinned o)
  | KRestartFail, Daemon => rec_eqb n (wf_restart (sz n) o) && (sz o <=? sz n)
  | _, _ => false
  end.

Definition entry_allowed (e : entry) : bool := let '(_, _, o, n) := e in allowed o n.

(* a log without daemon restart: a chain from (Pending, 0) of writes the model's writers make,
   each an allowed transition *)
Definition log_ok (pinned : bool) (log : list entry) : bool :=
  chain (mkRec Pending 0) log && forallb (write_ok pinned) log && forallb entry_allowed log.

(* ---------- unit IDs (workceptor.go:156-175, 246-272) ----------
   generateUnitID draws candidates until one is neither in the index nor a directory on disk and
   creates the directory; AllocateUnit does this and the insertion into the index under the
   write lock of the index, so a whole allocation is one atomic action.  An allocation can fail
   after the directory was made (SetFromParams/Save error): the directory stays, the index
   does not get the ID.  Release removes the directory first and the index entry afterwards. *)

Definition id := N.

Definition mem (x : id) (l : list id) : bool := existsb (N.eqb x) l.

Fixpoint gen_id (check_disk : bool) (fuel : nat) (cands : nat -> id) (pos : nat)
         (index disk : list id) : option (id * nat) :=
  match fuel with
  | O => None
  | S f =>
    let c := cands pos in
    if mem c index || (check_disk && mem c disk) then gen_id check_disk f cands (S pos) index disk
    else Some (c, S pos)
  end.

Record ids := mkIds { i_index : list id; i_disk : list id; i_pos : nat; i_given : list id }.

Inductive id_action :=
| IAlloc (fails : bool)    (* AllocateUnit; [fails]: error after the directory was made *)
| IRmDir (x : id)          (* Release: RemoveAll of a unit that is in the index *)
| IDelIdx (x : id).        (* Release: delete from the index (after the directory is gone) *)

Definition remove_id (x : id) (l : list id) : list id := filter (fun y => negb (y =? x)) l.

Definition id_step (check_disk : bool) (fuel : nat) (cands : nat -> id) (a : id_action) (s : ids) : ids :=
  match a with
  | IAlloc fails =>
    match gen_id check_disk fuel cands (i_pos s) (i_index s) (i_disk s) with
    | None => s
    | Some (x, pos') =>
      if fails then mkIds (i_index s) (x :: i_disk s) pos' (i_given s)
      else mkIds (x :: i_index s) (x :: i_disk s) pos' (x :: i_given s)
    end
  | IRmDir x => if mem x (i_index s) then mkIds (i_index s) (remove_id x (i_disk s)) (i_pos s) (i_given s) else s
  | IDelIdx x => if mem x (i_disk s) then s else mkIds (remove_id x (i_index s)) (i_disk s) (i_pos s) (i_given s)
  end.

Definition id_run check_disk fuel cands (acts : list id_action) (s : ids) : ids :=
  fold_left (fun s a => id_step check_disk fuel cands a s) acts s.

Fixpoint nodup_ids (l : list id) : bool :=
  match l with
  | [] => true
  | x :: r => negb (mem x r) && nodup_ids r
  end.

(* ---------- a remote unit that has not been started on the remote node yet ----------
   (remote_work.go startOrRestart / runAndMonitor / cancelOrRelease)  Start puts a background job
   into the unit's job context: it connects to the remote node, with growing pauses while the
   node is unreachable, and submits the work there (RemoteStarted := true).  Cancel / Release of a
   unit with RemoteStarted = false cancel that job and WAIT for it (topJC.Cancel ; topJC.Wait)
   before they record Failed "Locally Cancelled" / remove the unit.  [stop_job = false] is the
   variant in which a plain Cancel leaves the job alone (seeded mutation). *)

Record rem := mkRem { r_job : bool;        (* the submitting job is alive *)
                      r_reach : bool;      (* the remote node can be reached *)
                      r_started : bool;    (* the work has been submitted to the remote node *)
                      r_cancelled : bool;  (* a Cancel/Release has completed *)
                      r_state : N }.

Inductive rem_action := RmTry | RmReach (b : bool) | RmCancel | RmRelease.

Definition rem_step (stop_job : bool) (a : rem_action) (r : rem) : rem :=
  match a with
  | RmTry => if r_job r && r_reach r
             then mkRem false (r_reach r) true (r_cancelled r) (r_state r)     (* submitted: the job ends *)
             else r
  | RmReach b => mkRem (r_job r) b (r_started r) (r_cancelled r) (r_state r)
  | RmCancel => if r_started r then r                                       (* goes to the remote node: not modelled *)
                else mkRem (if stop_job then false else r_job r) (r_reach r) false true Failed
  | RmRelease => if r_started r then r
                 else mkRem false (r_reach r) false true (r_state r)
  end.

Definition rem_run (stop_job : bool) (acts : list rem_action) (r : rem) : rem :=
  fold_left (fun r a => rem_step stop_job a r) acts r.

(* submitted for an unreachable node: the job is retrying *)
Definition rem0 : rem := mkRem true false false false Pending.

(* ---------- correspondence cases ----------
   CLog: the VERIF_STATUS_LOG lines of one unit of a daemon that was not restarted, in file
         order, each projected to (writer, kind, old, new); must be a log the model accepts.
   CLogR: the same for a unit whose daemon was restarted: the writes are still the model's
         writes and still chain, but need not be allowed transitions (open finding).
   CIds: the candidate IDs drawn (in order), the IDs in the index and the directories present
         before, the number of allocations made concurrently, and the set of IDs returned. *)
Inductive wl_case :=
| CLog (log : list entry)
| CLogR (log : list entry)
| CIds (cands : list id) (index disk : list id) (nalloc : nat) (returned : list id)
(* CLogA: the log of a unit whose writers are not modelled (the local record of a REMOTE unit,
   which mirrors the remote node's record): only the property's relation is judged - a chain of
   allowed transitions from (Pending, 0) *)
| CLogA (log : list entry).

Fixpoint sorted_insert (x : N) (l : list N) : list N :=
  match l with
  | [] => [x]
  | y :: r => if x <=? y then x :: l else y :: sorted_insert x r
  end.
Definition sort_ids (l : list N) : list N := fold_right sorted_insert [] l.

Fixpoint beq_ids (a b : list N) : bool :=
  match a, b with
  | [], [] => true
  | x :: a', y :: b' => (x =? y) && beq_ids a' b'
  | _, _ => false
  end.

Definition wl_check (c : wl_case) : bool :=
  match c with
  | CLog log => log_ok false log
  | CLogR log => chain (mkRec Pending 0) log && forallb (write_ok false) log
  | CLogA log => chain (mkRec Pending 0) log && forallb entry_allowed log
  | CIds cands index disk nalloc returned =>
    let s := id_run true (S (length cands)) (fun i => nth i cands 0) (repeat (IAlloc false) nalloc)
                    (mkIds index disk 0 []) in
    beq_ids (sort_ids (i_given s)) (sort_ids returned) && nodup_ids returned
  end.
