(* Model/Mirror.v — property C05, second half: a remote work unit mirrors the status and the
   output of the unit it started on another node (pkg/workceptor/remote_work.go:268-502).

   The remote side is a [world] of Model/Results.v (the remote unit's stdout file and its status);
   the local side is the local copy of the status (written by monitorRemoteStatus) and the local
   stdout file (appended by monitorRemoteStdout).  Events:

     MEnv e       the remote producer moves (ECreate / EAppend / ESetStatus; an EPoll is nothing)
     MSync        monitorRemoteStatus: "work status <remote unit>" answered, the answer copied into
                  the local record (UpdateBasicStatus(si.State, si.Detail, si.StdoutSize)); it
                  runs until the stdout monitor has returned (both share one JobContext, and
                  monitorRemoteStdout cancels it on return)
     MLoop        monitorRemoteStdout, top of its loop with no stream open:
                    Load; disk := size of local stdout
                    IsComplete(State) && disk >= StdoutSize   -> stop for good
                    disk < StdoutSize                          -> connect, send
                        {"subcommand":"results","unitid":…,"startpos":disk}; the remote node starts
                        a GetResults reader at offset disk
                    otherwise                                  -> sleep, loop
     MPoll n      the stream moves: the remote reader takes one step (Model/Results.v
                  [reader_step], repaired finish condition) and what it emits is appended to the
                  local stdout (io.Copy into a file opened O_APPEND); when the reader finishes the
                  stream ends and the loop is back at its top
     MBreak       the connection breaks (any error of io.Copy, of the request or of the reply):
                  `continue` — back to the top of the loop.  The link may break after any byte:
                  MPoll 1 moves one byte, and bytes the remote reader had sent but that were lost
                  with the connection are bytes it never delivered.

   Transport: a netceptor stream is a reliable ordered byte pipe until it breaks (property C03);
   delivery is therefore modelled as atomic with the remote read. *)
From Receptor Require Export Model.Results Model.Writer.
Open Scope N_scope.

Inductive mev :=
| MEnv (e : env_ev)
| MSync
| MLoop
| MPoll (n : N)
| MBreak.

Inductive mmode :=
| MIdle                                   (* no stream; the loop is at its top / sleeping *)
| MStream (start : N) (ph : rphase)       (* results requested from [start]; remote reader phase *)
| MStopped.                               (* monitorRemoteStdout has returned *)

Record mstate := mkM {
  m_remote : world;       (* the remote unit *)
  m_lstate : N;           (* local record: State *)
  m_lsize : N;            (* local record: StdoutSize *)
  m_local : bytes;        (* local stdout *)
  m_mode : mmode
}.

Definition mstate0 : mstate := mkM world0 ST_PENDING 0 [] MIdle.

Definition mstep (s : mstate) (e : mev) : mstate :=
  match e with
  | MEnv ev => mkM (env_step (m_remote s) ev) (m_lstate s) (m_lsize s) (m_local s) (m_mode s)
  | MSync =>
    match m_mode s with
    | MStopped => s      (* the returning stdout monitor cancels the job context both share *)
    | _ => mkM (m_remote s) (w_state (m_remote s)) (w_size (m_remote s)) (m_local s) (m_mode s)
    end
  | MLoop =>
    match m_mode s with
    | MIdle =>
      let disk := rlen (m_local s) in
      if is_complete (m_lstate s) && (m_lsize s <=? disk)
      then mkM (m_remote s) (m_lstate s) (m_lsize s) (m_local s) MStopped
      else if disk <? m_lsize s
      then mkM (m_remote s) (m_lstate s) (m_lsize s) (m_local s) (MStream disk RWait)
      else s
    | _ => s
    end
  | MPoll n =>
    match m_mode s with
    | MStream start ph =>
      let '(ph', c) := reader_step results_done start (m_remote s) ph n in
      mkM (m_remote s) (m_lstate s) (m_lsize s) (m_local s ++ c)
          (match ph' with RDone => MIdle | _ => MStream start ph' end)
    | _ => s
    end
  | MBreak =>
    match m_mode s with
    | MStream _ _ => mkM (m_remote s) (m_lstate s) (m_lsize s) (m_local s) MIdle
    | _ => s
    end
  end.

Definition mrun_from (s : mstate) (tr : list mev) : mstate := fold_left mstep tr s.
Definition mrun (tr : list mev) : mstate := mrun_from mstate0 tr.

Definition m_remote_out (s : mstate) : bytes := w_output (m_remote s).

(* the remote part of a mirror trace, as a producer trace of Model/Results.v *)
Definition menv (tr : list mev) : list env_ev :=
  flat_map (fun e => match e with MEnv ev => [ev] | _ => [] end) tr.

Definition is_break (e : mev) : bool := match e with MBreak => true | _ => false end.

(* the schedule that settles the mirror once nothing breaks any more: let an open stream run
   out, copy the status, look again, let the new stream run out, look again *)
Definition settle (k : nat) : list mev :=
  repeat (MPoll 65536) k ++ [MSync; MLoop] ++ repeat (MPoll 65536) k ++ [MLoop].

Definition is_stopped (m : mmode) : bool := match m with MStopped => true | _ => false end.

(* ---------- correspondence cases ----------
   The harness runs two or three receptor processes with a TCP proxy between them that cuts and
   heals the link, and samples the local and the remote stdout.  A case is the observed history as
   a mirror trace WITHOUT polls and loop steps — remote producer events (from the remote node's
   status-rewrite log and stdout), MSync events (from the local node's status-rewrite log), MBreak
   where the proxy cut the link — followed by the local stdout at the end.  The model is run under
   the eager schedule (after every event: look, and let the stream run out), which is the most any
   implementation schedule can have copied; each sampled local size must not exceed it and the final
   local stdout must equal the model's. *)
Fixpoint meager (k : nat) (tr : list mev) : list mev :=
  match tr with
  | [] => []
  | e :: r => e :: MLoop :: repeat (MPoll 65536) k ++ MLoop :: meager k r
  end.

Inductive mirror_case :=
| MCase (tr : list mev) (local_final : bytes) (converged : bool).

Definition mirror_check (c : mirror_case) : bool :=
  match c with
  | MCase tr local_final converged =>
    let k := polls_for (menv tr) in
    let s := mrun (meager k tr) in
    contract (menv tr) &&
    is_prefix local_final (m_remote_out s) &&
    (if converged
     then beq_bytes (m_local s) local_final && beq_bytes local_final (m_remote_out s)
          && (is_stopped (m_mode (mrun_from s (settle k)))
              || negb (is_complete (w_state (m_remote s))))   (* a cancelled unit is watched for ever *)
     else true)
  end.

(* ---------- the client side of one results stream: the header line ----------
   Above, a stream hands the mirror the remote reader's bytes directly.  On the wire they follow one
   line, "Streaming results for work unit X\n", and the connection is a byte stream: it delivers
   header and output as a sequence of reads of ANY sizes — the header may be split at any position
   and its last part may come in one read together with the first output bytes (a link that held the
   traffic back, a retransmission, a peer that writes both at once).  monitorRemoteStdout reads
   the line through the bufio.Reader it read the greeting with (utils.ReadStringContext(reader)),
   then io.Copy(stdout, reader): what the reader has buffered behind the line is copied first,
   then the rest of the connection.  [client_mirror] is that; [client_mirror_raw] copies from
   the connection instead (io.Copy(stdout, conn)) and loses the buffered bytes. *)
Fixpoint split_nl (c : bytes) : option (bytes * bytes) :=
  match c with
  | [] => None
  | b :: r => if b =? 10 then Some ([], r)
              else match split_nl r with Some (a, rest) => Some (b :: a, rest) | None => None end
  end.

(* ReadString('\n') over the reads: the line (with its newline), what is left in the reader's
   buffer, the reads not yet made *)
Fixpoint read_line (acc : bytes) (reads : list bytes) : option (bytes * bytes * list bytes) :=
  match reads with
  | [] => None
  | c :: r =>
    match split_nl c with
    | Some (a, rest) => Some (acc ++ a ++ [10], rest, r)
    | None => read_line (acc ++ c) r
    end
  end.

Definition client_mirror (reads : list bytes) : option (bytes * bytes) :=
  match read_line [] reads with
  | Some (line, buffered, r) => Some (line, buffered ++ concat r)
  | None => None
  end.

Definition client_mirror_raw (reads : list bytes) : option (bytes * bytes) :=
  match read_line [] reads with
  | Some (line, _, r) => Some (line, concat r)
  | None => None
  end.

Definition no_nl (l : bytes) : bool := forallb (fun b => negb (b =? 10)) l.

(* a header case: the writes of a scripted remote control service on one results stream (any
   chunking of header and output) and what the real mirror appended to the local stdout *)
Inductive header_case := HCase (reads : list bytes) (appended : bytes).
Definition header_check (c : header_case) : bool :=
  match c with
  | HCase reads appended =>
    match client_mirror reads with
    | Some (_, body) => beq_bytes body appended
    | None => false
    end
  end.

(* one case file for the property: reader cases, mirror cases, header cases *)
Inductive c05_case := CR (c : results_case) | CM (c : mirror_case) | CH (c : header_case) | CW (cs : list writer_case).
Definition c05_check (c : c05_case) : bool :=
  match c with CR r => results_check r | CM m => mirror_check m | CH h => header_check h | CW ws => forallb writer_check ws end.
