(* Model/Wire.v — the datagram wire codec of pkg/netceptor/netceptor.go:
     AddNameHash / GetNameFromHash            (name-hash table, first entry wins, localhost alias)
     fixedLenBytesFromString / stringFromFixedLenBytes   (8-byte NUL-padded service names)
     translateDataFromMessage / translateDataToMessage   (encode_msg / decode_msg)
   Layout of a data packet: [0; hops; 0; 0] ++ be64(hash from) ++ be64(hash to)
                            ++ pad8 fromService ++ pad8 toService ++ payload.
   highwayhash-64 is an oracle: [hash] is a Section variable; the correspondence harness supplies
   the real hash value of every name it uses (association list in each case).
   The codec has no unguarded partial operation (every slice is taken after the length check),
   so there is no Panic outcome here. *)
From Coq Require Import String.
From Receptor Require Export Base.Hex.
Open Scope N_scope.

Record msg := { m_from : bytes; m_fsvc : bytes; m_to : bytes; m_tsvc : bytes;
                m_hops : N; m_data : bytes }.

Definition set_hops (m : msg) (h : N) : msg :=
  {| m_from := m_from m; m_fsvc := m_fsvc m; m_to := m_to m; m_tsvc := m_tsvc m;
     m_hops := h; m_data := m_data m |}.

Definition blen (b : bytes) : N := N.of_nat (length b).

(* ---------- service names ---------- *)

(* fixedLenBytesFromString(s, 8): make([]byte, 8); copy(bytes, s) — longer names are cut *)
Definition pad8 (s : bytes) : bytes := firstn 8 (s ++ repeat 0 8).

(* stringFromFixedLenBytes: drop the NUL bytes on the right *)
Fixpoint strip_nul (b : bytes) : bytes :=
  match b with
  | [] => []
  | x :: r => match strip_nul r with
              | [] => if x =? 0 then [] else [x]
              | r' => x :: r'
              end
  end.

(* the property's service names: 1–8 bytes, none of them zero *)
Definition svc_ok (s : bytes) : bool :=
  (1 <=? blen s) && (blen s <=? 8) && forallb (fun b => negb (b =? 0)) s.

(* ---------- big-endian 64-bit integers ---------- *)

Fixpoint be_enc (k : nat) (n : N) : bytes :=
  match k with O => [] | S k' => be_enc k' (n / 256) ++ [n mod 256] end.

Fixpoint be_dec (b : bytes) (acc : N) : N :=
  match b with [] => acc | x :: r => be_dec r (acc * 256 + x) end.

Definition two64 : N := 18446744073709551616.

(* ---------- the localhost alias ---------- *)

Definition lc (b : N) : N := if (65 <=? b) && (b <=? 90) then b + 32 else b.

(* strings.EqualFold(name, pat) for an all-lower-case ASCII pattern: ASCII letters compare
   case-insensitively, and the only non-ASCII rune whose simple case folding reaches an ASCII
   letter of "localhost" is U+017F LATIN SMALL LETTER LONG S (UTF-8 c5 bf) for 's'
   (U+212A KELVIN SIGN folds to 'k', which the word does not contain). *)
Fixpoint fold_match (pat name : bytes) : bool :=
  match pat with
  | [] => match name with [] => true | _ => false end
  | p :: pr =>
    match name with
    | [] => false
    | x :: nr =>
      if lc x =? p then fold_match pr nr
      else if p =? 115 then
        match name with
        | 197 :: 191 :: nr' => fold_match pr nr'
        | _ => false
        end
      else false
    end
  end.

Definition localhost : bytes := str "localhost"%string.
Definition is_localhost (name : bytes) : bool := fold_match localhost name.

(* the name actually hashed / stored by AddNameHash on node [self] *)
Definition canon (self name : bytes) : bytes := if is_localhost name then self else name.

(* ---------- the hash table ---------- *)

Definition table := list (N * bytes).

Fixpoint lookup (h : N) (t : table) : option bytes :=
  match t with
  | [] => None
  | (k, v) :: r => if k =? h then Some v else lookup h r
  end.

(* "if _, ok := s.nameHashes[hv]; !ok { s.nameHashes[hv] = name }" *)
Definition add_hash (t : table) (h : N) (name : bytes) : table :=
  match lookup h t with Some _ => t | None => t ++ [(h, name)] end.

Inductive dres := DOk (m : msg) | DShort | DNoHash.

(* translateDataToMessage *)
Definition decode_msg (t : table) (b : bytes) : dres :=
  if blen b <? 36 then DShort
  else match lookup (be_dec (firstn 8 (skipn 4 b)) 0) t with
       | None => DNoHash
       | Some f =>
         match lookup (be_dec (firstn 8 (skipn 12 b)) 0) t with
         | None => DNoHash
         | Some to =>
           DOk {| m_from := f; m_fsvc := strip_nul (firstn 8 (skipn 20 b));
                  m_to := to; m_tsvc := strip_nul (firstn 8 (skipn 28 b));
                  m_hops := nth 1 b 0; m_data := skipn 36 b |}
         end
       end.

(* replace the hop byte of a packet *)
Definition set_byte1 (b : bytes) (v : N) : bytes :=
  match b with x :: _ :: r => x :: v :: r | _ => b end.

Section Hash.
  Variable hash : bytes -> N.

  (* the 64 bits that go on the wire *)
  Definition hash64 (name : bytes) : N := hash name mod two64.

  (* AddNameHash on node [self]: returned hash and new table *)
  Definition add_name (self : bytes) (t : table) (name : bytes) : N * table :=
    let n := canon self name in
    let h := hash64 n in (h, add_hash t h n).

  (* translateDataFromMessage: bytes written *)
  Definition encode_msg (self : bytes) (m : msg) : bytes :=
    [0; m_hops m; 0; 0]
      ++ be_enc 8 (hash64 (canon self (m_from m)))
      ++ be_enc 8 (hash64 (canon self (m_to m)))
      ++ pad8 (m_fsvc m) ++ pad8 (m_tsvc m) ++ m_data m.

  (* SendMessageWithHopsToLive refuses service names that do not fit the 8-byte field:
     "if len(fromService) > 8 || len(toService) > 8 { return error }" — nothing is encoded,
     nothing is sent *)
  Definition send_refused (fsvc tsvc : bytes) : bool := (8 <? blen fsvc) || (8 <? blen tsvc).

  (* the packet that a send of m (budget m_hops m > 0, remote destination, connected next hop)
     puts on the first link: None = refused; otherwise forwardMessage writes the encoding with
     the hop byte decremented *)
  Definition first_hop_packet (self : bytes) (m : msg) : option bytes :=
    if send_refused (m_fsvc m) (m_tsvc m) then None
    else Some (set_byte1 (encode_msg self m) (m_hops m - 1)).

  (* ... and its side effect on the sender's table *)
  Definition encode_tbl (self : bytes) (t : table) (m : msg) : table :=
    snd (add_name self (snd (add_name self t (m_from m))) (m_to m)).

  (* the table of a fresh node: NewWithConsts calls AddNameHash(nodeID) *)
  Definition init_tbl (self : bytes) : table := snd (add_name self [] self).

  (* table after AddNameHash of a list of names, in order *)
  Fixpoint add_names (self : bytes) (t : table) (names : list bytes) : table :=
    match names with
    | [] => t
    | n :: r => add_names self (snd (add_name self t n)) r
    end.

  (* every entry was put there by AddNameHash of node [self] *)
  Definition tbl_wf (self : bytes) (t : table) : Prop :=
    forall h n, In (h, n) t -> h = hash64 n /\ canon self n = n.

  Definition tbl_names (t : table) : list bytes := map snd t.

  Definition hash_inj_on (names : list bytes) : Prop :=
    forall a b, In a names -> In b names -> hash64 a = hash64 b -> a = b.
End Hash.

(* the message the receiver reconstructs: alias names are replaced by the sender's own ID *)
Definition canon_msg (self : bytes) (m : msg) : msg :=
  {| m_from := canon self (m_from m); m_fsvc := m_fsvc m; m_to := canon self (m_to m);
     m_tsvc := m_tsvc m; m_hops := m_hops m; m_data := m_data m |}.

(* ---------- correspondence cases ---------- *)

Definition msg_eqb (a b : msg) : bool :=
  beq_bytes (m_from a) (m_from b) && beq_bytes (m_fsvc a) (m_fsvc b) &&
  beq_bytes (m_to a) (m_to b) && beq_bytes (m_tsvc a) (m_tsvc b) &&
  (m_hops a =? m_hops b) && beq_bytes (m_data a) (m_data b).

Definition dres_eqb (a b : dres) : bool :=
  match a, b with
  | DOk x, DOk y => msg_eqb x y
  | DShort, DShort => true
  | DNoHash, DNoHash => true
  | _, _ => false
  end.

(* the hash oracle of one case: real highwayhash values of the names the case uses *)
Fixpoint alist_hash (al : list (bytes * N)) (name : bytes) : N :=
  match al with
  | [] => 0
  | (k, v) :: r => if beq_bytes k name then v else alist_hash r name
  end.

(* one white-box call on a real node and what it returned *)
Inductive wop :=
| WAdd (name : bytes) (obs : N)          (* AddNameHash(name) = obs *)
| WEnc (m : msg) (obs : bytes)           (* translateDataFromMessage(m) = obs *)
| WDec (b : bytes) (obs : dres)          (* translateDataToMessage(b) = obs *)
| WSend (m : msg) (obs : option bytes).  (* SendMessageWithHopsToLive from this node (m_from = self,
                                            budget > 0, remote destination routed over a harness
                                            connection): None = error returned and nothing on the
                                            link, Some = the packet that appeared on the link *)

Inductive wire_case := WCase (self : bytes) (al : list (bytes * N)) (ops : list wop).

Fixpoint wire_run (hash : bytes -> N) (self : bytes) (t : table) (ops : list wop) : bool :=
  match ops with
  | [] => true
  | WAdd name obs :: r =>
    let '(h, t') := add_name hash self t name in
    (h =? obs) && wire_run hash self t' r
  | WEnc m obs :: r =>
    beq_bytes (encode_msg hash self m) obs && wire_run hash self (encode_tbl hash self t m) r
  | WDec b obs :: r =>
    dres_eqb (decode_msg t b) obs && wire_run hash self t r
  | WSend m obs :: r =>
    match first_hop_packet hash self m, obs with
    | None, None => wire_run hash self t r
    | Some p, Some o => beq_bytes p o && wire_run hash self (encode_tbl hash self t m) r
    | _, _ => false
    end
  end.

Definition wire_check (c : wire_case) : bool :=
  match c with
  | WCase self al ops =>
    let hash := alist_hash al in wire_run hash self (init_tbl hash self) ops
  end.
