(* Model/AdsWorld.v — a mesh of nodes running Model/Ads.v's handle_ad (the repaired tree), with
   advertisement messages in flight.  The network delivers the messages in flight in ANY order
   (relays are written by independent goroutines and travel over different paths) but loses
   none (stream backends lose messages only together with the session).  Node i is the i-th
   element of the node list. *)
From Receptor Require Export Model.Ads Model.FloodWorld.
Open Scope N_scope.

Record amsg := { am_from : node; am_to : node; am_ad : ad }.
Record aworld := { aw_nodes : list astate; aw_flight : list amsg }.

Definition node_at (w : aworld) (i : node) : option astate := nth_error (aw_nodes w) (N.to_nat i).

Definition ad_msgs (self : node) (rel : list (node * ad)) : list amsg :=
  map (fun p => {| am_from := self; am_to := fst p; am_ad := snd p |}) rel.

(* deliver the k-th message in flight; None = no such message *)
Definition awstep (w : aworld) (k : nat) : option aworld :=
  match nth_error (aw_flight w) k with
  | None => None
  | Some m =>
    let rest := remove_nth k (aw_flight w) in
    match node_at w (am_to m) with
    | None => Some {| aw_nodes := aw_nodes w; aw_flight := rest |}
    | Some st =>
      let '(st', rel) := handle_ad st (am_ad m) (am_from m) in
      Some {| aw_nodes := update_nth (N.to_nat (am_to m)) st' (aw_nodes w);
              aw_flight := rest ++ ad_msgs (as_self st) rel |}
    end
  end.

Fixpoint awrun (w : aworld) (ks : list nat) : option aworld :=
  match ks with
  | [] => Some w
  | k :: r => match awstep w k with None => None | Some w' => awrun w' r end
  end.

(* the topology: every node knows its own identifier, connections are symmetric and lead to
   existing nodes *)
Definition topo_ok (w : aworld) : Prop :=
  forall i st, node_at w i = Some st ->
    as_self st = i /\
    forall c, In c (as_conns st) -> exists st', node_at w c = Some st' /\ In i (as_conns st').

(* u can be reached from v over connections *)
Inductive reach (w : aworld) (v : node) : node -> Prop :=
| reach_refl : reach w v v
| reach_step x u st : reach w v x -> node_at w x = Some st -> In u (as_conns st) -> reach w v u.
