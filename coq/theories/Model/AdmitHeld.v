(* Model/AdmitHeld.v — the window between the END of a session and the moment its protocol loop
   notices it (C11).

   In Model/Admit.v the end of a session is one step (LHangup: the loop takes the Done arm of its
   select and calls removeConnection).  In the code the two are apart whenever the loop is inside
   a message handler when ci.Context is cancelled (a firewall rule, a local service that is slow
   to read, a next hop that is slow to write): the session has ended, its entry is still in
   s.connections, and removeConnection — which deletes BY NODE ID, whoever owns the entry — runs
   when the handler returns.  This miniature automaton has exactly that window and the admission
   test in two versions:
     strict  (the code):   an ID that has an entry is taken, whatever the state of its owner;
     lenient (a tempting "let the peer reconnect quickly" rewrite): an entry whose owner's
                           context has ended does not count.
   With the lenient test the old loop's clean-up deletes the NEW session's entry: an established
   session that is not in s.connections, and the next handshake under the ID is admitted next to
   it (Proofs/AdmitHeld.v: lenient_test_refuted; strict_holder_owns_entry for the code's test).
   The harness's held-end phase (harness/cmd/c11/heldend.go) plays this schedule on the
   implementation. *)
From Coq Require Import String.
From Receptor Require Export Model.Admit.
Open Scope list_scope.

Inductive hphase :=
| HInit
| HHolding (id : bytes) (alive : bool)   (* registered under id; alive = its context has not ended *)
| HRejected
| HGone.                                  (* loop returned after removeConnection *)

Inductive hlabel :=
| HHs (i : nat) (id : bytes)              (* session i's loop takes a handshake announcing id *)
| HEnd (i : nat)                          (* session i ends (context cancelled); its loop is busy *)
| HCleanup (i : nat).                     (* session i's loop takes the Done arm: removeConnection(id) *)

(* does the entry owned by session o keep the ID taken? *)
Definition owner_counts (lenient : bool) (ps : list hphase) (o : nat) : bool :=
  if lenient
  then match nth_error ps o with Some (HHolding _ true) => true | _ => false end
  else true.

Definition held_step (lenient : bool) (st : list (bytes * nat) * list hphase) (l : hlabel)
  : list (bytes * nat) * list hphase :=
  match l with
  | HHs i id =>
    match nth_error (snd st) i with
    | Some HInit =>
      match aget (fst st) id with
      | Some o =>
        if owner_counts lenient (snd st) o then (fst st, set_nth (snd st) i HRejected)
        else (aset (fst st) id i, set_nth (snd st) i (HHolding id true))
      | None => (aset (fst st) id i, set_nth (snd st) i (HHolding id true))
      end
    | _ => st
    end
  | HEnd i =>
    match nth_error (snd st) i with
    | Some (HHolding id true) => (fst st, set_nth (snd st) i (HHolding id false))
    | _ => st
    end
  | HCleanup i =>
    match nth_error (snd st) i with
    | Some (HHolding id false) => (adel (fst st) id, set_nth (snd st) i HGone)
    | _ => st
    end
  end.

Definition held_run (lenient : bool) st ls := fold_left (held_step lenient) ls st.

Definition held_init (n : nat) : list (bytes * nat) * list hphase := ([], repeat HInit n).
