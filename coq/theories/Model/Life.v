(* Model/Life.v — the resource bookkeeping of datagram sockets, stream listeners and stream
   connections (C17): pkg/netceptor/packetconn.go (ListenPacket, StartUnreachable,
   SubscribeUnreachable, Close), conn.go (listen/acceptLoop/Listener.Close, DialContext and its
   goroutines, Conn.Close, CloseConnection, monitorUnreachable), netceptor.go (handleMessageData's
   hand-over to a listener, RemoveLocalServiceAdvertisement, Shutdown), ping.go (SendPing).

   What is modelled: which service names are in which node's listenerRegistry, which
   subscriptions exist, and how many goroutines each receptor spawn site has alive, as a function
   of which operations have been performed — plus the points where the Go code can panic.
   Every object has a number chosen by the environment (the harness); service names are numbers.
   [variant]: Fixed = the repaired tree, Pinned = the tree as pinned (kept for the _refuted
   theorems).  Goroutine scheduling, QUIC internals and timing are not modelled: [settle]ed
   observables describe the state once every enabled clean-up has run. *)
From Receptor Require Export Base.Hex.
Open Scope N_scope.

Inductive variant := Fixed | Pinned.

Record psock := { k_node : N; k_name : N; k_adv : bool; k_closed : bool; k_parked : nat }.
Record sub := { u_sock : N; u_done : bool }.
Record lis := { l_node : N; l_name : N; l_adv : bool; l_closed : bool }.
Record conn := {
  c_dnode : N;          (* dialling node *)
  c_lis : N;            (* listener that accepted it *)
  c_ename : N;          (* ephemeral service bound by DialContext *)
  c_ddone : bool;       (* dialler's doneChan closed (Conn.Close or CloseConnection) *)
  c_adone : bool;       (* acceptor's doneChan closed *)
  c_dcc : bool;         (* CloseConnection called by the dialler *)
  c_acc : bool;         (* CloseConnection called by the acceptor *)
  c_erel : bool         (* Pinned only: the clean-up goroutine saw the connection end while still armed *)
}.

Record st := {
  socks : list (N * psock);
  subs : list (N * sub);
  liss : list (N * lis);
  conns : list (N * conn);
  ads : list (N * N);          (* (node, service) advertised locally *)
  down : list N;               (* nodes shut down *)
  pingleak : nat               (* Pinned only: reader goroutines left behind by failed pings *)
}.

Definition init : st := {| socks := []; subs := []; liss := []; conns := []; ads := []; down := []; pingleak := 0 |}.

Inductive op :=
| ListenPacket (id node name : N) (adv : bool)
| PcClose (id : N)
| Subscribe (uid sid : N)
| SubDone (uid : N)
| Park (sid : N)              (* a deliverer finds the socket registered and blocks on its channel *)
| ReadOne (sid : N)           (* a reader takes one waiting message *)
| Listen (id node name : N) (adv : bool)
| LiClose (id : N)
| DialOk (cid dnode lid ename : N)   (* a dial that succeeds and is accepted *)
| DialFail (dnode : N)               (* refused, unknown service or cancelled mid-dial *)
| ConnClose (cid : N) (dialler : bool)
| CloseConnection (cid : N) (dialler : bool)
| PingOp (node : N) (ok : bool)
| Shutdown (node : N)
(* any other exported method of Conn on one end: CancelRead (the peer then refuses further data,
   and a later stream Close reports an error), SetDeadline / SetReadDeadline / SetWriteDeadline,
   Read or Write after Close.  None of them touches the bookkeeping: what Conn.Close and
   CloseConnection release does not depend on whether closing the QUIC stream succeeds. *)
| StreamOp (cid : N) (dialler : bool).

Inductive ppoint := PDoubleCloseChan | PNilAdvert.
Inductive outcome := Ok (s : st) | Reject | Panic (p : ppoint).

(* ---------- association lists ---------- *)
Fixpoint lookup {A} (k : N) (l : list (N * A)) : option A :=
  match l with [] => None | (k', v) :: r => if k =? k' then Some v else lookup k r end.
Fixpoint update {A} (k : N) (v : A) (l : list (N * A)) : list (N * A) :=
  match l with [] => [] | (k', v') :: r => if k =? k' then (k', v) :: r else (k', v') :: update k v r end.
Definition memN (x : N) (l : list N) : bool := existsb (N.eqb x) l.
Definition mem2 (x : N * N) (l : list (N * N)) : bool :=
  existsb (fun y => (fst x =? fst y) && (snd x =? snd y)) l.
Definition del2 (x : N * N) (l : list (N * N)) : list (N * N) :=
  filter (fun y => negb ((fst x =? fst y) && (snd x =? snd y))) l.

Definition RESERVED_PING : N := 1.
Definition RESERVED_UNREACH : N := 2.
Definition TOO_LONG : N := 3.     (* any service name of more than 8 bytes: refused like a reserved one *)
Definition reservedN (name : N) : bool := (name =? RESERVED_PING) || (name =? RESERVED_UNREACH) || (name =? TOO_LONG).

Definition is_down (s : st) (n : N) : bool := memN n (down s).

Definition lis_closed (s : st) (lid : N) : bool :=
  match lookup lid (liss s) with Some l => l_closed l | None => true end.
Definition lis_node (s : st) (lid : N) : N :=
  match lookup lid (liss s) with Some l => l_node l | None => 0 end.

(* the QUIC connection is over: closed by either end, or an end's socket or node is gone (the
   other end then notices at the latest after the idle timeout) *)
Definition over (s : st) (c : conn) : bool :=
  c_dcc c || c_acc c || lis_closed s (c_lis c) || is_down s (c_dnode c) || is_down s (lis_node s (c_lis c)).

(* the dialler's ephemeral socket is still open *)
Definition eph_open (v : variant) (s : st) (c : conn) : bool :=
  match v with
  | Fixed => negb (over s c)
  | Pinned => negb (c_erel c) && negb (is_down s (c_dnode c))
  end.

(* ---------- the listener registry ---------- *)
(* PacketConn.Close deletes by name.  Fixed: only the first Close of a socket does anything.
   Pinned: every Close deletes whatever is registered under the name now. *)
Definition registry (v : variant) (s : st) (n : N) : list N :=
  map (fun x => k_name (snd x)) (filter (fun x => (k_node (snd x) =? n) && negb (k_closed (snd x))) (socks s))
  ++ map (fun x => l_name (snd x)) (filter (fun x => (l_node (snd x) =? n) && negb (l_closed (snd x))) (liss s))
  ++ map (fun x => c_ename (snd x)) (filter (fun x => (c_dnode (snd x) =? n) && eph_open v s (snd x)) (conns s)).

Definition name_taken (v : variant) (s : st) (n name : N) : bool :=
  reservedN name || memN name (registry v s n).

(* ---------- steps ---------- *)
Definition set_socks s x := {| socks := x; subs := subs s; liss := liss s; conns := conns s; ads := ads s; down := down s; pingleak := pingleak s |}.
Definition set_subs s x := {| socks := socks s; subs := x; liss := liss s; conns := conns s; ads := ads s; down := down s; pingleak := pingleak s |}.
Definition set_liss s x := {| socks := socks s; subs := subs s; liss := x; conns := conns s; ads := ads s; down := down s; pingleak := pingleak s |}.
Definition set_conns s x := {| socks := socks s; subs := subs s; liss := liss s; conns := x; ads := ads s; down := down s; pingleak := pingleak s |}.
Definition set_ads s x := {| socks := socks s; subs := subs s; liss := liss s; conns := conns s; ads := x; down := down s; pingleak := pingleak s |}.
Definition set_down s x := {| socks := socks s; subs := subs s; liss := liss s; conns := conns s; ads := ads s; down := x; pingleak := pingleak s |}.
Definition set_pingleak s x := {| socks := socks s; subs := subs s; liss := liss s; conns := conns s; ads := ads s; down := down s; pingleak := x |}.

(* RemoveLocalServiceAdvertisement: Pinned dereferences the advertisement without looking *)
Definition withdraw (v : variant) (s : st) (n name : N) : outcome :=
  if mem2 (n, name) (ads s) then Ok (set_ads s (del2 (n, name) (ads s)))
  else match v with Fixed => Ok s | Pinned => Panic PNilAdvert end.

(* closing other sockets' registrations by name (Pinned, repeated Close): every open socket or
   listener of node n called [name] loses its registration; modelled as being closed *)
Definition unregister_by_name (s : st) (n name : N) : st :=
  let s1 := set_socks s (map (fun x => if (k_node (snd x) =? n) && (k_name (snd x) =? name) && negb (k_closed (snd x))
                                     then (fst x, {| k_node := k_node (snd x); k_name := k_name (snd x); k_adv := k_adv (snd x);
                                                      k_closed := true; k_parked := k_parked (snd x) |})
                                     else x) (socks s)) in
  set_liss s1 (map (fun x => if (l_node (snd x) =? n) && (l_name (snd x) =? name) && negb (l_closed (snd x))
                             then (fst x, {| l_node := l_node (snd x); l_name := l_name (snd x); l_adv := l_adv (snd x); l_closed := true |})
                             else x) (liss s1)).

Definition close_psock (v : variant) (s : st) (id : N) (k : psock) : outcome :=
  if k_closed k then
    match v with
    | Fixed => Ok s                                   (* idempotent *)
    | Pinned =>                                       (* deletes by name again, withdraws again *)
      let s' := unregister_by_name s (k_node k) (k_name k) in
      if k_adv k then withdraw v s' (k_node k) (k_name k) else Ok s'
    end
  else
    (* the deliverers waiting on the socket wake up; Pinned: each of them closes the channel *)
    match v, k_parked k with
    | Pinned, S (S _) => Panic PDoubleCloseChan
    | _, _ =>
      let k' := {| k_node := k_node k; k_name := k_name k; k_adv := k_adv k; k_closed := true; k_parked := 0 |} in
      let s' := set_socks s (update id k' (socks s)) in
      if k_adv k then withdraw v s' (k_node k) (k_name k) else Ok s'
    end.

Definition close_lis (v : variant) (s : st) (id : N) (l : lis) : outcome :=
  if l_closed l then
    match v with
    | Fixed => Ok s
    | Pinned =>
      let s' := unregister_by_name s (l_node l) (l_name l) in
      if l_adv l then withdraw v s' (l_node l) (l_name l) else Ok s'
    end
  else
    let l' := {| l_node := l_node l; l_name := l_name l; l_adv := l_adv l; l_closed := true |} in
    let s' := set_liss s (update id l' (liss s)) in
    if l_adv l then withdraw v s' (l_node l) (l_name l) else Ok s'.

Definition upd_conn (s : st) (cid : N) (f : conn -> conn) : outcome :=
  match lookup cid (conns s) with
  | None => Reject
  | Some c => Ok (set_conns s (update cid (f c) (conns s)))
  end.

Definition mkconn dn li en dd ad dc ac er :=
  {| c_dnode := dn; c_lis := li; c_ename := en; c_ddone := dd; c_adone := ad; c_dcc := dc; c_acc := ac; c_erel := er |}.

(* Pinned: whenever the connection ends while the dialler's clean-up goroutine is still armed
   (doneChan open), the ephemeral socket is released; otherwise never *)
Definition mark_released (s : st) : st :=
  set_conns s (map (fun x => let c := snd x in
                             if over s c && negb (c_ddone c)
                             then (fst x, mkconn (c_dnode c) (c_lis c) (c_ename c) (c_ddone c) (c_adone c) (c_dcc c) (c_acc c) true)
                             else x) (conns s)).

Definition step (v : variant) (s : st) (o : op) : outcome :=
  match o with
  | ListenPacket id node name adv =>
    if is_down s node || name_taken v s node name || match lookup id (socks s) with Some _ => true | None => false end
    then Reject
    else let s' := set_socks s (socks s ++ [(id, {| k_node := node; k_name := name; k_adv := adv; k_closed := false; k_parked := 0 |})]) in
         Ok (if adv then set_ads s' ((node, name) :: ads s') else s')
  | PcClose id =>
    match lookup id (socks s) with None => Reject | Some k => close_psock v s id k end
  | Subscribe uid sid =>
    match lookup sid (socks s), lookup uid (subs s) with
    | Some k, None => if k_closed k || is_down s (k_node k) then Reject
                      else Ok (set_subs s (subs s ++ [(uid, {| u_sock := sid; u_done := false |})]))
    | _, _ => Reject
    end
  | SubDone uid =>
    match lookup uid (subs s) with
    | None => Reject
    | Some u => Ok (set_subs s (update uid {| u_sock := u_sock u; u_done := true |} (subs s)))
    end
  | Park sid =>
    match lookup sid (socks s) with
    | Some k => if k_closed k || is_down s (k_node k) then Reject   (* answered "service unknown" *)
                else Ok (set_socks s (update sid {| k_node := k_node k; k_name := k_name k; k_adv := k_adv k;
                                                     k_closed := false; k_parked := S (k_parked k) |} (socks s)))
    | None => Reject
    end
  | ReadOne sid =>
    match lookup sid (socks s) with
    | Some k => match k_parked k with
                | O => Reject
                | S p => Ok (set_socks s (update sid {| k_node := k_node k; k_name := k_name k; k_adv := k_adv k;
                                                         k_closed := k_closed k; k_parked := p |} (socks s)))
                end
    | None => Reject
    end
  | Listen id node name adv =>
    if is_down s node || name_taken v s node name || match lookup id (liss s) with Some _ => true | None => false end
    then Reject
    else let s' := set_liss s (liss s ++ [(id, {| l_node := node; l_name := name; l_adv := adv; l_closed := false |})]) in
         Ok (if adv then set_ads s' ((node, name) :: ads s') else s')
  | LiClose id =>
    match lookup id (liss s) with
    | None => Reject
    | Some l => match close_lis v s id l with
                | Ok s' => Ok (match v with Pinned => mark_released s' | Fixed => s' end)
                | r => r
                end
    end
  | DialOk cid dnode lid ename =>
    if is_down s dnode || lis_closed s lid || is_down s (lis_node s lid)
       || match lookup cid (conns s) with Some _ => true | None => false end
    then Reject
    else Ok (set_conns s (conns s ++ [(cid, mkconn dnode lid ename false false false false false)]))
  | DialFail _ => Ok s
  | ConnClose cid dialler =>
    upd_conn s cid (fun c => if dialler then mkconn (c_dnode c) (c_lis c) (c_ename c) true (c_adone c) (c_dcc c) (c_acc c) (c_erel c)
                             else mkconn (c_dnode c) (c_lis c) (c_ename c) (c_ddone c) true (c_dcc c) (c_acc c) (c_erel c))
  | CloseConnection cid dialler =>
    match upd_conn s cid (fun c => if dialler then mkconn (c_dnode c) (c_lis c) (c_ename c) true (c_adone c) true (c_acc c) (c_erel c)
                                   else mkconn (c_dnode c) (c_lis c) (c_ename c) (c_ddone c) true (c_dcc c) true
                                               (c_erel c || negb (c_ddone c))) with
    | Ok s' => Ok s'
    | r => r
    end
  | PingOp node ok =>
    if is_down s node then Reject
    else match v with
         | Fixed => Ok s
         | Pinned => Ok (if ok then s else set_pingleak s (S (pingleak s)))
         end
  | Shutdown node =>
    let s' := set_down s (node :: down s) in
    Ok (match v with Pinned => mark_released s' | Fixed => s' end)
  | StreamOp cid _ =>
    match lookup cid (conns s) with Some _ => Ok s | None => Reject end
  end.

Fixpoint run (v : variant) (s : st) (h : list op) : outcome :=
  match h with
  | [] => Ok s
  | o :: r => match step v s o with
              | Ok s' => run v s' r
              | Reject => run v s r
              | Panic p => Panic p
              end
  end.

(* ---------- goroutines per spawn site and node, once settled ---------- *)
Inductive site :=
| SStartUnreachable    (* PacketConn.StartUnreachable: 2 per open socket *)
| SSocketBroker        (* utils.NewBroker for the socket's unreachableSubs: 1 per open socket *)
| SSubscribe           (* PacketConn.SubscribeUnreachable: 2 per live subscription *)
| SListen              (* Netceptor.listen: context watcher + acceptLoop: 2 per open listener *)
| SAccept              (* acceptLoop.func1: watcher + monitorUnreachable: 2 per live accepted connection *)
| SDial                (* DialContext: clean-up + monitorUnreachable *)
| SPing.               (* SendPing: nothing once it has returned *)

Definition b2n (b : bool) : nat := if b then 1%nat else 0%nat.
Definition count {A} (f : A -> bool) (l : list A) : nat := length (filter f l).
Definition sum {A} (f : A -> nat) (l : list A) : nat := fold_right (fun x a => (f x + a)%nat) 0%nat l.

Definition up (s : st) (n : N) : bool := negb (is_down s n).

Definition open_sockets (v : variant) (s : st) (n : N) : nat :=
  if is_down s n then 0%nat else
  (count (fun x => (k_node (snd x) =? n) && negb (k_closed (snd x))) (socks s)
   + count (fun x => (l_node (snd x) =? n) && negb (l_closed (snd x))) (liss s)
   + count (fun x => (c_dnode (snd x) =? n) && eph_open v s (snd x)) (conns s))%nat.

Definition sub_live (s : st) (u : sub) (n : N) : bool :=
  match lookup (u_sock u) (socks s) with
  | Some k => (k_node k =? n) && negb (u_done u) && negb (k_closed k) && up s n
  | None => false
  end.

(* the accepted side of a connection still has its watcher and its monitor *)
Definition acc_live (s : st) (c : conn) (n : N) : bool :=
  (lis_node s (c_lis c) =? n) && negb (c_adone c) && negb (lis_closed s (c_lis c)) && up s n.
(* the dialling side's monitorUnreachable *)
Definition dmon_live (v : variant) (s : st) (c : conn) (n : N) : bool :=
  (c_dnode c =? n) && negb (c_ddone c) && eph_open v s c && up s n.
(* the dialling side's clean-up goroutine *)
Definition dclean_live (v : variant) (s : st) (c : conn) (n : N) : bool :=
  (c_dnode c =? n) && up s n &&
  match v with
  | Fixed => negb (over s c)
  | Pinned => negb (c_ddone c) && negb (over s c)
  end.

Definition goroutines (v : variant) (s : st) (g : site) (n : N) : nat :=
  match g with
  | SStartUnreachable => (2 * open_sockets v s n)%nat
  | SSocketBroker => open_sockets v s n
  | SSubscribe => (2 * (count (fun x => sub_live s (snd x) n) (subs s)
                        + count (fun x => acc_live s (snd x) n) (conns s)
                        + count (fun x => dmon_live v s (snd x) n) (conns s)))%nat
  | SListen => if is_down s n then 0%nat
               else (2 * count (fun x => (l_node (snd x) =? n) && negb (l_closed (snd x))) (liss s))%nat
  | SAccept => (2 * count (fun x => acc_live s (snd x) n) (conns s))%nat
  | SDial => (count (fun x => dclean_live v s (snd x) n) (conns s)
              + count (fun x => dmon_live v s (snd x) n) (conns s))%nat
  | SPing => match v with Fixed => 0%nat | Pinned => pingleak s end
  end.

Definition all_sites : list site := [SStartUnreachable; SSocketBroker; SSubscribe; SListen; SAccept; SDial; SPing].

(* what a finished connection still holds: its ephemeral service name and its goroutines *)
Definition conn_residue (v : variant) (s : st) (c : conn) : nat :=
  (b2n (eph_open v s c && up s (c_dnode c))
   + b2n (dclean_live v s c (c_dnode c)) + b2n (dmon_live v s c (c_dnode c))
   + b2n (acc_live s c (lis_node s (c_lis c))))%nat.

(* ---------- "done" ---------- *)
Definition conn_done (c : conn) : bool := c_ddone c && c_adone c.
Definition all_closed (s : st) : bool :=
  forallb (fun x => k_closed (snd x)) (socks s) && forallb (fun x => u_done (snd x)) (subs s)
  && forallb (fun x => l_closed (snd x)) (liss s) && forallb (fun x => conn_done (snd x)) (conns s).

(* ---------- correspondence cases ---------- *)
Fixpoint insert (x : N) (l : list N) : list N :=
  match l with [] => [x] | y :: r => if x <=? y then x :: l else y :: insert x r end.
Definition nsort (l : list N) : list N := fold_right insert [] l.
Fixpoint beq_nl (a b : list N) : bool :=
  match a, b with [], [] => true | x :: a', y :: b' => (x =? y) && beq_nl a' b' | _, _ => false end.

(* observation at a checkpoint: per node the registry (service numbers) and per site the number of
   goroutines summed over the nodes *)
Record obs := { ob_reg : list (N * list N); ob_gor : list nat }.

Definition total (v : variant) (s : st) (nodes : list N) (g : site) : nat :=
  sum (fun n => goroutines v s g n) nodes.

(* A QUIC connection may also end for reasons outside this model (its idle timeout under a
   scheduling stall; an accepted side is closed by receptor itself when a "service unknown" for
   the peer arrives after the peer's socket has gone).  That only ever releases resources, so an
   observation is accepted when it lies between the model without any connection (lower bound)
   and the model with every connection that nothing has ended (upper bound: anything above it
   is a leak). *)
Definition without_conns (s : st) : st := set_conns s [].

Fixpoint subl (a b : list N) {struct b} : bool :=      (* sorted a is a sub-multiset of sorted b *)
  match b with
  | [] => match a with [] => true | _ => false end
  | y :: b' => match a with
               | [] => true
               | x :: a' => if x =? y then subl a' b' else if y <? x then subl a b' else false
               end
  end.

Definition obs_ok (v : variant) (s : st) (nodes : list N) (o : obs) : bool :=
  forallb (fun r => let seen := nsort (snd r) in
                    subl (nsort (registry v (without_conns s) (fst r))) seen
                    && subl seen (nsort (registry v s (fst r)))) (ob_reg o)
  && Nat.eqb (length (ob_reg o)) (length nodes)
  && forallb (fun p => Nat.leb (total v (without_conns s) nodes (fst p)) (snd p)
                       && Nat.leb (snd p) (total v s nodes (fst p))) (combine all_sites (ob_gor o))
  && Nat.eqb (length (ob_gor o)) (length all_sites).

(* a history: operations with what the implementation answered (true = performed, false =
   refused), interleaved with checkpoints *)
Inductive item := Do (o : op) (performed : bool) | Check (o : obs).

Fixpoint replay (v : variant) (s : st) (nodes : list N) (h : list item) : bool :=
  match h with
  | [] => true
  | Do o performed :: r =>
    match step v s o with
    | Ok s' => performed && replay v s' nodes r
    | Reject => negb performed && replay v s nodes r
    | Panic _ => false
    end
  | Check o :: r => obs_ok v s nodes o && replay v s nodes r
  end.

Record life_case := { lc_nodes : list N; lc_hist : list item }.
Definition life_check (c : life_case) : bool := replay Fixed init (lc_nodes c) (lc_hist c).
