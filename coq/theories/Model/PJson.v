(* Model/PJson.v — what Go's encoding/json (go1.23 src/encoding/json/decode.go) does when
   runProtocol / handleServiceAdvertisement call json.Unmarshal into the two wire structs of
   pkg/netceptor/netceptor.go:

     type routingUpdate struct { NodeID, UpdateID string; UpdateEpoch, UpdateSequence uint64;
                                 Connections map[string]float64; ForwardingNode string;
                                 SuspectedDuplicate uint64 }
     type serviceAdvertisementFull struct { *ServiceAdvertisement; Cancel bool }
     type ServiceAdvertisement struct { NodeID, Service string; Time time.Time; ConnType byte;
                                        Tags map[string]string; WorkCommands []WorkCommand }
     type WorkCommand struct { WorkType string; Secure bool }

   The JSON TOKENIZER is an oracle: the model starts from the value tree (AST) of a
   syntactically valid text; the harness prints the same tree as JSON text for Go and as a Coq
   term for this file (and cross-checks its printer against json.Valid and Go's own string
   unquoting).  Three facts about tokens are part of the tree because the Go code looks at the
   raw literal and not at its value:
   - a number is [NInt] when the literal is "-?digits" (the only form strconv.ParseUint can
     accept), [NFrac] when it has a fraction or an exponent; the latter carries the float64
     that strconv.ParseFloat returns (an exact dyadic rational), [NHuge] when ParseFloat
     reports a range error;
   - a string carries [Some t] when its raw literal is a strict RFC 3339 time (what
     time.Time.UnmarshalJSON accepts), t in unix nanoseconds.
   Modelled here, not assumed: member-name matching (exact, then case-folded with the two
   non-ASCII runes that fold to ASCII letters), which Go kinds accept which JSON values,
   [null] handling per kind, integer ranges, map and slice (re)use across duplicate members,
   allocation of the embedded pointer iff a member names one of its fields.
   Every decoding error makes the caller drop the message, so one error value suffices. *)
From Coq Require Import String.
From Receptor Require Export Base.Hex.
Open Scope list_scope.
Open Scope N_scope.

(* ---------- values ---------- *)

(* exact dyadic rationals: (-1)^neg * num / 2^k; all float64 values are of this form *)
Record dy := Dy { d_neg : bool; d_num : N; d_k : N }.

Inductive jnum :=
| NInt (neg : bool) (n : N)            (* literal -?digits *)
| NFrac (v : dy)                       (* literal with fraction/exponent; v = ParseFloat's result *)
| NHuge.                               (* ParseFloat: value out of range *)

Inductive json :=
| JNull
| JBool (b : bool)
| JNum (x : jnum)
| JStr (s : bytes) (tm : option N)     (* decoded string; RFC 3339 reading of the raw literal *)
| JArr (l : list json)
| JObj (m : list (bytes * json)).      (* members in source order, duplicates kept *)

Inductive jres (A : Type) := JOk (a : A) | JErr.
Arguments JOk {A} a. Arguments JErr {A}.
Definition jbind {A B} (r : jres A) (f : A -> jres B) : jres B :=
  match r with JOk a => f a | JErr => JErr end.

(* ---------- numbers ---------- *)

Fixpoint strip2 (fuel : nat) (n k : N) : N * N :=
  match fuel with
  | O => (n, k)
  | S f => if (k =? 0) || N.odd n then (n, k) else strip2 f (n / 2) (k - 1)
  end.

(* canonical form: numerator odd or k = 0; zero is +0 *)
Definition dy_norm (d : dy) : dy :=
  if d_num d =? 0 then Dy false 0 0
  else let '(n, k) := strip2 (N.to_nat (d_k d)) (d_num d) (d_k d) in Dy (d_neg d) n k.

Definition dy_eqb (a b : dy) : bool :=
  let a := dy_norm a in let b := dy_norm b in
  Bool.eqb (d_neg a) (d_neg b) && (d_num a =? d_num b) && (d_k a =? d_k b).

Definition dy_pos (d : dy) : bool := negb (d_neg d) && negb (d_num d =? 0).
Definition dy_of_N (n : N) : dy := Dy false n 0.

(* float64 of a non-negative integer: round to nearest, ties to even, 53-bit significand
   (strconv.ParseFloat is correctly rounded).  Exact below 2^53. *)
Definition round53 (n : N) : N :=
  let b := N.size n in
  if b <=? 53 then n
  else let sh := b - 53 in
       let q := N.shiftr n sh in
       let r := n - N.shiftl q sh in
       let half := N.shiftl 1 (sh - 1) in
       let q' := if (half <? r) || ((r =? half) && N.odd q) then q + 1 else q in
       N.shiftl q' sh.

Definition num_f64 (x : jnum) : jres dy :=
  match x with
  | NInt neg n => JOk (dy_norm (Dy neg (round53 n) 0))
  | NFrac v => JOk (dy_norm v)
  | NHuge => JErr
  end.

Definition two64 : N := 18446744073709551616.

Definition num_uint (bound : N) (x : jnum) : jres N :=
  match x with
  | NInt false n => if n <? bound then JOk n else JErr
  | _ => JErr                       (* "-0", "1.0", "1e3" are not unsigned integer literals *)
  end.

(* ---------- member names ---------- *)

Definition upc (b : N) : N := if (97 <=? b) && (b <=? 122) then b - 32 else b.

(* decode.go foldName: ASCII letters to upper case; U+017F (c5 bf) folds to 'S' and U+212A
   (e2 84 aa) to 'K'; no other non-ASCII rune folds to an ASCII letter *)
Fixpoint fold_key (k : bytes) : bytes :=
  match k with
  | [] => []
  | a :: r =>
    match r with
    | b :: r2 =>
      if (a =? 197) && (b =? 191) then 83 :: fold_key r2
      else match r2 with
           | c :: r3 =>
             if (a =? 226) && (b =? 132) && (c =? 170) then 75 :: fold_key r3
             else upc a :: fold_key r
           | [] => upc a :: fold_key r
           end
    | [] => upc a :: fold_key r
    end
  end.

Fixpoint field_index (names : list bytes) (k : bytes) (i : nat) : option nat :=
  match names with
  | [] => None
  | nm :: r => if beq_bytes (fold_key k) (fold_key nm) then Some i else field_index r k (S i)
  end.
(* (the field names of each struct below are pairwise distinct after folding, so "exact match
   first, folded match second" selects the same field as the folded match alone) *)

(* ---------- leaf kinds ---------- *)

Definition dec_str (cur : bytes) (v : json) : jres bytes :=
  match v with JNull => JOk cur | JStr s _ => JOk s | _ => JErr end.

Definition dec_uint (bound : N) (cur : N) (v : json) : jres N :=
  match v with JNull => JOk cur | JNum x => num_uint bound x | _ => JErr end.

Definition dec_f64 (cur : dy) (v : json) : jres dy :=
  match v with JNull => JOk cur | JNum x => num_f64 x | _ => JErr end.

Definition dec_bool (cur : bool) (v : json) : jres bool :=
  match v with JNull => JOk cur | JBool b => JOk b | _ => JErr end.

(* time.Time implements Unmarshaler: null is a no-op, a string must be RFC 3339, anything
   else is an error.  [None] is the zero time. *)
Definition dec_time (cur : option N) (v : json) : jres (option N) :=
  match v with
  | JNull => JOk cur
  | JStr _ (Some t) => JOk (Some t)
  | _ => JErr
  end.

(* maps: association lists, later binding of a key replaces the earlier one *)
Fixpoint aset {V} (m : list (bytes * V)) (k : bytes) (v : V) : list (bytes * V) :=
  match m with
  | [] => [(k, v)]
  | (k', v') :: r => if beq_bytes k k' then (k, v) :: r else (k', v') :: aset r k v
  end.

Fixpoint aget {V} (m : list (bytes * V)) (k : bytes) : option V :=
  match m with
  | [] => None
  | (k', v') :: r => if beq_bytes k k' then Some v' else aget r k
  end.

Definition zero_dy : dy := Dy false 0 0.

(* map[string]V: null -> nil map; an object is decoded INTO the existing map (allocated if
   nil), every element starting from V's zero value *)
Fixpoint dec_members {V} (dec : json -> jres V) (ms : list (bytes * json)) (acc : list (bytes * V))
  : jres (list (bytes * V)) :=
  match ms with
  | [] => JOk acc
  | (k, x) :: r => jbind (dec x) (fun v => dec_members dec r (aset acc k v))
  end.

Definition dec_map {V} (dec : json -> jres V) (cur : option (list (bytes * V))) (v : json)
  : jres (option (list (bytes * V))) :=
  match v with
  | JNull => JOk None
  | JObj ms => jbind (dec_members dec ms (match cur with Some m => m | None => [] end))
                     (fun m => JOk (Some m))
  | _ => JErr
  end.

(* WorkCommand *)
Definition wc_names : list bytes := [str "WorkType"; str "Secure"]%string.

Fixpoint dec_wc_members (ms : list (bytes * json)) (cur : bytes * bool) : jres (bytes * bool) :=
  match ms with
  | [] => JOk cur
  | (k, x) :: r =>
    match field_index wc_names k 0 with
    | Some 0%nat => jbind (dec_str (fst cur) x) (fun s => dec_wc_members r (s, snd cur))
    | Some _ => jbind (dec_bool (snd cur) x) (fun b => dec_wc_members r (fst cur, b))
    | None => dec_wc_members r cur
    end
  end.

Definition dec_wc (cur : bytes * bool) (v : json) : jres (bytes * bool) :=
  match v with
  | JNull => JOk cur
  | JObj ms => dec_wc_members ms cur
  | _ => JErr
  end.

(* []WorkCommand: element i is decoded into the existing element i when the slice already has
   one (decode.go array(): "Decode into element"), a fresh zero element otherwise; the slice is
   truncated to the number of elements read.  (Exact for at most two occurrences of the member:
   a third one could see stale memory beyond a truncation; the harness does not generate it.) *)
Fixpoint dec_wcs (l : list json) (old : list (bytes * bool)) : jres (list (bytes * bool)) :=
  match l with
  | [] => JOk []
  | x :: r =>
    let '(cur, old') := match old with c :: o => (c, o) | [] => (([], false), []) end in
    jbind (dec_wc cur x) (fun c => jbind (dec_wcs r old') (fun cs => JOk (c :: cs)))
  end.

Definition dec_slice_wc (cur : option (list (bytes * bool))) (v : json) : jres (option (list (bytes * bool))) :=
  match v with
  | JNull => JOk None
  | JArr l => jbind (dec_wcs l (match cur with Some o => o | None => [] end)) (fun cs => JOk (Some cs))
  | _ => JErr
  end.

(* ---------- routingUpdate ---------- *)

Record rupd := {
  ru_node : bytes; ru_uid : bytes; ru_epoch : N; ru_seq : N;
  ru_conns : option (list (bytes * dy));     (* None = nil map *)
  ru_fwd : bytes; ru_dup : N }.

Definition ru_zero : rupd :=
  {| ru_node := []; ru_uid := []; ru_epoch := 0; ru_seq := 0; ru_conns := None; ru_fwd := []; ru_dup := 0 |}.

Definition ru_names : list bytes :=
  [str "NodeID"; str "UpdateID"; str "UpdateEpoch"; str "UpdateSequence"; str "Connections";
   str "ForwardingNode"; str "SuspectedDuplicate"]%string.

Definition ru_set (r : rupd) (i : nat) (x : json) : jres rupd :=
  match i with
  | 0%nat => jbind (dec_str (ru_node r) x) (fun s =>
      JOk {| ru_node := s; ru_uid := ru_uid r; ru_epoch := ru_epoch r; ru_seq := ru_seq r;
             ru_conns := ru_conns r; ru_fwd := ru_fwd r; ru_dup := ru_dup r |})
  | 1%nat => jbind (dec_str (ru_uid r) x) (fun s =>
      JOk {| ru_node := ru_node r; ru_uid := s; ru_epoch := ru_epoch r; ru_seq := ru_seq r;
             ru_conns := ru_conns r; ru_fwd := ru_fwd r; ru_dup := ru_dup r |})
  | 2%nat => jbind (dec_uint two64 (ru_epoch r) x) (fun n =>
      JOk {| ru_node := ru_node r; ru_uid := ru_uid r; ru_epoch := n; ru_seq := ru_seq r;
             ru_conns := ru_conns r; ru_fwd := ru_fwd r; ru_dup := ru_dup r |})
  | 3%nat => jbind (dec_uint two64 (ru_seq r) x) (fun n =>
      JOk {| ru_node := ru_node r; ru_uid := ru_uid r; ru_epoch := ru_epoch r; ru_seq := n;
             ru_conns := ru_conns r; ru_fwd := ru_fwd r; ru_dup := ru_dup r |})
  | 4%nat => jbind (dec_map (dec_f64 zero_dy) (ru_conns r) x) (fun m =>
      JOk {| ru_node := ru_node r; ru_uid := ru_uid r; ru_epoch := ru_epoch r; ru_seq := ru_seq r;
             ru_conns := m; ru_fwd := ru_fwd r; ru_dup := ru_dup r |})
  | 5%nat => jbind (dec_str (ru_fwd r) x) (fun s =>
      JOk {| ru_node := ru_node r; ru_uid := ru_uid r; ru_epoch := ru_epoch r; ru_seq := ru_seq r;
             ru_conns := ru_conns r; ru_fwd := s; ru_dup := ru_dup r |})
  | _ => jbind (dec_uint two64 (ru_dup r) x) (fun n =>
      JOk {| ru_node := ru_node r; ru_uid := ru_uid r; ru_epoch := ru_epoch r; ru_seq := ru_seq r;
             ru_conns := ru_conns r; ru_fwd := ru_fwd r; ru_dup := n |})
  end.

Fixpoint ru_members (ms : list (bytes * json)) (r : rupd) : jres rupd :=
  match ms with
  | [] => JOk r
  | (k, x) :: rest =>
    match field_index ru_names k 0 with
    | Some i => jbind (ru_set r i x) (ru_members rest)
    | None => ru_members rest r          (* unknown member: value skipped, whatever its shape *)
    end
  end.

(* json.Unmarshal(body, &routingUpdate{}): top-level null is a no-op, an object is decoded
   member by member, any other value is an UnmarshalTypeError *)
Definition decode_routing_update (j : json) : jres rupd :=
  match j with
  | JNull => JOk ru_zero
  | JObj ms => ru_members ms ru_zero
  | _ => JErr
  end.

(* ---------- serviceAdvertisementFull ---------- *)

Record advert := {
  ad_present : bool;                         (* the embedded *ServiceAdvertisement is non-nil *)
  ad_node : bytes; ad_service : bytes; ad_time : option N; ad_conntype : N;
  ad_tags : option (list (bytes * bytes)); ad_cmds : option (list (bytes * bool));
  ad_cancel : bool }.

Definition ad_zero : advert :=
  {| ad_present := false; ad_node := []; ad_service := []; ad_time := None; ad_conntype := 0;
     ad_tags := None; ad_cmds := None; ad_cancel := false |}.

(* promoted fields of the embedded struct first (indices 0..5), then Cancel (6) *)
Definition ad_names : list bytes :=
  [str "NodeID"; str "Service"; str "Time"; str "ConnType"; str "Tags"; str "WorkCommands"; str "Cancel"]%string.

Definition ad_with (a : advert) (present : bool) : advert :=
  {| ad_present := present; ad_node := ad_node a; ad_service := ad_service a; ad_time := ad_time a;
     ad_conntype := ad_conntype a; ad_tags := ad_tags a; ad_cmds := ad_cmds a; ad_cancel := ad_cancel a |}.

Definition ad_set (a0 : advert) (i : nat) (x : json) : jres advert :=
  (* decode.go object(): walking the field's index path allocates the nil embedded pointer
     BEFORE the value is looked at, also when the value is null *)
  let a := if Nat.ltb i 6 then ad_with a0 true else a0 in
  match i with
  | 0%nat => jbind (dec_str (ad_node a) x) (fun s =>
      JOk {| ad_present := ad_present a; ad_node := s; ad_service := ad_service a; ad_time := ad_time a;
             ad_conntype := ad_conntype a; ad_tags := ad_tags a; ad_cmds := ad_cmds a; ad_cancel := ad_cancel a |})
  | 1%nat => jbind (dec_str (ad_service a) x) (fun s =>
      JOk {| ad_present := ad_present a; ad_node := ad_node a; ad_service := s; ad_time := ad_time a;
             ad_conntype := ad_conntype a; ad_tags := ad_tags a; ad_cmds := ad_cmds a; ad_cancel := ad_cancel a |})
  | 2%nat => jbind (dec_time (ad_time a) x) (fun t =>
      JOk {| ad_present := ad_present a; ad_node := ad_node a; ad_service := ad_service a; ad_time := t;
             ad_conntype := ad_conntype a; ad_tags := ad_tags a; ad_cmds := ad_cmds a; ad_cancel := ad_cancel a |})
  | 3%nat => jbind (dec_uint 256 (ad_conntype a) x) (fun n =>
      JOk {| ad_present := ad_present a; ad_node := ad_node a; ad_service := ad_service a; ad_time := ad_time a;
             ad_conntype := n; ad_tags := ad_tags a; ad_cmds := ad_cmds a; ad_cancel := ad_cancel a |})
  | 4%nat => jbind (dec_map (dec_str []) (ad_tags a) x) (fun m =>
      JOk {| ad_present := ad_present a; ad_node := ad_node a; ad_service := ad_service a; ad_time := ad_time a;
             ad_conntype := ad_conntype a; ad_tags := m; ad_cmds := ad_cmds a; ad_cancel := ad_cancel a |})
  | 5%nat => jbind (dec_slice_wc (ad_cmds a) x) (fun c =>
      JOk {| ad_present := ad_present a; ad_node := ad_node a; ad_service := ad_service a; ad_time := ad_time a;
             ad_conntype := ad_conntype a; ad_tags := ad_tags a; ad_cmds := c; ad_cancel := ad_cancel a |})
  | _ => jbind (dec_bool (ad_cancel a) x) (fun b =>
      JOk {| ad_present := ad_present a; ad_node := ad_node a; ad_service := ad_service a; ad_time := ad_time a;
             ad_conntype := ad_conntype a; ad_tags := ad_tags a; ad_cmds := ad_cmds a; ad_cancel := b |})
  end.

Fixpoint ad_members (ms : list (bytes * json)) (a : advert) : jres advert :=
  match ms with
  | [] => JOk a
  | (k, x) :: rest =>
    match field_index ad_names k 0 with
    | Some i => jbind (ad_set a i x) (ad_members rest)
    | None => ad_members rest a
    end
  end.

Definition decode_advert (j : json) : jres advert :=
  match j with
  | JNull => JOk ad_zero
  | JObj ms => ad_members ms ad_zero
  | _ => JErr
  end.

(* ---------- correspondence cases (JSON-decode differential vs encoding/json) ---------- *)

Fixpoint amap_sub {V} (veq : V -> V -> bool) (a b : list (bytes * V)) : bool :=
  match a with
  | [] => true
  | (k, v) :: r => match aget b k with Some v' => veq v v' | None => false end && amap_sub veq r b
  end.

(* same finite map (both sides are duplicate-free: aset on one side, a Go map on the other) *)
Definition amap_eqb {V} (veq : V -> V -> bool) (a b : list (bytes * V)) : bool :=
  Nat.eqb (List.length a) (List.length b) && amap_sub veq a b && amap_sub veq b a.

Definition omap_eqb {V} (veq : V -> V -> bool) (a b : option (list (bytes * V))) : bool :=
  match a, b with
  | None, None => true
  | Some x, Some y => amap_eqb veq x y
  | _, _ => false
  end.

Definition rupd_eqb (a b : rupd) : bool :=
  beq_bytes (ru_node a) (ru_node b) && beq_bytes (ru_uid a) (ru_uid b) &&
  (ru_epoch a =? ru_epoch b) && (ru_seq a =? ru_seq b) &&
  omap_eqb dy_eqb (ru_conns a) (ru_conns b) &&
  beq_bytes (ru_fwd a) (ru_fwd b) && (ru_dup a =? ru_dup b).

Definition otime_eqb (a b : option N) : bool :=
  match a, b with None, None => true | Some x, Some y => x =? y | _, _ => false end.

Fixpoint cmds_eqb (a b : list (bytes * bool)) : bool :=
  match a, b with
  | [], [] => true
  | (s, x) :: a', (t, y) :: b' => beq_bytes s t && Bool.eqb x y && cmds_eqb a' b'
  | _, _ => false
  end.

(* nil and empty slices are not distinguished (nothing in receptor does) *)
Definition ocmds_eqb (a b : option (list (bytes * bool))) : bool :=
  cmds_eqb (match a with Some l => l | None => [] end) (match b with Some l => l | None => [] end).

Definition advert_eqb (a b : advert) : bool :=
  Bool.eqb (ad_present a) (ad_present b) && Bool.eqb (ad_cancel a) (ad_cancel b) &&
  (if ad_present a then
     beq_bytes (ad_node a) (ad_node b) && beq_bytes (ad_service a) (ad_service b) &&
     otime_eqb (ad_time a) (ad_time b) && (ad_conntype a =? ad_conntype b) &&
     omap_eqb beq_bytes (ad_tags a) (ad_tags b) && ocmds_eqb (ad_cmds a) (ad_cmds b)
   else true).

Inductive pjson_case :=
| CRu (j : json) (out : option rupd)        (* None = encoding/json returned an error *)
| CAd (j : json) (out : option advert).

Definition pjson_check (c : pjson_case) : bool :=
  match c with
  | CRu j out => match decode_routing_update j, out with
                 | JOk r, Some o => rupd_eqb r o
                 | JErr, None => true
                 | _, _ => false
                 end
  | CAd j out => match decode_advert j, out with
                 | JOk a, Some o => advert_eqb a o
                 | JErr, None => true
                 | _, _ => false
                 end
  end.
