(* Model/FloodWorld.v — a mesh of nodes running Model/Flood.v's handle_update, with the routing
   updates in flight between them.  The network may deliver the messages in flight in ANY order
   and may lose any of them (each relay is written by its own goroutine, so every order is
   possible); no node issues new updates (no Tick): this is the world in which "flooding always
   terminates" is stated. *)
From Receptor Require Export Model.Flood.
Open Scope N_scope.

Record msg := { m_from : node; m_to : node; m_upd : upd }.

(* node with identifier i is the i-th element *)
Record world := { w_nodes : list nstate; w_flight : list msg }.

Fixpoint remove_nth {A} (k : nat) (l : list A) : list A :=
  match k, l with
  | _, [] => []
  | O, _ :: r => r
  | S k', x :: r => x :: remove_nth k' r
  end.

Fixpoint update_nth {A} (k : nat) (v : A) (l : list A) : list A :=
  match k, l with
  | _, [] => []
  | O, _ :: r => v :: r
  | S k', x :: r => x :: update_nth k' v r
  end.

Definition relay_msgs (self : node) (acts : list action) : list msg :=
  flat_map (fun a => match a with
                     | Relay c u' => [{| m_from := self; m_to := c; m_upd := u' |}]
                     | _ => []
                     end) acts.

Inductive wlabel := Deliver (k : nat) | Drop (k : nat).

(* None = the label is not enabled *)
Definition wstep (w : world) (l : wlabel) : option (world * nat (* messages created *)) :=
  match l with
  | Drop k =>
    match nth_error (w_flight w) k with
    | None => None
    | Some _ => Some ({| w_nodes := w_nodes w; w_flight := remove_nth k (w_flight w) |}, O)
    end
  | Deliver k =>
    match nth_error (w_flight w) k with
    | None => None
    | Some m =>
      let rest := remove_nth k (w_flight w) in
      match nth_error (w_nodes w) (N.to_nat (m_to m)) with
      | None => Some ({| w_nodes := w_nodes w; w_flight := rest |}, O)      (* nobody there *)
      | Some st =>
        let '(st', acts) := handle_update st (m_upd m) (m_from m) in
        let new := relay_msgs (ns_self st) acts in
        Some ({| w_nodes := update_nth (N.to_nat (m_to m)) st' (w_nodes w);
                 w_flight := rest ++ new |}, length new)
      end
    end
  end.

Fixpoint wrun (w : world) (ls : list wlabel) : option (world * nat) :=
  match ls with
  | [] => Some (w, O)
  | l :: r =>
    match wstep w l with
    | None => None
    | Some (w', n) =>
      match wrun w' r with
      | None => None
      | Some (w'', n') => Some (w'', (n + n')%nat)
      end
    end
  end.

(* how many of the update IDs [ids] a node has not seen yet *)
Definition unseen (ids : list N) (st : nstate) : nat :=
  length (filter (fun x => negb (mem_N x (ns_seen st))) ids).

Definition weight (ids : list N) (st : nstate) : nat :=
  (length (ns_conns st) * unseen ids st)%nat.

Definition nodes_weight (ids : list N) (ns : list nstate) : nat :=
  fold_right (fun st acc => (weight ids st + acc)%nat) O ns.

(* the potential: messages in flight + what the nodes may still relay *)
Definition potential (ids : list N) (w : world) : nat :=
  (length (w_flight w) + nodes_weight ids (w_nodes w))%nat.

(* all update IDs in flight are among [ids], and [ids] has no repetition *)
Definition flight_ids_in (ids : list N) (w : world) : Prop :=
  NoDup ids /\ forall m, In m (w_flight w) -> In (u_id (m_upd m)) ids.
