(* Model/AdsConc.v — handleServiceAdvertisement under concurrency.  Every session delivers its messages
   from its own goroutine, so several advertisements for one service can be inside the handler at once.
   The real handler holds serviceAdsLock from the first look at the tables to the relay, so a concurrent
   batch behaves like SOME sequential order of [handle_ad] ([conc_ads_check]: linearizability against the
   model, checked on the real node's table and relays).  A handler that decides under one critical section
   and applies under another is [handle_split]. *)
From Receptor Require Export Model.Ads Base.Perms.
Open Scope N_scope.

(* the unconditional effect of an accepted message *)
Definition apply_ad (st : astate) (a : ad) (recv : node) : astate * list (node * ad) :=
  let ads := if a_cancel a then del2 (a_node a) (a_svc a) (as_ads st)
             else set2 (a_node a) (a_svc a) (a_time a, a_body a) (as_ads st) in
  let tomb := if a_cancel a then set2 (a_node a) (a_svc a) (a_time a) (as_tomb st)
              else del2 (a_node a) (a_svc a) (as_tomb st) in
  let st' := set_ads st ads tomb in
  (st', ad_relays st' a recv).

(* is the message newer than what is listed and than the known withdrawal *)
Definition decide (st : astate) (a : ad) : bool :=
  negb (match get2 (a_node a) (a_svc a) (as_ads st) with Some (t, _) => negb (t <? a_time a) | None => false end)
  && negb (match get2 (a_node a) (a_svc a) (as_tomb st) with Some t => negb (t <? a_time a) | None => false end).

(* decision taken on [seen] (what the tables were when the thread looked), effect on the current state *)
Definition handle_split (seen st : astate) (a : ad) (recv : node) : astate * list (node * ad) :=
  if decide seen a then apply_ad st a recv else (st, []).

(* ---------- correspondence ---------- *)
Fixpoint run_collect (st : astate) (l : list (ad * node)) : astate * list (node * ad) :=
  match l with
  | [] => (st, [])
  | (a, r) :: l' => let '(st1, rel1) := handle_ad st a r in
                    let '(st2, rel2) := run_collect st1 l' in (st2, rel1 ++ rel2)
  end.

Definition rel_eqb (x : node * ad) (y : node * N * N * N * bool) : bool :=
  let '(c, n, s, t, k) := y in
  (fst x =? c) && (a_node (snd x) =? n) && (a_svc (snd x) =? s) && (a_time (snd x) =? t) && Bool.eqb (a_cancel (snd x)) k.

(* multiset equality of model relays and observed relays *)
Fixpoint remove_first (x : node * ad) (l : list (node * N * N * N * bool)) : option (list (node * N * N * N * bool)) :=
  match l with
  | [] => None
  | y :: r => if rel_eqb x y then Some r
              else match remove_first x r with Some r' => Some (y :: r') | None => None end
  end.
Fixpoint rel_meq (a : list (node * ad)) (b : list (node * N * N * N * bool)) : bool :=
  match a with
  | [] => match b with [] => true | _ => false end
  | x :: a' => match remove_first x b with Some b' => rel_meq a' b' | None => false end
  end.

Record conc_ads_case := {
  ca_conns : list node;
  ca_pre : list (ad * node);                       (* delivered one by one before the batch *)
  ca_batch : list (ad * node);                     (* delivered by one goroutine each, at the same moment *)
  ca_ads : amap (amap (N * N));                    (* the node's table afterwards *)
  ca_relays : list (node * N * N * N * bool)       (* everything relayed during the batch, any order *)
}.

Definition conc_ads_check (c : conc_ads_case) : bool :=
  let st0 := run_ads handle_ad (ads_init (ca_conns c)) (ca_pre c) in
  existsb (fun p => let '(st, rel) := run_collect st0 p in
                    beq_ads (as_ads st) (ca_ads c) && rel_meq rel (ca_relays c))
          (perms (ca_batch c)).

(* all kinds of cases of the C18 harness *)
Inductive c18x_case := XSeq (c : c18_case) | XConc (c : conc_ads_case).
Definition c18x_check (c : c18x_case) : bool :=
  match c with XSeq s => c18_check s | XConc k => conc_ads_check k end.
Definition c18x_check_pinned (c : c18x_case) : bool :=
  match c with XSeq s => c18_check_pinned s | XConc _ => true end.
