(* Model/TraceLoop.v — property C10: the loop of CreateTraceroute (pkg/netceptor/ping.go:117-141)

       for i := 0; i <= int(s.MaxForwardingHops()); i++ { Ping(ctx, target, byte(i)); ... }

   over an arbitrary ping function, so that its termination can be stated apart from what a ping
   does: one probe per hop budget 0..maxhops, stopping at the first result that is not "message
   expired".  [trace_gen] is that loop ([traceroute] of Model/Forward.v is its instance at
   [ping w src target eph], lemma [traceroute_is_trace_gen]).

   [trace_byte] is the same loop with its counter held in a byte
   (`for hops := byte(0); hops <= max; hops++` — seeded change C10-I): incrementing 255 gives 0.
   It runs on fuel and returns whether it came to an end; kept only to be refuted. *)
From Receptor Require Export Model.Forward.
Open Scope N_scope.

Definition is_expired (r : ping_res) : bool :=
  match r with PErr _ p => p =? P_EXPIRED | _ => false end.

Fixpoint trace_gen (pingf : nat -> ping_res) (i n : nat) : list ping_res :=
  match n with
  | O => []
  | S n' =>
    let r := pingf i in
    if is_expired r then r :: trace_gen pingf (S i) n' else [r]
  end.

(* the byte counter: i <= max is tested on the byte, i++ wraps at 256 *)
Fixpoint trace_byte (pingf : nat -> ping_res) (max i : N) (fuel : nat) : list ping_res * bool :=
  match fuel with
  | O => ([], false)
  | S f =>
    if i <=? max then
      let r := pingf (N.to_nat i) in
      if is_expired r then
        let '(l, ended) := trace_byte pingf max ((i + 1) mod 256) f in (r :: l, ended)
      else ([r], true)
    else ([], true)
  end.
