(* Model/Regex.v — the regular-expression dialect the C12 harness generates, and an executable
   full-match function.

   Characters are Unicode code points ([N]); a text is the list of code points of a valid UTF-8
   Go string (Go's regexp package works on runes, string equality on bytes: for valid UTF-8 the
   two views are in bijection, and the harness only produces valid UTF-8).

   The AST is printed to Go regexp syntax by the harness (harness/cmd/c12/regex.go: [printRe]);
   the same AST is printed as a Coq term into the case files.  What Go's own parser makes of the
   printed pattern is an oracle; it is tied to [full] on every run (differentially in coqc and,
   model-independently, against an explicitly grouped and anchored pattern).

   [full r s] decides whether the WHOLE text [s] is in the language of [r] by Brzozowski
   derivatives.  Proofs/Regex.v: [full_spec : full r s = true <-> lang r s]. *)
From Receptor Require Export Base.Hex.
Open Scope N_scope.

Definition text := list N.

Definition beq_text : text -> text -> bool := beq_bytes.

(* one-character matchers *)
Inductive cset :=
| CsChar (c : N)                              (* a literal character (printed escaped) *)
| CsAny                                       (* "."  : every character except newline *)
| CsSet (neg : bool) (rs : list (N * N)).     (* "[a-cx]" / "[^a-cx]" as inclusive ranges *)

Definition in_ranges (rs : list (N * N)) (c : N) : bool :=
  existsb (fun r => (fst r <=? c) && (c <=? snd r)) rs.

Definition cs_mem (cs : cset) (c : N) : bool :=
  match cs with
  | CsChar d => c =? d
  | CsAny => negb (c =? 10)
  | CsSet neg rs => xorb neg (in_ranges rs c)
  end.

Inductive re :=
| RNull                    (* no text at all; only produced by derivatives, never printed *)
| REps                     (* the empty text: "(?:)" *)
| RSet (cs : cset)
| RCat (a b : re)          (* ab *)
| RAlt (a b : re)          (* a|b *)
| RStar (a : re)           (* a* *)
| RPlus (a : re)           (* a+ *)
| ROpt (a : re)            (* a? *)
| RGroup (a : re).         (* (a) : a capturing group, same language *)

(* the declarative meaning *)
Inductive lang : re -> text -> Prop :=
| LEps : lang REps []
| LSet cs c : cs_mem cs c = true -> lang (RSet cs) [c]
| LCat a b s1 s2 : lang a s1 -> lang b s2 -> lang (RCat a b) (s1 ++ s2)
| LAltL a b s : lang a s -> lang (RAlt a b) s
| LAltR a b s : lang b s -> lang (RAlt a b) s
| LStar0 a : lang (RStar a) []
| LStarS a s1 s2 : lang a s1 -> lang (RStar a) s2 -> lang (RStar a) (s1 ++ s2)
| LPlus a s1 s2 : lang a s1 -> lang (RStar a) s2 -> lang (RPlus a) (s1 ++ s2)
| LOpt0 a : lang (ROpt a) []
| LOptS a s : lang a s -> lang (ROpt a) s
| LGroup a s : lang a s -> lang (RGroup a) s.

Fixpoint nullable (r : re) : bool :=
  match r with
  | RNull => false
  | REps => true
  | RSet _ => false
  | RCat a b => nullable a && nullable b
  | RAlt a b => nullable a || nullable b
  | RStar _ => true
  | RPlus a => nullable a
  | ROpt _ => true
  | RGroup a => nullable a
  end.

(* constructors that keep derivatives small *)
Definition mk_cat (a b : re) : re :=
  match a with
  | RNull => RNull
  | REps => b
  | _ => match b with RNull => RNull | REps => a | _ => RCat a b end
  end.

Definition mk_alt (a b : re) : re :=
  match a with
  | RNull => b
  | _ => match b with RNull => a | _ => RAlt a b end
  end.

Fixpoint deriv (c : N) (r : re) : re :=
  match r with
  | RNull => RNull
  | REps => RNull
  | RSet cs => if cs_mem cs c then REps else RNull
  | RCat a b =>
      if nullable a then mk_alt (mk_cat (deriv c a) b) (deriv c b)
      else mk_cat (deriv c a) b
  | RAlt a b => mk_alt (deriv c a) (deriv c b)
  | RStar a => mk_cat (deriv c a) (RStar a)
  | RPlus a => mk_cat (deriv c a) (RStar a)
  | ROpt a => deriv c a
  | RGroup a => deriv c a
  end.

Fixpoint full (r : re) (s : text) : bool :=
  match s with
  | [] => nullable r
  | c :: s' => full (deriv c r) s'
  end.

(* ---------- unanchored matching, needed to say what "^" ++ p ++ "$" means when p has an
   alternation at top level (the historical behaviour of regexCompare) ---------- *)

Definition r_all : re := RStar (RSet (CsSet true [])).      (* every text *)

Definition prefix_match (r : re) (s : text) : bool := full (RCat r r_all) s.
Definition suffix_match (r : re) (s : text) : bool := full (RCat r_all r) s.
Definition infix_match (r : re) (s : text) : bool := full (RCat r_all (RCat r r_all)) s.

(* the alternatives separated by "|" at the top level of the printed pattern: the printer
   brackets an alternation everywhere except at the root and directly under another one *)
Fixpoint top_alts (r : re) : list re :=
  match r with
  | RAlt a b => top_alts a ++ top_alts b
  | _ => [r]
  end.

(* Go's meaning of "^" ++ print r ++ "$" with MatchString (unanchored search):
   "^a1|a2|...|an$" = (^a1) | a2 | ... | (an$) *)
Fixpoint unanchored_middle (l : list re) (s : text) : bool :=
  match l with
  | [] => false
  | [z] => suffix_match z s
  | m :: l' => infix_match m s || unanchored_middle l' s
  end.

Definition hist_match (r : re) (s : text) : bool :=
  match top_alts r with
  | [] => false
  | [x] => full x s
  | a :: l => prefix_match a s || unanchored_middle l s
  end.
