(* Model/Results.v — property C05, first half: Workceptor.GetResults
   (pkg/workceptor/workceptor.go:480-609) as a reader automaton over an environment trace.

   The environment is the producer of the unit's output and of its status as the daemon sees it:

     ECreate              the stdout file comes into existence (commandRunner: OpenFile O_CREATE;
                          monitorRemoteStdout: OpenFile O_CREATE|O_APPEND)
     EAppend b            b is appended to stdout (the only way the file ever changes: the event
                          type has no overwrite and no truncation)
     ESetStatus st size   the unit's in-memory status (unit.Status(), what GetResults consults)
                          becomes (State = st, StdoutSize = size)
     EPoll n              the reader goroutine takes its next step; n is the number of bytes the
                          read system call is willing to return this time (65536 in the code,
                          but a short read is always possible; 0 counts as 1)

   One reader step is one of the atomic actions of the goroutine, in program order:

     RWait     os.Open(stdout): exists -> RRead startPos;  does not exist -> finished if the
               unit is done ("Unit completed without producing any stdout"), else try again
     RRead p   Seek(p); Read(buf): k > 0 bytes -> emit them, stay in RRead (p+k);
               0 bytes (io.EOF) -> REof p
     REof p    unitStatus := unit.Status(); if done(State) && p >= StdoutSize -> RDone (channel
               closed), else sleep and go back to RRead p
     RDone

   The environment may move between any two reader steps — in particular between the read that
   hit end-of-file and the status check that follows it, which is the reason for the
   [filePos >= StdoutSize] half of the finish condition.

   [done] is a parameter: [results_done] is the tree after "fix: work results of a cancelled unit
   end" (Succeeded, Failed or Canceled), [is_complete] is the pinned tree's IsComplete (Succeeded or
   Failed only), kept so that the historical defect stays a theorem (Proofs/Results.v:
   [results_pinned_refuted]).

   Outside the model: the two early exits of the goroutine that are not about the output — the
   client going away (ctx.Done) and the stdout file being removed for more than three seconds
   (statChan: the unit was released). *)
From Receptor Require Export Base.Hex.
Open Scope N_scope.

Definition ST_PENDING : N := 0.
Definition ST_RUNNING : N := 1.
Definition ST_SUCCEEDED : N := 2.
Definition ST_FAILED : N := 3.
Definition ST_CANCELED : N := 4.

(* workunitbase.go: IsComplete *)
Definition is_complete (s : N) : bool := (s =? ST_SUCCEEDED) || (s =? ST_FAILED).
(* workceptor.go (repaired): resultsFinished — no further recorded output will appear *)
Definition results_done (s : N) : bool := is_complete s || (s =? ST_CANCELED).

Inductive env_ev :=
| ECreate
| EAppend (b : bytes)
| ESetStatus (state size : N)
| EPoll (n : N).

Record world := mkWorld { w_file : option bytes; w_state : N; w_size : N }.

(* a freshly allocated unit: BaseWorkUnit.Init *)
Definition world0 : world := mkWorld None ST_PENDING 0.

Definition rlen (l : bytes) : N := N.of_nat (length l).

Definition w_output (w : world) : bytes := match w_file w with Some f => f | None => [] end.

Definition env_step (w : world) (e : env_ev) : world :=
  match e with
  | ECreate => match w_file w with
               | None => mkWorld (Some []) (w_state w) (w_size w)
               | Some _ => w
               end
  | EAppend b => mkWorld (Some (w_output w ++ b)) (w_state w) (w_size w)
  | ESetStatus st sz => mkWorld (w_file w) st sz
  | EPoll _ => w
  end.

Inductive rphase := RWait | RRead (pos : N) | REof (pos : N) | RDone.

Definition chunk (n : N) : N := if n =? 0 then 1 else n.

(* the bytes a read of at most n bytes at offset pos returns *)
Definition slice (f : bytes) (pos n : N) : bytes := firstn (N.to_nat n) (skipn (N.to_nat pos) f).

Definition reader_step (done : N -> bool) (start : N) (w : world) (ph : rphase) (n : N)
  : rphase * bytes :=
  match ph with
  | RWait =>
    match w_file w with
    | Some _ => (RRead start, [])
    | None => if done (w_state w) then (RDone, []) else (RWait, [])
    end
  | RRead pos =>
    match slice (w_output w) pos (chunk n) with
    | [] => (REof pos, [])
    | c => (RRead (pos + rlen c), c)
    end
  | REof pos =>
    if done (w_state w) && (w_size w <=? pos) then (RDone, []) else (RRead pos, [])
  | RDone => (RDone, [])
  end.

(* the whole system: environment events change the world, polls move the reader; the emitted
   chunks are collected in order *)
Fixpoint run_from (done : N -> bool) (start : N) (w : world) (ph : rphase) (tr : list env_ev)
  : list bytes * rphase * world :=
  match tr with
  | [] => ([], ph, w)
  | EPoll n :: r =>
    let '(ph', c) := reader_step done start w ph n in
    let '(cs, phf, wf) := run_from done start w ph' r in
    (match c with [] => cs | _ => c :: cs end, phf, wf)
  | e :: r => run_from done start (env_step w e) ph r
  end.

Definition is_done (ph : rphase) : bool := match ph with RDone => true | _ => false end.

Definition results_run_with (done : N -> bool) (start : N) (tr : list env_ev) : list bytes * bool :=
  let '(cs, ph, _) := run_from done start world0 RWait tr in (cs, is_done ph).

(* GetResults of the repaired tree / of the pinned tree *)
Definition results_run := results_run_with results_done.
Definition results_run_pinned := results_run_with is_complete.

(* the world after a trace (polls do not change it) *)
Definition world_after (tr : list env_ev) : world := fold_left env_step tr world0.
Definition output_of (tr : list env_ev) : bytes := w_output (world_after tr).

(* ---------- the producer's contract ----------
   (1) once a finishing status has been set, nothing is appended any more and the status stays
       a finishing one;
   (2) a finishing status carries the final size.
   commandRunner: the last UpdateBasicStatus(Succeeded|Failed, stdoutSize(unitdir)) follows
   cmd.Wait(); monitorRemoteStatus copies the remote record, whose size is the remote size, and
   monitorRemoteStdout appends only what the remote reader sends.  For a cancelled command the
   recorded size is the one of the runner's last tick and the dying command may still write: then
   only [results_covers_recorded] applies. *)
Fixpoint contract_from (fin : N -> bool) (w : world) (tr : list env_ev) : bool :=
  match tr with
  | [] => true
  | e :: r =>
    (match e with
     | EAppend _ => negb (fin (w_state w))
     | ESetStatus st sz =>
       if fin st then sz =? rlen (w_output w) else negb (fin (w_state w))
     | _ => true
     end) && contract_from fin (env_step w e) r
  end.

Definition contract (tr : list env_ev) : bool := contract_from results_done world0 tr.

Definition is_poll (e : env_ev) : bool := match e with EPoll _ => true | _ => false end.

(* ---------- the world of a MIRRORED unit on the submitting node ----------
   There the stdout file is the local copy that monitorRemoteStdout is filling and the status is
   the remote record as monitorRemoteStatus copied it.  The final record may arrive — it usually
   does: the copy is only started once a record with a size has arrived — while most of the
   output is still on its way, so neither half of [contract] holds.  What holds instead:
   (1) the copy exists before any finishing record that carries a size (the first action of
       monitorRemoteStdout is to create it);
   (2) a finishing record carries the size of the REMOTE output, the copy is a prefix of that
       (Proofs/Mirror.v mirror_prefix): it is never longer than the recorded size;
   (3) a finishing record stays as it is.
   [contract_m] says nothing about the copy ever becoming complete; that is mirror_converges. *)
Definition has_file (w : world) : bool := match w_file w with Some _ => true | None => false end.

Fixpoint contract_m_from (fin : N -> bool) (w : world) (tr : list env_ev) : bool :=
  match tr with
  | [] => true
  | e :: r =>
    (match e with
     | EAppend b => if fin (w_state w) then rlen (w_output w) + rlen b <=? w_size w else true
     | ESetStatus st sz =>
       if fin st
       then (rlen (w_output w) <=? sz) && (has_file w || (sz =? 0)) &&
            (if fin (w_state w) then sz =? w_size w else true)
       else negb (fin (w_state w))
     | _ => true
     end) && contract_m_from fin (env_step w e) r
  end.

Definition contract_m (tr : list env_ev) : bool := contract_m_from results_done world0 tr.

(* ---------- a reader that takes the size from the file instead of the record ----------
   The same goroutine with [filePos >= stdoutSize(unitdir)] as the second half of the finish
   condition: it sees, at the moment of the check, a record whose size is the current length of
   the file.  Kept only to be refuted (Proofs/Results.v results_filesize_refuted): on a local unit
   it behaves like the real one, on a mirrored unit it ends as soon as the record is final. *)
Definition filesize_view (w : world) : world := mkWorld (w_file w) (w_state w) (rlen (w_output w)).

Fixpoint run_from_filesize (done : N -> bool) (start : N) (w : world) (ph : rphase) (tr : list env_ev)
  : list bytes * rphase * world :=
  match tr with
  | [] => ([], ph, w)
  | EPoll n :: r =>
    let '(ph', c) := reader_step done start (filesize_view w) ph n in
    let '(cs, phf, wf) := run_from_filesize done start w ph' r in
    (match c with [] => cs | _ => c :: cs end, phf, wf)
  | e :: r => run_from_filesize done start (env_step w e) ph r
  end.

Definition results_run_filesize (start : N) (tr : list env_ev) : list bytes * bool :=
  let '(cs, ph, _) := run_from_filesize results_done start world0 RWait tr in (cs, is_done ph).

(* ---------- prefix test used by checks and statements ---------- *)
Fixpoint is_prefix (a b : bytes) : bool :=
  match a, b with
  | [], _ => true
  | x :: a', y :: b' => (x =? y) && is_prefix a' b'
  | _, _ => false
  end.

(* ---------- correspondence cases ----------
   The harness records what the producer did (from the status-rewrite log of the daemon and of the
   command runner, and the stdout file) as a trace of environment events WITHOUT polls, split at
   the moment the client asked for the results ([pre]: events that had certainly happened
   before; [post]: the rest), and what the client received: the bytes and whether the stream
   ended within the observation window (which extends several seconds past the unit's end).
   The model is run under the eager schedule — the reader polls to exhaustion after every
   environment event of [post]; by [results_exact] the outcome of a finished reader does not
   depend on the schedule. *)

(* deterministic patterned output, so that 64 KiB outputs need no literal:
   byte i = (7 i + i/251) mod 256, generated incrementally (no division per byte) *)
Definition pat_byte (i : N) : N := (7 * i + i / 251) mod 256.
Definition pat_next (st : N * N * N * bytes) : N * N * N * bytes :=
  let '(a, r, q, acc) := st in
  let b := if a + q <? 256 then a + q else a + q - 256 in
  let a' := if a + 7 <? 256 then a + 7 else a + 7 - 256 in
  if r =? 250 then (a', 0, (if q =? 255 then 0 else q + 1), b :: acc)
  else (a', r + 1, q, b :: acc).
Definition pat (off len : N) : bytes :=
  let '(_, _, _, acc) := N.iter len pat_next ((7 * off) mod 256, off mod 251, (off / 251) mod 256, []) in
  rev' acc.

(* the first 256 KiB of the pattern as a constant (vm_compute evaluates a constant once per run),
   and slices of it; what the case files use *)
Definition pat_table : bytes := pat 0 262144.
(* beyond the table: the pattern repeats every 251 * 256 = 64256 bytes (7 * 64256 is a multiple
   of 256 and (i + 64256) / 251 = i / 251 + 256), so any stretch of it is the rest of one period,
   whole periods and the beginning of one — megabytes of output cost a list copy instead of
   arithmetic per byte.  Proofs/Results.v pat_cyc_samples compares with [pat]; every case the
   harness writes has been compared with the real bytes before. *)
Definition pat_period : bytes := firstn (N.to_nat 64256) pat_table.
Fixpoint cyc_fill (k : nat) (tail : bytes) : bytes :=
  match k with O => tail | S k' => pat_period ++ cyc_fill k' tail end.
Definition pat_cyc (off len : N) : bytes :=
  let r := off mod 64256 in
  let head := skipn (N.to_nat r) pat_period in
  let hl := 64256 - r in
  if len <=? hl then firstn (N.to_nat len) head
  else head ++ cyc_fill (N.to_nat ((len - hl) / 64256)) (firstn (N.to_nat ((len - hl) mod 64256)) pat_period).
Definition patc (off len : N) : bytes :=
  if off + len <=? 262144 then firstn (N.to_nat len) (skipn (N.to_nat off) pat_table)
  else pat_cyc off len.

(* polls that certainly exhaust the reader after one more event, given that it was exhausted
   before: status check, one read per 64 KiB, the read that hits end-of-file, status check.
   A status that does not finish the unit changes nothing for an exhausted reader. *)
Definition polls_after (e : env_ev) : nat :=
  match e with
  | EAppend b => N.to_nat (rlen b / 65536) + 4
  | ESetStatus st _ => if results_done st then 3%nat else 0%nat
  | _ => 3
  end.

Fixpoint eager (tr : list env_ev) : list env_ev :=
  match tr with
  | [] => []
  | e :: r => e :: repeat (EPoll 65536) (polls_after e) ++ eager r
  end.

(* RMCase: the same for a session on a mirrored unit — the trace is the history of the local copy
   and of the local record on the submitting node, held against [contract_m] *)
Inductive results_case :=
| RCase (start : N) (pre post : list env_ev) (got : bytes) (ended : bool)
| RMCase (start : N) (pre post : list env_ev) (got : bytes) (ended : bool).

(* number of polls after an event that certainly exhausts the reader: wait->read, one read per
   64 KiB, eof, check *)
Definition polls_for (tr : list env_ev) : nat := N.to_nat (rlen (output_of tr) / 65536) + 4.

Definition results_check (c : results_case) : bool :=
  match c with
  | RCase start pre post got ended =>
    let k := polls_for (pre ++ post) in
    let tr := pre ++ repeat (EPoll 65536) k ++ eager post in
    let '(cs, fin) := results_run start tr in
    contract (pre ++ post) &&
    (if ended then fin && beq_bytes (concat cs) got
     else negb fin && is_prefix got (concat cs))
  | RMCase start pre post got ended =>
    (* what was there when the client asked is part of what it got: that many reads suffice *)
    let k := (N.to_nat (rlen got / 65536) + 4)%nat in
    let tr := pre ++ repeat (EPoll 65536) k ++ eager post in
    let '(cs, fin) := results_run start tr in
    contract_m (pre ++ post) &&
    (if ended then fin && beq_bytes (concat cs) got
     else negb fin && is_prefix got (concat cs))
  end.
