(* Model/RouteWorld.v — the clean phase of routing convergence (C01, layers 2 and 3).
   A mesh of nodes running Model/Flood.v's handle_update (the world of Model/FloodWorld.v, with
   deliveries in ANY order and no loss), a static symmetric topology, and periodic "ticks" in
   which a node floods its own true adjacency with a fresh update ID and a newer (epoch, seq).

   "Clean" = the topology is frozen and every routing update in flight carries its origin's
   true adjacency (updates created before the last topology change have been delivered or died
   with their session; how a dirty world becomes clean is a liveness fact outside this model).
   The statement proved in Proofs/RouteWorld.v: from any clean world, after EVERY interleaving of
   ticks and deliveries in which a node o has ticked, once nothing is in flight every node that
   can reach o holds exactly o's true adjacency. *)
From Receptor Require Export Model.Flood Model.FloodWorld.
Open Scope N_scope.

(* the real topology: node -> its connections with costs (sorted by neighbour) *)
Definition topo := node -> amap N.

Definition pair_of (u : upd) : N * N := (u_epoch u, u_seq u).

(* an update that tells the truth about its origin *)
Definition true_upd (tp : topo) (u : upd) : Prop :=
  u_origin u <> 0 /\ u_conns u = Some (tp (u_origin u)) /\ u_susp u = 0
  /\ conns_pos (u_conns u) = true.

Definition rnode_at (w : world) (i : node) : option nstate := nth_error (w_nodes w) (N.to_nat i).

(* static facts about the mesh *)
Record mesh_ok (tp : topo) (w : world) : Prop := {
  mo_self : forall i st, rnode_at w i = Some st -> ns_self st = i;
  mo_conns : forall i st, rnode_at w i = Some st -> forall c, In c (ns_conns st) <-> amem c (tp i) = true;
  mo_sym : forall a b, amem b (tp a) = true -> amem a (tp b) = true /\ exists st, rnode_at w b = Some st;
  mo_noself : forall a, amem a (tp a) = false
}.

(* a tick of node o: its true update u (fresh ID, newer than anything known about o) is put in
   flight towards every neighbour *)
Definition tick_msgs (o : node) (u : upd) (conns : list node) : list msg :=
  map (fun c => {| m_from := o; m_to := c; m_upd := u |}) conns.

Inductive rlabel := RDeliver (k : nat) | RTick (o : node) (u : upd).

Definition fresh_for (w : world) (o : node) (u : upd) : Prop :=
  u_origin u = o /\
  (forall i st, rnode_at w i = Some st -> mem_N (u_id u) (ns_seen st) = false) /\
  (forall m, In m (w_flight w) -> u_id (m_upd m) <> u_id u) /\
  (forall i st p, rnode_at w i = Some st -> aget o (ns_info st) = Some p -> lex_lt p (pair_of u) = true) /\
  (forall m, In m (w_flight w) -> u_origin (m_upd m) = o -> lex_lt (pair_of (m_upd m)) (pair_of u) = true) /\
  (forall st, rnode_at w o = Some st -> ns_epoch st = u_epoch u).

Inductive rstep (tp : topo) : world -> rlabel -> world -> Prop :=
| rs_deliver w k w' n : wstep w (Deliver k) = Some (w', n) -> rstep tp w (RDeliver k) w'
| rs_tick w o u st : rnode_at w o = Some st -> true_upd tp u -> fresh_for w o u ->
    rstep tp w (RTick o u)
      {| w_nodes := w_nodes w; w_flight := w_flight w ++ tick_msgs o u (ns_conns st) |}.

Inductive rrun (tp : topo) : world -> list rlabel -> world -> Prop :=
| rr_nil w : rrun tp w [] w
| rr_cons w l w1 ls w2 : rstep tp w l w1 -> rrun tp w1 ls w2 -> rrun tp w (l :: ls) w2.

Definition ticked (o : node) (ls : list rlabel) : Prop := exists u, In (RTick o u) ls.

(* reachability over the real topology *)
Inductive treach (tp : topo) (a : node) : node -> Prop :=
| tr_refl : treach tp a a
| tr_step x b : treach tp a x -> amem b (tp x) = true -> treach tp a b.
