(* Model/LockMem.v — the TWO copies of a unit's status record in the daemon: the stored file and the
   in-memory record of the long-lived BaseWorkUnit object (pkg/workceptor/workunitbase.go:
   bwu.status under bwu.statusLock), at the granularity that Model/Lock.v justifies: a critical
   section of the file lock is one event (Proofs/Lock.v linearizable).  A record is the list of the
   update ids applied to it, so "update u is not lost from a record" is [In u record].

   BaseWorkUnit.UpdateFullStatus / UpdateBasicStatus / Load hold statusLock (write mode) AROUND the
   file-lock section and leave what they read or wrote in bwu.status before releasing it: towards the
   other users of the object each of them is ONE event that also publishes (EUpd, ELoad).  A writer
   with an object of its own (the runner process) only changes the file (EExt).  A Load that reads
   the file into a scratch copy WITHOUT statusLock and assigns it afterwards (seeded change C14-H) is
   two events, ERead t and EPub t, with anything in between. *)
From Coq Require Import List Arith Bool.
Import ListNotations.

Inductive mev := EUpd (u : nat) | ELoad | EExt (u : nat) | ERead (t : nat) | EPub (t : nat).

Record mstate := mkM { m_file : list nat; m_mem : list nat; m_tmp : nat -> list nat }.

Definition mstep (s : mstate) (e : mev) : mstate :=
  match e with
  | EUpd u => mkM (m_file s ++ [u]) (m_file s ++ [u]) (m_tmp s)
  | ELoad => mkM (m_file s) (m_file s) (m_tmp s)
  | EExt u => mkM (m_file s ++ [u]) (m_mem s) (m_tmp s)
  | ERead t => mkM (m_file s) (m_mem s) (fun t' => if Nat.eqb t' t then m_file s else m_tmp s t')
  | EPub t => mkM (m_file s) (m_tmp s t) (m_tmp s)
  end.

Definition mrun (tr : list mev) (s : mstate) : mstate := fold_left mstep tr s.

Definition nested (e : mev) : bool := match e with ERead _ | EPub _ => false | _ => true end.

(* the unit object as it is created: in-memory record = stored record *)
Definition minit (r : list nat) : mstate := mkM r r (fun _ => r).

Definition is_prefix (a b : list nat) : Prop := exists x, b = a ++ x.

(* is the last event of the trace one that went through the object (anything but EExt)? *)
Definition last_through_object (tr : list mev) : bool :=
  match rev tr with EExt _ :: _ => false | [] => false | _ => true end.

(* the witness of the refutation: a split Load reads, an update of the same object runs to the end,
   the Load publishes *)
Definition split_witness : list mev := [ERead 0; EUpd 1; EPub 0].
