(* Model/Forward.v — what happens to one datagram in a mesh: pkg/netceptor/netceptor.go
     handleMessageData   local dispatch (reserved services ping/unreach, listener registry,
                         "service unknown") or forwardMessage
     forwardMessage      HopsToLive = 0: expire, tell the origin unless FromService = "unreach";
                         routing-table lookup (miss: error); connection lookup (miss: silent
                         drop); re-encode; decrement; write
     runProtocol         the next node decodes the packet (unknown name hash: logged, dropped)
     sendUnreachable     a fresh packet unreach -> unreach with the node's maximum hop budget
     ping.go             SendPing / CreateTraceroute on top of that.
   [route_walk] is structurally recursive on the hop budget: this is the termination argument of
   the real network.  Routing tables, connection sets, hash tables and listener sets are
   ARBITRARY functions (loops, phantom routes, routes over missing connections).
   The firewall stage of handleMessageData is property C12's; this model is the rule-free node
   (every packet accepted).  Concurrency: one datagram is a causal chain (every step is
   triggered by the previous one), so its trace is a list. *)
From Coq Require Import String.
From Receptor Require Export Model.Wire.
Open Scope N_scope.

Definition node := bytes.

Record world := {
  w_route : node -> node -> option node;   (* routingTable of a node: destination -> next hop *)
  w_conn : node -> node -> bool;           (* connections of a node (by peer ID), WriteChan non-nil *)
  w_knows : node -> node -> bool;          (* nameHashes of a node contains this name *)
  w_listen : node -> bytes -> bool;        (* listenerRegistry of a node has this service *)
  w_maxhops : nat                          (* maxForwardingHops: budget of notices and ping replies *)
}.

Definition svc_ping : bytes := str "ping"%string.
Definition svc_unreach : bytes := str "unreach"%string.

Definition P_EXPIRED : N := 1.      (* "message expired" *)
Definition P_UNKNOWN : N := 2.      (* "service unknown" *)

Inductive event :=
| EForward (at_ next : node) (m : msg)   (* at_ wrote m (hop byte already decremented) to connection next *)
| EDropped (at_ : node) (m : msg)        (* at_ received m but lacks a name hash: error logged, dropped *)
| EDeliver (at_ : node) (m : msg)        (* handed to the listener (m_tsvc m) of at_ *)
| EPing (at_ : node) (m : msg)           (* reserved service ping: handlePing *)
| EUnreach (at_ : node) (m : msg)        (* reserved service unreach: handleUnreachable publishes *)
| EUnknown (at_ : node) (m : msg)        (* no such listener: "service unknown" *)
| EExpired (at_ : node) (m : msg)        (* HopsToLive ran out at at_ *)
| ENoRoute (at_ : node) (m : msg)        (* "no route to node" *)
| ENoConn (at_ : node) (m : msg) (next : node).  (* no connection to the next hop: dropped silently *)

(* handleMessageData when ToNode is the node itself *)
Definition local_dispatch (w : world) (at_ : node) (m : msg) : event :=
  if beq_bytes (m_tsvc m) svc_ping then EPing at_ m
  else if beq_bytes (m_tsvc m) svc_unreach then EUnreach at_ m
  else if w_listen w at_ (m_tsvc m) then EDeliver at_ m
  else EUnknown at_ m.

(* handleMessageData at [at_] of a packet whose hop byte is [h], and everything it causes on
   other nodes, except the notices (see [walk]).  The hop field of [m] itself is ignored. *)
Fixpoint route_walk (w : world) (at_ : node) (m : msg) (h : nat) {struct h} : list event :=
  if beq_bytes (m_to m) at_ then [local_dispatch w at_ (set_hops m (N.of_nat h))]
  else match h with
       | O => [EExpired at_ (set_hops m 0)]
       | S h' =>
         match w_route w at_ (m_to m) with
         | None => [ENoRoute at_ (set_hops m (N.of_nat h))]
         | Some nx =>
           if w_conn w at_ nx then
             EForward at_ nx (set_hops m (N.of_nat h')) ::
               (if w_knows w nx (m_from m) && w_knows w nx (m_to m)
                then route_walk w nx m h'
                else [EDropped nx (set_hops m (N.of_nat h'))])
           else [ENoConn at_ (set_hops m (N.of_nat h)) nx]
         end
       end.

(* canonical stand-in for the JSON body of an UnreachableMessage (the harness projects the real
   body onto it): problem code and the four address fields of the offending packet *)
Definition lp (x : bytes) : bytes := blen x :: x.
Definition notice_data (p : N) (m : msg) : bytes :=
  p :: lp (m_from m) ++ lp (m_fsvc m) ++ lp (m_to m) ++ lp (m_tsvc m).

(* sendUnreachable(md.FromNode, ...) executed by node at_ *)
Definition mk_notice (w : world) (at_ : node) (p : N) (m : msg) : msg :=
  {| m_from := at_; m_fsvc := svc_unreach; m_to := m_from m; m_tsvc := svc_unreach;
     m_hops := N.of_nat (w_maxhops w); m_data := notice_data p m |}.

(* the notice an event makes its node send: (sending node, notice) *)
Definition notice_of (w : world) (e : event) : option (node * msg) :=
  match e with
  | EExpired at_ m =>
    if beq_bytes (m_fsvc m) svc_unreach then None else Some (at_, mk_notice w at_ P_EXPIRED m)
  | EUnknown at_ m =>
    if beq_bytes (m_from m) at_ then None   (* the error is returned to the local caller *)
    else Some (at_, mk_notice w at_ P_UNKNOWN m)
  | _ => None
  end.

Fixpoint notices (w : world) (t : list event) : list (node * msg) :=
  match t with
  | [] => []
  | e :: r => match notice_of w e with Some x => x :: notices w r | None => notices w r end
  end.

(* everything one handleMessageData call at [at_] causes in the mesh *)
Definition walk (w : world) (at_ : node) (m : msg) (h : nat) : list event :=
  let t := route_walk w at_ m h in
  t ++ flat_map (fun x => route_walk w (fst x) (snd x) (w_maxhops w)) (notices w t).

(* SendMessageWithHopsToLive on node src *)
Definition origin_msg (src fsvc to tsvc data : bytes) (h : nat) : msg :=
  {| m_from := src; m_fsvc := fsvc; m_to := canon src to; m_tsvc := tsvc;
     m_hops := N.of_nat h; m_data := data |}.

Definition send (w : world) (src fsvc to tsvc data : bytes) (h : nat) : list event :=
  walk w src (origin_msg src fsvc to tsvc data h) h.

(* ---------- observations on a trace ---------- *)

Definition is_forward (e : event) : bool := match e with EForward _ _ _ => true | _ => false end.
Definition is_deliver (e : event) : bool := match e with EDeliver _ _ => true | _ => false end.
Definition count_forward (t : list event) : nat := length (filter is_forward t).
Definition count_deliver (t : list event) : nat := length (filter is_deliver t).
Definition is_notice (m : msg) : bool :=
  beq_bytes (m_fsvc m) svc_unreach && beq_bytes (m_tsvc m) svc_unreach.

(* error returned by SendMessageWithHopsToLive to the caller: only failures at the origin
   itself are returned, later ones are logged by the node where they happen.  Since /repo commit
   75da92d a next hop without a (live) connection is NOT an error any more: the message is
   dropped silently, also at the origin (code 2, "no connection to next hop", is retired) *)
Definition SE_NONE : N := 0.
Definition SE_NOROUTE : N := 1.
Definition SE_UNKNOWN : N := 3.
Definition send_error (src : node) (t : list event) : N :=
  match t with
  | ENoRoute a _ :: _ => if beq_bytes a src then SE_NOROUTE else SE_NONE
  | EUnknown a m :: _ => if beq_bytes a src && beq_bytes (m_from m) src then SE_UNKNOWN else SE_NONE
  | _ => SE_NONE
  end.

(* SendMessageWithHopsToLive as the caller sees it: service names longer than the 8-byte field
   are refused before anything happens (error class 4, no event at all); otherwise everything the
   datagram causes and the error class of a failure at the origin *)
Definition SE_TOOLONG : N := 4.
Definition send_api (w : world) (src fsvc to tsvc data : bytes) (h : nat) : list event * N :=
  if send_refused fsvc tsvc then ([], SE_TOOLONG)
  else let t := send w src fsvc to tsvc data h in (t, send_error src t).

(* ---------- next-hop chains (the "current route" of the property) ---------- *)

(* ns = n0 :: n1 :: ... :: nd with nd = dst the first occurrence of dst, each link being the
   table entry of its tail node, connected, and its head knowing both names of the packet *)
Fixpoint chain_ok (w : world) (m : msg) (ns : list node) : bool :=
  match ns with
  | [] => false
  | n :: r =>
    match r with
    | [] => beq_bytes (m_to m) n
    | n' :: _ =>
      negb (beq_bytes (m_to m) n) &&
      match w_route w n (m_to m) with Some x => beq_bytes x n' | None => false end &&
      w_conn w n n' && w_knows w n' (m_from m) && w_knows w n' (m_to m) && chain_ok w m r
    end
  end.

(* the trace along a chain with budget h *)
Fixpoint chain_trace (w : world) (m : msg) (ns : list node) (h : nat) : list event :=
  match ns with
  | [] => []
  | n :: r =>
    match r with
    | [] => [local_dispatch w n (set_hops m (N.of_nat h))]
    | n' :: _ =>
      match h with
      | O => [EExpired n (set_hops m 0)]
      | S h' => EForward n n' (set_hops m (N.of_nat h')) :: chain_trace w m r h'
      end
    end
  end.

(* ---------- ping and traceroute (ping.go) ---------- *)

Inductive ping_res :=
| PReply (from : node)                 (* err = nil: the reply's source node *)
| PErr (from : node) (problem : N)     (* unreachable notification: ReceivedFromNode, Problem *)
| PSendErr (code : N)                  (* WriteTo failed: (own node ID, error) *)
| PTimeout.                            (* nothing came back *)

Fixpoint find_ping (t : list event) : option (node * msg) :=
  match t with
  | [] => None
  | EPing a m :: _ => Some (a, m)
  | _ :: r => find_ping r
  end.

Fixpoint prefixb (p l : bytes) : bool :=
  match p with
  | [] => true
  | x :: p' => match l with [] => false | y :: l' => (x =? y) && prefixb p' l' end
  end.

(* the notice that reaches the pinging socket: handleUnreachable at src publishes every notice;
   the PacketConn keeps those whose body names its own node and service as the origin *)
Fixpoint find_notice (src eph : bytes) (t : list event) : option (node * N) :=
  match t with
  | [] => None
  | EUnreach a m :: r =>
    if beq_bytes a src then
      match m_data m with
      | p :: body => if prefixb (lp src ++ lp eph) body then Some (m_from m, p)
                     else find_notice src eph r
      | [] => find_notice src eph r
      end
    else find_notice src eph r
  | _ :: r => find_notice src eph r
  end.

Definition has_deliver_at (n : node) (svc : bytes) (t : list event) : bool :=
  existsb (fun e => match e with
                    | EDeliver a m => beq_bytes a n && beq_bytes (m_tsvc m) svc
                    | _ => false end) t.

(* the world seen by a ping: its own ephemeral listener exists on src *)
Definition with_listener (w : world) (n : node) (svc : bytes) : world :=
  {| w_route := w_route w; w_conn := w_conn w; w_knows := w_knows w;
     w_listen := fun a s => w_listen w a s || (beq_bytes a n && beq_bytes s svc);
     w_maxhops := w_maxhops w |}.

(* SendPing(target, hopsToLive) on node src with ephemeral service eph *)
Definition ping (w0 : world) (src target eph : bytes) (h : nat) : ping_res :=
  let w := with_listener w0 src eph in
  let t := send w src eph target svc_ping [] h in
  if negb (send_error src t =? SE_NONE) then PSendErr (send_error src t)
  else match find_ping t with
       | Some (d, pm) =>
         (* handlePing: a ping that claims to come from the ping service is not answered;
            otherwise sendMessage("ping", md.FromNode, md.FromService, []) *)
         if beq_bytes (m_fsvc pm) svc_ping then PTimeout else
         let rt := send w d svc_ping (m_from pm) (m_fsvc pm) [] (w_maxhops w) in
         if has_deliver_at src eph rt then PReply d else PTimeout
       | None =>
         match find_notice src eph t with
         | Some (from, p) => PErr from p
         | None => PTimeout
         end
       end.

(* CreateTraceroute: budgets i, i+1, ... maxhops; continue only after "message expired" *)
Fixpoint traceroute_from (w : world) (src target eph : bytes) (i n : nat) : list ping_res :=
  match n with
  | O => []
  | S n' =>
    let r := ping w src target eph i in
    match r with
    | PErr _ p => if p =? P_EXPIRED then r :: traceroute_from w src target eph (S i) n' else [r]
    | _ => [r]
    end
  end.

Definition traceroute (w : world) (src target eph : bytes) : list ping_res :=
  traceroute_from w src target eph 0 (S (w_maxhops w)).

(* ---------- worlds from association lists; correspondence cases ---------- *)

Fixpoint bassoc {A} (k : bytes) (l : list (bytes * A)) : option A :=
  match l with
  | [] => None
  | (x, v) :: r => if beq_bytes x k then Some v else bassoc k r
  end.

Definition bmem (k : bytes) (l : list bytes) : bool := existsb (beq_bytes k) l.

Record world_desc := {
  d_routes : list (bytes * list (bytes * bytes));   (* node -> (destination -> next hop) *)
  d_conns : list (bytes * list bytes);
  d_knows : list (bytes * list bytes);
  d_listen : list (bytes * list bytes);
  d_maxhops : N
}.

Definition world_of (d : world_desc) : world :=
  {| w_route := fun n dst => match bassoc n (d_routes d) with Some t => bassoc dst t | None => None end;
     w_conn := fun n x => match bassoc n (d_conns d) with Some l => bmem x l | None => false end;
     w_knows := fun n x => match bassoc n (d_knows d) with Some l => bmem x l | None => false end;
     w_listen := fun n s => match bassoc n (d_listen d) with Some l => bmem s l | None => false end;
     w_maxhops := N.to_nat (d_maxhops d) |}.

(* projections of a trace onto what the harness can see *)
Definition forwards (t : list event) : list (bytes * bytes * msg) :=
  flat_map (fun e => match e with EForward a n m => [(a, n, m)] | _ => [] end) t.
(* what a listener reads: ReadFrom exposes payload and source address, not the hop byte *)
Definition deliveries (t : list event) : list (bytes * msg) :=
  flat_map (fun e => match e with EDeliver a m => [(a, set_hops m 0)] | _ => [] end) t.
(* notifications published by handleUnreachable: (node, ReceivedFromNode, canonical body) *)
Definition notifications (t : list event) : list (bytes * bytes * bytes) :=
  flat_map (fun e => match e with EUnreach a m => [(a, m_from m, m_data m)] | _ => [] end) t.

Fixpoint list_eqb {A} (eq : A -> A -> bool) (a b : list A) : bool :=
  match a, b with
  | [], [] => true
  | x :: a', y :: b' => eq x y && list_eqb eq a' b'
  | _, _ => false
  end.

Definition fwd_eqb (a b : bytes * bytes * msg) : bool :=
  let '(a1, a2, am) := a in let '(b1, b2, bm) := b in
  beq_bytes a1 b1 && beq_bytes a2 b2 && msg_eqb am bm.
Definition dlv_eqb (a b : bytes * msg) : bool :=
  beq_bytes (fst a) (fst b) && msg_eqb (snd a) (snd b).
Definition ntf_eqb (a b : bytes * bytes * bytes) : bool :=
  let '(a1, a2, a3) := a in let '(b1, b2, b3) := b in
  beq_bytes a1 b1 && beq_bytes a2 b2 && beq_bytes a3 b3.

Definition ping_eqb (a b : ping_res) : bool :=
  match a, b with
  | PReply x, PReply y => beq_bytes x y
  | PErr x p, PErr y q => beq_bytes x y && (p =? q)
  | PSendErr x, PSendErr y => x =? y
  | PTimeout, PTimeout => true
  | _, _ => false
  end.

(* one probe of a real mesh and what was observed *)
Inductive probe :=
(* one SendMessageWithHopsToLive on node src: packets seen on the links in order (sender,
   receiver, decoded packet; notice bodies projected), the call's error class, what the
   listeners read, what the unreachable brokers published *)
| PSend (src fsvc to tsvc data : bytes) (h : N)
        (taps : list (bytes * bytes * msg)) (err : N)
        (dlv : list (bytes * msg)) (ntf : list (bytes * bytes * bytes))
| PPing (src target eph : bytes) (h : N) (res : ping_res)
| PTrace (src target eph : bytes) (res : list ping_res).

Definition probe_check (w : world) (p : probe) : bool :=
  match p with
  | PSend src fsvc to tsvc data h taps err dlv ntf =>
    let '(t, e) := send_api w src fsvc to tsvc data (N.to_nat h) in
    list_eqb fwd_eqb (forwards t) taps && (e =? err) &&
    list_eqb dlv_eqb (deliveries t) dlv && list_eqb ntf_eqb (notifications t) ntf
  | PPing src target eph h res => ping_eqb (ping w src target eph (N.to_nat h)) res
  | PTrace src target eph res => list_eqb ping_eqb (traceroute w src target eph) res
  end.

(* probes made while the nodes' tables, connections, name tables and listeners were as read *)
Inductive fwd_case := CGroup (d : world_desc) (ps : list probe).

Definition fwd_check (c : fwd_case) : bool :=
  match c with CGroup d ps => forallb (probe_check (world_of d)) ps end.
