(* Model/Writer.v — property C05: the in-process producer of a unit's output.

   Work types whose output does not come from a child process (Kubernetes pods, and every embedder
   of pkg/workceptor that streams into a unit) write through STDoutWriter
   (pkg/workceptor/stdio_utils.go:67-111):

       wn, werr := sw.writer.Write(p)          // the stdout file (O_SYNC), may accept less than p
       if wn > 0 { sw.bytesWritten += wn; serr = saveStdoutSize(unitdir, sw.bytesWritten) }
       if werr != nil { return wn, werr }
       return wn, serr

   and finish with UpdateBasicStatus(state, detail, stdout.Size()).  This file models that producer
   and the trace of environment events (Model/Results.v) it generates, so that the producer's
   contract — the hypothesis of C05_results_exact — becomes a theorem for these work types
   (Proofs/Writer.v) instead of an assumption.

   The file under the writer is an oracle: each write comes with the number of bytes the file
   accepts this time ([accept], clamped to |p|: io.Writer promises 0 <= n <= len(p)), whether it
   reports an error, and whether the status file could be rewritten.  All three are arbitrary —
   short writes (full disk, signal), errors with and without progress, a failing status save.

   [count_asked] is the writer that adds len(p) instead of wn (the seeded change C05-G); it is
   kept only to be refuted. *)
From Receptor Require Export Model.Results.
Open Scope N_scope.

Record wstate := mkW {
  ws_file : bytes;      (* contents of the stdout file *)
  ws_written : N;       (* sw.bytesWritten = what Size() returns *)
  ws_recorded : N;      (* StdoutSize in the status record *)
  ws_state : N          (* State in the status record *)
}.

(* NewStdoutWriter has created the file; BaseWorkUnit.Init wrote (Pending, 0) *)
Definition wstate0 : wstate := mkW [] 0 0 ST_PENDING.

Inductive wop :=
| WWrite (p : bytes) (accept : N) (werr save_ok : bool)
| WStatus (st : N).       (* UpdateBasicStatus(st, detail, stdout.Size()) *)

Definition accepted (p : bytes) (accept : N) : N := N.min accept (rlen p).

(* one Write: new state, returned count, whether an error is returned *)
Definition w_write (count_asked : bool) (s : wstate) (p : bytes) (accept : N) (werr save_ok : bool)
  : wstate * (N * bool) :=
  let wn := accepted p accept in
  let file' := ws_file s ++ firstn (N.to_nat wn) p in
  if 0 <? wn then
    let bw := ws_written s + (if count_asked then rlen p else wn) in
    (mkW file' bw (if save_ok then bw else ws_recorded s) (ws_state s), (wn, werr || negb save_ok))
  else (mkW file' (ws_written s) (ws_recorded s) (ws_state s), (wn, werr)).

Definition w_step_with (count_asked : bool) (s : wstate) (o : wop) : wstate :=
  match o with
  | WWrite p a e sv => fst (w_write count_asked s p a e sv)
  | WStatus st => mkW (ws_file s) (ws_written s) (ws_written s) st
  end.

Definition w_step := w_step_with false.
Definition wrun (ops : list wop) : wstate := fold_left w_step ops wstate0.

(* the environment events of one operation, as GetResults' world sees them *)
Definition w_events_with (count_asked : bool) (s : wstate) (o : wop) : list env_ev :=
  match o with
  | WWrite p a e sv =>
    let wn := accepted p a in
    if 0 <? wn then
      EAppend (firstn (N.to_nat wn) p) ::
      (if sv then [ESetStatus (ws_state s) (ws_recorded (w_step_with count_asked s o))] else [])
    else []
  | WStatus st => [ESetStatus st (ws_written s)]
  end.

Fixpoint wtrace_from (count_asked : bool) (s : wstate) (ops : list wop) : list env_ev :=
  match ops with
  | [] => []
  | o :: r => w_events_with count_asked s o ++ wtrace_from count_asked (w_step_with count_asked s o) r
  end.

(* the whole producer: the file is created, then the operations *)
Definition wtrace (ops : list wop) : list env_ev := ECreate :: wtrace_from false wstate0 ops.
Definition wtrace_asked (ops : list wop) : list env_ev := ECreate :: wtrace_from true wstate0 ops.

(* the discipline of the callers (kubernetes.go runWorkUsingLogger / runWorkUsingTCP, and the
   python work type): once a finishing status has been recorded, the writer is not used again and
   the status is not changed again *)
Fixpoint disciplined_from (finished : bool) (ops : list wop) : bool :=
  match ops with
  | [] => true
  | WWrite _ _ _ _ :: r => negb finished && disciplined_from finished r
  | WStatus st :: r => negb finished && disciplined_from (results_done st) r
  end.
Definition disciplined (ops : list wop) : bool := disciplined_from false ops.

(* ---------- the command runner as a producer (pkg/workceptor/command.go:97-210) ----------
   The child process writes into the stdout file itself (O_CREATE|O_WRONLY|O_SYNC, handed over as
   cmd.Stdout); the runner records (Running, stdoutSize(unitdir)) every 250 ms — a save may fail —
   and, after cmd.Wait() has returned, one finishing status with stdoutSize(unitdir) as it is then.

     RAppend b     the child appends b
     RTick ok      UpdateBasicStatus(Running, "Running: PID …", size of the file now)
     RExit st      the child has exited and been waited for; UpdateBasicStatus(st, …, size now)

   The discipline here is the operating system's: a process that has been waited for writes
   nothing more (a grandchild that inherited the descriptor could; the scripted producers of the
   harness have none, and every observed history is held against [contract]). *)
Inductive rop := RAppend (b : bytes) | RTick (ok : bool) | RExit (st : N).

Record rstate := mkR { rs_file : bytes; rs_state : N }.
Definition rstate0 : rstate := mkR [] ST_PENDING.

Definition r_step (s : rstate) (o : rop) : rstate :=
  match o with
  | RAppend b => mkR (rs_file s ++ b) (rs_state s)
  | RTick ok => if ok then mkR (rs_file s) ST_RUNNING else s
  | RExit st => mkR (rs_file s) st
  end.

Definition r_events (s : rstate) (o : rop) : list env_ev :=
  match o with
  | RAppend b => [EAppend b]
  | RTick ok => if ok then [ESetStatus ST_RUNNING (rlen (rs_file s))] else []
  | RExit st => [ESetStatus st (rlen (rs_file s))]
  end.

Fixpoint rtrace_from (s : rstate) (ops : list rop) : list env_ev :=
  match ops with
  | [] => []
  | o :: r => r_events s o ++ rtrace_from (r_step s o) r
  end.

Definition rtrace (ops : list rop) : list env_ev := ECreate :: rtrace_from rstate0 ops.
Definition rrun (ops : list rop) : rstate := fold_left r_step ops rstate0.

(* the exit is the last thing that happens, and what it records is a finishing state *)
Fixpoint exits_last (ops : list rop) : bool :=
  match ops with
  | [] => true
  | RExit st :: r => results_done st && match r with [] => true | _ => false end
  | _ :: r => exits_last r
  end.

(* ---------- correspondence cases ----------
   The harness drives the real STDoutWriter (SetWriter with a scripted file) and the real status
   file through a history of operations and records after each one: the returned count, whether an
   error was returned, Size(), the StdoutSize and State found in the status file; and at the end
   the bytes that reached the file. *)
Record wobs := mkObs { o_n : N; o_err : bool; o_size : N; o_recorded : N; o_state : N }.

Definition obs_of (s : wstate) (ret : N * bool) : wobs :=
  mkObs (fst ret) (snd ret) (ws_written s) (ws_recorded s) (ws_state s).

Fixpoint wobs_run (s : wstate) (ops : list wop) : list wobs * wstate :=
  match ops with
  | [] => ([], s)
  | o :: r =>
    let '(s', ret) := match o with
                      | WWrite p a e sv => w_write false s p a e sv
                      | WStatus st => (w_step s o, (0, false))
                      end in
    let '(obs, sf) := wobs_run s' r in (obs_of s' ret :: obs, sf)
  end.

Definition beq_obs (a b : wobs) : bool :=
  (o_n a =? o_n b) && Bool.eqb (o_err a) (o_err b) && (o_size a =? o_size b) &&
  (o_recorded a =? o_recorded b) && (o_state a =? o_state b).

Fixpoint beq_obs_list (a b : list wobs) : bool :=
  match a, b with
  | [], [] => true
  | x :: a', y :: b' => beq_obs x y && beq_obs_list a' b'
  | _, _ => false
  end.

Inductive writer_case := WCase (ops : list wop) (obs : list wobs) (file : bytes).

Definition writer_check (c : writer_case) : bool :=
  match c with
  | WCase ops obs file =>
    let '(mobs, sf) := wobs_run wstate0 ops in
    beq_obs_list mobs obs && beq_bytes (ws_file sf) file
  end.
