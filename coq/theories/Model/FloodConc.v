(* Model/FloodConc.v — the duplicate filter of handleRoutingUpdate under concurrency.
   Every session runs handleRoutingUpdate in its own goroutine (runProtocol), so the same update
   arriving on two links is handled by two threads at once.  The filter

       s.seenUpdatesLock.Lock(); _, ok := s.seenUpdates[id]; if ok {unlock; return}
       s.seenUpdates[id] = now; s.seenUpdatesLock.Unlock()

   is one atomic test-and-set ([step_atomic]).  The variant that looks the ID up under a read lock and
   inserts it under a separate write lock is [step_split]: two steps per thread, any interleaving.
   A thread that passes the filter goes on to process and relay the update (Model/Flood.v). *)
From Receptor Require Export Base.AMap.
Open Scope N_scope.

Inductive pc := Start | Checked (pass : bool) | Done (pass : bool).

Definition thread := (N * pc)%type.          (* the update ID the thread delivers, and where it is *)

Definition step_atomic (seen : list N) (t : thread) : list N * thread :=
  match snd t with
  | Start => if mem_N (fst t) seen then (seen, (fst t, Done false))
             else (sadd (fst t) seen, (fst t, Done true))
  | _ => (seen, t)
  end.

Definition step_split (seen : list N) (t : thread) : list N * thread :=
  match snd t with
  | Start => (seen, (fst t, Checked (negb (mem_N (fst t) seen))))
  | Checked b => ((if b then sadd (fst t) seen else seen), (fst t, Done b))
  | Done _ => (seen, t)
  end.

(* let thread number k take one step *)
Fixpoint step_at (step : list N -> thread -> list N * thread) (k : nat) (seen : list N) (ts : list thread) {struct ts}
  : list N * list thread :=
  match ts with
  | [] => (seen, [])
  | t :: r => match k with
              | O => let '(s', t') := step seen t in (s', t' :: r)
              | S k' => let '(s', r') := step_at step k' seen r in (s', t :: r')
              end
  end.

Fixpoint run_sched (step : list N -> thread -> list N * thread) (seen : list N) (ts : list thread)
         (sched : list nat) : list N * list thread :=
  match sched with
  | [] => (seen, ts)
  | k :: sched' => let '(s', ts') := step_at step k seen ts in run_sched step s' ts' sched'
  end.

Definition passed (x : N) (t : thread) : bool :=
  (fst t =? x) && match snd t with Done true => true | _ => false end.

(* how many threads got update x through the filter *)
Definition passes (x : N) (ts : list thread) : nat := length (filter (passed x) ts).

Definition fresh_threads (ids : list N) : list thread := map (fun i => (i, Start)) ids.

Definition all_done (ts : list thread) : bool :=
  forallb (fun t => match snd t with Done _ => true | _ => false end) ts.

(* correspondence case: [n] threads delivered update [id] at the same moment to a real node that had
   (seen = true) or had not seen it; [processed] of them got through (observed as the number of times the
   update was relayed to a connection none of them came from) *)
Record conc_case := { cc_threads : nat; cc_seen : bool; cc_processed : nat }.
Definition conc_check (c : conc_case) : bool :=
  Nat.eqb (cc_processed c) (if cc_seen c then 0 else Nat.min 1 (cc_threads c)).
