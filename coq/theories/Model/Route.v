(* Model/Route.v — pkg/netceptor/netceptor.go updateRoutingTable (lines 828-882): a
   label-correcting shortest-path computation over knownConnectionCosts with an ARBITRARY pop
   order (the jupp0r priority queue ignores re-insertion of queued items, so every node except
   self sits at priority MaxFloat64 and ties are broken by heap position), followed by the walk
   along the prev-chain that yields the next hop.

   Three parts:
   1. the specification, independent of any algorithm: weights of walks in the known graph;
   2. [route_check]: an executable checker of a (cost map, routing table) pair against the graph
      (a certificate check: tight predecessors, no violated edge, next hops on tight paths) —
      proved sound w.r.t. (1) in Proofs/Route.v and run by `./check C01` on the REAL node's
      output for every generated graph;
   3. [relax]: the algorithm as a nondeterministic transition relation (pop any queued node),
      proved in Proofs/RouteAlg.v to end only in states that pass the checker's conditions.
   Nodes are numbers, costs are positive numbers (the harness uses integer costs). *)
From Receptor Require Export Base.AMap.
Open Scope N_scope.

Definition node := N.
Definition graph := amap (amap N).          (* origin -> neighbour -> cost *)

Definition is_key (g : graph) (v : node) : bool := amem v g.

(* an edge that the Go loop can use: u is a key, v is listed by u, and v is itself a key
   (cost[v] of a non-key is the zero value 0, which no positive path cost undercuts) *)
Definition edge (g : graph) (u v : node) : option N :=
  match aget u g with
  | Some adj => if is_key g v then aget v adj else None
  | None => None
  end.

(* ---------- 1. specification ---------- *)
Inductive walk (g : graph) (s : node) : node -> N -> Prop :=
| walk_nil : walk g s s 0
| walk_snoc u v c w : walk g s u c -> edge g u v = Some w -> walk g s v (c + w).

Definition is_dist (g : graph) (s v : node) (c : N) : Prop :=
  walk g s v c /\ forall c', walk g s v c' -> c <= c'.
Definition unreachable (g : graph) (s v : node) : Prop := forall c, ~ walk g s v c.

Definition positive (g : graph) : Prop := forall u v w, edge g u v = Some w -> 0 < w.

Fixpoint all_pos_adj (adj : amap N) : bool :=
  match adj with [] => true | (_, w) :: r => (0 <? w) && all_pos_adj r end.
Fixpoint all_pos (g : graph) : bool :=
  match g with [] => true | (_, adj) :: r => all_pos_adj adj && all_pos r end.

(* ---------- 2. the certificate checker ---------- *)
Definition costs := amap (option N).        (* routingPathCosts: None = MaxFloat64 (not reached) *)
Definition table := amap node.              (* routingTable: destination -> next hop *)

Definition cost_of (cs : costs) (v : node) : option N :=
  match aget v cs with Some (Some c) => Some c | _ => None end.

(* some listed predecessor p of v with cost p + w(p,v) = c *)
Fixpoint has_tight_pred (g0 g : graph) (cs : costs) (v : node) (c : N) : bool :=
  match g with
  | [] => false
  | (p, _) :: r =>
    (match edge g0 p v, cost_of cs p with
     | Some w, Some cp => cp + w =? c
     | _, _ => false
     end) || has_tight_pred g0 r cs v c
  end.

(* every out-edge of u is satisfied: the neighbour has a cost, not above cost u + w *)
Fixpoint edges_ok (g0 : graph) (cs : costs) (u : node) (cu : N) (adj : amap N) : bool :=
  match adj with
  | [] => true
  | (v, w) :: r =>
    (if is_key g0 v
     then match cost_of cs v with Some cv => cv <=? cu + w | None => false end
     else true) && edges_ok g0 cs u cu r
  end.

Definition costs_ok (g : graph) (self : node) (cs : costs) : bool :=
  (* the cost map has exactly the keys of the graph *)
  forallb (fun p => amem (fst p) cs) g && forallb (fun p => is_key g (fst p)) cs
  && forallb (fun p =>
       let v := fst p in
       match cost_of cs v with
       | Some c =>
         (if v =? self then c =? 0 else has_tight_pred g g cs v c)
         && edges_ok g cs v c (snd p)
       | None => negb (v =? self)
       end) g.

(* nodes reachable from the set [from] along tight edges (cost y = cost x + w), [fuel] rounds *)
Definition tight_succs (g : graph) (cs : costs) (x : node) : list node :=
  match aget x g, cost_of cs x with
  | Some adj, Some cx =>
    flat_map (fun p => match cost_of cs (fst p) with
                       | Some cy => if is_key g (fst p) && (cx + snd p =? cy) then [fst p] else []
                       | None => []
                       end) adj
  | _, _ => []
  end.

Fixpoint tight_reach (fuel : nat) (g : graph) (cs : costs) (from : list node) (d : node) : bool :=
  mem_N d from ||
  match fuel with
  | O => false
  | S f => tight_reach f g cs
             (fold_left (fun acc y => sadd y acc) (flat_map (tight_succs g cs) from) from) d
  end.

Definition hop_ok (g : graph) (self : node) (cs : costs) (d h : node) : bool :=
  match edge g self h, cost_of cs h with
  | Some w, Some ch => (ch =? w) && tight_reach (length g) g cs [h] d
  | _, _ => false
  end.

Definition table_ok (g : graph) (self : node) (cs : costs) (t : table) : bool :=
  (* exactly the reached keys other than self have an entry, each a certified next hop *)
  forallb (fun p =>
     let d := fst p in
     match cost_of cs d, aget d t with
     | Some _, Some h => negb (d =? self) && hop_ok g self cs d h
     | Some _, None => d =? self
     | None, Some _ => false
     | None, None => true
     end) g
  && forallb (fun p => is_key g (fst p)) t.

Definition route_check (g : graph) (self : node) (cs : costs) (t : table) : bool :=
  costs_ok g self cs && table_ok g self cs t.

(* ---------- 3. the algorithm ---------- *)
Record rstate := { r_cost : costs; r_prev : amap node; r_queue : list node }.

(* initial state: self queued first, then every key; self at 0, the rest unreached *)
Definition r_init (g : graph) (self : node) : rstate :=
  {| r_cost := map (fun p => (fst p, if fst p =? self then Some 0 else None)) g;
     r_prev := [];
     r_queue := self :: map fst g |}.

(* relaxing the out-edges of u (whose current cost is cu), in the order of the adjacency *)
Fixpoint relax_edges (g0 : graph) (u : node) (cu : N) (adj : amap N) (st : rstate) : rstate :=
  match adj with
  | [] => st
  | (v, w) :: r =>
    let st' :=
      if is_key g0 v then
        let better := match cost_of (r_cost st) v with Some cv => cu + w <? cv | None => true end in
        if better
        then {| r_cost := aset v (Some (cu + w)) (r_cost st);
                r_prev := aset v u (r_prev st);
                r_queue := if mem_N v (r_queue st) then r_queue st else r_queue st ++ [v] |}
        else st
      else st in
    relax_edges g0 u cu r st'
  end.

(* pop ANY queued node u: remove it from the queue (every copy) and relax its out-edges *)
Definition pop (g : graph) (u : node) (st : rstate) : rstate :=
  let st0 := {| r_cost := r_cost st; r_prev := r_prev st;
                r_queue := filter (fun x => negb (x =? u)) (r_queue st) |} in
  match aget u g, cost_of (r_cost st) u with
  | Some adj, Some cu => relax_edges g u cu adj st0
  | _, _ => st0
  end.

Inductive relax (g : graph) : rstate -> rstate -> Prop :=
| relax_pop st u : In u (r_queue st) -> relax g st (pop g u st).

Inductive relax_star (g : graph) : rstate -> rstate -> Prop :=
| rs_refl st : relax_star g st st
| rs_step a b c : relax g a b -> relax_star g b c -> relax_star g a c.

(* an executable instance: always pop the head of the queue; fuel bounds the number of pops *)
Fixpoint run_head (fuel : nat) (g : graph) (st : rstate) : option rstate :=
  match r_queue st with
  | [] => Some st
  | u :: _ => match fuel with
              | O => None
              | S f => run_head f g (pop g u st)
              end
  end.

(* the walk along the prev-chain: next hop of dest, [fuel] bounds the chain length *)
Fixpoint hop_of (fuel : nat) (self : node) (prev : amap node) (p : node) : option node :=
  match aget p prev with
  | None => None
  | Some q => if q =? self then Some p
              else match fuel with O => None | S f => hop_of f self prev q end
  end.

Definition table_of (g : graph) (self : node) (st : rstate) : table :=
  flat_map (fun p => match hop_of (length g) self (r_prev st) (fst p) with
                     | Some h => [(fst p, h)]
                     | None => []
                     end) g.

(* ---------- correspondence cases ---------- *)
(* the graph installed in the real node, and the node's routingPathCosts / routingTable *)
Record route_case := { rc_g : graph; rc_self : node; rc_costs : costs; rc_table : table }.
(* canonical maps: keys strictly increasing (what the harness prints; makes [In] and [aget] agree) *)
Fixpoint sorted_from {V} (lo : option N) (m : amap V) : bool :=
  match m with
  | [] => true
  | (k, _) :: r => (match lo with Some l => l <? k | None => true end) && sorted_from (Some k) r
  end.
Definition sorted_keys {V} (m : amap V) : bool := sorted_from None m.
Definition graph_wf (g : graph) : bool :=
  sorted_keys g && forallb (fun p => sorted_keys (snd p)) g.

Definition route_case_check (c : route_case) : bool :=
  graph_wf (rc_g c) && all_pos (rc_g c)
  && route_check (rc_g c) (rc_self c) (rc_costs c) (rc_table c).
