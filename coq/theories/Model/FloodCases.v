(* Model/FloodCases.v — the two kinds of correspondence cases of the C06 harness: step-exact sequential
   histories (Model/Flood.v) and concurrent deliveries of one update (Model/FloodConc.v). *)
From Receptor Require Export Model.Flood Model.FloodConc.

Inductive c06_case := CFlood (c : flood_case) | CConc (c : conc_case).
Definition c06_check (c : c06_case) : bool :=
  match c with CFlood f => flood_check f | CConc k => conc_check k end.
