(* Model/FloodCases.v — the kinds of correspondence cases of the C06 harness: step-exact sequential
   histories (Model/Flood.v), concurrent deliveries of ONE update (Model/FloodConc.v), and concurrent
   deliveries of DIFFERENT updates of one origin, checked for linearizability: what the node records for
   the origin afterwards must be what [handle_update] yields for some order of the batch. *)
From Receptor Require Export Model.Flood Model.FloodConc Base.Perms.
Open Scope N_scope.

Record seq_case := {
  q_init : nstate;
  q_origin : node;
  q_batch : list (upd * node);           (* delivered by one goroutine each, at the same moment *)
  q_info : option (N * N);               (* knownNodeInfo[origin] afterwards *)
  q_row : option (amap N)                (* knownConnectionCosts[origin] afterwards *)
}.

Definition beq_opt_info (a b : option (N * N)) : bool :=
  match a, b with
  | None, None => true
  | Some (e, s), Some (e', s') => (e =? e') && (s =? s')
  | _, _ => false
  end.
Definition beq_opt_row (a b : option (amap N)) : bool :=
  match a, b with
  | None, None => true
  | Some x, Some y => beq_costs x y
  | _, _ => false
  end.

Definition seq_explains (c : seq_case) (p : list (upd * node)) : bool :=
  let st := fst (run (q_init c) (map (fun x => Recv (fst x) (snd x)) p)) in
  beq_opt_info (aget (q_origin c) (ns_info st)) (q_info c)
  && beq_opt_row (aget (q_origin c) (ns_known st)) (q_row c).

Definition seq_check (c : seq_case) : bool := existsb (seq_explains c) (perms (q_batch c)).

Inductive c06_case := CFlood (c : flood_case) | CConc (c : conc_case) | CSeq (c : seq_case).
Definition c06_check (c : c06_case) : bool :=
  match c with CFlood f => flood_check f | CConc k => conc_check k | CSeq q => seq_check q end.
