(* Model/Sig.v — property C15: signature-protected work.
   Mirrors pkg/workceptor/controlsvc.go processSignature (called by submit, cancel, release,
   force-release, results), pkg/workceptor/workceptor.go ShouldVerifySignature / VerifySignature,
   and the effects of the `work` command interpreter on the set of units.

   The JWT library is an oracle: [jwt tok] is the outcome of golang-jwt's ParseWithClaims (RSA
   public key from the work-verification file, RegisteredClaims.Valid, VerifyAudience(node ID))
   on a NON-EMPTY token string ([JExpired] stands for every time claim that makes the library
   refuse: `exp` in the past, `nbf` or `iat` in the future).  Nothing is assumed of it: the theorems hold for every oracle and
   say that an effect needs the answer [JValid].  An absent `signature` field and an empty string
   are the same thing for the code (strFromMap error → "") and for the model ([] = no token). *)
From Coq Require Import ZArith.
From Receptor Require Export Base.Hex.
Open Scope N_scope.

Inductive jwt_result := JMalformed | JBadAlg | JBadKey | JExpired | JWrongAud | JValid.
Inductive conn := Unix | Tcp | Mesh.     (* RemoteAddr().Network() = "unix" or anything else *)

(* how ShouldVerifySignature classifies a work type name on this node *)
Inductive wtkind :=
| WVerify                    (* registered with verifysignature: true *)
| WPlain                     (* registered, no verification *)
| WRemote (signwork : bool)  (* "remote": decided by the signwork flag (request / unit record) *)
| WUnknown.                  (* not registered *)

Definition should_verify (k : wtkind) : bool :=
  match k with WVerify => true | WRemote s => s | _ => false end.

Definition is_unix (c : conn) : bool := match c with Unix => true | _ => false end.
Definition isnil (b : bytes) : bool := match b with [] => true | _ => false end.

Inductive decision := Allow | Refuse (e : N).
Definition E_UNEXPECTED : N := 1.   (* work type did not expect a signature *)
Definition E_EMPTY : N := 2.        (* signature is empty *)
Definition E_NOKEY : N := 3.        (* verifying key not specified *)
Definition E_INVALID : N := 4.      (* could not verify / not valid / audience *)
Definition E_NOUNIT : N := 5.       (* unknown work unit *)
Definition E_WORKTYPE : N := 6.     (* unknown work type *)
Definition E_IDUSED : N := 7.       (* not a behaviour *)

Record unit := mkunit { u_kind : wtkind; u_stopped : bool }.
Definition state := list (N * unit).

Fixpoint lookup (id : N) (t : state) : option unit :=
  match t with
  | [] => None
  | (i, u) :: t' => if i =? id then Some u else lookup id t'
  end.
Fixpoint update (id : N) (u : unit) (t : state) : state :=
  match t with
  | [] => []
  | (i, u') :: t' => if i =? id then (i, u) :: t' else (i, u') :: update id u t'
  end.
Fixpoint remove (id : N) (t : state) : state :=
  match t with
  | [] => []
  | (i, u) :: t' => if i =? id then remove id t' else (i, u) :: remove id t'
  end.

Inductive cmd :=
| Submit (newid : N) (k : wtkind) (remote signwork : bool)
     (* k = class of the requested work type name; remote = the node field names another node *)
| Cancel (id : N)
| Release (id : N) (force : bool)
| Results (id : N)
| StatusOf (id : N)      (* not protected: no signature processing *)
| ListAll.

Definition protected (c : cmd) : bool :=
  match c with Submit _ _ _ _ | Cancel _ | Release _ _ | Results _ => true | _ => false end.

Inductive effect := ECreated (id : N) | EStopped (id : N) | ERemoved (id : N) | ERead (id : N).
Inductive reply := ROk | RStream | RError (e : N).
Definition is_error (r : reply) : bool := match r with RError _ => true | _ => false end.

Section Sig.
Variable jwt : bytes -> jwt_result.
Variable key_ok : bool.    (* a work-verification public key is configured *)

(* Workceptor.VerifySignature *)
Definition verify_signature (tok : bytes) : decision :=
  if isnil tok then Refuse E_EMPTY
  else if negb key_ok then Refuse E_NOKEY
  else match jwt tok with JValid => Allow | _ => Refuse E_INVALID end.

(* workceptorCommand.processSignature ∘ ShouldVerifySignature *)
Definition authorize (k : wtkind) (c : conn) (tok : bytes) : decision :=
  if negb (should_verify k) && negb (isnil tok) then Refuse E_UNEXPECTED
  else if should_verify k && negb (is_unix c) then verify_signature tok
  else Allow.

(* the unit a successful submit creates *)
Definition submit_kind (k : wtkind) (remote signwork : bool) : option wtkind :=
  if remote then Some (WRemote signwork)        (* AllocateRemoteUnit: SignWork := signwork *)
  else match k with
       | WUnknown => None                        (* AllocateUnit: unknown work type *)
       | WRemote _ => Some (WRemote false)       (* AllocateUnit("remote") leaves SignWork false *)
       | _ => Some k
       end.

Definition exec (st : state) (c : conn) (tok : bytes) (m : cmd) : state * reply * list effect :=
  match m with
  | Submit newid k remote signwork =>
    match lookup newid st with
    | Some _ => (st, RError E_IDUSED, [])
    | None =>
      match authorize k c tok with
      | Refuse e => (st, RError e, [])
      | Allow =>
        match submit_kind k remote signwork with
        | None => (st, RError E_WORKTYPE, [])
        | Some k' => (st ++ [(newid, mkunit k' false)], ROk, [ECreated newid])
        end
      end
    end
  | Cancel id =>
    match lookup id st with
    | None => (st, RError E_NOUNIT, [])
    | Some u =>
      match authorize (u_kind u) c tok with
      | Refuse e => (st, RError e, [])
      | Allow => (update id (mkunit (u_kind u) true) st, ROk, [EStopped id])
      end
    end
  | Release id _ =>
    match lookup id st with
    | None => (st, RError E_NOUNIT, [])
    | Some u =>
      match authorize (u_kind u) c tok with
      | Refuse e => (st, RError e, [])
      | Allow => (remove id st, ROk, [ERemoved id])
      end
    end
  | Results id =>
    match lookup id st with
    | None => (st, RError E_NOUNIT, [])
    | Some u =>
      match authorize (u_kind u) c tok with
      | Refuse e => (st, RError e, [])
      | Allow => (st, RStream, [ERead id])
      end
    end
  | StatusOf id =>
    match lookup id st with
    | None => (st, RError E_NOUNIT, [])
    | Some _ => (st, ROk, [])
    end
  | ListAll => (st, ROk, [])
  end.

(* the work type class that decides about a command *)
Definition deciding_kind (st : state) (m : cmd) : option wtkind :=
  match m with
  | Submit _ k _ _ => Some k
  | Cancel id | Release id _ | Results id =>
    match lookup id st with Some u => Some (u_kind u) | None => None end
  | _ => None
  end.

End Sig.

(* ---------- work type names ---------- *)

(* The registered work types of a node: name -> verifysignature.  Go looks a name up in a map, i.e.
   by exact byte equality: no case folding, no trimming.  ONE function of the submitted name,
   [classify], feeds both the verification decision (ShouldVerifySignature) and the allocation
   (AllocateUnit), so the decision is always taken for the type the unit is created with. *)
Definition registry := list (bytes * bool).

Fixpoint reg_lookup (name : bytes) (r : registry) : option bool :=
  match r with
  | [] => None
  | (n, v) :: r' => if beq_bytes n name then Some v else reg_lookup name r'
  end.

Definition s_remote : bytes := [114; 101; 109; 111; 116; 101].   (* "remote" *)

Definition classify (r : registry) (name : bytes) (signwork : bool) : wtkind :=
  if beq_bytes name s_remote then WRemote signwork
  else match reg_lookup name r with
       | Some true => WVerify
       | Some false => WPlain
       | None => WUnknown
       end.

(* the WorkType a created unit records: the submitted name itself, or "remote" for another node *)
Definition recorded_type (name : bytes) (remote : bool) : bytes := if remote then s_remote else name.

Definition exec_submit_name (jwt : bytes -> jwt_result) (key_ok : bool) (r : registry) (st : state)
           (c : conn) (tok : bytes) (newid : N) (name : bytes) (remote signwork : bool) :=
  exec jwt key_ok st c tok (Submit newid (classify r name signwork) remote signwork).

(* ---------- correspondence cases ---------- *)

Inductive cmdtag := TSubmit (k : wtkind) (remote signwork : bool) | TCancel | TRelease (force : bool) | TResults.

Record sig_case := mkcase {
  sc_key : bool;               (* verification key configured on the node *)
  sc_conn : conn;
  sc_tok_empty : bool;         (* no signature field, or the empty string *)
  sc_jwt : jwt_result;         (* what the token is by construction *)
  sc_target : option wtkind;   (* class of the addressed unit (unit 1); None: no such unit *)
  sc_cmd : cmdtag;
  sc_effect : bool;            (* observed: a unit was created / stopped / removed / read *)
  sc_reply : N                 (* observed reply class: 0 JSON object, 1 ERROR line, 2 stream *)
}.

Definition reply_class (r : reply) : N := match r with ROk => 0 | RError _ => 1 | RStream => 2 end.

Definition sig_check (x : sig_case) : bool :=
  let st := match sc_target x with Some k => [(1, mkunit k false)] | None => [] end in
  let tok := if sc_tok_empty x then [] else [1] in
  let m := match sc_cmd x with
           | TSubmit k r s => Submit 2 k r s
           | TCancel => Cancel 1
           | TRelease f => Release 1 f
           | TResults => Results 1
           end in
  let '(st', r, effs) := exec (fun _ => sc_jwt x) (sc_key x) st (sc_conn x) tok m in
  Bool.eqb (negb (match effs with [] => true | _ => false end)) (sc_effect x)
  && (reply_class r =? sc_reply x).

(* ---------- the signing side ---------- *)

(* Workceptor.createSignature on the SUBMITTING node (signwork=true on a remote submission, and
   again for the cancel / release / results it sends later): an RS512 token with the audience =
   the target node and the expiry = now + the `tokenexpiration` of work-signing; nothing can be
   signed without a signing key, and then nothing is sent.  Keys are numbered (the harness keeps
   the bijection to key files); times are seconds relative to the signing. *)
Record token := mktok { t_key : N; t_aud : bytes; t_exp : Z }.

Definition create_signature (signing_key : option N) (target : bytes) (expiration : Z) : option token :=
  match signing_key with Some k => Some (mktok k target expiration) | None => None end.

(* golang-jwt on such a token at the target, [elapsed] seconds after it was made *)
Definition jwt_of (verify_key : N) (node : bytes) (elapsed : Z) (t : token) : jwt_result :=
  if negb (t_key t =? verify_key) then JBadKey
  else if (t_exp t <=? elapsed)%Z then JExpired
  else if negb (beq_bytes (t_aud t) node) then JWrongAud
  else JValid.

(* a remote submission seen from the target: what startRemoteUnit sends, how the target decides.
   None: the submitting node could not sign and sends nothing. *)
Definition remote_submit_decision (signing_key : option N) (expiration elapsed : Z) (signwork : bool)
           (verify_key : N) (r : registry) (target name : bytes) : option decision :=
  if signwork then
    match create_signature signing_key target expiration with
    | None => None
    | Some t => Some (authorize (fun _ => jwt_of verify_key target elapsed t) true (classify r name false) Mesh [1])
    end
  else Some (authorize (fun _ => JMalformed) true (classify r name false) Mesh []).

(* a submit observed with the SUBMITTED spelling of the work type and, when a unit was created, the
   WorkType its status record shows *)
Inductive sig_obs :=
| SCase (x : sig_case)
| SName (key : bool) (c : conn) (tok_empty : bool) (j : jwt_result) (r : registry)
        (name : bytes) (remote signwork : bool)
        (effect : bool) (reply : N) (recorded : option bytes)
| SRemote (signing_key : option N) (expiration_positive signwork : bool) (verify_key : N) (r : registry)
          (target name : bytes) (created_at_target : bool).
   (* a signed (or unsigned) remote submission end to end: was a unit of that name created at the target *)

Definition sig_obs_check (o : sig_obs) : bool :=
  match o with
  | SCase x => sig_check x
  | SName key c tok_empty j r name remote signwork effect reply recorded =>
    let tok := if tok_empty then [] else [1] in
    let '(st', rp, effs) := exec_submit_name (fun _ => j) key r [] c tok 2 name remote signwork in
    Bool.eqb (negb (match effs with [] => true | _ => false end)) effect
    && (reply_class rp =? reply)
    && match effs, recorded with
       | [], None => true
       | _ :: _, Some t => beq_bytes t (recorded_type name remote)
       | _, _ => false
       end
  | SRemote sk pos signwork vk r target name created =>
    let expiration := if pos then 1800%Z else (-60)%Z in
    match remote_submit_decision sk expiration 1%Z signwork vk r target name with
    | Some Allow => Bool.eqb created (match classify r name false with WUnknown => false | _ => true end)
    | _ => negb created
    end
  end.

(* ---------- which connections count as the local socket ----------
   controlsvc.go ControlFunc: connIsUnix := cfo.RemoteAddr().Network() == "unix".  The network
   name of a mesh stream is the node's network name, makeNetworkName: "netceptor-" ++ node ID
   (++ "-n" when taken) — it CONTAINS the node ID, which an operator chooses freely.  [net_of]
   gives the name per kind of connection; [conn_is_unix] is the test of the code,
   [conn_contains_unix] the sloppier one (the text "unix" anywhere in the name), kept to be refuted. *)
Definition s_unix : bytes := [117; 110; 105; 120].
Definition s_tcp : bytes := [116; 99; 112].
Definition s_netceptor_ : bytes := [110; 101; 116; 99; 101; 112; 116; 111; 114; 45].

Definition net_of (c : conn) (node suffix : bytes) : bytes :=
  match c with Unix => s_unix | Tcp => s_tcp | Mesh => s_netceptor_ ++ node ++ suffix end.

Definition conn_is_unix (net : bytes) : bool := beq_bytes net s_unix.

Fixpoint starts_with (p l : bytes) : bool :=
  match p, l with
  | [], _ => true
  | x :: p', y :: l' => (x =? y) && starts_with p' l'
  | _, [] => false
  end.
Fixpoint contains (p l : bytes) : bool :=
  starts_with p l || match l with [] => false | _ :: l' => contains p l' end.
Definition conn_contains_unix (net : bytes) : bool := contains s_unix net.
