(* Model/RouteLink.v — the link bookkeeping of one node (pkg/netceptor/netceptor.go runProtocol /
   removeConnection): the established connections and the node's OWN row of knownConnectionCosts,
   under histories of link events in which the teardown of a session has two moments: the return-site
   removeConnection ([Remove], frees the peer's node ID) and, some time later, the end of the backend's
   Close in the deferred clean-up ([CloseDone]).  Between the two a NEW session of the same peer may be
   established.  The routing layer (Model/RouteWorld.v, hypothesis "the own row is the true adjacency")
   needs: own row = connections, at every moment. *)
From Coq Require Import NArith List.
Import ListNotations.
Open Scope N_scope.

Definition lrow := list (N * N).            (* peer, cost *)

Fixpoint ldel (p : N) (r : lrow) : lrow :=
  match r with
  | [] => []
  | (q, c) :: t => if N.eqb p q then ldel p t else (q, c) :: ldel p t
  end.

Fixpoint lhas (p : N) (r : lrow) : bool :=
  match r with [] => false | (q, _) :: t => N.eqb p q || lhas p t end.

Inductive lev :=
| Establish (p c : N)    (* a session of peer p passes the "already connected" test and publishes its cost *)
| Remove (p : N)         (* removeConnection at a return site *)
| CloseDone (p : N).     (* the deferred clean-up of a session of p, after sess.Close() has returned *)

Record lstate := { l_conns : lrow; l_own : lrow }.

(* [late] = the deferred clean-up forgets the peer's costs once more (NOT what the code does) *)
Definition lstep (late : bool) (s : lstate) (e : lev) : lstate :=
  match e with
  | Establish p c =>
      if lhas p (l_conns s) then s    (* rejected: "already connected", nothing registered *)
      else {| l_conns := (p, c) :: ldel p (l_conns s); l_own := (p, c) :: ldel p (l_own s) |}
  | Remove p => {| l_conns := ldel p (l_conns s); l_own := ldel p (l_own s) |}
  | CloseDone p => if late then {| l_conns := l_conns s; l_own := ldel p (l_own s) |} else s
  end.

Definition lrun (late : bool) (s : lstate) (h : list lev) : lstate := fold_left (lstep late) h s.

Definition l0 : lstate := {| l_conns := []; l_own := [] |}.

(* link fails, the same peer re-dials while the old session is still being closed, the Close ends *)
Definition slow_close_history : list lev := [Establish 1 1; Remove 1; Establish 1 2; CloseDone 1].
