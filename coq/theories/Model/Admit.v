(* Model/Admit.v — admission and removal of backend connections by Netceptor.runProtocol
   (pkg/netceptor/netceptor.go), for ANY number of concurrent sessions on one node.

   Every session is its own goroutine; they share s.connections (under connLock) and the node's
   own row of s.knownConnectionCosts (under knownNodeLock).  The model interleaves the ATOMIC
   steps those locks define.  For one session:

     PInit --route update, admissible--> PAdmitted   the admission test and the insertion into
                                                     s.connections are ONE step: both happen
                                                     inside one connLock critical section
           --route update, inadmissible--> PClosed   reject message, return; nothing was written
     PAdmitted --bookkeeping--> PBooked              knownConnectionCosts[self][id] = cost (own lock)
     PBooked   --bookkeeping--> PEst                 routing-table request accepted; established = true
     PEst --update breaking a post-establishment check--> PLeaving
                                                     removeConnection, first half: delete(s.connections, id)
     PLeaving --bookkeeping--> PClosed               removeConnection, second half: own-row edge deleted
     any live phase --context done (peer hung up, idle timeout, backend cancelled)--> PLeaving / PClosed

   Sessions see messages as [amsg]: a decodable routing update, a reject message, or anything
   else (data, advertisements, undecodable, unknown, empty — none of which the admission logic
   looks at; what they do otherwise is Model/Proto.v).  [classify] maps datagrams to [amsg] with
   Proto.v's decoders, and the sequential composition of the micro-steps of one session is
   proto_step (Proofs/Admit.v), so this file adds concurrency and nothing else.

   [variant] (Model/Proto.v): [repaired] rejects an empty remote node ID (fix 4decfd1) and removes
   the connection on EVERY exit path after admission (fix 6afcbbe); [pinned] admits "" (and can
   then never remove it: removeConnection("") is a no-op) and forgets the removal when the
   context ends while the session waits to signal the routing-table runner (the third select
   after admission; found while modelling, reproduced by the C11 harness). *)
From Coq Require Import String.
From Receptor Require Export Model.Proto.
Open Scope list_scope.
Open Scope N_scope.

Inductive amsg :=
| ARoute (ri : rupd)
| AReject
| AOther.

Inductive phase :=
| PInit
| PAdmitted (id : bytes) (c : dy)
| PBooked (id : bytes) (c : dy)
| PEst (id : bytes) (c : dy) (decl : option dy)   (* decl: cost the peer last declared for the link (remoteEstablished) *)
| PLeaving (id : bytes) (rej : bool)
| PClosed (rej : bool).                            (* rej: a type-3 message was sent before closing *)

Record sys := {
  y_self : bytes;
  y_conns : list (bytes * dy);                     (* s.connections: ID -> Cost *)
  y_selfrow : list (bytes * dy);                   (* s.knownConnectionCosts[self] *)
  y_sess : list (binfo * phase)
}.

Inductive label :=
| LStart (bi : binfo)                              (* a backend hands a new session to runProtocol *)
| LMsg (i : nat) (m : amsg)                        (* session i's loop takes one message *)
| LFinish (i : nat)                                (* session i performs its pending bookkeeping step *)
| LHangup (i : nat).                               (* session i has ended, whatever the cause: Recv returned
                                                      io.EOF or another error, a Send failed, the backend's
                                                      context was cancelled, the idle monitor cancelled it —
                                                      each of them cancels ci.Context and the loop takes its
                                                      Done arm: removeConnection in this one step *)

Definition sys_init (self : bytes) : sys :=
  {| y_self := self; y_conns := []; y_selfrow := []; y_sess := [] |}.

Fixpoint set_nth {A} (l : list A) (i : nat) (x : A) : list A :=
  match l, i with
  | [], _ => []
  | _ :: r, O => x :: r
  | a :: r, S j => a :: set_nth r j x
  end.

Definition upd (y : sys) (conns selfrow : list (bytes * dy)) (i : nat) (bi : binfo) (p : phase) : sys :=
  {| y_self := y_self y; y_conns := conns; y_selfrow := selfrow; y_sess := set_nth (y_sess y) i (bi, p) |}.

(* removeConnection(id): a no-op for the empty ID *)
Definition rm (id : bytes) (m : list (bytes * dy)) : list (bytes * dy) := if isnil id then m else adel m id.

(* post-establishment checks on a routing update (netceptor.go:1934-1959): None = the session
   goes on with the (possibly updated) declared cost, Some tt = the connection is removed *)
Definition est_check (self id : bytes) (c : dy) (decl : option dy) (ri : rupd) : option (option dy) :=
  if negb (beq_bytes (ru_fwd ri) id) then None                       (* forwarder identity changed *)
  else if beq_bytes (ru_node ri) id then
    match aget (match ru_conns ri with Some m => m | None => [] end) self with
    | None => match decl with Some _ => None | None => Some decl end (* no longer lists us *)
    | Some rc => if dy_eqb rc c then Some (Some rc) else None        (* cost disagreement *)
    end
  else Some decl.

Definition sys_step (V : variant) (y : sys) (l : label) : sys :=
  match l with
  | LStart bi =>
    (* runProtocol: "connection cost must be positive" -> returns at once *)
    {| y_self := y_self y; y_conns := y_conns y; y_selfrow := y_selfrow y;
       y_sess := y_sess y ++ [(bi, if dy_pos (bi_cost bi) then PInit else PClosed false)] |}
  | LMsg i m =>
    match nth_error (y_sess y) i with
    | Some (bi, PInit) =>
      match m with
      | ARoute ri =>
        let id := ru_fwd ri in
        if admissible V (y_self y) bi (y_conns y) id
        then upd y (y_conns y ++ [(id, cost_for bi id)]) (y_selfrow y) i bi (PAdmitted id (cost_for bi id))
        else upd y (y_conns y) (y_selfrow y) i bi (PClosed true)
      | AReject => upd y (y_conns y) (y_selfrow y) i bi (PClosed false)
      | AOther => y
      end
    | Some (bi, PEst id c decl) =>
      match m with
      | ARoute ri =>
        match est_check (y_self y) id c decl ri with
        | Some decl' => upd y (y_conns y) (y_selfrow y) i bi (PEst id c decl')
        | None => upd y (rm id (y_conns y)) (y_selfrow y) i bi (PLeaving id true)
        end
      | AReject => upd y (rm id (y_conns y)) (y_selfrow y) i bi (PLeaving id false)
      | AOther => y
      end
    | _ => y                                       (* busy with bookkeeping, or gone *)
    end
  | LFinish i =>
    match nth_error (y_sess y) i with
    | Some (bi, PAdmitted id c) => upd y (y_conns y) (aset (y_selfrow y) id c) i bi (PBooked id c)
    | Some (bi, PBooked id c) => upd y (y_conns y) (y_selfrow y) i bi (PEst id c None)
    | Some (bi, PLeaving id rej) => upd y (y_conns y) (rm id (y_selfrow y)) i bi (PClosed rej)
    | _ => y
    end
  | LHangup i =>
    match nth_error (y_sess y) i with
    | Some (bi, PInit) => upd y (y_conns y) (y_selfrow y) i bi (PClosed false)
    | Some (bi, PAdmitted id c) => upd y (rm id (y_conns y)) (y_selfrow y) i bi (PLeaving id false)
    | Some (bi, PBooked id c) =>
      if v_remove_late V
      then upd y (rm id (y_conns y)) (y_selfrow y) i bi (PLeaving id false)
      else upd y (y_conns y) (y_selfrow y) i bi (PClosed false)   (* pinned: returns without removeConnection *)
    | Some (bi, PEst id c _) => upd y (rm id (y_conns y)) (y_selfrow y) i bi (PLeaving id false)
    | _ => y
    end
  end.

Definition sys_run (V : variant) (y : sys) (ls : list label) : sys := fold_left (sys_step V) ls y.

Definition reachable (V : variant) (self : bytes) (y : sys) : Prop :=
  exists ls, y = sys_run V (sys_init self) ls.

(* which remote ID a session currently occupies in s.connections *)
Definition holds (p : phase) : option (bytes * dy) :=
  match p with
  | PAdmitted id c | PBooked id c | PEst id c _ => Some (id, c)
  | _ => None
  end.

(* a session that has ended (its loop has taken the Done arm or returned) *)
Definition ended (p : phase) : bool := match p with PLeaving _ _ | PClosed _ => true | _ => false end.

(* sessions with a pending bookkeeping step *)
Definition pending (p : phase) : bool :=
  match p with PAdmitted _ _ | PBooked _ _ | PLeaving _ _ => true | _ => false end.

Definition quiescent (y : sys) : bool := forallb (fun bp => negb (pending (snd bp))) (y_sess y).

(* ---------- datagrams to messages (Proto.v's decoders) ---------- *)

Definition classify (E : env) (d : bytes) : amsg :=
  match d with
  | [] => AOther
  | ty :: body =>
    if ty =? 1 then
      match tok E body with
      | Some j => match decode_routing_update j with JOk ri => ARoute ri | JErr => AOther end
      | None => AOther
      end
    else if ty =? 3 then AReject
    else AOther
  end.

(* ---------- correspondence cases: sequential release of datagrams to 1..n sessions ---------- *)

Inductive sched_step :=
| SSend (i : nat) (d : bytes)          (* datagram released to session i, node quiescent before the next step *)
| SHang (i : nat).                     (* session i hung up by the peer *)

Definition labels_of (E : env) (s : sched_step) : list label :=
  match s with
  | SSend i d => [LMsg i (classify E d); LFinish i; LFinish i]
  | SHang i => [LHangup i; LFinish i]
  end.

Record sess_obs := { so_closed : bool; so_reject : bool }.

Record admit_case := {
  ac_toks : list (bytes * json);
  ac_self : bytes;
  ac_conns0 : list (bytes * dy);        (* connections present before the sessions start (peer B) *)
  ac_bis : list binfo;                  (* one backend policy per session, started in this order *)
  ac_sched : list sched_step;
  ac_obs_sess : list sess_obs;
  ac_obs_conns : list (bytes * dy);
  ac_obs_selfrow : list (bytes * dy) }.

Definition phase_agrees (p : phase) (o : sess_obs) : bool :=
  match p with
  | PClosed rej => so_closed o && Bool.eqb rej (so_reject o)
  | PInit | PEst _ _ _ => negb (so_closed o) && negb (so_reject o)
  | _ => false                          (* never left pending by a sequential schedule *)
  end.

Fixpoint phases_agree (ps : list (binfo * phase)) (os : list sess_obs) : bool :=
  match ps, os with
  | [], [] => true
  | (_, p) :: ps', o :: os' => phase_agrees p o && phases_agree ps' os'
  | _, _ => false
  end.

Definition admit_check (c : admit_case) : bool :=
  let E := env_of (ac_toks c) [] in
  let y0 := {| y_self := ac_self c; y_conns := ac_conns0 c; y_selfrow := ac_conns0 c; y_sess := [] |} in
  let y1 := sys_run repaired y0 (map LStart (ac_bis c)) in
  let y := sys_run repaired y1 (flat_map (labels_of E) (ac_sched c)) in
  phases_agree (y_sess y) (ac_obs_sess c) &&
  costs_eqb (y_conns y) (ac_obs_conns c) && costs_eqb (y_selfrow y) (ac_obs_selfrow c).

(* ---------- why the admission test must be ONE critical section ---------- *)

(* The same admission with the "already connected?" test under a read lock and the insertion
   under a later write lock (two atomic steps instead of one): what [at_most_one_session_per_id]
   rules out becomes reachable.  Kept as a separate miniature automaton; [sys_step] is the code. *)
Inductive split_phase := SInit | SChecked (id : bytes) (c : dy) | SHolding (id : bytes) (c : dy) | SRejected.

Inductive split_label :=
| SCheck (i : nat) (id : bytes)     (* session i reads s.connections: is id free? *)
| SInsert (i : nat).                (* session i writes s.connections[id] = ci *)

Definition split_step (self : bytes) (bi : binfo) (st : list (bytes * dy) * list split_phase) (l : split_label)
  : list (bytes * dy) * list split_phase :=
  let '(conns, ps) := st in
  match l with
  | SCheck i id =>
    match nth_error ps i with
    | Some SInit =>
      if admissible repaired self bi conns id then (conns, set_nth ps i (SChecked id (cost_for bi id)))
      else (conns, set_nth ps i SRejected)
    | _ => st
    end
  | SInsert i =>
    match nth_error ps i with
    | Some (SChecked id c) => (aset conns id c, set_nth ps i (SHolding id c))
    | _ => st
    end
  end.

Definition split_run self bi st ls := fold_left (split_step self bi) ls st.
