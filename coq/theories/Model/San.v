(* Model/San.v — pkg/utils/other_name.go: MakeReceptorSAN (encoder) and ReceptorNames (decoder),
   byte for byte.  Mirrors the tree AFTER the fix "strip the OtherName SEQUENCE header by
   parsing it" (the pinned tree dropped a fixed two bytes, wrong for node IDs >= 113 bytes; see
   known_findings.json).  [make_san_fixed2] keeps the historical encoder so the defect stays a
   machine-checked fact (Proofs/San.v: [fixed2_refuted]) and the harness can recognise it. *)
From Receptor Require Export Model.Der Model.Utf8.
Open Scope N_scope.

(* 1.3.6.1.4.1.2312.19.1 *)
Definition receptor_oid : bytes := [43; 6; 1; 4; 1; 146; 8; 19; 1].
Definition ID_SEQ : N := 48.      (* 0x30 universal constructed SEQUENCE *)
Definition ID_OID : N := 6.
Definition ID_UTF8 : N := 12.
Definition ID_CTX0_C : N := 160.  (* 0xA0 context [0] constructed *)
Definition ID_DNS : N := 130.     (* 0x82 context [2] primitive *)
Definition ID_IP : N := 135.      (* 0x87 context [7] primitive *)

(* asn1.Marshal(OtherNameEncode{OID, UTFString{A: id} `tag:0`}) without its outer header *)
Definition othername_body (id : bytes) : bytes :=
  tlv ID_OID receptor_oid ++ tlv ID_CTX0_C (tlv ID_UTF8 id).

Definition othername_marshalled (id : bytes) : bytes := tlv ID_SEQ (othername_body id).

(* To4(): the harness passes IPs as 4- or 16-byte strings already normalised *)
Definition san_elems (dns ips ids : list bytes) (strip : bytes -> bytes) : bytes :=
  concat (map (tlv ID_DNS) dns) ++ concat (map (tlv ID_IP) ips)
  ++ concat (map (fun id => tlv ID_CTX0_C (strip (othername_marshalled id))) ids).

(* the repaired encoder: header removed by parsing it *)
Definition strip_parsed (m : bytes) : bytes :=
  match parse_tlv m with Ok (e, _) => e_content e | _ => [] end.

(* the pinned encoder: asnOtherName[2:] *)
Definition strip_fixed2 (m : bytes) : bytes := skipn 2 m.

(* MakeReceptorSAN never fails on in-memory inputs: with an explicit `utf8` field tag Go's
   asn1.Marshal does not validate the string (validation happens only when it has to choose a
   string type itself), so an ID that is not valid UTF-8 is encoded as it is and refused later by
   the decoder. *)
Definition make_san_with strip (dns ips ids : list bytes) : res bytes :=
  Ok (tlv ID_SEQ (san_elems dns ips ids strip)).

Definition make_san := make_san_with strip_parsed.
Definition make_san_fixed2 := make_san_with strip_fixed2.

(* ---------- decoder ---------- *)

(* parseBase128Int over the whole OID content *)
Fixpoint oid_arcs_ok (l : bytes) (shifted : N) (acc : N) : bool :=
  match l with
  | [] => shifted =? 0                         (* truncated base 128 integer otherwise *)
  | b :: r =>
    if shifted =? 5 then false
    else if (shifted =? 0) && (b =? 128) then false
    else let acc' := acc * 128 + b mod 128 in
         if b <? 128 then (acc' <=? 2147483647) && oid_arcs_ok r 0 0
         else oid_arcs_ok r (shifted + 1) acc'
  end.
Definition oid_ok (c : bytes) : bool :=
  match c with [] => false | _ => oid_arcs_ok c 0 0 end.

Definition is_printable (b : N) : bool :=
  inr 97 122 b || inr 65 90 b || inr 48 57 b || inr 39 41 b || inr 43 47 b
  || (b =? 32) || (b =? 58) || (b =? 61) || (b =? 63) || (b =? 42) || (b =? 38).
Definition is_numeric (b : N) : bool := inr 48 57 b || (b =? 32).

(* asn1.Unmarshal(bytes, &name) for a Go string *)
Definition isnil (b : bytes) : bool := match b with [] => true | _ => false end.

Definition parse_string (b : bytes) : res bytes :=
  if isnil b then Err E_TRUNC else              (* sequence truncated *)
  bind (parse_tl b) (fun p =>
    let '(id, n, r) := p in
    if (id =? 12) || (id =? 19) || (id =? 22) || (id =? 18) || (id =? 20) || (id =? 27) then
      if n <=? blen r then
        let c := firstn (N.to_nat n) r in
        if id =? 12 then (if utf8_valid c then Ok c else Err E_VALUE)
        else if id =? 19 then (if forallb is_printable c then Ok c else Err E_VALUE)
        else if id =? 22 then (if forallb (fun x => x <? 128) c then Ok c else Err E_VALUE)
        else if id =? 18 then (if forallb is_numeric c then Ok c else Err E_VALUE)
        else Ok c
      else Err E_TRUNC
    else if id =? 30 then Unsup            (* BMPString: UTF-16 decoding not modelled *)
    else Err E_TAG).

(* one GeneralName element that has tag number 0 *)
Definition decode_othername (e : elem) : res (option bytes) :=
  if negb (e_id e =? ID_CTX0_C) then Err E_TAG else
  let c := e_content e in
  if isnil c then Err E_TRUNC else
    bind (parse_tlv c) (fun p1 =>
      let '(o, r1) := p1 in
      if negb (e_id o =? ID_OID) then Err E_TAG
      else if negb (oid_ok (e_content o)) then Err E_VALUE
      else if isnil r1 then Err E_TRUNC
      else bind (parse_tlv r1) (fun p2 =>
             let '(v, _) := p2 in
             if beq_bytes (e_content o) receptor_oid
             then bind (parse_string (e_content v)) (fun s => Ok (Some s))
             else Ok None)).

Fixpoint decode_names (es : list elem) : res (list bytes) :=
  match es with
  | [] => Ok []
  | e :: r =>
    if e_id e mod 32 =? 0 then
      bind (decode_othername e) (fun o =>
        bind (decode_names r) (fun ns =>
          Ok (match o with Some s => s :: ns | None => ns end)))
    else decode_names r
  end.

(* ReceptorNames on the value of one subjectAltName extension *)
Definition receptor_names (v : bytes) : res (list bytes) :=
  if isnil v then Err E_TRUNC else
  bind (parse_tlv v) (fun p =>
    let '(outer, _) := p in
    if negb (e_id outer =? ID_SEQ) then Err E_TAG
    else bind (parse_elems (length (e_content outer)) (e_content outer)) decode_names).

(* the other GeneralNames: (identifier octet, content) of every element, for the
   "contains exactly those names" half *)
Definition general_names (v : bytes) : res (list (N * bytes)) :=
  bind (parse_tlv v) (fun p =>
    let '(outer, _) := p in
    if negb (e_id outer =? ID_SEQ) then Err E_TAG
    else bind (parse_elems (length (e_content outer)) (e_content outer))
              (fun es => Ok (map (fun e => (e_id e, e_content e)) es))).

(* ---------- correspondence cases ---------- *)
(* what the harness observed of the implementation: Some bytes / names, or an error *)
Inductive obs (A : Type) := OOk (a : A) | OErr.
Arguments OOk {A} a. Arguments OErr {A}.

Definition agree_bytes (m : res bytes) (o : obs bytes) : bool :=
  match m, o with
  | Ok a, OOk b => beq_bytes a b
  | Err _, OErr => true
  | Unsup, _ => true
  | _, _ => false
  end.

Fixpoint beq_blist (a b : list bytes) : bool :=
  match a, b with
  | [], [] => true
  | x :: a', y :: b' => beq_bytes x y && beq_blist a' b'
  | _, _ => false
  end.

Definition agree_names (m : res (list bytes)) (o : obs (list bytes)) : bool :=
  match m, o with
  | Ok a, OOk b => beq_blist a b
  | Err _, OErr => true
  | Unsup, _ => true
  | _, _ => false
  end.

Inductive san_case :=
| CEnc (dns ips ids : list bytes) (out : obs bytes)      (* MakeReceptorSAN(...).Value *)
| CDec (v : bytes) (out : obs (list bytes)).             (* ReceptorNames on an extension value *)

Definition san_check (c : san_case) : bool :=
  match c with
  | CEnc dns ips ids out => agree_bytes (make_san dns ips ids) out
  | CDec v out => agree_names (receptor_names v) out
  end.
