(* Model/Bridge.v — the byte relay of stream connections (C03).
   pkg/utils/bridge.go bridgeHalf (one direction of BridgeConns, used by the control service's
   "connect" and by the TCP/unix proxies), the stream-open marker of pkg/netceptor/conn.go
   (DialContext writes one 0 byte, the acceptor's goroutine reads exactly one byte and demands 0),
   and the composition dialler application -> marker -> QUIC stream -> acceptor -> relay.
   QUIC itself (quic-go over PacketConn.ReadFrom/WriteTo) is NOT modelled: it enters
   Props/C03.v as a Section variable with an explicit hypothesis. *)
From Receptor Require Export Base.Hex.
Open Scope N_scope.

(* ---------- results of Read and Write as the relay sees them ---------- *)
Inductive rstat := ROk | REof | RErr.       (* err == nil | err.Error() == "EOF" | any other error *)
Record rd := mkrd { r_data : bytes; r_stat : rstat }.   (* n bytes (possibly 0) and the error, of one Read *)
Inductive wres := WOk | WShort | WErr.      (* wn == n, nil | wn != n | err != nil *)
Inductive call := CWrite (d : bytes) | CClose.

Definition r_stops (r : rd) : bool := match r_stat r with ROk => false | _ => true end.
Definition w_ok (w : wres) : bool := match w with WOk => true | _ => false end.
Definition isnil {A} (l : list A) : bool := match l with [] => true | _ => false end.

(* bridgeHalf(c1, c2): [rs] are the results of the successive c1.Read calls, [ws] the results of
   the successive c2.Write calls (writes beyond the list succeed); the value is the sequence of
   calls made on c2.  A read list that ends without an error leaves the relay blocked in Read. *)
Fixpoint bridge_half (rs : list rd) (ws : list wres) : list call :=
  match rs with
  | [] => []
  | r :: rs' =>
    if isnil (r_data r) then
      (if r_stops r then [CClose] else bridge_half rs' ws)
    else
      let w := match ws with [] => WOk | w :: _ => w end in
      CWrite (r_data r) ::
        (if r_stops r || negb (w_ok w) then [CClose] else bridge_half rs' (tl ws))
  end.

(* the reads that are relayed, and whether the relay then closes the far side *)
Fixpoint cut (rs : list rd) (ws : list wres) : list rd * bool :=
  match rs with
  | [] => ([], false)
  | r :: rs' =>
    if isnil (r_data r) then
      (if r_stops r then ([], true) else cut rs' ws)
    else
      let w := match ws with [] => WOk | w :: _ => w end in
      if r_stops r || negb (w_ok w) then ([r], true)
      else let '(p, c) := cut rs' (tl ws) in (r :: p, c)
  end.

Definition writes_of (cs : list call) : bytes :=
  flat_map (fun c => match c with CWrite d => d | CClose => [] end) cs.
Definition closes_of (cs : list call) : nat :=
  length (filter (fun c => match c with CClose => true | _ => false end) cs).
Definition data_of (rs : list rd) : bytes := flat_map r_data rs.

(* ---------- a stream as its reader sees it ---------- *)
(* the bytes delivered before the first error, and how the stream ended *)
Fixpoint stream_of (rs : list rd) : bytes * rstat :=
  match rs with
  | [] => ([], ROk)
  | r :: rs' => match r_stat r with
                | ROk => let '(d, e) := stream_of rs' in (r_data r ++ d, e)
                | e => (r_data r, e)
                end
  end.

(* ---------- a stream whose connection is ended abruptly ---------- *)
(* Conn.CloseConnection ends the whole QUIC connection at once: what was written but not yet
   delivered to the reading application is discarded.  What the property still demands of the
   reader's view: the bytes it was given are a prefix of the bytes written, and it is told
   end-of-stream only if the writer closed and every written byte has been given to it;
   otherwise its reads end with an error (or have not ended). *)
Fixpoint is_prefix (a b : bytes) : bool :=
  match a, b with
  | [], _ => true
  | x :: a', y :: b' => (x =? y) && is_prefix a' b'
  | _ :: _, [] => false
  end.
Definition abort_ok (written : list call) (read : list rd) : bool :=
  let '(d, e) := stream_of read in
  match e with
  | REof => beq_bytes d (writes_of written) && negb (Nat.eqb (closes_of written) 0)
  | _ => is_prefix d (writes_of written)
  end.

(* ---------- the stream-open marker ---------- *)
(* DialContext: qs.Write([]byte{0}) before the connection is handed to the application *)
Definition dial_calls (app : list call) : list call := CWrite [0] :: app.

(* the acceptor: one Read into a one-byte buffer; n must be 1 and the byte 0.  [rs] are the
   results the QUIC stream would give to arbitrary large reads; the one-byte read takes the first
   byte of the first non-empty result (an error arriving with no data fails the accept). *)
Inductive accepted := Accepted (rest : list rd) | Refused.
Fixpoint accept_stream (rs : list rd) : accepted :=
  match rs with
  | [] => Refused                                   (* never got the byte *)
  | r :: rs' =>
    match r_data r with
    | [] => if r_stops r then Refused else accept_stream rs'
    | b :: tl_ => if b =? 0 then Accepted (mkrd tl_ (r_stat r) :: rs') else Refused
    end
  end.

(* ---------- correspondence cases ---------- *)
Definition beq_call (a b : call) : bool :=
  match a, b with
  | CWrite x, CWrite y => beq_bytes x y
  | CClose, CClose => true
  | _, _ => false
  end.
Fixpoint beq_calls (a b : list call) : bool :=
  match a, b with
  | [], [] => true
  | x :: a', y :: b' => beq_call x y && beq_calls a' b'
  | _, _ => false
  end.
Definition beq_rstat (a b : rstat) : bool :=
  match a, b with ROk, ROk | REof, REof | RErr, RErr => true | _, _ => false end.

Inductive bridge_case :=
(* one direction of utils.BridgeConns over scripted connections: the scripted Read results of one
   side, the scripted Write results of the other, and the calls the other side recorded *)
| CHalf (rs : list rd) (ws : list wres) (obs : list call)
(* one direction of a real mesh stream (small transfers): the Write/Close calls of the writing
   application and the Read results of the reading application; [dialler] = written by the
   dialling side (the marker is added and stripped by receptor, the application never sees it) *)
| CStream (dialler : bool) (written : list call) (read : list rd)
(* the accept handshake against a RAW QUIC client (no DialContext, so the first byte is the
   client's choice): the client's Write/Close calls on its stream, and what Listener.Accept did:
   None = it returned an error (and receptor closed the connection), Some (d, e) = it returned a
   Conn from which the application read bytes d and then saw e *)
| CAccept (written : list call) (obs : option (bytes * rstat))
(* one direction of a real mesh stream whose writer ended the whole connection (CloseConnection)
   right after its writes (and Close), with a slow reader or over faulty links: the writer's
   calls and the reader's Read results *)
| CAbort (written : list call) (read : list rd).

Definition bridge_check (c : bridge_case) : bool :=
  match c with
  | CHalf rs ws obs => beq_calls (bridge_half rs ws) obs
  | CStream _ written read =>
    let '(d, e) := stream_of read in
    beq_bytes d (writes_of written) && beq_rstat e (if Nat.eqb (closes_of written) 0 then ROk else REof)
  | CAccept written obs =>
    (* by the marker theorems the outcome depends on the stream only, not on its chunking *)
    let e := if Nat.eqb (closes_of written) 0 then ROk else REof in
    match accept_stream [mkrd (writes_of written) e], obs with
    | Refused, None => true
    | Accepted rest, Some (d, e') => let '(d0, e0) := stream_of rest in beq_bytes d0 d && beq_rstat e0 e'
    | _, _ => false
    end
  | CAbort written read => abort_ok written read
  end.
