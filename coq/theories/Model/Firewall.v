(* Model/Firewall.v — pkg/netceptor/firewall_rules.go (ParseFirewallRules, ParseFirewallRule,
   BuildComps/buildComp, firewallRule, stringCompare, regexCompare) and the rule loop at the top
   of handleMessageData in pkg/netceptor/netceptor.go.

   Mirrors the tree AFTER /repo commit bfb4be0 "fix: firewall rules refuse malformed patterns and
   anchor regexes as a whole" (regexCompare anchors the pattern
   as ^(?:p)$ after compiling p on its own, refuses a pattern shorter than two characters, and
   buildComp/BuildComps hand the error up so that ParseFirewallRule refuses the rule; a key
   spelled twice in different case is refused instead of depending on map order).  The
   pinned behaviour is kept as [build_comp_hist] / [hist_match] / [parse_rules_hist] /
   [eval_hist]; Proofs/Firewall.v proves it wrong ([hist_*_refuted]).

   Texts are lists of Unicode code points (Model/Regex.v).  Go's regular-expression PARSER is
   not modelled: it enters as the Section variable [go_parse] (inner pattern text -> AST of the
   modelled dialect, or None when regexp.Compile refuses it); theorems hold for every
   [go_parse], the case files instantiate it with the finite table the harness observed. *)
From Coq Require Import String Ascii.
From Receptor Require Export Model.Regex.
Open Scope N_scope.

(* ---------- raw rules: what YAML/the caller puts into a FirewallRuleData map ---------- *)

Inductive rkey := KStr (k : text) | KOther.      (* KOther: a key that is not a string *)
Inductive rval := VStr (v : text) | VOther.      (* VOther: int, bool, nil, list, map ... *)
Definition raw_rule := list (rkey * rval).       (* in the order the Go map happens to iterate *)

(* strings.ToLower, as far as comparisons with ASCII keywords can tell: besides A-Z only
   U+0130 and U+212A have an ASCII lower case (the harness checks this over all runes) *)
Definition lower1 (c : N) : N :=
  if (65 <=? c) && (c <=? 90) then c + 32
  else if c =? 304 then 105
  else if c =? 8490 then 107
  else c.
Definition lower (s : text) : text := map lower1 s.

Definition kw_action : text := str "action".
Definition kw_fromnode : text := str "fromnode".
Definition kw_tonode : text := str "tonode".
Definition kw_fromservice : text := str "fromservice".
Definition kw_toservice : text := str "toservice".
Definition kw_accept : text := str "accept".
Definition kw_reject : text := str "reject".
Definition kw_drop : text := str "drop".
Definition svc_unreach : text := str "unreach".
Definition problem_rejected : text := str "blocked by firewall".
Definition svc_ping : text := str "ping".
Definition problem_service_unknown : text := str "service unknown".
Definition problem_expired : text := str "message expired".

(* the FirewallRule struct *)
Record frule := mkF { f_action : text; f_fromnode : text; f_tonode : text;
                      f_fromservice : text; f_toservice : text }.
Definition frule0 : frule := mkF [] [] [] [] [].

Inductive perr := EValue | EKey | EDup | EPattern | EAction.
Inductive pres (A : Type) := POk (a : A) | PErr (e : perr) | PPanic.
Arguments POk {A} a. Arguments PErr {A} e. Arguments PPanic {A}.

Definition bindp {A B} (x : pres A) (f : A -> pres B) : pres B :=
  match x with POk a => f a | PErr e => PErr e | PPanic => PPanic end.

(* the loop over rv.MapKeys() in ParseFirewallRule: value kind first, then a key already seen
   in another spelling (the map has no order: such a rule has no definite meaning; refused since
   the repair), then the key itself.  [seen] = lower-cased keys so far. *)
Definition set_field (fr : frule) (lk val : text) : option frule :=
  if beq_text lk kw_action then Some (mkF val (f_fromnode fr) (f_tonode fr) (f_fromservice fr) (f_toservice fr))
  else if beq_text lk kw_fromnode then Some (mkF (f_action fr) val (f_tonode fr) (f_fromservice fr) (f_toservice fr))
  else if beq_text lk kw_tonode then Some (mkF (f_action fr) (f_fromnode fr) val (f_fromservice fr) (f_toservice fr))
  else if beq_text lk kw_fromservice then Some (mkF (f_action fr) (f_fromnode fr) (f_tonode fr) val (f_toservice fr))
  else if beq_text lk kw_toservice then Some (mkF (f_action fr) (f_fromnode fr) (f_tonode fr) (f_fromservice fr) val)
  else None.

Definition mem_text (x : text) (l : list text) : bool := existsb (beq_text x) l.

Fixpoint fill_with (dupcheck : bool) (kvs : raw_rule) (seen : list text) (fr : frule) : pres frule :=
  match kvs with
  | [] => POk fr
  | (k, v) :: rest =>
    match v with
    | VOther => PErr EValue
    | VStr val =>
      match k with
      | KOther => PErr EKey                       (* key.Elem().String() = "<int Value>" ... *)
      | KStr ks =>
        let lk := lower ks in
        if dupcheck && mem_text lk seen then PErr EDup
        else match set_field fr lk val with
             | Some fr' => fill_with dupcheck rest (lk :: seen) fr'
             | None => PErr EKey
             end
      end
    end
  end.

Definition fill (kvs : raw_rule) : pres frule := fill_with true kvs [] frule0.
(* the pinned code: a later spelling of a key silently overwrites an earlier one *)
Definition fill_hist (kvs : raw_rule) : pres frule := fill_with false kvs [] frule0.

(* ---------- packets and compiled rules ---------- *)

Inductive field := FromNode | ToNode | FromService | ToService.

Record pkt := mkPkt { p_fromnode : text; p_fromservice : text; p_tonode : text; p_toservice : text }.

Definition pkt_field (f : field) (p : pkt) : text :=
  match f with
  | FromNode => p_fromnode p
  | ToNode => p_tonode p
  | FromService => p_fromservice p
  | ToService => p_toservice p
  end.

Inductive matcher := MLit (s : text) | MRe (r : re).
Definition comp := (field * matcher)%type.               (* one CompareFunc *)

Inductive action := Accept | Reject | Drop.
Inductive fwresult := FwContinue | FwAccept | FwReject | FwDrop.
Definition result_of (a : action) : fwresult :=
  match a with Accept => FwAccept | Reject => FwReject | Drop => FwDrop end.

Record prule := mkRule { pr_comps : list comp; pr_action : action }.   (* one FirewallRuleFunc *)

Definition action_of (a : text) : option action :=
  let la := lower a in
  if beq_text la kw_accept then Some Accept
  else if beq_text la kw_reject then Some Reject
  else if beq_text la kw_drop then Some Drop
  else None.

Definition slash : N := 47.
Definition inner (p : text) : text := removelast (tl p).          (* value[1:len(value)-1] *)

Section Parser.
  Variable go_parse : text -> option re.

  (* buildComp + regexCompare / stringCompare, repaired: None = field not given *)
  Definition build_comp (f : field) (p : text) : pres (option comp) :=
    match p with
    | [] => POk None
    | c :: _ =>
      if c =? slash then
        if Nat.ltb (length p) 2 then PErr EPattern
        else if negb (last p 0 =? slash) then PErr EPattern
        else match go_parse (inner p) with
             | Some r => POk (Some (f, MRe r))
             | None => PErr EPattern
             end
      else POk (Some (f, MLit p))
    end.

  (* the pinned code: value[1:len-1] on "/" is a slice-bounds panic; every error of
     regexCompare is thrown away by buildComp, leaving NO comparer for that field.  (The pinned
     code compiled "^"++inner++"$" as one pattern; for the generated dialect and the generated
     malformed patterns that compiles exactly when inner does.) *)
  Definition build_comp_hist (f : field) (p : text) : pres (option comp) :=
    match p with
    | [] => POk None
    | c :: _ =>
      if c =? slash then
        if Nat.ltb (length p) 2 then PPanic
        else if negb (last p 0 =? slash) then POk None
        else match go_parse (inner p) with
             | Some r => POk (Some (f, MRe r))
             | None => POk None
             end
      else POk (Some (f, MLit p))
    end.

  Definition opt_list {A} (o : option A) : list A := match o with Some a => [a] | None => [] end.

  (* BuildComps: fromnode, tonode, fromservice, toservice, in this order *)
  Definition build_comps_with (bc : field -> text -> pres (option comp)) (fr : frule) : pres (list comp) :=
    bindp (bc FromNode (f_fromnode fr)) (fun c1 =>
    bindp (bc ToNode (f_tonode fr)) (fun c2 =>
    bindp (bc FromService (f_fromservice fr)) (fun c3 =>
    bindp (bc ToService (f_toservice fr)) (fun c4 =>
      POk (opt_list c1 ++ opt_list c2 ++ opt_list c3 ++ opt_list c4))))).

  Definition parse_rule_with (fl : raw_rule -> pres frule) bc (raw : raw_rule) : pres prule :=
    bindp (fl raw) (fun fr =>
    bindp (build_comps_with bc fr) (fun comps =>
      match action_of (f_action fr) with
      | Some a => POk (mkRule comps a)
      | None => PErr EAction
      end)).

  Fixpoint parse_rules_with fl bc (l : list raw_rule) : pres (list prule) :=
    match l with
    | [] => POk []
    | r :: rest =>
      bindp (parse_rule_with fl bc r) (fun x =>
      bindp (parse_rules_with fl bc rest) (fun xs => POk (x :: xs)))
    end.

  Definition parse_rule := parse_rule_with fill build_comp.
  Definition parse_rules := parse_rules_with fill build_comp.
  Definition parse_rules_hist := parse_rules_with fill_hist build_comp_hist.
End Parser.

(* ---------- evaluation ---------- *)

(* what handleMessageData does with the verdict *)
Record unreach_msg := mkU { u_fromnode : text; u_tonode : text; u_fromservice : text;
                            u_toservice : text; u_problem : text }.

Inductive disposition :=
| DProceed                                  (* on to local delivery / forwarding *)
| DDrop                                     (* return nil, nothing else happens *)
| DReject (notice : option unreach_msg).    (* return nil after sendUnreachable(md.FromNode, ..) *)

(* sendUnreachable(to, msg) = sendMessage("unreach", to, "unreach", json(msg)): a NEW packet that
   the same node originates, i.e. it goes through handleMessageData — and the rules — again. *)
Definition notice_pkt (self : text) (u : unreach_msg) : pkt :=
  mkPkt self svc_unreach (u_fromnode u) svc_unreach.

Inductive chain_out := Delivered | Silent | Notified (by_node : text).
Inductive ping_out := PingReply | PingBlocked | PingSilence.

(* AddFirewallRules(rules, clearExisting) *)
Definition install {A} (cur : list A) (new : list A) (clear : bool) : list A :=
  if clear then new else cur ++ new.

Fixpoint install_all {A} (cur : list A) (h : list (list A * bool)) : list A :=
  match h with
  | [] => cur
  | (new, clear) :: rest => install_all (install cur new clear) rest
  end.

Section Eval.
  Variable rematch : re -> text -> bool.     (* [full] now, [hist_match] in the pinned tree *)

  Definition matcher_ok (m : matcher) (v : text) : bool :=
    match m with MLit s => beq_text v s | MRe r => rematch r v end.

  Definition comp_match (p : pkt) (c : comp) : bool := matcher_ok (snd c) (pkt_field (fst c) p).

  (* the closure returned by firewallRule (with no comparers it returns the result at once,
     which is what [forallb] over the empty list gives) *)
  Definition rule_fn_with (r : prule) (p : pkt) : fwresult :=
    if forallb (comp_match p) (pr_comps r) then result_of (pr_action r) else FwContinue.

  (* for _, rule := range s.firewallRules { result = rule(md); if result != Continue { break } } *)
  Fixpoint fw_loop_with (rules : list prule) (p : pkt) (result : fwresult) : fwresult :=
    match rules with
    | [] => result
    | r :: rest =>
      match rule_fn_with r p with
      | FwContinue => fw_loop_with rest p FwContinue
      | res => res
      end
    end.

  Definition eval_with (rules : list prule) (p : pkt) : fwresult := fw_loop_with rules p FwAccept.

  (* what handleMessageData does with the verdict *)
  Definition handle_with (rules : list prule) (p : pkt) : disposition :=
    match eval_with rules p with
    | FwAccept | FwContinue => DProceed       (* Continue: no case of the switch applies *)
    | FwDrop => DDrop
    | FwReject =>
      DReject (if beq_text (p_fromservice p) svc_unreach then None
               else Some (mkU (p_fromnode p) (p_tonode p) (p_fromservice p) (p_toservice p) problem_rejected))
    end.

  (* every packet that gets past this node's firewall because of [p], with the notice it carries *)
  Definition node_handle_with (self : text) (rules : list prule) (p : pkt) : list (pkt * option unreach_msg) :=
    match handle_with rules p with
    | DProceed => [(p, None)]
    | DDrop => []
    | DReject None => []
    | DReject (Some u) =>
      let np := notice_pkt self u in
      match handle_with rules np with
      | DProceed => [(np, Some u)]
      | _ => []                             (* np is from service "unreach": never a second notice *)
      end
    end.

  Definition passes_with (rules : list prule) (p : pkt) : bool :=
    match handle_with rules p with DProceed => true | _ => false end.

  (* any other notice the node originates (sendUnreachable): through the same rules *)
  Definition emit_with (self : text) (rules : list prule) (u : unreach_msg) : list (pkt * option unreach_msg) :=
    let np := notice_pkt self u in
    if passes_with rules np then [(np, Some u)] else [].

  (* the packet judged by [r1], the notice it may cause — another packet — by [r2] (the rule
     set can be replaced in between) *)
  Definition node_handle2_with (self : text) (r1 r2 : list prule) (p : pkt) : list (pkt * option unreach_msg) :=
    match handle_with r1 p with
    | DProceed => [(p, None)]
    | DDrop => []
    | DReject None => []
    | DReject (Some u) => emit_with self r2 u
    end.

  (* handleMessageData to the end, for a packet that is not a local ping-to-self: after the
     firewall the packet is delivered (listener / reserved service "unreach"), answered (reserved
     service "ping": the reply is a packet this node originates), refused with "service unknown"
     (no listener), forwarded, or expired (no hops left) — and every packet the node originates on
     the way goes through the rules again.  [listening]: a listener for ToService exists here;
     [hops]: HopsToLive > 0. *)
  Definition node_full_with (self : text) (rules : list prule) (p : pkt) (listening hops : bool)
    : list (pkt * option unreach_msg) :=
    match handle_with rules p with
    | DProceed =>
      let u problem := mkU (p_fromnode p) (p_tonode p) (p_fromservice p) (p_toservice p) problem in
      if beq_text (p_tonode p) self then
        if beq_text (p_toservice p) svc_ping
        then (if beq_text (p_fromservice p) svc_ping then []    (* a reply is not answered *)
              else node_handle_with self rules (mkPkt self svc_ping (p_fromnode p) (p_fromservice p)))
        else if beq_text (p_toservice p) svc_unreach then [(p, None)]
        else if listening then [(p, None)]
        else if beq_text (p_fromnode p) self then []            (* an error to the local sender *)
        else emit_with self rules (u problem_service_unknown)
      else if hops then [(p, None)]
      else if beq_text (p_fromservice p) svc_unreach then []
      else emit_with self rules (u problem_expired)
    | _ => node_handle_with self rules p
    end.

  (* "receptorctl ping <self>" on a node: request self:eph -> self:ping, reply self:ping -> self:eph;
     the pinger hears notices about packets from self:eph only *)
  Definition ping_self_with (self eph : text) (rules : list prule) : ping_out :=
    let req := mkPkt self eph self svc_ping in
    match handle_with rules req with
    | DProceed => if passes_with rules (mkPkt self svc_ping self eph) then PingReply else PingSilence
    | DReject (Some u) => if passes_with rules (notice_pkt self u) then PingBlocked else PingSilence
    | _ => PingSilence
    end.

  (* a line of nodes: [p] enters at the first node of [rest] and travels to the last one, which
     is its destination; [visited] are the nodes already passed, nearest first (the way back) *)
  Fixpoint chain_with (visited rest : list (text * list prule)) (p : pkt) : chain_out :=
    match rest with
    | [] => Delivered
    | n :: rest' =>
      match handle_with (snd n) p with
      | DProceed => chain_with (n :: visited) rest' p
      | DDrop => Silent
      | DReject None => Silent
      | DReject (Some u) =>
        if forallb (fun m => passes_with (snd m) (notice_pkt (fst n) u)) (n :: visited)
        then Notified (fst n) else Silent
      end
    end.
End Eval.

Definition rule_fn := rule_fn_with full.
Definition fw_loop := fw_loop_with full.
Definition eval := eval_with full.
Definition eval_hist := eval_with hist_match.
Definition handle := handle_with full.
Definition node_handle := node_handle_with full.
Definition passes := passes_with full.
Definition emit := emit_with full.
Definition node_full := node_full_with full.
Definition ping_self := ping_self_with full.
Definition chain := chain_with full.

(* ---------- specification vocabulary (used by Props/C12.v) ---------- *)

(* "a rule matches when all of its given fields equal the packet's fields, or fully match them
   when written as /regex/" — declaratively, with the inductive language of Model/Regex.v *)
Definition matcher_spec (m : matcher) (v : text) : Prop :=
  match m with MLit s => v = s | MRe r => lang r v end.

Definition matches (r : prule) (p : pkt) : Prop :=
  forall f m, In (f, m) (pr_comps r) -> matcher_spec m (pkt_field f p).

(* the rule that decides: the first one that matches *)
Inductive decides : list prule -> pkt -> option prule -> Prop :=
| DecNone p : decides [] p None
| DecHere r rest p : matches r p -> decides (r :: rest) p (Some r)
| DecLater r rest p d : ~ matches r p -> decides rest p d -> decides (r :: rest) p d.

Definition verdict (d : option prule) : action :=
  match d with Some r => pr_action r | None => Accept end.

(* the action a packet effectively gets *)
Definition effective (res : fwresult) : action :=
  match res with FwReject => Reject | FwDrop => Drop | _ => Accept end.

(* uninterpretable elements of a raw rule list *)
Definition known_key (k : text) : bool :=
  let lk := lower k in
  beq_text lk kw_action || beq_text lk kw_fromnode || beq_text lk kw_tonode
  || beq_text lk kw_fromservice || beq_text lk kw_toservice.

Definition is_action_key (k : rkey) : bool :=
  match k with KStr ks => beq_text (lower ks) kw_action | KOther => false end.

Definition malformed_pattern (go_parse : text -> option re) (v : text) : bool :=
  match v with
  | c :: _ => (c =? slash) &&
              (Nat.ltb (length v) 2 || negb (last v 0 =? slash)
               || match go_parse (inner v) with None => true | Some _ => false end)
  | [] => false
  end.

Definition bad_element (go_parse : text -> option re) (kv : rkey * rval) : bool :=
  match kv with
  | (_, VOther) => true                                   (* non-string value *)
  | (KOther, _) => true                                   (* key that is not even a string *)
  | (KStr k, VStr v) =>
    negb (known_key k)                                    (* unknown key *)
    || (if beq_text (lower k) kw_action
        then match action_of v with None => true | Some _ => false end   (* unknown action *)
        else malformed_pattern go_parse v)                (* malformed pattern *)
  end.

(* the same key twice, in whatever spelling *)
Fixpoint dup_keys (r : raw_rule) (seen : list text) : bool :=
  match r with
  | [] => false
  | (KStr k, _) :: rest => mem_text (lower k) seen || dup_keys rest (lower k :: seen)
  | (KOther, _) :: rest => dup_keys rest seen
  end.

Definition bad_rule (go_parse : text -> option re) (r : raw_rule) : bool :=
  existsb (bad_element go_parse) r
  || negb (existsb (fun kv => is_action_key (fst kv)) r)     (* no action at all *)
  || dup_keys r [].

(* what the four disposition of handleMessageData should be, given the deciding action *)
Definition dictated (a : action) (p : pkt) : disposition :=
  match a with
  | Accept => DProceed
  | Drop => DDrop
  | Reject =>
    DReject (if beq_text (p_fromservice p) svc_unreach then None
             else Some (mkU (p_fromnode p) (p_tonode p) (p_fromservice p) (p_toservice p) problem_rejected))
  end.

(* ---------- correspondence cases ---------- *)

(* texts in the case files: one string token per text (a list of numerals is slow to read);
   a backslash starts a hexadecimal code point that ends at ";" *)
Fixpoint tx_go (s : string) (esc : option N) : text :=
  match s with
  | EmptyString => []
  | String a r =>
    let n := N_of_ascii a in
    match esc with
    | None => if n =? 92 then tx_go r (Some 0) else n :: tx_go r None
    | Some acc => if n =? 59 then acc :: tx_go r None else tx_go r (Some (16 * acc + hexval a))
    end
  end.
Definition tx (s : string) : text := tx_go s None.

Fixpoint lookup (tbl : list (text * option re)) (s : text) : option re :=
  match tbl with
  | [] => None
  | (k, v) :: rest => if beq_text k s then v else lookup rest s
  end.

Definition beq_res (a b : fwresult) : bool :=
  match a, b with
  | FwContinue, FwContinue | FwAccept, FwAccept | FwReject, FwReject | FwDrop, FwDrop => true
  | _, _ => false
  end.

Fixpoint beq_list {A} (eq : A -> A -> bool) (a b : list A) : bool :=
  match a, b with
  | [], [] => true
  | x :: a', y :: b' => eq x y && beq_list eq a' b'
  | _, _ => false
  end.

Definition beq_pkt (a b : pkt) : bool :=
  beq_text (p_fromnode a) (p_fromnode b) && beq_text (p_fromservice a) (p_fromservice b)
  && beq_text (p_tonode a) (p_tonode b) && beq_text (p_toservice a) (p_toservice b).

Definition beq_unreach (a b : unreach_msg) : bool :=
  beq_text (u_fromnode a) (u_fromnode b) && beq_text (u_tonode a) (u_tonode b)
  && beq_text (u_fromservice a) (u_fromservice b) && beq_text (u_toservice a) (u_toservice b)
  && beq_text (u_problem a) (u_problem b).

Definition beq_opt {A} (eq : A -> A -> bool) (a b : option A) : bool :=
  match a, b with
  | None, None => true
  | Some x, Some y => eq x y
  | _, _ => false
  end.

Definition beq_out (a b : pkt * option unreach_msg) : bool :=
  beq_pkt (fst a) (fst b) && beq_opt beq_unreach (snd a) (snd b).

Definition beq_chain (a b : chain_out) : bool :=
  match a, b with
  | Delivered, Delivered | Silent, Silent => true
  | Notified x, Notified y => beq_text x y
  | _, _ => false
  end.

Inductive parse_obs := ObsOk | ObsErr | ObsPanic.

Definition table := list (text * option re).

(* monomorphic spellings of the pairs used in the case files (a pair or an option written with
   the polymorphic notations costs the elaborator far more than it costs the evaluator) *)
Definition TS (s : text) (r : re) : text * option re := (s, Some r).
Definition TN (s : text) : text * option re := (s, None).
Definition KV (k : rkey) (v : rval) : rkey * rval := (k, v).
Definition RG (lo hi : N) : N * N := (lo, hi).
Definition PK (p : pkt) (l : list fwresult) : pkt * list fwresult := (p, l).
Definition OP (p : pkt) : pkt * option unreach_msg := (p, None).
Definition ON (p : pkt) (u : unreach_msg) : pkt * option unreach_msg := (p, Some u).
Definition ND (self : text) (p : pkt) (listening hops : bool) (out : list (pkt * option unreach_msg))
  : text * pkt * (bool * bool) * list (pkt * option unreach_msg) := (self, p, (listening, hops), out).
Definition PO (p : pkt) (out : list (pkt * option unreach_msg)) : pkt * list (pkt * option unreach_msg) := (p, out).
Definition HI (rs : list raw_rule) (clear : bool) : list raw_rule * bool := (rs, clear).
Definition NR (id : text) (rs : list raw_rule) : text * list raw_rule := (id, rs).

Inductive fw_case :=
(* ParseFirewallRules(rules): result class, and for every packet the result of each returned
   FirewallRuleFunc and of the loop of handleMessageData (the latter observed on a real node) *)
| CParse (tbl : table) (rules : list raw_rule) (o : parse_obs)
         (pk : list (pkt * list fwresult))
         (* real nodes [self] with these rules installed handle [p]: what leaves the firewall *)
         (nd : list (text * pkt * (bool * bool) * list (pkt * option unreach_msg)))
(* a line of real nodes, each with its own rules; [p] is sent by the first to the last *)
| CChain (tbl : table) (nodes : list (text * list raw_rule)) (p : pkt) (o : chain_out)
(* the receptor binary started with "node: firewallrules: [...]": did it come up? *)
| CConfig (tbl : table) (rules : list raw_rule) (started : bool)
(* a history of AddFirewallRules(rules, clearExisting) calls on one real node, then packets *)
| CHist (tbl : table) (h : list (list raw_rule * bool)) (self : text)
        (nd : list (pkt * list (pkt * option unreach_msg)))
(* rule sets A and B are installed alternately (clearExisting) while the packet is handled: the
   packet is judged by A or by B as a whole, and so is the notice it may cause *)
| CEither (tbl : table) (a b : list raw_rule) (self : text) (p : pkt)
          (out : list (pkt * option unreach_msg))
(* the receptor binary running with these rules is asked to ping itself *)
| CPing (tbl : table) (rules : list raw_rule) (self eph : text) (o : ping_out).

Fixpoint parse_nodes (pr : (text -> option re) -> list raw_rule -> pres (list prule))
         (gp : text -> option re) (nodes : list (text * list raw_rule))
  : option (list (text * list prule)) :=
  match nodes with
  | [] => Some []
  | (id, raw) :: rest =>
    match pr gp raw, parse_nodes pr gp rest with
    | POk rs, Some l => Some ((id, rs) :: l)
    | _, _ => None
    end
  end.

Fixpoint parse_hist (pr : (text -> option re) -> list raw_rule -> pres (list prule))
         (gp : text -> option re) (h : list (list raw_rule * bool))
  : option (list (list prule * bool)) :=
  match h with
  | [] => Some []
  | (raw, clear) :: rest =>
    match pr gp raw, parse_hist pr gp rest with
    | POk rs, Some l => Some ((rs, clear) :: l)
    | _, _ => None
    end
  end.

Definition beq_ping (a b : ping_out) : bool :=
  match a, b with
  | PingReply, PingReply | PingBlocked, PingBlocked | PingSilence, PingSilence => true
  | _, _ => false
  end.

Definition fw_check_with (pr : (text -> option re) -> list raw_rule -> pres (list prule))
           (rm : re -> text -> bool) (c : fw_case) : bool :=
  match c with
  | CParse tbl rules o pk nd =>
    match pr (lookup tbl) rules, o with
    | POk rs, ObsOk =>
      forallb (fun x => beq_list beq_res (map (fun r => rule_fn_with rm r (fst x)) rs) (snd x)) pk
      && forallb (fun x => let '(self, p, (listening, hops), out) := x in
                           beq_list beq_out (node_full_with rm self rs p listening hops) out) nd
    | PErr _, ObsErr => true
    | PPanic, ObsPanic => true
    | _, _ => false
    end
  | CChain tbl nodes p o =>
    match parse_nodes pr (lookup tbl) nodes with
    | Some ns => beq_chain (chain_with rm [] ns p) o
    | None => false
    end
  | CHist tbl h self nd =>
    match parse_hist pr (lookup tbl) h with
    | Some hs =>
      let rs := install_all [] hs in
      forallb (fun x => beq_list beq_out (node_handle_with rm self rs (fst x)) (snd x)) nd
    | None => false
    end
  | CEither tbl a b self p out =>
    match pr (lookup tbl) a, pr (lookup tbl) b with
    | POk ra, POk rb =>
      existsb (fun xy => beq_list beq_out (node_handle2_with rm self (fst xy) (snd xy) p) out)
              [(ra, ra); (ra, rb); (rb, ra); (rb, rb)]
    | _, _ => false
    end
  | CPing tbl rules self eph o =>
    match pr (lookup tbl) rules with
    | POk rs => beq_ping (ping_self_with rm self eph rs) o
    | _ => false
    end
  | CConfig tbl rules started =>
    match pr (lookup tbl) rules with
    | POk _ => started
    | _ => negb started
    end
  end.

Definition fw_check : fw_case -> bool := fw_check_with parse_rules full.
(* the same comparison against the pinned behaviour (run by hand against the unrepaired tree) *)
Definition fw_check_hist : fw_case -> bool := fw_check_with parse_rules_hist hist_match.
