(* Model/Fs.v — the part of a POSIX file system that workceptor's persistence relies on
   (property C04): a map from paths to directories and regular files, changed by atomic
   operations.  A process that is killed has executed a prefix of its operations; one operation
   (one system call) is never torn by a kill.  What a power loss does to unsynced data is outside
   the model: the property is about process death.

     Mkdir p          os.MkdirAll(p)                       (no effect if p exists)
     OpenCreate p     open(p, O_CREAT|…) without O_TRUNC   (creates an empty file if absent)
     OpenTrunc p      open(p, O_CREAT|O_TRUNC|…)           (the file is empty afterwards)
     Truncate p       ftruncate(fd, 0)
     WriteAt p o b    write of b at offset o (extends the file; a gap reads as zeros)
     Append p b       write to a descriptor opened O_APPEND, or by the only writer at its end
     RemoveAll p      os.RemoveAll(p): p and everything below it *)
From Receptor Require Export Base.Hex.
Open Scope N_scope.

Definition path := list N.

Fixpoint beq_path (a b : path) : bool :=
  match a, b with
  | [], [] => true
  | x :: a', y :: b' => (x =? y) && beq_path a' b'
  | _, _ => false
  end.

Fixpoint is_under (p q : path) : bool :=   (* q = p or q below p *)
  match p, q with
  | [], _ => true
  | x :: p', y :: q' => (x =? y) && is_under p' q'
  | _, _ => false
  end.

Inductive fnode := Dir | File (content : bytes).

Definition fsstate := list (path * fnode).

Fixpoint fs_get (fs : fsstate) (p : path) : option fnode :=
  match fs with
  | [] => None
  | (q, n) :: r => if beq_path q p then Some n else fs_get r p
  end.

Fixpoint fs_set (fs : fsstate) (p : path) (n : fnode) : fsstate :=
  match fs with
  | [] => [(p, n)]
  | (q, m) :: r => if beq_path q p then (q, n) :: r else (q, m) :: fs_set r p n
  end.

Definition fs_remove_all (fs : fsstate) (p : path) : fsstate :=
  filter (fun e => negb (is_under p (fst e))) fs.

Definition file_content (fs : fsstate) (p : path) : option bytes :=
  match fs_get fs p with Some (File c) => Some c | _ => None end.

Definition is_dir (fs : fsstate) (p : path) : bool :=
  match fs_get fs p with Some Dir => true | _ => false end.

Inductive fsop :=
| Mkdir (p : path)
| OpenCreate (p : path)
| OpenTrunc (p : path)
| Truncate (p : path)
| WriteAt (p : path) (off : N) (b : bytes)
| Append (p : path) (b : bytes)
| RemoveAll (p : path).

Definition write_at (c : bytes) (off : N) (b : bytes) : bytes :=
  let o := N.to_nat off in
  firstn o c ++ repeat 0 (o - length c) ++ b ++ skipn (o + length b) c.

Definition apply_op (fs : fsstate) (o : fsop) : fsstate :=
  match o with
  | Mkdir p => match fs_get fs p with None => fs_set fs p Dir | Some _ => fs end
  | OpenCreate p => match fs_get fs p with None => fs_set fs p (File []) | Some _ => fs end
  | OpenTrunc p => match fs_get fs p with Some Dir => fs | _ => fs_set fs p (File []) end
  | Truncate p => match fs_get fs p with Some (File _) => fs_set fs p (File []) | _ => fs end
  | WriteAt p off b =>
    match fs_get fs p with Some (File c) => fs_set fs p (File (write_at c off b)) | _ => fs end
  | Append p b =>
    match fs_get fs p with
    | Some (File c) => fs_set fs p (File (c ++ b))
    | None => fs_set fs p (File b)
    | Some Dir => fs
    end
  | RemoveAll p => fs_remove_all fs p
  end.

Definition apply_ops (fs : fsstate) (ops : list fsop) : fsstate := fold_left apply_op ops fs.

(* every state a process kill can leave behind: the effect of a prefix of the operations *)
Definition crash_states (fs : fsstate) (ops : list fsop) : list fsstate :=
  map (fun k => apply_ops fs (firstn k ops)) (seq 0 (S (length ops))).

(* the path an operation touches *)
Definition op_path (o : fsop) : path :=
  match o with
  | Mkdir p | OpenCreate p | OpenTrunc p | Truncate p | WriteAt p _ _ | Append p _ | RemoveAll p => p
  end.
