(* Model/Lock.v — property C14: the status record of a work unit is read, modified and rewritten
   under an advisory lock (pkg/workceptor/workunitbase.go).

   What is mirrored, step by step (each line one atomic step of one goroutine):

     UpdateFullStatus(filename, f)                          Load(filename)
       Lock    lockedfile.OpenFile(filename+".lock")          Lock    (same)
               = openat(O_CREAT|O_WRONLY) ; flock(LOCK_EX) ; ftruncate(lock file)
       Open    os.OpenFile(filename, O_CREATE|O_RDWR)         Open    os.Open(filename)
       Read    size := Seek(0,2); Seek(0,0);                  Read    io.ReadAll ; json.Unmarshal
               if size > 0 { ReadAll ; Unmarshal into sfd }            (error on an empty/absent file:
               (an EMPTY file leaves the in-memory record)             the in-memory record is kept)
       Apply   statusFunc(sfd)
       Trunc   Seek(0,0) ; Truncate(0)
       Write   json.Marshal ; Write
       Unlock  file.Close ; flock(LOCK_UN) ; lockFile.Close   Unlock  (same)

   A "process" of the model is one goroutine of one OS process: flock locks belong to the open
   file description and every call opens the lock file anew, so two goroutines of the same
   process exclude each other exactly like two processes.  Every process owns an in-memory record
   ([p_mem], the receiver [sfd] of the Go methods; the runner keeps one for its whole life).
   A schedule is a list of process indices; a process whose next step is [Lock] while the lock is
   taken does not move (flock blocks).  [run true] is the code as written, [run false] the same
   code without the lock (the mutation "drop lockStatusFile"), kept to prove what breaks.

     Save(filename)  (AllocateUnit, BaseWorkUnit.Save)
       Lock       (same)
       OpenTrunc  os.OpenFile(filename, O_CREATE|O_WRONLY|O_TRUNC): the file is empty from here
       Write      json.Marshal of the in-memory record ; Write
       Unlock     file.Close ; flock(LOCK_UN) ; lockFile.Close
   A Save does not read: it is an update whose function is constant, the saver's in-memory record.
   STDoutWriter.Write -> saveStdoutSize (stdio_utils.go) is ONE UpdateFullStatus whose function
   sets StdoutSize: in the model an update ([set_own] on the harness' records).  The composition
   "Load ; Save" instead of it (a seeded mutation) is two critical sections: refuted in Proofs.
   [step_early] is Save with the truncating open BEFORE the lock (a seeded mutation), kept to
   prove what breaks.

   The record type is a parameter; the file holds a whole record or nothing ([FEmpty]: absent or
   zero length — the state between Trunc and Write). *)
From Receptor Require Export Base.Hex.
Open Scope N_scope.

Fixpoint upd {A} (n : nat) (x : A) (l : list A) : list A :=
  match l, n with
  | [], _ => []
  | _ :: t, O => x :: t
  | h :: t, S n' => h :: upd n' x t
  end.

Inductive label := SLock | SOpen | SRead | SApply | STrunc | SWrite | SUnlock | SOpenTrunc.

Section LockModel.
Variable R : Type.

Inductive fcontent := FEmpty | FRec (r : R).

Inductive op := OUpd (f : R -> R) | OLoad | OSave.

Inductive phase :=
| Idle
| ULocked (f : R -> R) | UOpened (f : R -> R) | UReadDone (f : R -> R)
| UApplied (f : R -> R) | UTrunced (f : R -> R) | UWritten (f : R -> R)
| LLocked | LOpened | LReadDone
| SvLocked | SvTrunced | SvWritten
| SvPre.   (* only in [step_early]: the file is already truncated, the lock not yet taken *)

Record proc := mkProc { p_ops : list op; p_phase : phase; p_mem : R }.

Record conf := mkConf {
  c_file : fcontent;
  c_lock : option nat;
  c_procs : list proc;
  c_order : list (nat * op);         (* ghost: operations in lock-acquisition order *)
  c_reads : list (nat * fcontent);   (* ghost: what every Read step found in the file *)
  c_trace : list (nat * label) }.    (* ghost: the steps executed, in order *)

(* json.Unmarshal into the receiver: a non-empty file replaces the record, an empty one keeps it *)
Definition read_into (file : fcontent) (m : R) : R :=
  match file with FRec r => r | FEmpty => m end.

Definition is_some {A} (o : option A) : bool := match o with Some _ => true | None => false end.

Definition first_phase (o : op) : phase :=
  match o with OUpd f => ULocked f | OLoad => LLocked | OSave => SvLocked end.

(* one step of process [p]; [locking = false] is the variant without lockStatusFile *)
Definition step (locking : bool) (p : nat) (c : conf) : conf :=
  match nth_error (c_procs c) p with
  | None => c
  | Some pr =>
    let set ph m := upd p (mkProc (p_ops pr) ph m) (c_procs c) in
    let m := p_mem pr in
    match p_phase pr with
    | Idle =>
      match p_ops pr with
      | [] => c
      | o :: rest =>
        if locking && is_some (c_lock c) then c
        else mkConf (c_file c) (if locking then Some p else c_lock c)
                    (upd p (mkProc rest (first_phase o) m) (c_procs c))
                    (c_order c ++ [(p, o)]) (c_reads c) (c_trace c ++ [(p, SLock)])
      end
    | ULocked f =>
      mkConf (c_file c) (c_lock c) (set (UOpened f) m) (c_order c) (c_reads c) (c_trace c ++ [(p, SOpen)])
    | UOpened f =>
      mkConf (c_file c) (c_lock c) (set (UReadDone f) (read_into (c_file c) m)) (c_order c)
             (c_reads c ++ [(p, c_file c)]) (c_trace c ++ [(p, SRead)])
    | UReadDone f =>
      mkConf (c_file c) (c_lock c) (set (UApplied f) (f m)) (c_order c) (c_reads c) (c_trace c ++ [(p, SApply)])
    | UApplied f =>
      mkConf FEmpty (c_lock c) (set (UTrunced f) m) (c_order c) (c_reads c) (c_trace c ++ [(p, STrunc)])
    | UTrunced f =>
      mkConf (FRec m) (c_lock c) (set (UWritten f) m) (c_order c) (c_reads c) (c_trace c ++ [(p, SWrite)])
    | UWritten f =>
      mkConf (c_file c) None (set Idle m) (c_order c) (c_reads c) (c_trace c ++ [(p, SUnlock)])
    | LLocked =>
      mkConf (c_file c) (c_lock c) (set LOpened m) (c_order c) (c_reads c) (c_trace c ++ [(p, SOpen)])
    | LOpened =>
      mkConf (c_file c) (c_lock c) (set LReadDone (read_into (c_file c) m)) (c_order c)
             (c_reads c ++ [(p, c_file c)]) (c_trace c ++ [(p, SRead)])
    | LReadDone =>
      mkConf (c_file c) None (set Idle m) (c_order c) (c_reads c) (c_trace c ++ [(p, SUnlock)])
    | SvLocked =>
      mkConf FEmpty (c_lock c) (set SvTrunced m) (c_order c) (c_reads c) (c_trace c ++ [(p, SOpenTrunc)])
    | SvTrunced =>
      mkConf (FRec m) (c_lock c) (set SvWritten m) (c_order c) (c_reads c) (c_trace c ++ [(p, SWrite)])
    | SvWritten =>
      mkConf (c_file c) None (set Idle m) (c_order c) (c_reads c) (c_trace c ++ [(p, SUnlock)])
    | SvPre => c
    end
  end.

(* the mutation "Save truncates before it takes the lock": OpenTrunc ; Lock ; Write ; Unlock.
   Everything else as in [step true]. *)
Definition step_early (p : nat) (c : conf) : conf :=
  match nth_error (c_procs c) p with
  | None => c
  | Some pr =>
    match p_phase pr, p_ops pr with
    | Idle, OSave :: rest =>
      mkConf FEmpty (c_lock c) (upd p (mkProc rest SvPre (p_mem pr)) (c_procs c))
             (c_order c) (c_reads c) (c_trace c ++ [(p, SOpenTrunc)])
    | SvPre, _ =>
      if is_some (c_lock c) then c
      else mkConf (c_file c) (Some p) (upd p (mkProc (p_ops pr) SvTrunced (p_mem pr)) (c_procs c))
                  (c_order c ++ [(p, OSave)]) (c_reads c) (c_trace c ++ [(p, SLock)])
    | _, _ => step true p c
    end
  end.

Definition run_early (sched : list nat) (c : conf) : conf :=
  fold_left (fun c p => step_early p c) sched c.

(* the mutation "an update that would not change the writer's CACHED record is skipped": no lock,
   no read, success reported.  [same] compares records.  Everything else as in [step true]. *)
Definition step_cached (same : R -> R -> bool) (p : nat) (c : conf) : conf :=
  match nth_error (c_procs c) p with
  | None => c
  | Some pr =>
    match p_phase pr, p_ops pr with
    | Idle, OUpd f :: rest =>
      if same (f (p_mem pr)) (p_mem pr)
      then mkConf (c_file c) (c_lock c) (upd p (mkProc rest Idle (p_mem pr)) (c_procs c))
                  (c_order c) (c_reads c) (c_trace c)
      else step true p c
    | _, _ => step true p c
    end
  end.

Definition run_cached (same : R -> R -> bool) (sched : list nat) (c : conf) : conf :=
  fold_left (fun c p => step_cached same p c) sched c.

Definition run (locking : bool) (sched : list nat) (c : conf) : conf :=
  fold_left (fun c p => step locking p c) sched c.

(* initial configuration: programs and initial in-memory records of the processes *)
Definition init_procs (progs : list (list op * R)) : list proc :=
  map (fun pm => mkProc (fst pm) Idle (snd pm)) progs.

Definition init (file0 : fcontent) (progs : list (list op * R)) : conf :=
  mkConf file0 None (init_procs progs) [] [] [].

Definition proc_done (pr : proc) : bool :=
  match p_phase pr, p_ops pr with Idle, [] => true | _, _ => false end.
Definition all_done (c : conf) : bool := forallb proc_done (c_procs c).

(* ---------- the specification: the same operations executed one at a time ---------- *)

Record astate := mkA { a_file : fcontent; a_mems : list R; a_reads : list (nat * fcontent) }.

Definition atomic_op (a : astate) (po : nat * op) : astate :=
  match nth_error (a_mems a) (fst po) with
  | None => a
  | Some m =>
    let m' := read_into (a_file a) m in
    match snd po with
    | OUpd f => mkA (FRec (f m')) (upd (fst po) (f m') (a_mems a)) (a_reads a ++ [(fst po, a_file a)])
    | OLoad => mkA (a_file a) (upd (fst po) m' (a_mems a)) (a_reads a ++ [(fst po, a_file a)])
    | OSave => mkA (FRec m) (a_mems a) (a_reads a)
    end
  end.

Definition atomic_run (a : astate) (order : list (nat * op)) : astate := fold_left atomic_op order a.

Definition a_init (file0 : fcontent) (progs : list (list op * R)) : astate :=
  mkA file0 (map snd progs) [].

(* the update functions of an order, and the operations one process contributed to it *)
Fixpoint upd_fns (order : list (nat * op)) : list (R -> R) :=
  match order with
  | [] => []
  | (_, OUpd f) :: r => f :: upd_fns r
  | (_, OLoad) :: r => upd_fns r
  | (_, OSave) :: r => upd_fns r
  end.

Definition is_save (o : op) : bool := match o with OSave => true | _ => false end.
Definition no_saves (order : list (nat * op)) : bool := forallb (fun po => negb (is_save (snd po))) order.

Fixpoint ops_of (q : nat) (order : list (nat * op)) : list op :=
  match order with
  | [] => []
  | (p, o) :: r => if Nat.eqb p q then o :: ops_of q r else ops_of q r
  end.

Definition apply_all (fs : list (R -> R)) (r : R) : R := fold_left (fun r f => f r) fs r.

End LockModel.

Arguments FEmpty {R}. Arguments FRec {R} r.
Arguments OUpd {R} f. Arguments OLoad {R}. Arguments OSave {R}.
Arguments mkProc {R}. Arguments mkConf {R}. Arguments mkA {R}.
Arguments c_file {R}. Arguments c_lock {R}. Arguments c_procs {R}. Arguments c_order {R}.
Arguments c_reads {R}. Arguments c_trace {R}.
Arguments p_ops {R}. Arguments p_phase {R}. Arguments p_mem {R}.
Arguments a_file {R}. Arguments a_mems {R}. Arguments a_reads {R}.
Arguments step {R}. Arguments run {R}. Arguments init {R}. Arguments init_procs {R}.
Arguments all_done {R}. Arguments proc_done {R}.
Arguments atomic_op {R}. Arguments atomic_run {R}. Arguments a_init {R}.
Arguments upd_fns {R}. Arguments ops_of {R}. Arguments apply_all {R}. Arguments read_into {R}.
Arguments Idle {R}. Arguments ULocked {R} f. Arguments UOpened {R} f. Arguments UReadDone {R} f.
Arguments UApplied {R} f. Arguments UTrunced {R} f. Arguments UWritten {R} f.
Arguments LLocked {R}. Arguments LOpened {R}. Arguments LReadDone {R}. Arguments first_phase {R}.
Arguments SvLocked {R}. Arguments SvTrunced {R}. Arguments SvWritten {R}. Arguments SvPre {R}.
Arguments step_cached {R}. Arguments run_cached {R}.
Arguments step_early {R}. Arguments run_early {R}. Arguments is_save {R}. Arguments no_saves {R}.

(* ---------- the instance exercised by the harness: counters ----------
   record = (shared counter, one counter per writer).  Writer [w] increments the shared counter
   and its own; nobody else touches counter [w]. *)

Definition crec := (N * list N)%type.

Definition incr (w : nat) (r : crec) : crec :=
  (fst r + 1, upd w (nth w (snd r) 0 + 1) (snd r)).

Definition crec0 (nw : nat) : crec := (0, repeat 0 nw).

(* saveStdoutSize of the writer that owns counter [w]: the size becomes [n], nothing else changes *)
Definition set_own (w : nat) (n : N) (r : crec) : crec := (fst r, upd w n (snd r)).

Fixpoint beq_nlist (a b : list N) : bool :=
  match a, b with
  | [], [] => true
  | x :: a', y :: b' => (x =? y) && beq_nlist a' b'
  | _, _ => false
  end.

Definition crec_eqb (a b : crec) : bool := (fst a =? fst b) && beq_nlist (snd a) (snd b).

Definition fc_eqb (a b : fcontent crec) : bool :=
  match a, b with
  | FEmpty, FEmpty => true
  | FRec x, FRec y => crec_eqb x y
  | _, _ => false
  end.

Definition label_eqb (a b : label) : bool :=
  match a, b with
  | SLock, SLock | SOpen, SOpen | SRead, SRead | SApply, SApply
  | STrunc, STrunc | SWrite, SWrite | SUnlock, SUnlock | SOpenTrunc, SOpenTrunc => true
  | _, _ => false
  end.

Fixpoint list_eqb {A} (eq : A -> A -> bool) (a b : list A) : bool :=
  match a, b with
  | [], [] => true
  | x :: a', y :: b' => eq x y && list_eqb eq a' b'
  | _, _ => false
  end.

(* the programs the harness helpers run *)
Inductive kop := KIncr | KLoad | KSave.

Definition kop_op (w : nat) (k : kop) : op crec :=
  match k with KIncr => OUpd (incr w) | KLoad => OLoad | KSave => OSave end.

Fixpoint kprogs_from (nw w : nat) (ps : list (list kop)) : list (list (op crec) * crec) :=
  match ps with
  | [] => []
  | p :: r => (map (kop_op w) p, crec0 nw) :: kprogs_from nw (S w) r
  end.

(* process w runs program number w and increments counter w; everybody starts from the zero record *)
Definition kprogs (nw : nat) (progs : list (list kop)) := kprogs_from nw O progs.

(* ---------- correspondence cases ----------
   CTrace: one strace'd run of the helpers.  [progs] are the programs of the (locked-to-thread)
   goroutines, [file0] the record stored before the run (None: no file), [sched]/[obs] the
   projected system-call trace: who stepped and which model step the calls amount to, [reads]
   what every Read step returned according to the helpers, [final] the file afterwards.
   CStress: one stress round, or one segment of it (the updates between two Saves).  [file0] =
   the record the segment starts from, [order] = the writers in the order in which their updates
   saw the record of their predecessor, [final] the record after the last of them, [loads] the
   records that concurrent Loads (and the updates themselves) were given. *)
Inductive xop := XIncr | XSet (slot : nat) (n : N) | XLoad | XSave.

Definition xop_op (w : nat) (x : xop) : op crec :=
  match x with
  | XIncr => OUpd (incr w)
  | XSet slot n => OUpd (set_own slot n)
  | XLoad => OLoad
  | XSave => OSave
  end.

Inductive lock_case :=
| CTrace (nw : nat) (file0 : option crec) (progs : list (list kop)) (obs : list (nat * label))
         (reads : list (nat * option crec)) (final : option crec)
| CStress (nw : nat) (file0 : option crec) (order : list nat) (final : crec) (loads : list crec)
(* a stress round with a STDoutWriter: [order] = all writes in the order recovered from what the
   updates saw, (w, None) an increment by w, (w, Some n) saveStdoutSize(n) by w; every record
   anybody was given must be the stored record after some prefix *)
| CStressO (nw : nat) (file0 : option crec) (order : list (nat * option N)) (final : crec) (seen : list crec)
(* a round of long-lived writer objects (one BaseWorkUnit per process, as daemon and runner have):
   [order] = all operations in the order recovered (scripted operations are sequential, the
   background increments placed by what they saw); XSet slot n = UpdateBasicStatus / an
   UpdateFullStatus setting the basic fields to value n (slot = the counter that stands for them),
   XSave = BaseWorkUnit.Save of the object's cached record, XLoad = Load into it.  [final] the
   stored record afterwards; every record in [seen] must be the stored record after some prefix *)
| CScript (nw : nat) (file0 : option crec) (order : list (nat * xop)) (final : crec) (seen : list crec).

Definition fc_of (o : option crec) : fcontent crec :=
  match o with Some r => FRec r | None => FEmpty end.

Definition pair_eqb {A B} (ea : A -> A -> bool) (eb : B -> B -> bool) (x y : A * B) : bool :=
  ea (fst x) (fst y) && eb (snd x) (snd y).

Definition prefix_files (a0 : astate crec) (ops : list (nat * op crec)) : list (fcontent crec) :=
  snd (fold_left (fun acc po => let a' := atomic_op (fst acc) po in (a', a_file a' :: snd acc))
                 ops (a0, [a_file a0])).

Definition lock_check (c : lock_case) : bool :=
  match c with
  | CTrace nw file0 progs obs reads final =>
    let c1 := run true (map fst obs) (init (fc_of file0) (kprogs nw progs)) in
    list_eqb (pair_eqb Nat.eqb label_eqb) (c_trace c1) obs
    && list_eqb (pair_eqb Nat.eqb fc_eqb) (c_reads c1) (map (fun x => (fst x, fc_of (snd x))) reads)
    && fc_eqb (c_file c1) (fc_of final)
    && all_done c1
    && negb (is_some (c_lock c1))
  | CStress nw file0 order final loads =>
    let a0 := a_init (fc_of file0) (map (fun _ => ([], crec0 nw)) (seq 0 nw)) in
    let ops := map (fun w => (w, OUpd (incr w))) order in
    let base := match file0 with Some r => fst r | None => 0 end in
    forallb (fun w => Nat.ltb w nw) order
    && fc_eqb (a_file (atomic_run a0 ops)) (FRec final)
    && forallb (fun l => fc_eqb (a_file (atomic_run a0 (firstn (N.to_nat (fst l - base)) ops))) (FRec l)) loads
  | CStressO nw file0 order final seen =>
    let a0 := a_init (fc_of file0) (map (fun _ => ([], crec0 nw)) (seq 0 nw)) in
    let ops := map (fun x => (fst x, match snd x with
                                     | None => OUpd (incr (fst x))
                                     | Some n => OUpd (set_own (fst x) n)
                                     end)) order in
    let states := prefix_files a0 ops in
    forallb (fun x => Nat.ltb (fst x) nw) order
    && fc_eqb (a_file (atomic_run a0 ops)) (FRec final)
    && forallb (fun r => existsb (fc_eqb (FRec r)) states) seen
  | CScript nw file0 order final seen =>
    let a0 := a_init (fc_of file0) (map (fun _ => ([], crec0 nw)) (seq 0 nw)) in
    let ops := map (fun x => (fst x, xop_op (fst x) (snd x))) order in
    let states := prefix_files a0 ops in
    forallb (fun x => Nat.ltb (fst x) nw) order
    && fc_eqb (a_file (atomic_run a0 ops)) (FRec final)
    && forallb (fun r => existsb (fc_eqb (FRec r)) states) seen
  end.
