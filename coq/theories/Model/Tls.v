(* Model/Tls.v — property C09.  pkg/netceptor/netceptor.go ReceptorVerifyFunc and
   GetClientTLSConfig, pkg/netceptor/tlsconfig.go PrepareTLSServerConfig, pkg/netceptor/conn.go
   listen (the per-connection verifier of a mutually authenticated stream listener), and the
   part of crypto/tls that decides when the installed VerifyPeerCertificate runs.

   What crypto/x509 and the hash functions compute enters as FACTS about the presented
   certificate list (record [facts]): one boolean per oracle (chain to the root pool of the
   role, time validity, extended key usage of the role, host-name match), the four digests of
   the leaf as opaque byte strings, and the result of utils.ReceptorNames (tied to Model/San.v
   through [names_of_san]).  [verify] is then the decision ReceptorVerifyFunc takes, in the
   order the Go function takes it, with the class of the refusal.

   The listener part mirrors conn.go AFTER the two "fix:" commits (ad85c1c: the name demanded of
   the client certificate is the node field of the source address; a7eb53c: the verifier of the
   TLS profile, pins included, still runs).  The pinned behaviour is kept as
   [listener_name_split] / [listener_config_pinned] so that both defects stay machine-checked
   facts (Proofs/Tls.v: [listener_binds_claimed_source_refuted_proof], [listener_pins_refuted_proof]). *)
From Receptor Require Export Model.San.
Open Scope N_scope.

(* ---------- facts about rawCerts ---------- *)
Record facts := mkFacts {
  f_present : bool;          (* len(rawCerts) > 0 *)
  f_parses : bool;           (* x509.ParseCertificate accepts every element of rawCerts *)
  f_d224 : bytes;            (* sha256.Sum224(certs[0].Raw) *)
  f_d256 : bytes;            (* sha256.Sum256 *)
  f_d384 : bytes;            (* sha512.Sum384 *)
  f_d512 : bytes;            (* sha512.Sum512 *)
  f_chain_roots : bool;      (* leaf chains, through the presented intermediates, to tlscfg.RootCAs *)
  f_chain_clientcas : bool;  (* ... to tlscfg.ClientCAs *)
  f_not_before : N;          (* the window in which every certificate of that chain is valid, *)
  f_not_after : N;           (* in unix nanoseconds (latest NotBefore, earliest NotAfter)      *)
  f_eku_server : bool;       (* the chain is usable for ExtKeyUsageServerAuth *)
  f_eku_client : bool;       (* the chain is usable for ExtKeyUsageClientAuth *)
  f_dns : bytes -> bool;     (* Certificate.VerifyHostname(h) == nil *)
  f_names : res (list bytes) (* utils.ReceptorNames(certs[0].Extensions) *)
}.

(* ReceptorNames walks every extension whose OID is subjectAltName (x509.ParseCertificate admits
   at most one); no such extension = no names, no error *)
Definition names_of_san (san : option bytes) : res (list bytes) :=
  match san with None => Ok [] | Some v => receptor_names v end.

(* ---------- the arguments of ReceptorVerifyFunc ---------- *)
Definition VERIFY_SERVER : N := 1.     (* VerifyType *)
Definition VERIFY_CLIENT : N := 2.
Definition HOST_DNS : N := 1.          (* ExpectedHostnameType *)
Definition HOST_RECEPTOR : N := 2.

Record config := mkCfg {
  c_vtype : N;            (* any int can be passed: 1, 2, or an invalid one *)
  c_htype : N;
  c_expected : bytes;     (* expectedHostname *)
  c_pins : list bytes     (* pinnedFingerprints *)
}.

Inductive role := Server | Client.
Definition role_of (vt : N) : option role :=
  if vt =? VERIFY_SERVER then Some Server
  else if vt =? VERIFY_CLIENT then Some Client else None.

(* classes of refusal, in the order the Go function can return them *)
Definition R_NOCERT : N := 1.     (* "RVF failed: peer certificate missing" *)
Definition R_PARSE : N := 2.      (* "failed to parse certificate from server: ..." *)
Definition R_VTYPE : N := 3.      (* "RVF failed: invalid verification type ..." *)
Definition R_PINLEN : N := 4.     (* "RVF failed: pinned certificate must be sha224, ..." *)
Definition R_PINMISS : N := 5.    (* "... does not match any pinned fingerprint" *)
Definition R_X509 : N := 6.       (* the error of certs[0].Verify(opts) *)
Definition R_NAMESERR : N := 7.   (* the error of utils.ReceptorNames *)
Definition R_NAME : N := 8.       (* ReceptorCertNameError *)

Inductive verdict := Accept | Refuse (why : N).

(* ---------- certs[0].Verify(opts): the conjunction of the oracle facts ---------- *)
Definition chain_ok (r : role) (f : facts) : bool :=
  match r with Server => f_chain_roots f | Client => f_chain_clientcas f end.
Definition eku_ok (r : role) (f : facts) : bool :=
  match r with Server => f_eku_server f | Client => f_eku_client f end.

(* opts.DNSName is checked only when it is not empty *)
Definition dns_ok (dnsname : bytes) (f : facts) : bool :=
  if isnil dnsname then true else f_dns f dnsname.

(* opts.CurrentTime is time.Now() taken INSIDE the returned function, i.e. the time of the call
   (of the handshake), not the time ReceptorVerifyFunc / the TLS config was built.  x509 refuses
   when now.Before(NotBefore) or now.After(NotAfter). *)
Definition time_ok (f : facts) (now : N) : bool :=
  (f_not_before f <=? now) && (now <=? f_not_after f).

Definition x509_verify (r : role) (dnsname : bytes) (f : facts) (now : N) : bool :=
  chain_ok r f && time_ok f now && eku_ok r f && dns_ok dnsname f.

(* ---------- the pinned fingerprint loop ---------- *)
(* the table the inner loop ranges over: (len, sum) *)
Definition sum_table (f : facts) : list (N * bytes) :=
  [(28, f_d224 f); (32, f_d256 f); (48, f_d384 f); (64, f_d512 f)].

(* inner loop for one pin: returns (fingLenFound, fingerprintOK); [break] on a match *)
Fixpoint pin_inner (tbl : list (N * bytes)) (fing : bytes) (found ok : bool) : bool * bool :=
  match tbl with
  | [] => (found, ok)
  | (n, sum) :: r =>
    if blen fing =? n then
      if beq_bytes fing sum then (true, true)
      else pin_inner r fing true ok
    else pin_inner r fing found ok
  end.

(* outer loop: None = the function returned the length error from inside the loop *)
Fixpoint pin_loop (tbl : list (N * bytes)) (pins : list bytes) (ok : bool) : option bool :=
  match pins with
  | [] => Some ok
  | fing :: r =>
    let '(found, ok') := pin_inner tbl fing false ok in
    if negb found then None else pin_loop tbl r ok'
  end.

Definition pins_step (pins : list bytes) (f : facts) : verdict :=
  match pins with
  | [] => Accept                                   (* len(pinnedFingerprints) > 0 is false *)
  | _ => match pin_loop (sum_table f) pins false with
         | None => Refuse R_PINLEN
         | Some false => Refuse R_PINMISS
         | Some true => Accept
         end
  end.

(* ---------- ReceptorVerifyFunc(tlscfg, pins, expected, htype, vtype)(rawCerts, _) at time now ---------- *)
Definition dns_name_of (c : config) : bytes :=
  if (c_htype c =? HOST_DNS) && negb (isnil (c_expected c)) then c_expected c else [].

Definition names_step (c : config) (f : facts) : verdict :=
  if c_htype c =? HOST_RECEPTOR then
    match f_names f with
    | Ok names => if existsb (beq_bytes (c_expected c)) names then Accept else Refuse R_NAME
    | _ => Refuse R_NAMESERR
    end
  else Accept.

Definition verify (c : config) (f : facts) (now : N) : verdict :=
  if negb (f_present f) then Refuse R_NOCERT
  else if negb (f_parses f) then Refuse R_PARSE
  else match role_of (c_vtype c) with
       | None => Refuse R_VTYPE
       | Some r =>
         match pins_step (c_pins c) f with
         | Refuse w => Refuse w
         | Accept =>
           if negb (x509_verify r (dns_name_of c) f now) then Refuse R_X509
           else names_step c f
         end
       end.

Definition accepts (v : verdict) : bool := match v with Accept => true | _ => false end.

(* A verifier that takes the digests over EVERY certificate of the certificate message instead of
   the peer's own (rawCerts[0]) only — seeded change C09-H.  [rest] holds the facts (the digests
   are what matters) of rawCerts[1..]: elements the peer chooses freely and that nothing
   authenticates.  Kept only to be refuted (Proofs/Tls.v [pin_any_certificate_refuted_proof]). *)
Definition pins_step_any (pins : list bytes) (f : facts) (rest : list facts) : verdict :=
  match pins_step pins f with
  | Refuse w =>
    if (w =? R_PINMISS) && existsb (fun g => accepts (pins_step pins g)) rest then Accept
    else Refuse w
  | Accept => Accept
  end.

Definition verify_any (c : config) (f : facts) (rest : list facts) (now : N) : verdict :=
  if negb (f_present f) then Refuse R_NOCERT
  else if negb (f_parses f) then Refuse R_PARSE
  else match role_of (c_vtype c) with
       | None => Refuse R_VTYPE
       | Some r =>
         match pins_step_any (c_pins c) f rest with
         | Refuse w => Refuse w
         | Accept =>
           if negb (x509_verify r (dns_name_of c) f now) then Refuse R_X509
           else names_step c f
         end
       end.

(* ---------- GetClientTLSConfig ---------- *)
(* a stored client profile: what SetClientTLSConfig keeps under a name *)
Record profile := mkProfile {
  p_skip : bool;            (* InsecureSkipVerify of the stored tls.Config *)
  p_server_name : bytes;    (* its ServerName (PrepareTLSClientConfig leaves it empty) *)
  p_pins : list bytes
}.

(* the parts of the returned tls.Config that decide about the peer *)
Record tlsclient := mkClient {
  tc_verifier : option config;    (* VerifyPeerCertificate *)
  tc_skip_default : bool;         (* InsecureSkipVerify: crypto/tls' own chain + host name check off *)
  tc_server_name : bytes
}.

Inductive lookup := NoTLS | UnknownName | Found (p : profile).

(* name = "" -> (nil, nil); unknown name -> error *)
Definition client_config (l : lookup) (expected : bytes) (htype : N) : res (option tlsclient) :=
  match l with
  | NoTLS => Ok None
  | UnknownName => Err 1
  | Found p =>
    if p_skip p then Ok (Some (mkClient None true (p_server_name p)))
    else
      let v := Some (mkCfg VERIFY_SERVER htype expected (p_pins p)) in
      if htype =? HOST_DNS then Ok (Some (mkClient v false expected))
      else if htype =? HOST_RECEPTOR then Ok (Some (mkClient v true (p_server_name p)))
      else Ok (Some (mkClient v false (p_server_name p)))
  end.

Definition verifier_ok (v : option config) (f : facts) (now : N) : bool :=
  match v with None => true | Some c => accepts (verify c f now) end.

(* crypto/tls client, verifyServerCertificate: unless InsecureSkipVerify, the chain is verified
   against RootCAs with DNSName = ServerName (a client without ServerName and without
   InsecureSkipVerify does not even start the handshake); then VerifyPeerCertificate.  A TLS
   server always sends a certificate. *)
Definition client_handshake (tc : tlsclient) (f : facts) (now : N) : bool :=
  (if tc_skip_default tc then true
   else negb (isnil (tc_server_name tc)) && f_present f && f_parses f
        && x509_verify Server (tc_server_name tc) f now)
  && verifier_ok (tc_verifier tc) f now.

(* ---------- PrepareTLSServerConfig ---------- *)
Record server_profile := mkSProfile {
  sp_require : bool;        (* RequireClientCert *)
  sp_cas : bool;            (* a ClientCAs bundle is configured *)
  sp_pins : list bytes      (* PinnedClientCert, decoded *)
}.

Inductive client_auth := NoClientCert | VerifyIfGiven | RequireAndVerify.

Record tlsserver := mkServer {
  ts_auth : client_auth;
  ts_verifiers : list config    (* VerifyPeerCertificate: all of them must accept *)
}.

Definition server_config (sp : server_profile) : tlsserver :=
  let auth := if sp_require sp then RequireAndVerify
              else if sp_cas sp then VerifyIfGiven else NoClientCert in
  mkServer auth
    match auth with
    | NoClientCert => []
    | _ => [mkCfg VERIFY_CLIENT HOST_DNS [] (sp_pins sp)]
    end.

(* crypto/tls server, processCertsFromClient.  NoClientCert: no certificate is requested and
   nothing runs.  Otherwise: no certificate + RequireAndVerify = refused; a certificate = chain
   to ClientCAs with client usage; and then VerifyPeerCertificate is called in BOTH cases — with
   an empty list when the client sent none, which ReceptorVerifyFunc refuses. *)
Definition server_handshake (ts : tlsserver) (f : facts) (now : N) : bool :=
  match ts_auth ts with
  | NoClientCert => true
  | a =>
    (if f_present f then f_parses f && x509_verify Client [] f now
     else match a with RequireAndVerify => false | _ => true end)
    && forallb (fun c => accepts (verify c f now)) (ts_verifiers ts)
  end.

(* ---------- tlsconfig.go decodeFingerprints: pinnedservercert / pinnedclientcert ---------- *)
(* strings.ReplaceAll(s, ":", "") *)
Definition strip_colons (s : bytes) : bytes := filter (fun b => negb (b =? 58)) s.

(* encoding/hex fromHexChar *)
Definition hex_digit (c : N) : option N :=
  if (48 <=? c) && (c <=? 57) then Some (c - 48)
  else if (97 <=? c) && (c <=? 102) then Some (c - 87)
  else if (65 <=? c) && (c <=? 70) then Some (c - 55)
  else None.

(* hex.DecodeString: pairs of hex digits in either case; an odd length or any other byte is an error *)
Fixpoint hex_decode (s : bytes) : option bytes :=
  match s with
  | [] => Some []
  | [_] => None
  | a :: b :: r =>
    match hex_digit a, hex_digit b, hex_decode r with
    | Some x, Some y, Some t => Some (16 * x + y :: t)
    | _, _, _ => None
    end
  end.

(* one configured fingerprint: only sha256- and sha512-sized values are admitted *)
Definition decode_fingerprint (s : bytes) : option bytes :=
  match hex_decode (strip_colons s) with
  | Some b => if (blen b =? 32) || (blen b =? 64) then Some b else None
  | None => None
  end.

(* the whole option: the first bad entry refuses the configuration *)
Fixpoint decode_fingerprints (l : list bytes) : option (list bytes) :=
  match l with
  | [] => Some []
  | s :: r =>
    match decode_fingerprint s, decode_fingerprints r with
    | Some b, Some t => Some (b :: t)
    | _, _ => None
    end
  end.

(* ---------- named profile lookups: GetServerTLSConfig / GetClientTLSConfig ---------- *)
(* 0 = (nil, nil): the empty name means "no TLS"; 1 = error: unknown name; 2 = a configuration *)
Definition lookup_result (l : lookup) : N :=
  match l with NoTLS => 0 | UnknownName => 1 | Found _ => 2 end.

(* ---------- conn.go listen: the per-connection verifier of a stream listener ---------- *)
(* the remote address of a QUIC connection over a netceptor PacketConn is the netceptor.Addr
   built by PacketConn.ReadFrom from the packet's FromNode / FromService *)
Record addr := mkAddr { a_node : bytes; a_service : bytes }.

Definition COLON : N := 58.
(* Addr.String(): fmt.Sprintf("%s:%s", node, service) *)
Definition addr_string (a : addr) : bytes := a_node a ++ COLON :: a_service a.

(* strings.Split(s, ":")[0] *)
Fixpoint before_colon (s : bytes) : bytes :=
  match s with
  | [] => []
  | b :: r => if b =? COLON then [] else b :: before_colon r
  end.

(* the name the listener demands of the client certificate.
   Pinned tree: text before the first ':' of the printed address. *)
Definition listener_name_split (a : addr) : bytes := before_colon (addr_string a).
(* Repaired tree: the node field of the address (hi.Conn.RemoteAddr().(Addr) always succeeds for a
   connection that arrived over a netceptor PacketConn; the split is kept in the Go code only as
   the fallback for a foreign net.Addr, which no netceptor listener can see). *)
Definition listener_name (a : addr) : bytes := a_node a.

(* GetConfigForClient is installed only for RequireAndVerifyClientCert.
   Pinned tree: the clone's VerifyPeerCertificate is REPLACED by the name verifier with an empty
   pin list, so the pins of the server profile are not checked on mesh streams.
   Repaired tree: the profile's verifier still runs, followed by the name verifier. *)
Definition name_verifier (n : bytes) : config := mkCfg VERIFY_CLIENT HOST_RECEPTOR n [].

Definition listener_config_pinned (ts : tlsserver) (remote : addr) : tlsserver :=
  match ts_auth ts with
  | RequireAndVerify => mkServer RequireAndVerify [name_verifier (listener_name_split remote)]
  | _ => ts
  end.

Definition listener_config (ts : tlsserver) (remote : addr) : tlsserver :=
  match ts_auth ts with
  | RequireAndVerify =>
    mkServer RequireAndVerify (ts_verifiers ts ++ [name_verifier (listener_name remote)])
  | _ => ts
  end.

(* ---------- correspondence cases ---------- *)
(* host-name oracle used by the harness: its certificates carry plain lower-case DNS names
   without wildcards, for which VerifyHostname is membership *)
Definition dns_in (l : list bytes) (h : bytes) : bool := existsb (beq_bytes h) l.

Definition facts_of (present parses : bool) (d224 d256 d384 d512 : bytes)
    (chain_roots chain_cas : bool) (not_before not_after : N) (eku_s eku_c : bool)
    (dns : list bytes) (san : option bytes) : facts :=
  mkFacts present parses d224 d256 d384 d512 chain_roots chain_cas not_before not_after eku_s eku_c
          (dns_in dns) (names_of_san san).

Definition code (v : verdict) : N := match v with Accept => 0 | Refuse w => w end.

Definition undecided (f : facts) : bool := match f_names f with Unsup => true | _ => false end.

(* monomorphic constructors of one run (the pair notation elaborates slowly in large case files) *)
Definition vr (c : config) (class : N) : config * N := (c, class).
Definition cr (p : profile) (expected : bytes) (htype : N) (ok : bool) : profile * bytes * N * bool :=
  (p, expected, htype, ok).
Definition sr (sp : server_profile) (ok : bool) : server_profile * bool := (sp, ok).
Definition lr (sp : server_profile) (a : addr) (ok : bool) : server_profile * addr * bool := (sp, a, ok).

(* every case carries [now]: the time (unix nanoseconds) at which the verifier was CALLED / the
   handshake was made — not the time the verifier or the TLS config was built, which for the
   time-boundary cases of the harness is several seconds earlier *)
Inductive tls_case :=
(* the function returned by ReceptorVerifyFunc, called on rawCerts: observed class (0 = nil) *)
| TVerify (now : N) (f : facts) (runs : list (config * N))
(* crypto/tls handshake, client side built by SetClientTLSConfig + GetClientTLSConfig:
   (profile, expected, htype, handshake succeeded) *)
| TClient (now : N) (f : facts) (runs : list (profile * bytes * N * bool))
(* crypto/tls handshake, server side built by PrepareTLSServerConfig *)
| TServer (now : N) (f : facts) (runs : list (server_profile * bool))
(* mesh stream: a dial from node/service accepted by a listener with this server profile *)
| TListen (now : N) (f : facts) (runs : list (server_profile * addr * bool))
(* the fingerprint strings of a tls-client / tls-server entry and what the configuration made of
   them (None = the configuration was refused) *)
| TFinger (strs : list bytes) (obs : option (list bytes))
(* a profile lookup by name: kind 0 = empty name, 1 = a name never stored, 2 = a stored name *)
| TLookup (kind : N) (obs : N).

Definition tls_check (c : tls_case) : bool :=
  match c with
  | TVerify now f runs =>
    undecided f || forallb (fun r => code (verify (fst r) f now) =? snd r) runs
  | TClient now f runs =>
    undecided f ||
    forallb (fun r => let '(p, e, h, ok) := r in
      match client_config (Found p) e h with
      | Ok (Some tc) => Bool.eqb (client_handshake tc f now) ok
      | _ => false
      end) runs
  | TServer now f runs =>
    undecided f ||
    forallb (fun r => Bool.eqb (server_handshake (server_config (fst r)) f now) (snd r)) runs
  | TListen now f runs =>
    undecided f ||
    forallb (fun r => let '(sp, a, ok) := r in
      Bool.eqb (server_handshake (listener_config (server_config sp) a) f now) ok) runs
  | TFinger strs obs =>
    match decode_fingerprints strs, obs with
    | Some a, Some b => beq_blist a b
    | None, None => true
    | _, _ => false
    end
  | TLookup kind obs =>
    lookup_result (if kind =? 0 then NoTLS else if kind =? 1 then UnknownName
                   else Found (mkProfile false [] [])) =? obs
  end.
