(* Model/CJson.v — the JSON values a control-service request is decoded into:
   encoding/json.Unmarshal into map[string]interface{} yields nil, bool, float64, string,
   []interface{} and map[string]interface{}.  The decoder itself (tokenizer, escapes, UTF-8
   repair, duplicate keys: last one wins) is third-party and enters Model/Ctl.v as an oracle;
   this file only has the value type and the accessors the command code uses.
   The numeric value of a number never influences a reply class or a state change
   (startpos only positions a stream), so numbers carry no payload. *)
From Receptor Require Export Base.Hex.
Open Scope N_scope.

Inductive jv :=
| JNull
| JBool (b : bool)
| JNum
| JStr (s : bytes)
| JArr (l : list jv)
| JObj (m : list (bytes * jv)).

Definition jobj := list (bytes * jv).

Fixpoint jget (k : bytes) (m : jobj) : option jv :=
  match m with
  | [] => None
  | (k', v) :: r => if beq_bytes k' k then Some v else jget k r
  end.

(* v.(string) with the comma-ok form *)
Definition as_str (v : jv) : option bytes := match v with JStr s => Some s | _ => None end.
(* v.([]interface{}) *)
Definition as_arr (v : jv) : option (list jv) := match v with JArr l => Some l | _ => None end.

(* every element a string: Some of them in order *)
Fixpoint all_strs (l : list jv) : option (list bytes) :=
  match l with
  | [] => Some []
  | JStr s :: r => match all_strs r with Some ss => Some (s :: ss) | None => None end
  | _ :: _ => None
  end.

(* every value of the object a string: the object as a string map *)
Fixpoint str_fields (m : jobj) : option (list (bytes * bytes)) :=
  match m with
  | [] => Some []
  | (k, JStr s) :: r => match str_fields r with Some ss => Some ((k, s) :: ss) | None => None end
  | _ :: _ => None
  end.

Fixpoint sget (k : bytes) (m : list (bytes * bytes)) : option bytes :=
  match m with
  | [] => None
  | (k', v) :: r => if beq_bytes k' k then Some v else sget k r
  end.

(* the seven JSON types, for the systematic product of the harness *)
Definition jtype (v : jv) : N :=
  match v with JNull => 0 | JBool _ => 1 | JNum => 2 | JStr _ => 3 | JArr _ => 4 | JObj _ => 5 end.
