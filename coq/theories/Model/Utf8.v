(* Model/Utf8.v — validity of a byte string as UTF-8, as Go's unicode/utf8.Valid decides it
   (well-formed sequences of Unicode 3.1 table 3-7: no overlongs, no surrogates, <= U+10FFFF). *)
From Receptor Require Export Base.Hex.
Open Scope N_scope.

Definition inr (lo hi b : N) : bool := (lo <=? b) && (b <=? hi).
Definition cont (b : N) : bool := inr 128 191 b.

Fixpoint utf8_valid (l : bytes) : bool :=
  match l with
  | [] => true
  | b0 :: r0 =>
    if b0 <? 128 then utf8_valid r0
    else match r0 with
    | [] => false
    | b1 :: r1 =>
      if inr 194 223 b0 then cont b1 && utf8_valid r1
      else match r1 with
      | [] => false
      | b2 :: r2 =>
        if b0 =? 224 then inr 160 191 b1 && cont b2 && utf8_valid r2
        else if inr 225 236 b0 || inr 238 239 b0 then cont b1 && cont b2 && utf8_valid r2
        else if b0 =? 237 then inr 128 159 b1 && cont b2 && utf8_valid r2
        else match r2 with
        | [] => false
        | b3 :: r3 =>
          if b0 =? 240 then inr 144 191 b1 && cont b2 && cont b3 && utf8_valid r3
          else if inr 241 243 b0 then cont b1 && cont b2 && cont b3 && utf8_valid r3
          else if b0 =? 244 then inr 128 143 b1 && cont b2 && cont b3 && utf8_valid r3
          else false
        end
      end
    end
  end.
