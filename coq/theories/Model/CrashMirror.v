(* Model/CrashMirror.v — property C04, remote work: the output mirror after a restart.

   For a started remote unit the submitting node keeps the record (state, output size: written by
   the status mirror, remote_work.go monitorRemoteStatus) and the output (appended by the output
   mirror, monitorRemoteStdout, which asks the executing node for `work results` from the number
   of bytes it has stored whenever that is less than the recorded size).  A kill can fall between
   the two: the record is final with size n, fewer than n bytes are stored.  [recover]
   (Model/Crash.v) says whether the restarted daemon monitors the unit again ([v_monitored]);
   here: what that means for the output that can be fetched afterwards. *)
From Coq Require Import List NArith Bool.
From Receptor Require Import Base.Hex Model.Status Model.Crash.
Import ListNotations.
Open Scope N_scope.

(* the bytes stored on the submitting node once a monitored unit's output mirror has run to its
   end against an executing node holding [remote_len] bytes: everything up to the recorded size;
   an unmonitored unit keeps what it has (nothing else writes the file) *)
Definition stored_in_the_end (v : view) (stored remote_len : N) : N :=
  if v_monitored v then N.max stored (N.min (s_size (v_status v)) remote_len) else stored.

(* `work results` (controlsvc.go getResults) on a unit in a complete state: streams the stored
   bytes and ends when its position has reached the recorded size; otherwise it waits for ever *)
Definition results_end (v : view) (stored : N) : bool := s_size (v_status v) <=? stored.

(* the rule of commandUnit.Restart ("job already complete - no need to restart monitoring")
   applied to remote units as well: kept only to be refuted *)
Definition recover_skip_complete (types : list bytes) (x : ufiles) : ufiles * view :=
  let '(x', v) := recover types x in
  if st_complete (s_state (v_status v))
  then (x', mkView (v_listed v) (v_known v) (v_status v) false) else (x', v).
