(* Model/Crash.v — property C04: what the persistence code of workceptor leaves in the data
   directory when a process is killed, and what a restarted daemon makes of it.

   Every workceptor operation is its list of file-system steps in program order; a process
   that is killed has executed a prefix of the steps of the operation it was in.  The steps of
   the two multi-step operations (pkg/workceptor/workunitbase.go), with the crash hooks of
   verif_hooks.go between them:

     Save                                      UpdateFullStatus f
       OpenTrunc  status.lock   save.locked      OpenTrunc  status.lock
       OpenTrunc  status        save.truncated   OpenCreate status
       Store (write the record) save.written     Load (size>0: read+unmarshal)   update.loaded
                                                 Apply f
                                                 Truncate status                 update.truncated
                                                 Store                           update.written

   [Load] replaces the process's in-memory record by the file's, EXCEPT when the file is empty:
   then the in-memory record is kept.  (The daemon's record is the unit's bwu.status; the command
   runner keeps one StatusFileData for its whole life.)  Whole operations exclude each other
   through the lock file (flock; property C14) and a dying process drops its lock, so a history is
   an interleaving of WHOLE operations of the daemon and of the runner followed by a cut
   operation of the process that dies.

   The daemon's program for one unit (controlsvc.go "submit", workceptor.go AllocateUnit /
   AllocateRemoteUnit, command.go Start/runCommand, remote_work.go startRemoteUnit) and the
   runner's (command.go commandRunner) are [d_prog] and [r_prog]; [recover] mirrors
   scanForUnit + Restart of command, remote and unknown units on one unit directory. *)
From Receptor Require Export Model.Fs Model.Status.
Open Scope N_scope.

(* ---------- the files of one unit ----------
   Everything workceptor persists about unit u lives in five places below {datadir}/{node}/u.
   The model of a unit works on this record; [project] reads it off the general file system of
   Model/Fs.v and [fsop_of] gives the file-system operation each step stands for
   (Proofs/Fs.v: [project_apply] — the two agree; [fsop_frame] — nothing else is touched). *)
Definition unitp (u : N) : path := [u].
Inductive ufile := FStatus | FLock | FStdin | FStdout.
Definition ufile_id (f : ufile) : N :=
  match f with FStatus => 0 | FLock => 1 | FStdin => 2 | FStdout => 3 end.
Definition filep (u : N) (f : ufile) : path := [u; ufile_id f].

Record ufiles := mkU {
  uf_dir : bool;                 (* the unit directory exists *)
  uf_status : option bytes;      (* status *)
  uf_lock : option bytes;        (* status.lock *)
  uf_stdin : option bytes;
  uf_stdout : option bytes
}.

Definition no_files : ufiles := mkU false None None None None.

Definition project (u : N) (fs : fsstate) : ufiles :=
  mkU (is_dir fs (unitp u)) (file_content fs (filep u FStatus)) (file_content fs (filep u FLock))
      (file_content fs (filep u FStdin)) (file_content fs (filep u FStdout)).

Inductive uop :=
| UMkdir
| UOpenCreate (f : ufile)
| UOpenTrunc (f : ufile)
| UTruncate (f : ufile)
| UWriteAt (f : ufile) (off : N) (b : bytes)
| UAppend (f : ufile) (b : bytes).

Definition fsop_of (u : N) (o : uop) : fsop :=
  match o with
  | UMkdir => Mkdir (unitp u)
  | UOpenCreate f => OpenCreate (filep u f)
  | UOpenTrunc f => OpenTrunc (filep u f)
  | UTruncate f => Truncate (filep u f)
  | UWriteAt f off b => WriteAt (filep u f) off b
  | UAppend f b => Append (filep u f) b
  end.

Definition uget (x : ufiles) (f : ufile) : option bytes :=
  match f with FStatus => uf_status x | FLock => uf_lock x | FStdin => uf_stdin x | FStdout => uf_stdout x end.
Definition uset (x : ufiles) (f : ufile) (c : option bytes) : ufiles :=
  match f with
  | FStatus => mkU (uf_dir x) c (uf_lock x) (uf_stdin x) (uf_stdout x)
  | FLock => mkU (uf_dir x) (uf_status x) c (uf_stdin x) (uf_stdout x)
  | FStdin => mkU (uf_dir x) (uf_status x) (uf_lock x) c (uf_stdout x)
  | FStdout => mkU (uf_dir x) (uf_status x) (uf_lock x) (uf_stdin x) c
  end.

Definition uapply (x : ufiles) (o : uop) : ufiles :=
  match o with
  | UMkdir => mkU true (uf_status x) (uf_lock x) (uf_stdin x) (uf_stdout x)
  | UOpenCreate f => match uget x f with None => uset x f (Some []) | Some _ => x end
  | UOpenTrunc f => uset x f (Some [])
  | UTruncate f => match uget x f with Some _ => uset x f (Some []) | None => x end
  | UWriteAt f off b => match uget x f with Some c => uset x f (Some (write_at c off b)) | None => x end
  | UAppend f b => match uget x f with Some c => uset x f (Some (c ++ b)) | None => uset x f (Some b) end
  end.

Definition status_content (x : ufiles) : option bytes := uf_status x.
Definition stdout_content (x : ufiles) : bytes := match uf_stdout x with Some c => c | None => [] end.
(* stdoutSize(unitdir): 0 when the file does not exist *)
Definition stdout_size (x : ufiles) : N := N.of_nat (length (stdout_content x)).

(* ---------- record updates ---------- *)
Inductive szspec := SzKeep | SzConst (n : N) | SzStdout.

Inductive upd :=
| UBasic (st : N) (sz : szspec)            (* UpdateBasicStatus(state, detail, size) *)
| USetPid (pid : N)                        (* runCommand: ExtraData.Pid = runner's pid *)
| UClearExtra                              (* runCommand, after the runner has exited: ExtraData = nil *)
| URemoteBind (node rtype : bytes)         (* AllocateRemoteUnit *)
| URemoteUnit (id : bytes)                 (* startRemoteUnit: RemoteUnitID *)
| URemoteStarted.                          (* startRemoteUnit: RemoteStarted = true *)

Definition apply_upd (x : ufiles) (f : upd) (s : status) : status :=
  match f with
  | UBasic st sz =>
    mkStatus st (match sz with SzKeep => s_size s | SzConst n => n | SzStdout => stdout_size x end)
             (s_wtype s) (s_extra s)
  | USetPid pid => mkStatus (s_state s) (s_size s) (s_wtype s) (XCmd pid)
  | UClearExtra => mkStatus (s_state s) (s_size s) (s_wtype s) XNone
  | URemoteBind n t =>
    mkStatus (s_state s) (s_size s) (s_wtype s)
             (match s_extra s with XRemote _ _ ru st => XRemote n t ru st | _ => XRemote n t [] false end)
  | URemoteUnit id =>
    mkStatus (s_state s) (s_size s) (s_wtype s)
             (match s_extra s with XRemote n t _ st => XRemote n t id st | e => e end)
  | URemoteStarted =>
    mkStatus (s_state s) (s_size s) (s_wtype s)
             (match s_extra s with XRemote n t ru _ => XRemote n t ru true | e => e end)
  end.

(* ---------- steps ---------- *)
Inductive mstep :=
| MOp (o : uop)
| MLoad (strict : bool)     (* strict: Load() — an empty file is an error; else UpdateFullStatus *)
| MApply (f : upd)
| MStore.                   (* saveToFile: one write of the marshalled in-memory record *)

(* a process at work on the unit: the files, its in-memory record, "the operation failed" *)
Record pstate := mkP { p_fs : ufiles; p_mem : status; p_err : bool }.

Definition exec_step (p : pstate) (s : mstep) : pstate :=
  if p_err p then p else
  match s with
  | MOp o => mkP (uapply (p_fs p) o) (p_mem p) false
  | MLoad strict =>
    match status_content (p_fs p) with
    | None => mkP (p_fs p) (p_mem p) true
    | Some [] => mkP (p_fs p) (p_mem p) strict
    | Some c => match parse c with
                | Some s' => mkP (p_fs p) s' false
                | None => mkP (p_fs p) (p_mem p) true
                end
    end
  | MApply f => mkP (p_fs p) (apply_upd (p_fs p) f (p_mem p)) false
  | MStore => mkP (uapply (p_fs p) (UWriteAt FStatus 0 (encode (p_mem p)))) (p_mem p) false
  end.

Definition exec_steps (p : pstate) (l : list mstep) : pstate := fold_left exec_step l p.

(* ---------- whole operations ---------- *)
Definition save_op : list mstep :=
  [MOp (UOpenTrunc FLock); MOp (UOpenTrunc FStatus); MStore].
Definition upd_op (f : upd) : list mstep :=
  [MOp (UOpenTrunc FLock); MOp (UOpenCreate FStatus); MLoad false; MApply f;
   MOp (UTruncate FStatus); MStore].
Definition fs_op (o : uop) : list mstep := [MOp o].
Definition load_op : list mstep := [MOp (UOpenTrunc FLock); MLoad true].

(* the truncate->write window of an operation: the number of steps after which the status file
   has been emptied and not yet rewritten *)
Definition window_cut (op : list mstep) : option nat :=
  match op with
  | [MOp (UOpenTrunc FLock); MOp (UOpenTrunc FStatus); MStore] => Some 2%nat
  | [MOp (UOpenTrunc FLock); MOp (UOpenCreate FStatus); MLoad false; MApply _; MOp (UTruncate FStatus); MStore] =>
    Some 5%nat
  | _ => None
  end.

(* ---------- scenarios ---------- *)
Record scenario := mkSc {
  sc_unit : N;
  sc_wtype : bytes;                       (* work type submitted; "remote" for remote work *)
  sc_remote : option (bytes * bytes);     (* remote node, remote work type *)
  sc_reach : bool;                        (* the remote node answers *)
  sc_runit : bytes;                       (* the unit ID the remote node hands out *)
  sc_payload : bytes;                     (* stdin *)
  sc_chunks : list bytes;                 (* the writes of the command, a status tick after each *)
  sc_ok : bool;                           (* exit status of the command *)
  sc_pid : N;
  sc_types : list bytes;                  (* work types configured on the node *)
  sc_follow : bool                        (* the daemon's MonitorLocalStatus keeps up with the runner's
                                             rewrites (it reloads on fsnotify events and once a second; a
                                             reload that meets the file between truncation and rewrite fails
                                             and keeps the old copy, so the copy may also lag) *)
}.

Definition sc_output (sc : scenario) : bytes := concat (sc_chunks sc).
Definition final_state (sc : scenario) : N := if sc_ok sc then S_SUCCEEDED else S_FAILED.
Definition is_remote (sc : scenario) : bool := match sc_remote sc with Some _ => true | None => false end.

(* BaseWorkUnit.Init + the worker's ExtraData *)
Definition init_status (sc : scenario) : status :=
  mkStatus S_PENDING 0 (sc_wtype sc) (if is_remote sc then XRemote [] [] [] false else XCmd 0).

(* The daemon's operations for one submission, in program order.  [d_ack]: the number of them
   completed when "Work unit created with ID …" is sent; [d_spawn]: when the runner process has
   been started (local) / the remote unit has been started (remote, never if unreachable). *)
Definition d_prog (sc : scenario) : list (list mstep) :=
  match sc_remote sc with
  | None =>
    [ fs_op UMkdir;                                    (* generateUnitID              alloc.mkdir *)
      save_op;                                         (* AllocateUnit: worker.Save   alloc.saved *)
      fs_op (UOpenCreate FStdin);                      (*                    submit.stdin-created *)
      upd_op (UBasic S_PENDING (SzConst 0));           (* "Waiting for Input Data"; then the ID is sent *)
      fs_op (UAppend FStdin (sc_payload sc));          (* ReadFromConn *)
      upd_op (UBasic S_PENDING (SzConst 0));           (* "Starting Worker" *)
      upd_op (UBasic S_PENDING (SzConst 0));           (* Start: "Launching command runner" *)
      [];                                              (* cmd.Start(): the runner process exists *)
      upd_op (USetPid (sc_pid sc));                    (* runCommand                   submit.started *)
      upd_op UClearExtra ]                             (* only after the runner has exited *)
  | Some (node, rtype) =>
    [ fs_op UMkdir;
      save_op;
      upd_op (URemoteBind node rtype);                 (* AllocateRemoteUnit *)
      fs_op (UOpenCreate FStdin);
      upd_op (UBasic S_PENDING (SzConst 0));           (* then the ID is sent *)
      fs_op (UAppend FStdin (sc_payload sc));
      upd_op (UBasic S_PENDING (SzConst 0)) ]          (* "Starting Worker" *)
    ++ (if sc_reach sc
        then [ upd_op (URemoteUnit (sc_runit sc)); upd_op URemoteStarted ]
        else [])
  end.

Definition d_ack (sc : scenario) : nat := if is_remote sc then 5%nat else 4%nat.
(* operations of the daemon that precede the start of the runner / of the remote unit *)
Definition d_spawn (sc : scenario) : nat := if is_remote sc then 9%nat else 8%nat.
(* the operation that waits for the runner to exit (local only) *)
Definition d_wait : nat := 9%nat.

(* sizes recorded while the output grows: cumulative lengths *)
Fixpoint ticks (acc : N) (chunks : list bytes) (remote : bool) : list (list mstep) :=
  match chunks with
  | [] => []
  | c :: r =>
    let acc' := acc + N.of_nat (length c) in
    fs_op (UAppend FStdout c)
    :: upd_op (UBasic S_RUNNING (if remote then SzConst acc' else SzStdout))
    :: ticks acc' r remote
  end.

(* the runner's operations (commandRunner), or for a started remote unit what the monitors of
   the submitting daemon do while they mirror the remote unit *)
Definition r_prog (sc : scenario) : list (list mstep) :=
  if is_remote sc then
    ticks 0 (sc_chunks sc) true
    ++ [upd_op (UBasic (final_state sc) (SzConst (N.of_nat (length (sc_output sc)))))]
  else
    upd_op (UBasic S_PENDING (SzConst 0))              (* "Not started yet" *)
    :: fs_op (UOpenCreate FStdout)
    :: ticks 0 (sc_chunks sc) false
    ++ [upd_op (UBasic (final_state sc) SzStdout)].

(* ---------- histories ---------- *)
(* the whole system for one unit: its files, the daemon's and the runner's in-memory records,
   how many whole operations each has completed, who is alive *)
Record gstate := mkG {
  g_fs : ufiles; g_dmem : status; g_rmem : status; g_dn : nat; g_rn : nat;
  g_dalive : bool; g_ralive : bool
}.

Definition g0 (sc : scenario) : gstate :=
  mkG no_files (init_status sc) (mkStatus S_PENDING 0 [] (XCmd 0)) 0 0 true true.

Definition r_spawned (sc : scenario) (g : gstate) : bool := Nat.leb (d_spawn sc) (g_dn g).
Definition r_finished (sc : scenario) (g : gstate) : bool := Nat.leb (length (r_prog sc)) (g_rn g).

(* the daemon's next operation, if it is enabled *)
Definition d_next (sc : scenario) (g : gstate) : option (list mstep) :=
  if negb (g_dalive g) then None
  else if is_remote sc then nth_error (d_prog sc) (g_dn g)
  else if Nat.eqb (g_dn g) d_wait && g_ralive g && negb (r_finished sc g) then None
  else nth_error (d_prog sc) (g_dn g).

(* the runner's next operation; a started remote unit is mirrored by the daemon itself *)
Definition r_next (sc : scenario) (g : gstate) : option (list mstep) :=
  if negb (r_spawned sc g) then None
  else if is_remote sc then (if g_dalive g then nth_error (r_prog sc) (g_rn g) else None)
  else if g_ralive g then nth_error (r_prog sc) (g_rn g) else None.

(* the daemon's copy follows the file when MonitorLocalStatus keeps up ([sc_follow]) *)
Definition follow (x : ufiles) (mem : status) : status :=
  match status_content x with
  | Some c => match parse c with Some s => s | None => mem end
  | None => mem
  end.

(* one whole operation of the daemon (true) or of the runner (false); nothing if not enabled *)
Definition gstep (sc : scenario) (g : gstate) (who : bool) : gstate :=
  if who then
    match d_next sc g with
    | None => g
    | Some op =>
      let p := exec_steps (mkP (g_fs g) (g_dmem g) false) op in
      mkG (p_fs p) (p_mem p) (g_rmem g) (S (g_dn g)) (g_rn g) (g_dalive g) (g_ralive g)
    end
  else
    match r_next sc g with
    | None => g
    | Some op =>
      if is_remote sc then
        let p := exec_steps (mkP (g_fs g) (g_dmem g) false) op in
        mkG (p_fs p) (p_mem p) (g_rmem g) (g_dn g) (S (g_rn g)) (g_dalive g) (g_ralive g)
      else
        let p := exec_steps (mkP (g_fs g) (g_rmem g) false) op in
        mkG (p_fs p) (if g_dalive g && sc_follow sc then follow (p_fs p) (g_dmem g) else g_dmem g) (p_mem p)
            (g_dn g) (S (g_rn g)) (g_dalive g) (g_ralive g)
    end.

Definition grun (sc : scenario) (g : gstate) (sched : list bool) : gstate :=
  fold_left (gstep sc) sched g.

(* the process named by [runner] dies after [cut] steps of its next operation (an operation all of
   whose steps are executed counts as completed) *)
Definition victim_next (sc : scenario) (g : gstate) (runner : bool) : bool * option (list mstep) :=
  if runner && negb (is_remote sc) then (false, r_next sc g)
  else if is_remote sc && Nat.leb (d_spawn sc) (g_dn g) then (false, r_next sc g)
  else (true, d_next sc g).

Definition kill (g : gstate) (runner : bool) : gstate :=
  if runner then mkG (g_fs g) (g_dmem g) (g_rmem g) (g_dn g) (g_rn g) (g_dalive g) false
  else mkG (g_fs g) (g_dmem g) (g_rmem g) (g_dn g) (g_rn g) false (g_ralive g).

Definition gcrash (sc : scenario) (g : gstate) (runner : bool) (cut : nat) : gstate :=
  let dies := runner && negb (is_remote sc) in
  match victim_next sc g runner with
  | (_, None) => kill g dies
  | (who, Some op) =>
    if Nat.leb (length op) cut then kill (gstep sc g who) dies
    else
      let mem := if dies then g_rmem g else g_dmem g in
      let p := exec_steps (mkP (g_fs g) mem false) (firstn cut op) in
      kill (mkG (p_fs p) (g_dmem g) (g_rmem g) (g_dn g) (g_rn g) (g_dalive g) (g_ralive g)) dies
  end.

(* ---------- recovery: scanForUnit + Restart ---------- *)
Inductive rkind := KUnknown | KCmd | KRemote.

Definition remote_name : bytes := [114; 101; 109; 111; 116; 101].   (* "remote" *)

Fixpoint mem_bytes (x : bytes) (l : list bytes) : bool :=
  match l with [] => false | y :: r => beq_bytes x y || mem_bytes x r end.

Definition kind_of (types : list bytes) (wt : bytes) : rkind :=
  if beq_bytes wt remote_name then KRemote
  else if mem_bytes wt types then KCmd else KUnknown.

Record view := mkView { v_listed : bool; v_known : bool; v_status : status; v_monitored : bool }.

Definition no_view : view := mkView false false (mkStatus 0 0 [] XNone) false.

Definition worker_init (k : rkind) (wt : bytes) : status :=
  mkStatus S_PENDING 0 wt
           (match k with KCmd => XCmd 0 | KRemote => XRemote [] [] [] false | KUnknown => XNone end).

Definition started (s : status) : bool :=
  match s_extra s with XRemote _ _ _ st => st | _ => false end.

Definition mark_failed (p : pstate) : pstate :=
  exec_steps (mkP (p_fs p) (p_mem p) false) (upd_op (UBasic S_FAILED SzStdout)).

(* what a freshly started daemon does with the directory of the unit, and what it then answers *)
Definition recover (types : list bytes) (x : ufiles) : ufiles * view :=
  if negb (uf_dir x) then (x, no_view) else
  (* sfd.Load(statusFilename): takes the lock (creating the lock file), reads *)
  let x1 := uapply x (UOpenTrunc FLock) in
  match status_content x1 with
  | None => (x1, no_view)                              (* "Status file has disappeared" *)
  | Some c =>
    let wt := match parse c with Some s => s_wtype s | None => [] end in
    let k := kind_of types wt in
    (* worker.Load(); on error UpdateBasicStatus(Failed, "Failed to restart: …", stdoutSize) *)
    let p1 := exec_steps (mkP x1 (worker_init k wt) false) load_op in
    let p2 := if p_err p1 then mark_failed p1 else p1 in
    (* worker.Restart() *)
    match k with
    | KUnknown => (p_fs p2, mkView true false (p_mem p2) false)
    | KCmd =>
      let p3 := exec_steps (mkP (p_fs p2) (p_mem p2) false) load_op in
      if p_err p3 then let p4 := mark_failed p3 in (p_fs p4, mkView true true (p_mem p4) false)
      else if st_complete (s_state (p_mem p3)) then (p_fs p3, mkView true true (p_mem p3) false)
      else if s_state (p_mem p3) =? S_PENDING
           then let p4 := mark_failed p3 in (p_fs p4, mkView true true (p_mem p4) true)
           else (p_fs p3, mkView true true (p_mem p3) true)
    | KRemote =>
      if started (p_mem p2) then (p_fs p2, mkView true true (p_mem p2) true)
      else let p4 := mark_failed p2 in (p_fs p4, mkView true true (p_mem p4) false)
    end
  end.

(* ---------- one crash/restart experiment ---------- *)
Record crashpoint := mkCp {
  cp_sched : list bool;    (* whole operations before the crash: true = daemon, false = runner *)
  cp_runner : bool;        (* the runner is the process that dies (local units only) *)
  cp_cut : nat;            (* steps of its next operation that it still executes *)
  cp_gap : nat             (* operations of the survivor while the node is down / until the harness kills the daemon *)
}.

Record outcome := mkOut {
  o_acked : bool;          (* the ID had been returned to the submitter *)
  o_spawned : bool;        (* the runner / the remote unit had been started *)
  o_before : option status;(* the last intact record before the crash *)
  o_restart : view;        (* answers right after the restart *)
  o_final : view;          (* answers after the surviving producer has run to its end *)
  o_final_fs : ufiles;
  o_again : view           (* answers after one more kill/restart *)
}.

Definition record_of (x : ufiles) : option status :=
  match status_content x with Some c => parse c | None => None end.

(* the rest of the producer's operations after the restart *)
Definition rest_sched (sc : scenario) : list bool := repeat false (length (r_prog sc)).

Definition experiment (sc : scenario) (cp : crashpoint) : outcome :=
  let g1 := grun sc (g0 sc) (cp_sched cp) in
  let g2 := gcrash sc g1 (cp_runner cp) (cp_cut cp) in
  (* while the node is down the surviving process goes on; if it was the runner that died, the
     daemon goes on (it sees the runner exit) until it is killed too *)
  let g3 := grun sc g2 (repeat (cp_runner cp) (cp_gap cp)) in
  let '(x4, v) := recover (sc_types sc) (g_fs g3) in
  (* after the restart: a live runner goes on by itself; a started remote unit is mirrored again
     by the new daemon, whose in-memory record is the recovered one *)
  let resumed := is_remote sc && v_monitored v in
  let g4 := mkG x4 (v_status v) (g_rmem g3) (g_dn g3) (g_rn g3) resumed
                (g_ralive g3 && negb (is_remote sc)) in
  let g5 := if is_remote sc && negb resumed then g4 else grun sc g4 (rest_sched sc) in
  let vf := if is_remote sc
            then (if resumed then mkView true true (follow (g_fs g5) (v_status v)) true else v)
            else if v_monitored v
                 then mkView (v_listed v) (v_known v) (follow (g_fs g5) (v_status v)) true
                 else v in
  (* "before the crash": the record as the dying process left it if it left one, else as it was at
     the last operation boundary *)
  let before := match record_of (g_fs g2) with Some r => Some r | None => record_of (g_fs g1) end in
  mkOut (Nat.leb (d_ack sc) (g_dn g1)) (r_spawned sc g2) before v vf (g_fs g5)
        (snd (recover (sc_types sc) (g_fs g5))).

(* ---------- the property, as a test on one experiment ---------- *)
Definition extra_ok (sc : scenario) (before : option status) (v : view) : bool :=
  match sc_remote sc with
  | None => true
  | Some (node, rtype) =>
    match s_extra (v_status v) with
    | XRemote n t ru _ =>
      beq_bytes n node && beq_bytes t rtype &&
      match before with
      | Some b => match s_extra b with
                  | XRemote _ _ (x :: ru0) _ => beq_bytes ru (x :: ru0)   (* once recorded, the remote unit stays *)
                  | _ => true
                  end
      | None => true
      end
    | _ => false
    end
  end.

Definition identity_ok (sc : scenario) (o : outcome) : bool :=
  v_listed (o_restart o) && beq_bytes (s_wtype (v_status (o_restart o))) (sc_wtype sc)
  && extra_ok sc (o_before o) (o_restart o).

Definition finished_before (o : outcome) : bool :=
  match o_before o with Some b => st_complete (s_state b) | None => false end.

Definition same_outcome (b : status) (v : view) : bool :=
  (s_state (v_status v) =? s_state b) && (s_size (v_status v) =? s_size b).

(* the unit is being produced when the node comes back: a live runner, or a remote unit that
   had been recorded as started *)
Definition producing (sc : scenario) (cp : crashpoint) (o : outcome) : bool :=
  if is_remote sc then match o_before o with Some b => started b | None => false end
  else o_spawned o && negb (cp_runner cp).

Definition holds (sc : scenario) (cp : crashpoint) : bool :=
  let o := experiment sc cp in
  if negb (o_acked o) then true else
  identity_ok sc o &&
  (if finished_before o then
     match o_before o with
     | Some b => same_outcome b (o_restart o) && same_outcome b (o_final o)
                 && beq_bytes (stdout_content (o_final_fs o)) (sc_output sc)
     | None => true
     end
   else if producing sc cp o then
     st_complete (s_state (v_status (o_final o)))
     && (s_size (v_status (o_final o)) =? N.of_nat (length (sc_output sc)))
     && beq_bytes (stdout_content (o_final_fs o)) (sc_output sc)
   else
     s_state (v_status (o_final o)) =? S_FAILED)
  && (* one more crash/restart changes nothing *)
     (if st_complete (s_state (v_status (o_final o)))
      then beq_status (v_status (o_again o)) (v_status (o_final o))
           && Bool.eqb (v_known (o_again o)) (v_known (o_final o))
      else true).

(* the crash falls between the truncation and the rewrite of the status file *)
Definition in_window (sc : scenario) (cp : crashpoint) : bool :=
  let g1 := grun sc (g0 sc) (cp_sched cp) in
  match snd (victim_next sc g1 (cp_runner cp)) with
  | Some o => match window_cut o with Some k => Nat.eqb (cp_cut cp) k | None => false end
  | None => false
  end.

(* what a scenario must satisfy to be one: the work type of a local unit is configured on the
   node and is not the built-in "remote"; remote work has the work type "remote" *)
Definition wf_scenario (sc : scenario) : bool :=
  if is_remote sc then beq_bytes (sc_wtype sc) remote_name
  else mem_bytes (sc_wtype sc) (sc_types sc) && negb (beq_bytes (sc_wtype sc) remote_name).

(* C04 at full strength, for the death of the daemon (the node is killed) *)
Definition C04_full_statement : Prop :=
  forall sc cp, wf_scenario sc = true -> cp_runner cp = false -> holds sc cp = true.

(* ---------- correspondence cases ----------
   One case = one run of the real binary: the scenario, the crash point in model terms (the
   harness maps hook name and hit count to schedule and cut by the structure of [d_prog] /
   [r_prog]), and what the restarted daemon answered: at the restart (listed, known work type,
   work type, state, binding), after the unit's producer has run out (state, size), after one
   more restart (state, work type). *)
Record obs_view := mkOv {
  ov_listed : bool; ov_known : bool; ov_wtype : bytes; ov_state : N; ov_size : N;
  ov_node : bytes; ov_runit_set : bool; ov_started : bool
}.

(* A second kind of case ties the PROGRAMS to the code: the file-system calls of the daemon during
   one submission (strace of the real process, filtered to the unit directory, up to the start
   of the runner) as a list of tags must be the modifying steps of the first [n] operations of
   [d_prog], in order. *)
Definition op_tag (o : uop) : N :=
  match o with
  | UMkdir => 10
  | UOpenCreate f => 20 + ufile_id f
  | UOpenTrunc f => 30 + ufile_id f
  | UTruncate f => 40 + ufile_id f
  | UWriteAt f _ _ => 50 + ufile_id f
  | UAppend f _ => 60 + ufile_id f
  end.
Definition step_tags (s : mstep) : list N :=
  match s with MOp o => [op_tag o] | MStore => [50] | _ => [] end.
Definition prog_tags (ops : list (list mstep)) : list N := flat_map (flat_map step_tags) ops.

Inductive crash_case :=
| CCase (sc : scenario) (cp : crashpoint) (acked : bool) (restart final again : obs_view)
| OCase (sc : scenario) (n : nat) (tags : list N)
| VCase (types : list bytes) (s : status) (out_len : N) (answers : list obs_view).

Definition view_node (v : view) : bytes :=
  match s_extra (v_status v) with XRemote n _ _ _ => n | _ => [] end.
Definition view_runit_set (v : view) : bool :=
  match s_extra (v_status v) with XRemote _ _ (_ :: _) _ => true | _ => false end.

(* Pending and Running are one class for a unit that is being produced (which of the two is
   recorded at the moment of the restart depends on the moment of the producer's last rewrite) *)
Definition state_class (s : N) : N := if s <=? S_RUNNING then 0 else s.

(* sizes are compared when they cannot be in flux: the unit is finished, or nobody follows it *)
Definition agree_view (v : view) (o : obs_view) : bool :=
  Bool.eqb (v_listed v) (ov_listed o) &&
  (if v_listed v then
     Bool.eqb (v_known v) (ov_known o) && beq_bytes (s_wtype (v_status v)) (ov_wtype o)
     && (state_class (s_state (v_status v)) =? state_class (ov_state o))
     && (if st_complete (s_state (v_status v)) || negb (v_monitored v)
         then s_size (v_status v) =? ov_size o else true)
     && beq_bytes (view_node v) (ov_node o) && Bool.eqb (view_runit_set v) (ov_runit_set o)
     && Bool.eqb (started (v_status v)) (ov_started o)
   else true).

(* A third kind of case ties [recover] itself to scanForUnit + Restart on a unit at rest: a unit
   directory holding the intact record [s] (in particular every final state: Succeeded, Failed,
   Canceled, local and remote) and [out_len] bytes of output is started on several times in a
   row; each start must answer what the real daemon answered — exactly, sizes included. *)
Definition agree_exact (v : view) (o : obs_view) : bool :=
  Bool.eqb (v_listed v) (ov_listed o) &&
  (if v_listed v then
     Bool.eqb (v_known v) (ov_known o) && beq_bytes (s_wtype (v_status v)) (ov_wtype o)
     && (s_state (v_status v) =? ov_state o) && (s_size (v_status v) =? ov_size o)
     && beq_bytes (view_node v) (ov_node o) && Bool.eqb (view_runit_set v) (ov_runit_set o)
     && Bool.eqb (started (v_status v)) (ov_started o)
   else true).

Fixpoint recover_answers (types : list bytes) (x : ufiles) (answers : list obs_view) : bool :=
  match answers with
  | [] => true
  | o :: r => let '(x', v) := recover types x in agree_exact v o && recover_answers types x' r
  end.

Definition crash_check (c : crash_case) : bool :=
  match c with
  | CCase sc cp acked restart final again =>
    let o := experiment sc cp in
    Bool.eqb (o_acked o) acked
    && agree_view (o_restart o) restart
    && agree_view (o_final o) final
    && agree_view (o_again o) again
  | OCase sc n tags => beq_bytes (prog_tags (firstn n (d_prog sc))) tags
  | VCase types s n answers =>
    recover_answers types (mkU true (Some (encode s)) (Some []) (Some []) (Some (repeat 0 (N.to_nat n)))) answers
  end.

(* ---------- the whole data directory ----------
   Workceptor.scanForUnits (every RegisterWorker runs it): os.ReadDir, then scanForUnit for every
   entry, each on its own — what one entry is or holds, and whether looking at it ended in an
   error, has no bearing on the next.  An entry is a directory (a unit: [ufiles], which covers the
   empty directory, the directory without status file and the status file that is no record) or
   something else (a stray regular file: "Error locating unit", nothing done).  Names are
   numbers here, as units are everywhere in this file; the list is in directory order. *)
Inductive dentry := DUnit (x : ufiles) | DStray.

Definition scan_entry (types : list bytes) (e : dentry) : dentry * view :=
  match e with
  | DUnit x => let '(x', v) := recover types x in (DUnit x', v)
  | DStray => (DStray, no_view)
  end.

Definition scan_dir (types : list bytes) (d : list (N * dentry)) : list (N * (dentry * view)) :=
  map (fun ne => (fst ne, scan_entry types (snd ne))) d.

Definition dlookup {A} (n : N) (d : list (N * A)) : option A :=
  match find (fun ne => fst ne =? n) d with Some ne => Some (snd ne) | None => None end.

(* a scan that gives up at the first entry it counts as a failure ([fails]: any criterion): kept
   only to be refuted (Proofs/Crash.v scan_stop_refuted) *)
Fixpoint scan_stop (fails : dentry -> bool) (types : list bytes) (d : list (N * dentry))
  : list (N * (dentry * view)) :=
  match d with
  | [] => []
  | (n, e) :: r =>
    if fails e then [(n, scan_entry types e)] else (n, scan_entry types e) :: scan_stop fails types r
  end.
