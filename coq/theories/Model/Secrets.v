(* Model/Secrets.v — property C19: secret work parameters.
   Mirrors, for REMOTE work units (the only units that keep a parameter map):
     pkg/workceptor/workceptor.go  AllocateRemoteUnit  (TLS profile lookup, secret/TLS refusal,
                                   then AllocateUnit = mkdir + Save + index, then UpdateFullStatus)
     pkg/workceptor/remote_work.go Status (deep copy with every secret_* key deleted),
                                   UnredactedStatus (used only by startRemoteUnit for sending)
     pkg/workceptor/workceptor.go  unitStatusForCFR (every status / list reply is built from Status())
     pkg/workceptor/workceptor.go  scanForUnit (reload of the record from disk)
   Parameter names and values are byte strings.  Unit IDs are N (the harness numbers the units of
   a run in creation order).

   [is_secret] is strings.HasPrefix(strings.ToLower(k), "secret_") on byte strings.  Go lowers
   rune by rune; the model lowers the 26 ASCII capitals byte by byte.  The two agree on EVERY byte
   string (valid UTF-8 or not) provided no rune >= 0x80 has one of 's','e','c','r','t','_' as its
   Unicode lower case — a fact about Go's unicode tables that the harness checks exhaustively
   (all 1,114,112 code points) on every run, besides comparing is_secret with the Go expression
   on generated keys. *)
From Receptor Require Export Base.Hex.
Open Scope N_scope.

Definition ascii_lower (b : N) : N := if (65 <=? b) && (b <=? 90) then b + 32 else b.

Fixpoint has_prefix (p s : bytes) : bool :=
  match p, s with
  | [], _ => true
  | x :: p', y :: s' => (x =? y) && has_prefix p' s'
  | _ :: _, [] => false
  end.

Definition secret_prefix : bytes := [115; 101; 99; 114; 101; 116; 95].   (* "secret_" *)

Definition is_secret (k : bytes) : bool := has_prefix secret_prefix (map ascii_lower k).

(* a parameter map: the harness prints Go maps sorted by key, keys are unique *)
Definition params := list (bytes * bytes).

Definition secret_entry (kv : bytes * bytes) : bool := is_secret (fst kv).
Definition redact (p : params) : params := filter (fun kv => negb (secret_entry kv)) p.
Definition has_secrets (p : params) : bool := existsb secret_entry p.

(* ---------- records and state ---------- *)

(* the part of StatusFileData + RemoteExtraData that matters here *)
Record unit_rec := mkrec {
  u_node : bytes;       (* RemoteNode *)
  u_wtype : bytes;      (* RemoteWorkType *)
  u_tls : bytes;        (* TLSClient, [] = none *)
  u_params : params;    (* RemoteParams, UNREDACTED (memory and disk) *)
  u_live : bool;        (* Start() was called in this process: the start job may still connect *)
  u_started : bool      (* RemoteStarted *)
}.

Definition table := list (N * unit_rec).

Fixpoint lookup (id : N) (t : table) : option unit_rec :=
  match t with
  | [] => None
  | (i, r) :: t' => if i =? id then Some r else lookup id t'
  end.

(* replace in place, else append: the index keeps creation order *)
Fixpoint store (id : N) (r : unit_rec) (t : table) : table :=
  match t with
  | [] => [(id, r)]
  | (i, r') :: t' => if i =? id then (i, r) :: t' else (i, r') :: store id r t'
  end.

Fixpoint remove (id : N) (t : table) : table :=
  match t with
  | [] => []
  | (i, r) :: t' => if i =? id then remove id t' else (i, r) :: remove id t'
  end.

(* one transmission of a work submit command to another node's control service *)
Record sent_msg := mksent { s_node : bytes; s_tls : bytes; s_params : params }.

Record state := mkstate {
  mem : table;              (* Workceptor.activeUnits *)
  disk : table;             (* <datadir>/<unit>/status *)
  sent : list sent_msg      (* everything written to a connection to another node *)
}.

Definition init : state := mkstate [] [] [].

(* what a status / list reply shows of one unit: unitStatusForCFR (Status ()) *)
Record view := mkview { v_node : bytes; v_wtype : bytes; v_tls : bytes; v_params : params }.

Definition view_of (r : unit_rec) : view :=
  mkview (u_node r) (u_wtype r) (u_tls r) (redact (u_params r)).

Definition E_TLS : N := 1.       (* unknown TLS config *)
Definition E_SECRET : N := 2.    (* cannot send secrets over a non-TLS connection *)
Definition E_TTL : N := 3.       (* ttl does not parse (the unit already exists) *)
Definition E_UNIT : N := 4.      (* unknown work unit *)
Definition E_IDUSED : N := 5.    (* not a behaviour: generateUnitID never returns a used ID *)

Inductive resp :=
| RCreated (id : N)
| RErr (e : N)
| RView (id : N) (v : view)
| RList (l : list (N * view))
| RAck
| RNone.

Inductive op :=
| Submit (id : N) (node wtype tls : bytes) (ttl_ok : bool) (p : params)
      (* work submit to another node; [id] = the identifier generateUnitID picked *)
| Deliver (id : N)      (* the start job reaches the remote control service and sends the command *)
| Status (id : N)
| List
| ListOne (id : N)
| Cancel (id : N)
| Release (id : N)
| Restart.              (* daemon restart on the same data directory *)

Definition isnil (b : bytes) : bool := match b with [] => true | _ => false end.

Fixpoint mem_bytes (x : bytes) (l : list bytes) : bool :=
  match l with [] => false | y :: r => beq_bytes x y || mem_bytes x r end.

Definition set_both (id : N) (r : unit_rec) (st : state) : state :=
  mkstate (store id r (mem st)) (store id r (disk st)) (sent st).

(* AllocateRemoteUnit followed by the rest of the submit command.  [profiles] = names of the
   configured tls-client profiles. *)
Definition submit (profiles : list bytes) (st : state) (id : N) (node wtype tls : bytes)
           (ttl_ok : bool) (p : params) : state * resp :=
  match lookup id (mem st), lookup id (disk st) with
  | None, None =>
    if negb (isnil tls) && negb (mem_bytes tls profiles) then (st, RErr E_TLS)
    else if has_secrets p && isnil tls then (st, RErr E_SECRET)
    else
      (* AllocateUnit("remote", params): directory, SetFromParams, Save, index *)
      let st1 := set_both id (mkrec [] [] [] p false false) st in
      if negb ttl_ok then (st1, RErr E_TTL)
      else
        (* UpdateFullStatus with the remote node data; stdin; Start() *)
        (set_both id (mkrec node wtype tls p true false) st1, RCreated id)
  | _, _ => (st, RErr E_IDUSED)
  end.

(* findUnit: the index, else the record on disk (scanForUnit loads it into the index) *)
Definition find (st : state) (id : N) : option (unit_rec * state) :=
  match lookup id (mem st) with
  | Some r => Some (r, st)
  | None =>
    match lookup id (disk st) with
    | Some r =>
      let r' := mkrec (u_node r) (u_wtype r) (u_tls r) (u_params r) false (u_started r) in
      Some (r', mkstate (store id r' (mem st)) (disk st) (sent st))
    | None => None
    end
  end.

Definition unlive (r : unit_rec) : unit_rec :=
  mkrec (u_node r) (u_wtype r) (u_tls r) (u_params r) false (u_started r).

Definition step (profiles : list bytes) (st : state) (o : op) : state * resp :=
  match o with
  | Submit id node wtype tls ttl_ok p => submit profiles st id node wtype tls ttl_ok p
  | Deliver id =>
    match lookup id (mem st) with
    | Some r =>
      if u_live r && negb (u_started r) then
        (* startRemoteUnit: UnredactedStatus().RemoteParams + command fields, over a connection
           made with GetClientTLSConfig(TLSClient) *)
        let r' := mkrec (u_node r) (u_wtype r) (u_tls r) (u_params r) true true in
        (mkstate (store id r' (mem st)) (store id r' (disk st))
                 (mksent (u_node r) (u_tls r) (u_params r) :: sent st), RNone)
      else (st, RNone)
    | None => (st, RNone)
    end
  | Status id =>
    match find st id with
    | Some (r, st') => (st', RView id (view_of r))
    | None => (st, RErr E_UNIT)
    end
  | ListOne id =>
    match find st id with
    | Some (r, st') => (st', RList [(id, view_of r)])
    | None => (st, RErr E_UNIT)
    end
  | List => (st, RList (map (fun ir => (fst ir, view_of (snd ir))) (mem st)))
  | Cancel id =>
    match find st id with
    | Some (r, st') => (set_both id (unlive r) st', RAck)
    | None => (st, RErr E_UNIT)
    end
  | Release id =>
    match find st id with
    | Some (_, st') => (mkstate (remove id (mem st')) (remove id (disk st')) (sent st'), RAck)
    | None => (st, RErr E_UNIT)
    end
  | Restart =>
    (* a new process: the index is rebuilt from the status files; Restart() of a remote unit
       that had not started fails, nothing is running for it any more *)
    (mkstate (map (fun ir => (fst ir, unlive (snd ir))) (disk st)) (disk st) (sent st), RNone)
  end.

Fixpoint run (profiles : list bytes) (st : state) (h : list op) : state * list resp :=
  match h with
  | [] => (st, [])
  | o :: h' =>
    let '(st1, r) := step profiles st o in
    let '(st2, rs) := run profiles st1 h' in (st2, r :: rs)
  end.

(* the parameter map a reply shows for unit [id], if it shows one *)
Fixpoint assoc_view (id : N) (l : list (N * view)) : option view :=
  match l with
  | [] => None
  | (i, v) :: l' => if i =? id then Some v else assoc_view id l'
  end.

Definition shown (id : N) (r : resp) : option params :=
  match r with
  | RView i v => if i =? id then Some (v_params v) else None
  | RList l => match assoc_view id l with Some v => Some (v_params v) | None => None end
  | _ => None
  end.

(* the history does not allocate [id] again (an ID is free for reuse after release; a later
   unit with the same ID is another unit) *)
Fixpoint not_resubmitted (id : N) (h : list op) : bool :=
  match h with
  | [] => true
  | Submit i _ _ _ _ _ :: h' => negb (i =? id) && not_resubmitted id h'
  | _ :: h' => not_resubmitted id h'
  end.

(* ---------- Kubernetes work units ---------- *)

(* pkg/workceptor/kubernetes.go: the two secret parameters of a Kubernetes work unit,
   secret_kube_config and secret_kube_pod, are kept in KubeExtraData.KubeConfig / KubePod (memory
   and status file); KubeUnit.Status (), from which every status / list reply is built, blanks
   both and leaves the other fields alone. *)
Record kube_rec := mkkube { k_config : bytes; k_pod : bytes; k_namespace : bytes; k_image : bytes }.

(* the permission flags of a Kubernetes work type (work-kubernetes: allowruntimeauth,
   allowruntimepod, allowruntimecommand, allowruntimeparams).  They decide which parameters a
   submission may carry (SetFromParams); the blanking in Status () does not look at them. *)
Record kube_flags := mkflags { f_auth : bool; f_pod : bool; f_command : bool; f_params : bool }.

Definition kube_view (fl : kube_flags) (r : kube_rec) : kube_rec := mkkube [] [] (k_namespace r) (k_image r).

(* SetFromParams: a parameter the work type does not allow refuses the submission *)
Definition kube_accepts (fl : kube_flags) (has_config has_pod has_namespace has_command has_params : bool) : bool :=
  (negb has_config || f_auth fl) && (negb has_namespace || f_auth fl) && (negb has_pod || f_pod fl)
  && (negb has_command || f_command fl) && (negb has_params || f_params fl).

(* ---------- correspondence cases ---------- *)

Fixpoint beq_params (a b : params) : bool :=
  match a, b with
  | [], [] => true
  | (k, v) :: a', (k', v') :: b' => beq_bytes k k' && beq_bytes v v' && beq_params a' b'
  | _, _ => false
  end.

Definition beq_view (a b : view) : bool :=
  beq_bytes (v_node a) (v_node b) && beq_bytes (v_wtype a) (v_wtype b)
  && beq_bytes (v_tls a) (v_tls b) && beq_params (v_params a) (v_params b).

Fixpoint beq_views (a b : list (N * view)) : bool :=
  match a, b with
  | [], [] => true
  | (i, v) :: a', (j, w) :: b' => (i =? j) && beq_view v w && beq_views a' b'
  | _, _ => false
  end.

Definition beq_resp (a b : resp) : bool :=
  match a, b with
  | RCreated i, RCreated j => i =? j
  | RErr e, RErr f => e =? f
  | RView i v, RView j w => (i =? j) && beq_view v w
  | RList l, RList m => beq_views l m
  | RAck, RAck => true
  | RNone, RNone => true
  | _, _ => false
  end.

Fixpoint beq_resps (a b : list resp) : bool :=
  match a, b with
  | [], [] => true
  | x :: a', y :: b' => beq_resp x y && beq_resps a' b'
  | _, _ => false
  end.

(* unredacted parameter maps of the status files, by unit *)
Fixpoint beq_disk (a : table) (b : list (N * params)) : bool :=
  match a, b with
  | [], [] => true
  | (i, r) :: a', (j, p) :: b' => (i =? j) && beq_params (u_params r) p && beq_disk a' b'
  | _, _ => false
  end.

Inductive secrets_case :=
| CKey (k : bytes) (go_secret : bool)
     (* strings.HasPrefix(strings.ToLower(k), "secret_") evaluated by Go *)
| CHist (profiles : list bytes) (h : list op) (observed : list resp) (files : list (N * params))
| CKube (fl : kube_flags) (stored shown : kube_rec)
     (* a Kubernetes unit of a work type with these flags: the record in its status file, and
        what a status / list reply shows *)
| CKubeSubmit (fl : kube_flags) (has_config has_pod has_namespace has_command has_params : bool) (refused_as_not_allowed : bool).
     (* a history on the real daemon: the projected reply to every operation, and the parameter
        maps found in the status files at the end *)

Definition secrets_check (c : secrets_case) : bool :=
  match c with
  | CKey k g => Bool.eqb (is_secret k) g
  | CHist profiles h observed files =>
    let '(st, rs) := run profiles init h in
    beq_resps rs observed && beq_disk (disk st) files
  | CKubeSubmit fl hc hp hn hcmd hpar refused =>
    Bool.eqb (negb (kube_accepts fl hc hp hn hcmd hpar)) refused
  | CKube fl stored shown =>
    let v := kube_view fl stored in
    beq_bytes (k_config v) (k_config shown) && beq_bytes (k_pod v) (k_pod shown)
    && beq_bytes (k_namespace v) (k_namespace shown) && beq_bytes (k_image v) (k_image shown)
  end.
