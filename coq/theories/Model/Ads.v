(* Model/Ads.v — one node's handling of service advertisements and withdrawals:
   pkg/netceptor/netceptor.go handleServiceAdvertisement (lines 1711-1748),
   AddLocalServiceAdvertisement / RemoveLocalServiceAdvertisement (682-730).
   Two versions are kept side by side:
     [handle_ad_pinned]  the pinned tree: a withdrawal deletes the entry and leaves no trace;
     [handle_ad]         the tree after the "fix:" commit: a withdrawal leaves a tombstone with
                         its timestamp, and nothing that is not newer than the tombstone is
                         accepted or relayed.
   Node, service and content identifiers are numbers; time is a number (nanoseconds). *)
From Receptor Require Export Base.AMap.
Open Scope N_scope.

Definition node := N.

Record ad := {
  a_node : node;
  a_svc : N;
  a_time : N;
  a_cancel : bool;
  a_body : N                (* identifier of (ConnType, Tags, WorkCommands) *)
}.

Record astate := {
  as_self : node;
  as_conns : list node;                       (* sorted *)
  as_ads : amap (amap (N * N));               (* node -> service -> (time, body) *)
  as_tomb : amap (amap N)                     (* node -> service -> time of the newest withdrawal *)
}.

Definition get2 {V} (n s : N) (m : amap (amap V)) : option V :=
  match aget n m with Some sm => aget s sm | None => None end.

Definition set2 {V} (n s : N) (v : V) (m : amap (amap V)) : amap (amap V) :=
  aset n (aset s v (match aget n m with Some sm => sm | None => [] end)) m.

(* delete the service; drop the node's map when it becomes empty *)
Definition del2 {V} (n s : N) (m : amap (amap V)) : amap (amap V) :=
  match aget n m with
  | None => m
  | Some sm => match adel s sm with
               | [] => adel n m
               | sm' => aset n sm' m
               end
  end.

Definition set_ads (st : astate) ads tomb : astate :=
  {| as_self := as_self st; as_conns := as_conns st; as_ads := ads; as_tomb := tomb |}.

Definition ad_relays (st : astate) (a : ad) (recv : node) : list (node * ad) :=
  map (fun c => (c, a)) (filter (fun c => negb (c =? recv)) (as_conns st)).

(* ---- the pinned tree ---- *)
Definition handle_ad_pinned (st : astate) (a : ad) (recv : node) : astate * list (node * ad) :=
  let keep := match get2 (a_node a) (a_svc a) (as_ads st) with
              | Some (t, _) => negb (t <? a_time a)        (* !si.Time.After(cur.Time) *)
              | None => false
              end in
  if keep then (st, [])
  else
    let ads := if a_cancel a then del2 (a_node a) (a_svc a) (as_ads st)
               else set2 (a_node a) (a_svc a) (a_time a, a_body a) (as_ads st) in
    let st' := set_ads st ads (as_tomb st) in
    (st', ad_relays st' a recv).

(* ---- the repaired tree ---- *)
Definition handle_ad (st : astate) (a : ad) (recv : node) : astate * list (node * ad) :=
  let keep := match get2 (a_node a) (a_svc a) (as_ads st) with
              | Some (t, _) => negb (t <? a_time a)
              | None => false
              end in
  if keep then (st, [])
  else
    let buried := match get2 (a_node a) (a_svc a) (as_tomb st) with
                  | Some t => negb (t <? a_time a)           (* not newer than the withdrawal *)
                  | None => false
                  end in
    if buried then (st, [])
    else
      let ads := if a_cancel a then del2 (a_node a) (a_svc a) (as_ads st)
                 else set2 (a_node a) (a_svc a) (a_time a, a_body a) (as_ads st) in
      let tomb := if a_cancel a then set2 (a_node a) (a_svc a) (a_time a) (as_tomb st)
                  else del2 (a_node a) (a_svc a) (as_tomb st) in
      let st' := set_ads st ads tomb in
      (st', ad_relays st' a recv).

Fixpoint run_ads (h : astate -> ad -> node -> astate * list (node * ad))
         (st : astate) (l : list (ad * node)) : astate :=
  match l with
  | [] => st
  | (a, r) :: l' => run_ads h (fst (h st a r)) l'
  end.

(* ---- the node's own listeners (repaired tree) ----
   AddLocalServiceAdvertisement: list the own service with the current time, forget its
   withdrawal (the periodic re-advertisement that tells the neighbours runs later, on a timer);
   RemoveLocalServiceAdvertisement: unlist it, remember the withdrawal, and flood the
   withdrawal to every connection at once. *)
Definition local_add (st : astate) (svc t body : N) : astate :=
  set_ads st (set2 (as_self st) svc (t, body) (as_ads st)) (del2 (as_self st) svc (as_tomb st)).

Definition local_remove (st : astate) (svc t : N) : astate * list (node * ad) :=
  let st' := set_ads st (del2 (as_self st) svc (as_ads st)) (set2 (as_self st) svc t (as_tomb st)) in
  (st', map (fun c => (c, {| a_node := as_self st; a_svc := svc; a_time := t; a_cancel := true; a_body := 0 |}))
            (as_conns st)).

Inductive ad_event :=
| EvRecv (a : ad) (recv : node)
| EvLocalAdd (svc t body : N)
| EvLocalRemove (svc t : N).

Definition ad_step (st : astate) (e : ad_event) : astate * list (node * ad) :=
  match e with
  | EvRecv a r => handle_ad st a r
  | EvLocalAdd svc t body => (local_add st svc t body, [])
  | EvLocalRemove svc t => local_remove st svc t
  end.

Fixpoint run_events (st : astate) (l : list ad_event) : astate :=
  match l with [] => st | e :: l' => run_events (fst (ad_step st e)) l' end.

(* is (n, s) listed, and with which time *)
Definition listed (st : astate) (n s : N) : option (N * N) := get2 n s (as_ads st).

(* ---------- correspondence cases ---------- *)
Record ad_obs := {
  ao_ads : amap (amap (N * N));                         (* Status().Advertisements, sorted *)
  ao_relays : list (node * N * N * N * bool)            (* conn, node, service, time, cancel *)
}.

Fixpoint beq_svcs (a b : amap (N * N)) : bool :=
  match a, b with
  | [], [] => true
  | (k, (t, c)) :: a', (k', (t', c')) :: b' => (k =? k') && (t =? t') && (c =? c') && beq_svcs a' b'
  | _, _ => false
  end.
Fixpoint beq_ads (a b : amap (amap (N * N))) : bool :=
  match a, b with
  | [], [] => true
  | (k, v) :: a', (k', v') :: b' => (k =? k') && beq_svcs v v' && beq_ads a' b'
  | _, _ => false
  end.
Fixpoint beq_adrel (a : list (node * ad)) (b : list (node * N * N * N * bool)) : bool :=
  match a, b with
  | [], [] => true
  | (c, x) :: a', (c', n, s, t, k) :: b' =>
    (c =? c') && (a_node x =? n) && (a_svc x =? s) && (a_time x =? t) && Bool.eqb (a_cancel x) k
    && beq_adrel a' b'
  | _, _ => false
  end.

Fixpoint ads_run_check (h : astate -> ad -> node -> astate * list (node * ad))
         (st : astate) (l : list (ad * node * ad_obs)) : bool :=
  match l with
  | [] => true
  | (a, r, o) :: l' =>
    let '(st', rel) := h st a r in
    beq_ads (as_ads st') (ao_ads o) && beq_adrel rel (ao_relays o) && ads_run_check h st' l'
  end.

Fixpoint ev_run_check (st : astate) (l : list (ad_event * ad_obs)) : bool :=
  match l with
  | [] => true
  | (e, o) :: l' =>
    let '(st', rel) := ad_step st e in
    beq_ads (as_ads st') (ao_ads o) && beq_adrel rel (ao_relays o) && ev_run_check st' l'
  end.

Record ev_case := { ec_conns : list node; ec_hist : list (ad_event * ad_obs) }.

Record ads_case := { ac_conns : list node; ac_hist : list (ad * node * ad_obs) }.
Definition ads_init (conns : list node) : astate :=
  {| as_self := 1; as_conns := conns; as_ads := []; as_tomb := [] |}.
Definition ads_check (c : ads_case) : bool := ads_run_check handle_ad (ads_init (ac_conns c)) (ac_hist c).
Definition ev_check (c : ev_case) : bool := ev_run_check (ads_init (ec_conns c)) (ec_hist c).
Definition ads_check_pinned (c : ads_case) : bool :=
  ads_run_check handle_ad_pinned (ads_init (ac_conns c)) (ac_hist c).

(* both kinds of cases of the C18 harness *)
Inductive c18_case := CHist (c : ads_case) | CEv (c : ev_case).
Definition c18_check (c : c18_case) : bool :=
  match c with CHist h => ads_check h | CEv e => ev_check e end.
Definition c18_check_pinned (c : c18_case) : bool :=
  match c with CHist h => ads_check_pinned h | CEv _ => true end.
