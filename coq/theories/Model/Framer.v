(* Model/Framer.v — pkg/framer/framer.go and the receive loop of the stream backends
   (backends.TCPSession.Recv, netceptor.netMessageConn.ReadMessage):
     SendData      frame          little-endian uint16(len) prefix (the conversion truncates)
     RecvData      feed           append to the buffer
     messageReady  ready          at least 2 bytes and at least 2+size bytes
     GetMessage    pop            one message off the front, or "message not ready"
     Recv loop     recv_one       while not ready: read one chunk from the connection, feed it
   No partial operation is unguarded in this code, hence no Panic outcome. *)
From Receptor Require Export Base.Hex.
Open Scope N_scope.

Definition flen (b : bytes) : N := N.of_nat (length b).

(* The header is a 16-bit field: SendData writes uint16(len(data)), i.e. the length modulo 2^16.
   For messages shorter than 65536 bytes (everything netceptor produces: MTU 16384 + 36) the
   header is the exact length and the receiver's int arithmetic "msgSize + 2" (at most 65537)
   cannot wrap, so the unbounded N arithmetic of this model is exact on that whole range
   (Proofs/Framer.v frame_header_exact, pop_in_bounds).  From 65536 bytes on the code silently
   truncates the length; the model does the same (frame_header_wraps, oversize_frame_garbled). *)

Definition frame (m : bytes) : bytes :=
  let n := flen m in (n mod 256) :: ((n / 256) mod 256) :: m.

Definition feed (buf chunk : bytes) : bytes := buf ++ chunk.

(* GetMessage: (message, rest of the buffer), None = "message not ready" *)
Definition pop (buf : bytes) : option (bytes * bytes) :=
  match buf with
  | b0 :: b1 :: r =>
    let n := b0 + 256 * b1 in
    if n <=? flen r then Some (firstn (N.to_nat n) r, skipn (N.to_nat n) r) else None
  | _ => None
  end.

Definition ready (buf : bytes) : bool := match pop buf with Some _ => true | None => false end.

(* one Recv/ReadMessage call: the chunks are what successive conn.Read calls return; the list
   running out is EOF (or a read timeout): the call fails and nothing is delivered *)
Fixpoint recv_one (buf : bytes) (chunks : list bytes) : option (bytes * bytes * list bytes) :=
  match pop buf with
  | Some (m, buf') => Some (m, buf', chunks)
  | None => match chunks with
            | [] => None
            | c :: cs => recv_one (feed buf c) cs
            end
  end.

(* the session's reader calls Recv until it fails *)
Fixpoint recv_loop (fuel : nat) (buf : bytes) (chunks : list bytes) : list bytes :=
  match fuel with
  | O => []
  | S f => match recv_one buf chunks with
           | None => []
           | Some (m, buf', cs) => m :: recv_loop f buf' cs
           end
  end.

Definition stream (msgs : list bytes) : bytes := concat (map frame msgs).

(* ---------- correspondence cases ---------- *)

(* compact literal for long test payloads: n bytes s, s+1, ... modulo 251 *)
Fixpoint ramp_nat (k : nat) (s : N) : bytes :=
  match k with O => [] | S k' => (s mod 251) :: ramp_nat k' (s + 1) end.
Definition ramp (n s : N) : bytes := ramp_nat (N.to_nat n) s.

Fixpoint beq_blist (a b : list bytes) : bool :=
  match a, b with
  | [], [] => true
  | x :: a', y :: b' => beq_bytes x y && beq_blist a' b'
  | _, _ => false
  end.

(* one call on a real framer object and its result *)
Inductive fop :=
| FFeed (c : bytes)                 (* RecvData(c) *)
| FReady (obs : bool)               (* MessageReady() = obs *)
| FGet (obs : option bytes).        (* GetMessage() = obs, None = error *)

Fixpoint framer_run (buf : bytes) (ops : list fop) : bool :=
  match ops with
  | [] => true
  | FFeed c :: r => framer_run (feed buf c) r
  | FReady obs :: r => Bool.eqb (ready buf) obs && framer_run buf r
  | FGet obs :: r =>
    match pop buf, obs with
    | Some (m, buf'), Some o => beq_bytes m o && framer_run buf' r
    | None, None => framer_run buf r
    | _, _ => false
    end
  end.

Inductive framer_case :=
| FSend (m : bytes) (obs : bytes)                      (* SendData(m) = obs *)
| FOps (ops : list fop)                                (* calls on one framer.New() *)
| FStream (chunks : list bytes) (obs : list bytes).    (* MessageConnFromNetConn over a connection
                                                          whose Reads return the chunks, then EOF:
                                                          the messages ReadMessage returned *)

Definition framer_check (c : framer_case) : bool :=
  match c with
  | FSend m obs => beq_bytes (frame m) obs
  | FOps ops => framer_run [] ops
  | FStream chunks obs => beq_blist (recv_loop (S (length obs) + length chunks) [] chunks) obs
  end.
