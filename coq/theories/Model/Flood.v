(* Model/Flood.v — one node's handling of a routing update: pkg/netceptor/netceptor.go
   handleRoutingUpdate (lines 1454-1567), flood (920-934), expireSeenUpdates (809-825).
   Node and update identifiers are numbers (the harness keeps the bijection with the strings;
   0 is the empty node ID).  Costs are numbers (the harness uses integer costs). *)
From Receptor Require Export Base.AMap.
Open Scope N_scope.

Definition node := N.

Record upd := {
  u_origin : node;                         (* NodeID *)
  u_id : N;                                (* UpdateID *)
  u_epoch : N;
  u_seq : N;
  u_conns : option (amap N);               (* Connections; None = nil map (absent/null in JSON) *)
  u_fwd : node;                            (* ForwardingNode *)
  u_susp : N                               (* SuspectedDuplicate *)
}.

Record nstate := {
  ns_self : node;
  ns_epoch : N;
  ns_conns : list node;                    (* keys of connections, sorted *)
  ns_info : amap (N * N);                  (* knownNodeInfo: origin -> (epoch, sequence) *)
  ns_known : amap (amap N);                (* knownConnectionCosts *)
  ns_seen : list N;                        (* seenUpdates (a sorted set) *)
  ns_down : bool                           (* Shutdown() was called *)
}.

Inductive action :=
| Relay (to : node) (u : upd)              (* flood: one write per connection *)
| OwnUpdate (susp : N)                     (* sendRoutingUpdate(susp): notice to everybody *)
| ReqFlood                                 (* sendRouteFloodChan <- 0 *)
| ReqRebuild.                              (* updateRoutingTableChan <- 100ms *)

(* lexicographic order on (epoch, sequence) *)
Definition lex_lt (a b : N * N) : bool :=
  (fst a <? fst b) || ((fst a =? fst b) && (snd a <? snd b)).
Definition lex_le (a b : N * N) : bool :=
  (fst a <? fst b) || ((fst a =? fst b) && (snd a <=? snd b)).

Fixpoint beq_costs (a b : amap N) : bool :=
  match a, b with
  | [], [] => true
  | (k, v) :: a', (k', v') :: b' => (k =? k') && (v =? v') && beq_costs a' b'
  | _, _ => false
  end.

(* reflect.DeepEqual(ri.Connections, s.knownConnectionCosts[ri.NodeID]): a nil map and a
   non-nil map are different even when both are empty *)
Definition conns_equal (c k : option (amap N)) : bool :=
  match c, k with
  | None, None => true
  | Some a, Some b => beq_costs a b
  | _, _ => false
  end.

Definition conns_of (c : option (amap N)) : amap N := match c with Some a => a | None => [] end.

(* for conn in knownConnectionCosts: if conn != self and origin does not list conn,
   delete knownConnectionCosts[conn][origin] *)
Fixpoint prune (self origin : node) (listed : amap N) (known : amap (amap N)) : amap (amap N) :=
  match known with
  | [] => []
  | (c, adj) :: r =>
    (c, if (c =? self) || amem c listed then adj else adel origin adj) :: prune self origin listed r
  end.

Definition set_state (st : nstate) info known seen down : nstate :=
  {| ns_self := ns_self st; ns_epoch := ns_epoch st; ns_conns := ns_conns st;
     ns_info := info; ns_known := known; ns_seen := seen; ns_down := down |}.

Definition relays (st : nstate) (u : upd) (recv : node) : list action :=
  let u' := {| u_origin := u_origin u; u_id := u_id u; u_epoch := u_epoch u; u_seq := u_seq u;
               u_conns := u_conns u; u_fwd := ns_self st; u_susp := u_susp u |} in
  map (fun c => Relay c u') (filter (fun c => negb (c =? recv)) (ns_conns st)).

(* every listed cost is positive (an update listing a zero or negative cost is ignored) *)
Fixpoint costs_pos (a : amap N) : bool :=
  match a with [] => true | (_, c) :: r => (0 <? c) && costs_pos r end.
Definition conns_pos (c : option (amap N)) : bool :=
  match c with Some a => costs_pos a | None => true end.

Definition handle_update (st : nstate) (u : upd) (recv : node) : nstate * list action :=
  if u_origin u =? 0 then (st, [])
  else if negb (conns_pos (u_conns u)) then (st, [])
  else if u_origin u =? ns_self st then
    if u_epoch u =? ns_epoch st then (st, [])
    else if u_susp u =? ns_epoch st then
      (set_state st (ns_info st) (ns_known st) (ns_seen st) true, [])
    else if ns_epoch st <? u_epoch u then
      (* sendRoutingUpdate returns at once when there is no connection *)
      (st, match ns_conns st with [] => [] | _ => [OwnUpdate (u_epoch u)] end)
    else (st, [])
  else if mem_N (u_id u) (ns_seen st) then (st, [])
  else
    let seen := sadd (u_id u) (ns_seen st) in
    if negb (u_susp u =? 0) then
      (* duplicate-node notice: rewrites the stored pair only when it names the stored epoch *)
      let info := match aget (u_origin u) (ns_info st) with
                  | Some (e, _) => if e =? u_susp u
                                   then aset (u_origin u) (u_epoch u, u_seq u) (ns_info st)
                                   else ns_info st
                  | None => ns_info st
                  end in
      let st' := set_state st info (ns_known st) seen (ns_down st) in
      (st', relays st' u recv)
    else
      let stale := match aget (u_origin u) (ns_info st) with
                   | Some p => lex_le (u_epoch u, u_seq u) p
                   | None => false
                   end in
      if stale then (set_state st (ns_info st) (ns_known st) seen (ns_down st), [])
      else
        let isnew := negb (amem (u_origin u) (ns_info st)) in
        let info := aset (u_origin u) (u_epoch u, u_seq u) (ns_info st) in
        let changed := negb (conns_equal (u_conns u) (aget (u_origin u) (ns_known st))) in
        let known := if changed
                     then prune (ns_self st) (u_origin u) (conns_of (u_conns u))
                                (aset (u_origin u) (conns_of (u_conns u)) (ns_known st))
                     else ns_known st in
        let st' := set_state st info known seen (ns_down st) in
        (st', (if isnew then [ReqFlood] else []) ++ (if changed then [ReqRebuild] else [])
              ++ relays st' u recv).

(* expireSeenUpdates forgetting one ID *)
Definition expire (st : nstate) (id : N) : nstate :=
  set_state st (ns_info st) (ns_known st) (filter (fun x => negb (x =? id)) (ns_seen st)) (ns_down st).

(* removeConnection: the session to neighbour c has ended.  The connection goes, and with it the two cost
   entries that describe the link (the node's own row and c's row); what the node has LEARNED - the stored
   (epoch, sequence) pairs, the other rows, the seen IDs - stays. *)
Definition drop_entry (row k : node) (m : amap (amap N)) : amap (amap N) :=
  match aget row m with Some r => aset row (adel k r) m | None => m end.
Definition conn_lost (st : nstate) (c : node) : nstate :=
  {| ns_self := ns_self st; ns_epoch := ns_epoch st;
     ns_conns := filter (fun x => negb (x =? c)) (ns_conns st);
     ns_info := ns_info st;
     ns_known := drop_entry (ns_self st) c (drop_entry c (ns_self st) (ns_known st));
     ns_seen := ns_seen st; ns_down := ns_down st |}.

(* histories *)
Inductive event := Recv (u : upd) (recv : node) | Expire (id : N) | Lost (c : node).

Definition step (st : nstate) (e : event) : nstate * list action :=
  match e with
  | Recv u r => handle_update st u r
  | Expire id => (expire st id, [])
  | Lost c => (conn_lost st c, [])
  end.

Fixpoint run (st : nstate) (h : list event) : nstate * list (list action) :=
  match h with
  | [] => (st, [])
  | e :: r => let '(st', a) := step st e in
              let '(st'', as_) := run st' r in (st'', a :: as_)
  end.

(* ---------- correspondence cases ---------- *)

(* what the harness observes after every step: knownNodeInfo, knownConnectionCosts (both sorted),
   seenUpdates, whether the node shut down, and the relays it wrote: (connection, update id,
   forwarding node, origin) sorted by connection; own updates are reported as the number of
   notices (SuspectedDuplicate <> 0) with their suspected epochs *)
Record observed := {
  o_info : amap (N * N);
  o_known : amap (amap N);
  o_seen : list N;
  o_down : bool;
  o_relays : list (node * N * node * node);
  o_notices : list N
}.

Fixpoint beq_info (a b : amap (N * N)) : bool :=
  match a, b with
  | [], [] => true
  | (k, (e, s)) :: a', (k', (e', s')) :: b' => (k =? k') && (e =? e') && (s =? s') && beq_info a' b'
  | _, _ => false
  end.
Fixpoint beq_known (a b : amap (amap N)) : bool :=
  match a, b with
  | [], [] => true
  | (k, v) :: a', (k', v') :: b' => (k =? k') && beq_costs v v' && beq_known a' b'
  | _, _ => false
  end.
Fixpoint beq_nlist (a b : list N) : bool :=
  match a, b with
  | [], [] => true
  | x :: a', y :: b' => (x =? y) && beq_nlist a' b'
  | _, _ => false
  end.
Fixpoint beq_relays (a b : list (node * N * node * node)) : bool :=
  match a, b with
  | [], [] => true
  | (c, i, f, o) :: a', (c', i', f', o') :: b' =>
    (c =? c') && (i =? i') && (f =? f') && (o =? o') && beq_relays a' b'
  | _, _ => false
  end.

Definition relay_obs (acts : list action) : list (node * N * node * node) :=
  flat_map (fun a => match a with Relay c u => [(c, u_id u, u_fwd u, u_origin u)] | _ => [] end) acts.
Definition notice_obs (acts : list action) : list N :=
  flat_map (fun a => match a with OwnUpdate s => [s] | _ => [] end) acts.

Definition obs_ok (st : nstate) (acts : list action) (o : observed) : bool :=
  beq_info (ns_info st) (o_info o) && beq_known (ns_known st) (o_known o)
  && beq_nlist (ns_seen st) (o_seen o) && Bool.eqb (ns_down st) (o_down o)
  && beq_relays (relay_obs acts) (o_relays o) && beq_nlist (notice_obs acts) (o_notices o).

(* a case: initial state, then a history of events each with what was observed after it *)
Fixpoint run_check (st : nstate) (h : list (event * observed)) : bool :=
  match h with
  | [] => true
  | (e, o) :: r => let '(st', a) := step st e in obs_ok st' a o && run_check st' r
  end.

Record flood_case := { fc_init : nstate; fc_hist : list (event * observed) }.
Definition flood_check (c : flood_case) : bool := run_check (fc_init c) (fc_hist c).
