(* Model/Unreach.v — what a sender learns about a datagram that cannot be delivered (C16).
   pkg/netceptor/netceptor.go: handleMessageData (firewall, reserved services, unknown or
   cancelled listener -> synchronous error for a local sender, otherwise sendUnreachable),
   forwardMessage (hop budget), handlePing, sendUnreachable / handleUnreachable (JSON body,
   unreachableBroker); packetconn.go: StartUnreachable (per-socket filter on FromNode and
   FromService); conn.go: monitorUnreachable (a dial is cancelled by a matching "service
   unknown").

   Node and service names are byte strings.  The payload of a datagram is irrelevant here.  The
   mesh is a list of nodes and a routing function giving, for two nodes, the list of nodes a
   packet visits (first = where it is handed to handleMessageData, last = where it should
   arrive); packet forwarding proper (wire format, next-hop choice) belongs to C02/C10 and only
   the per-node decision is modelled. *)
From Receptor Require Export Model.Utf8.
From Coq Require Import String.
Open Scope N_scope.

Definition name := bytes.
Definition S_PING : name := str "ping".
Definition S_UNREACH : name := str "unreach".
Definition reserved (s : name) : bool := beq_bytes s S_PING || beq_bytes s S_UNREACH.

(* ---------- a name after json.Marshal / json.Unmarshal of a Go string ----------
   encoding/json writes every byte that does not start a well-formed UTF-8 sequence as �
   (utf8.DecodeRuneInString returns (RuneError, 1)); everything else survives the round trip. *)
Definition repl : bytes := [239; 191; 189].

Fixpoint json_rt (l : bytes) : bytes :=
  match l with
  | [] => []
  | b0 :: r0 =>
    if b0 <? 128 then b0 :: json_rt r0
    else match r0 with
    | [] => repl
    | b1 :: r1 =>
      if inr 194 223 b0 then
        (if cont b1 then b0 :: b1 :: json_rt r1 else repl ++ json_rt r0)
      else match r1 with
      | [] => repl ++ json_rt r0
      | b2 :: r2 =>
        if b0 =? 224 then
          (if inr 160 191 b1 && cont b2 then b0 :: b1 :: b2 :: json_rt r2 else repl ++ json_rt r0)
        else if inr 225 236 b0 || inr 238 239 b0 then
          (if cont b1 && cont b2 then b0 :: b1 :: b2 :: json_rt r2 else repl ++ json_rt r0)
        else if b0 =? 237 then
          (if inr 128 159 b1 && cont b2 then b0 :: b1 :: b2 :: json_rt r2 else repl ++ json_rt r0)
        else match r2 with
        | [] => repl ++ json_rt r0
        | b3 :: r3 =>
          if b0 =? 240 then
            (if inr 144 191 b1 && cont b2 && cont b3 then b0 :: b1 :: b2 :: b3 :: json_rt r3
             else repl ++ json_rt r0)
          else if inr 241 243 b0 then
            (if cont b1 && cont b2 && cont b3 then b0 :: b1 :: b2 :: b3 :: json_rt r3
             else repl ++ json_rt r0)
          else if b0 =? 244 then
            (if inr 128 143 b1 && cont b2 && cont b3 then b0 :: b1 :: b2 :: b3 :: json_rt r3
             else repl ++ json_rt r0)
          else repl ++ json_rt r0
        end
      end
    end
  end.

(* ---------- packets, notices, nodes ---------- *)
Record pkt := mkpkt { p_fn : name; p_fs : name; p_tn : name; p_ts : name }.

Inductive problem := PUnknown | PExpired | PRejected.   (* "service unknown" | "message expired" | "blocked by firewall" *)

(* UnreachableNotification as a subscriber sees it: the four address fields of the JSON body,
   the problem, and ReceivedFromNode (the source of the notice packet, taken from the wire) *)
Record notif := mknotif { nt_fn : name; nt_tn : name; nt_fs : name; nt_ts : name;
                          nt_pb : problem; nt_via : name }.

Inductive fwres := FwAccept | FwReject | FwDrop.

(* one node: its ID, the services that have a live listener (listenerRegistry entries whose
   context is not cancelled; one socket per name), and its firewall as a first-match list of
   rules (what the harness installs through netceptor.ParseFirewallRules) *)
(* a firewall rule as receptor's configuration writes it: any subset of the four address fields
   (a plain string or a /regex/; for the literal names used here both mean "equal"), all given
   fields must match; first matching rule decides *)
Record fwrule := mkrule { r_fn : option name; r_tn : option name; r_fs : option name; r_ts : option name; r_res : fwres }.
Record node := mknode { nd_id : name; nd_bound : list name; nd_fw : list fwrule }.

Definition opt_match (o : option name) (x : name) : bool :=
  match o with None => true | Some y => beq_bytes y x end.
Definition rule_matches (r : fwrule) (p : pkt) : bool :=
  opt_match (r_fn r) (p_fn p) && opt_match (r_tn r) (p_tn p) && opt_match (r_fs r) (p_fs p) && opt_match (r_ts r) (p_ts p).

Fixpoint fw_eval (rules : list fwrule) (p : pkt) : fwres :=
  match rules with
  | [] => FwAccept
  | r :: rest => if rule_matches r p then r_res r else fw_eval rest p
  end.

Definition mem (s : name) (l : list name) : bool := existsb (beq_bytes s) l.

Fixpoint find_node (w : list node) (a : name) : option node :=
  match w with
  | [] => None
  | n :: r => if beq_bytes (nd_id n) a then Some n else find_node r a
  end.

(* ---------- handleMessageData + forwardMessage at one node ---------- *)
Inductive hout :=
| HNothing                 (* dropped without a trace *)
| HDeliver                 (* offered to the listener's channel *)
| HSyncUnknown             (* fmt.Errorf("service unknown") returned to the local caller *)
| HNotice (pb : problem)   (* sendUnreachable(md.FromNode, {the four fields, pb}) *)
| HPing                    (* handlePing: empty reply to the sender *)
| HPublish                 (* handleUnreachable: body to the unreachable broker *)
| HForward.                (* written to the next hop with one hop less *)

Definition handle (nd : node) (hops : N) (p : pkt) : hout :=
  match fw_eval (nd_fw nd) p with
  | FwDrop => HNothing
  | FwReject => if beq_bytes (p_fs p) S_UNREACH then HNothing else HNotice PRejected
  | FwAccept =>
    if beq_bytes (p_tn p) (nd_id nd) then
      if beq_bytes (p_ts p) S_PING then
        (if beq_bytes (p_fs p) S_PING then HNothing else HPing)   (* handlePing never answers the ping service *)
      else if beq_bytes (p_ts p) S_UNREACH then HPublish
      else if mem (p_ts p) (nd_bound nd) then HDeliver
      else if beq_bytes (p_fn p) (nd_id nd) then HSyncUnknown
      else HNotice PUnknown
    else if hops =? 0 then
      (if beq_bytes (p_fs p) S_UNREACH then HNothing else HNotice PExpired)
    else HForward
  end.

(* ---------- a packet along its path ---------- *)
Inductive tout :=
| TNothing | TLost
| TDeliver (at_ : name)
| TSyncUnknown | TSyncNoRoute
| TNotice (at_ : name) (pb : problem)
| TPing (at_ : name)
| TPublish (at_ : name).

(* [first]: the packet is being handled on behalf of a local caller (SendMessage...), whose
   return value is the only place a synchronous error goes; elsewhere errors are logged *)
Fixpoint travel (w : list node) (path : list name) (hops : N) (first : bool) (p : pkt) : tout :=
  match path with
  | [] => TLost
  | a :: rest =>
    match find_node w a with
    | None => TLost
    | Some nd =>
      match handle nd hops p with
      | HNothing => TNothing
      | HDeliver => TDeliver a
      | HSyncUnknown => if first then TSyncUnknown else TNothing
      | HNotice pb => TNotice a pb
      | HPing => TPing a
      | HPublish => TPublish a
      | HForward =>
        match rest with
        | [] => if first then TSyncNoRoute else TLost
        | _ => travel w rest (hops - 1) false p
        end
      end
    end
  end.

(* ---------- the notice on its way back, the broker and the per-socket filter ---------- *)
Definition notif_of (at_ : name) (p : pkt) (pb : problem) : notif :=
  mknotif (json_rt (p_fn p)) (json_rt (p_tn p)) (json_rt (p_fs p)) (json_rt (p_ts p)) pb at_.

Definition notice_pkt (at_ : name) (p : pkt) : pkt := mkpkt at_ S_UNREACH (p_fn p) S_UNREACH.

(* StartUnreachable: every socket of the node sees the notification on the node-wide broker and
   passes it to its own subscribers iff FromNode is this node and FromService its service *)
Definition receivers (nd : node) (x : notif) : list (name * name * notif) :=
  if beq_bytes (nt_fn x) (nd_id nd) then
    map (fun s => (nd_id nd, s, x)) (filter (fun s => beq_bytes (nt_fs x) s) (nd_bound nd))
  else [].

Definition routing := name -> name -> list name.

Definition notify (w : list node) (rt : routing) (mh : N) (at_ : name) (p : pkt) (pb : problem)
  : list (name * name * notif) :=
  match travel w (rt at_ (p_fn p)) mh true (notice_pkt at_ p) with
  | TPublish a => match find_node w a with
                  | Some nd => receivers nd (notif_of at_ p pb)
                  | None => []
                  end
  | _ => []
  end.

(* ---------- one datagram sent by a socket ---------- *)
Inductive sync := SNone | SUnknown | SNoRoute | STooLong.   (* STooLong: "service name too long", nothing is sent *)
Definition too_long (s : name) : bool := Nat.ltb 8 (List.length s).
(* what becomes of a packet that was offered to a listener: somebody read it, or the socket was
   closed while the packet was still waiting to be read *)
Inductive fate := FRead | FClosedWaiting.

Record outcome := mkout {
  o_sync : sync;                          (* error returned by WriteTo *)
  o_deliv : option name;                  (* read by the listener on this node *)
  o_pong : bool;                          (* a ping reply reached the sending socket *)
  o_recv : list (name * name * notif)     (* (node, socket, notification) for every socket notified *)
}.
Definition quiet : outcome := mkout SNone None false [].

(* [fixed] = the repaired tree: a packet waiting for a socket that is then closed is answered
   like a packet for an unknown service; the pinned tree dropped it without a trace *)
Definition after_wait (fixed : bool) w rt mh (at_ : name) (p : pkt) : outcome :=
  if fixed then
    if beq_bytes (p_fn p) at_ then mkout SUnknown None false []
    else mkout SNone None false (notify w rt mh at_ p PUnknown)
  else quiet.

Definition send_gen (fixed : bool) (w : list node) (rt : routing) (mh hops : N) (p : pkt) (f : fate)
  : outcome :=
  (* SendMessageWithHopsToLive refuses service names that do not fit the 8-byte wire field *)
  if too_long (p_fs p) || too_long (p_ts p) then mkout STooLong None false [] else
  match travel w (rt (p_fn p) (p_tn p)) hops true p with
  | TNothing | TLost | TPublish _ => quiet
  | TSyncUnknown => mkout SUnknown None false []
  | TSyncNoRoute => mkout SNoRoute None false []
  | TDeliver a => match f with
                  | FRead => mkout SNone (Some a) false []
                  | FClosedWaiting => after_wait fixed w rt mh a p
                  end
  | TNotice a pb => mkout SNone None false (notify w rt mh a p pb)
  | TPing a =>
    let r := mkpkt a S_PING (p_fn p) (p_fs p) in
    match travel w (rt a (p_fn p)) mh true r with
    | TDeliver _ => mkout SNone None true []
    | TNotice a2 pb2 => mkout SNone None false (notify w rt mh a2 r pb2)
    | _ => quiet
    end
  end.

Definition send := send_gen true.
Definition send_pinned := send_gen false.

(* ---------- DialContext: the first handshake datagram and monitorUnreachable ---------- *)
Inductive dial_out := DCancelled | DProceeds | DTimesOut | DSyncFail.

Definition is_unknown (pb : problem) : bool := match pb with PUnknown => true | _ => false end.

(* monitorUnreachable of the dialling socket (p_fn, p_fs) towards (p_tn, p_ts) *)
Definition monitor_match (p : pkt) (r : name * name * notif) : bool :=
  let '(nd, s, x) := r in
  beq_bytes nd (p_fn p) && beq_bytes s (p_fs p) &&
  is_unknown (nt_pb x) && beq_bytes (nt_tn x) (p_tn p) && beq_bytes (nt_ts x) (p_ts p).

Definition dial (w : list node) (rt : routing) (mh : N) (p : pkt) (f : fate) : dial_out :=
  let o := send w rt mh mh p f in
  match o_sync o with
  | SUnknown | SNoRoute | STooLong => DSyncFail
  | SNone =>
    if existsb (monitor_match p) (o_recv o) then DCancelled
    else match o_deliv o with Some _ => DProceeds | None => DTimesOut end
  end.

(* ---------- Ping ---------- *)
Inductive ping_out :=
| PgReply                                 (* err == nil *)
| PgProblem (pb : problem) (via : name)   (* error text = the problem, remote = ReceivedFromNode *)
| PgSyncUnknown | PgNoRoute | PgSilence.

Definition ping (w : list node) (rt : routing) (mh hops : N) (a e target : name) : ping_out :=
  let p := mkpkt a e target S_PING in
  let o := send w rt mh hops p FRead in
  match o_sync o with
  | SUnknown => PgSyncUnknown
  | SNoRoute => PgNoRoute
  | STooLong => PgSilence
  | SNone =>
    if o_pong o then PgReply
    else match filter (fun r => let '(nd, s, _) := r in beq_bytes nd a && beq_bytes s e) (o_recv o) with
         | (_, _, x) :: _ => PgProblem (nt_pb x) (nt_via x)
         | [] => PgSilence
         end
  end.

(* CreateTraceroute: one Ping per hop budget 0, 1, 2, ... for as long as the answer is "message
   expired" (the notice of the node where the budget ran out); any other outcome ends it *)
Fixpoint trace (fuel : nat) (w : list node) (rt : routing) (mh h : N) (a e target : name) : list ping_out :=
  match fuel with
  | O => []
  | S f => let r := ping w rt mh h a e target in
           match r with
           | PgProblem PExpired _ => r :: trace f w rt mh (h + 1) a e target
           | _ => [r]
           end
  end.

(* ---------- well-formed worlds ---------- *)
Fixpoint nodupb (l : list name) : bool :=
  match l with [] => true | x :: r => negb (mem x r) && nodupb r end.
Definition wf_node (nd : node) : bool :=
  forallb (fun s => negb (reserved s)) (nd_bound nd) && nodupb (nd_bound nd).
Definition wf_world (w : list node) : bool :=
  forallb wf_node w && nodupb (map nd_id w).

(* every node of [mid] exists and passes the packet on (accepting firewall, not the destination,
   hop budget left) *)
Fixpoint transit_ok (w : list node) (mid : list name) (hops : N) (p : pkt) : bool :=
  match mid with
  | [] => true
  | a :: r => match find_node w a with
              | None => false
              | Some nd => match handle nd hops p with
                           | HForward => transit_ok w r (hops - 1) p
                           | _ => false
                           end
              end
  end.

(* ---------- routes on a line of nodes (what the harness's tree meshes give) ---------- *)
Fixpoint drop_until (a : name) (P : list name) : list name :=
  match P with [] => [] | x :: r => if beq_bytes x a then P else drop_until a r end.
Fixpoint take_through (b : name) (P : list name) : list name :=
  match P with [] => [] | x :: r => if beq_bytes x b then [x] else x :: take_through b r end.
Definition seg (a b : name) (P : list name) : list name := take_through b (drop_until a P).
(* [P] is the list of nodes from the sender to the addressed node; routes between two nodes of
   it are its segments in either direction; a node outside it is unreachable *)
Definition line_route (P : list name) : routing := fun a b =>
  if negb (mem b P) then [a]
  else let f := seg a b P in
       if beq_bytes (last f []) b then f else seg a b (rev P).

(* ---------- correspondence cases ---------- *)
Definition beq_problem (a b : problem) : bool :=
  match a, b with PUnknown, PUnknown | PExpired, PExpired | PRejected, PRejected => true | _, _ => false end.
Definition beq_notif (a b : notif) : bool :=
  beq_bytes (nt_fn a) (nt_fn b) && beq_bytes (nt_tn a) (nt_tn b) && beq_bytes (nt_fs a) (nt_fs b)
  && beq_bytes (nt_ts a) (nt_ts b) && beq_problem (nt_pb a) (nt_pb b) && beq_bytes (nt_via a) (nt_via b).
Fixpoint beq_recv (a b : list (name * name * notif)) : bool :=
  match a, b with
  | [], [] => true
  | (n, s, x) :: a', (n', s', x') :: b' =>
    beq_bytes n n' && beq_bytes s s' && beq_notif x x' && beq_recv a' b'
  | _, _ => false
  end.
Definition beq_sync (a b : sync) : bool :=
  match a, b with SNone, SNone | SUnknown, SUnknown | SNoRoute, SNoRoute | STooLong, STooLong => true | _, _ => false end.
Definition beq_optname (a b : option name) : bool :=
  match a, b with None, None => true | Some x, Some y => beq_bytes x y | _, _ => false end.
Definition beq_outcome (a b : outcome) : bool :=
  beq_sync (o_sync a) (o_sync b) && beq_optname (o_deliv a) (o_deliv b)
  && Bool.eqb (o_pong a) (o_pong b) && beq_recv (o_recv a) (o_recv b).
Definition beq_dial (a b : dial_out) : bool :=
  match a, b with
  | DCancelled, DCancelled | DProceeds, DProceeds | DTimesOut, DTimesOut | DSyncFail, DSyncFail => true
  | _, _ => false
  end.
Definition beq_ping (a b : ping_out) : bool :=
  match a, b with
  | PgReply, PgReply | PgSyncUnknown, PgSyncUnknown | PgNoRoute, PgNoRoute | PgSilence, PgSilence => true
  | PgProblem x u, PgProblem y v => beq_problem x y && beq_bytes u v
  | _, _ => false
  end.

(* what the harness saw on a real mesh: the world at the moment of the operation (live listeners
   and firewall of every node), the line of nodes between the two ends, the hop constants, the
   operation, and everything every socket of the mesh was told *)
Inductive unreach_case :=
| CSend (w : list node) (P : list name) (mh hops : N) (p : pkt) (f : fate) (obs : outcome)
| CDial (w : list node) (P : list name) (mh : N) (p : pkt) (f : fate) (obs : dial_out)
| CPing (w : list node) (P : list name) (mh hops : N) (a e target : name) (obs : ping_out)
(* monitorUnreachable of connections that share one socket (all connections accepted by one
   listener): a notification really delivered on that socket, the connections as packets
   (socket's node, socket's service, remote node, remote service), and which of them were
   cancelled by it *)
| CMonitor (r : name * name * notif) (conns : list pkt) (obs : list bool)
(* Netceptor.Traceroute: the result of every hop *)
| CTrace (w : list node) (P : list name) (mh : N) (a e target : name) (obs : list ping_out).

Definition unreach_check (c : unreach_case) : bool :=
  match c with
  | CSend w P mh hops p f obs => beq_outcome (send w (line_route P) mh hops p f) obs
  | CDial w P mh p f obs => beq_dial (dial w (line_route P) mh p f) obs
  | CPing w P mh hops a e t obs => beq_ping (ping w (line_route P) mh hops a e t) obs
  | CMonitor r conns obs =>
    (fix eqb (a b : list bool) : bool :=
       match a, b with
       | [], [] => true
       | x :: a', y :: b' => Bool.eqb x y && eqb a' b'
       | _, _ => false
       end) (map (fun p => monitor_match p r) conns) obs
  | CTrace w P mh a e t obs =>
    (fix eqp (x y : list ping_out) : bool :=
       match x, y with
       | [], [] => true
       | u :: x', v :: y' => beq_ping u v && eqp x' y'
       | _, _ => false
       end) (trace (S (N.to_nat mh)) w (line_route P) mh 0 a e t) obs
  end.
